import SamplyModel.Lemmas.QuotaHist
import SamplyModel.Lemmas.QuotaConc
import SamplyModel.Lemmas.QuotaConcBk
/-!
# C15 — cache eviction removes only the least-recently-used excess, inside its root

Model: `SamplyModel/Model/Quota.lean` (follows `samply-quota-manager/src/file_inventory.rs` and
`quota_manager.rs:197-256` after the repairs 9223a525, f5f79157 and 0ea8d7c2).

`evictCore ord now c fs inv` is one `perform_eviction_if_needed` pass with settings `c` at clock value
`now` on the file system `fs` and the inventory `inv`; `ord` is the table in the order SQLite returns
it for `ORDER BY LastAccessTime ASC`. **Ties:** SQL does not define the order of rows with equal access
time, so every theorem quantifies over *every* `ord` that is a permutation of the table sorted by
access time (`LruOrder ord inv`); the executable model instantiates the stable sort of the rowid order.

Hypotheses (each one is also a generator family of the harness — "excluded points"):
* `Good fs root inv`: the root is a chain of real directories; every recorded relative path is plain
  (no `..` component, no symbolic link on the way — what `canonicalize` yields for a file that exists
  when it is reported, see `C15_reported_existing_is_plain`); keys are unique (`PRIMARY KEY`, invariant
  `C15_keys_unique`); stored sizes are non-negative and their sum fits an `i64`;
* `maxAge ≤ now` (a maximum age beyond the clock value panics in `SqliteTime::from`);
* `NoErr res`: every `remove_file` of the pass succeeded or found the file absent (DESIGN.md: "a pass
  in which every delete succeeds or finds the file absent").

Only property theorems (names `C15_*`) and non-vacuity examples live in this file.
-/
open Quota

/-- On a good state an eviction pass performs no `unwrap`/`assert!` panic. -/
theorem C15_no_panic (ord inv : List Row) (now : Nat) (c : Cfg) (fs : FS) (G : Good fs c.root inv)
    (hord : LruOrder ord inv) (hage : ∀ a, c.maxAge = some a → a ≤ now) :
    (evictCore ord now c fs inv).out = .ok :=
  (evictCore_plain ord inv now c fs G hord.1 hage).ok

/-- **Exact characterisation.** After a pass in which no delete failed, a row survives iff it is
outside the shortest prefix of the LRU order that covers the excess *and* not older than the maximum
age. (`C15_fits`, `C15_age`, `C15_lru_prefix`, `C15_minimal`, `C15_idempotent` are corollaries.) -/
theorem C15_exact (ord inv : List Row) (now : Nat) (c : Cfg) (fs : FS) (G : Good fs c.root inv)
    (hord : LruOrder ord inv) (hage : ∀ a, c.maxAge = some a → a ≤ now)
    (hne : NoErr (evictCore ord now c fs inv)) :
    (evictCore ord now c fs inv).inv =
      inv.filter (fun x => decide (x ∉ sizeSel ord inv c.maxSize) && !agedB (c.maxAge.map (now - ·)) x) :=
  (evictCore_plain ord inv now c fs G hord.1 hage).exact hne

/-- After a pass in which every delete succeeds or finds the file absent, the recorded total size is at
most the configured maximum. -/
theorem C15_fits (ord inv : List Row) (now : Nat) (c : Cfg) (fs : FS) (G : Good fs c.root inv)
    (hord : LruOrder ord inv) (hage : ∀ a, c.maxAge = some a → a ≤ now)
    (hne : NoErr (evictCore ord now c fs inv)) (m : Nat) (hm : c.maxSize = some m) :
    totalSize (evictCore ord now c fs inv).inv ≤ m := by
  have F := evictCore_plain ord inv now c fs G hord.1 hage
  rw [totalSize_ok _ F.good.sizes F.good.sum, F.exact hne]
  refine Nat.le_trans (sumNat_filter_and_le inv _ _) ?_
  have h2 := sumNat_filter_not_sel hord.1 G.nodup (sizeSel_prefix ord inv c.maxSize)
  have h3 : sumNat inv - m ≤ sumNat (sizeSel ord inv c.maxSize) := by
    rw [hm]
    exact selectPrefix_cover (sumNat inv - m) ord (by rw [sumNat_perm hord.1]; omega)
  omega

/-- After such a pass no remaining row is older than the configured maximum age
(`atime < now − maxAge` is what the code deletes). -/
theorem C15_age (ord inv : List Row) (now : Nat) (c : Cfg) (fs : FS) (G : Good fs c.root inv)
    (hord : LruOrder ord inv) (hage : ∀ a, c.maxAge = some a → a ≤ now)
    (hne : NoErr (evictCore ord now c fs inv)) (a : Nat) (ha : c.maxAge = some a) :
    ∀ r ∈ (evictCore ord now c fs inv).inv, now - a ≤ r.atime := by
  intro r hr
  rw [C15_exact ord inv now c fs G hord hage hne, List.mem_filter, ha] at hr
  have := hr.2
  simp only [Option.map_some, agedB, Bool.and_eq_true, Bool.not_eq_true', decide_eq_false_iff_not] at this
  omega

/-- The removed set is a prefix of the access-time order, for every order of ties: there is a prefix
`pre` of `ord` such that exactly the rows of `pre` are gone. -/
theorem C15_lru_prefix (ord inv : List Row) (now : Nat) (c : Cfg) (fs : FS) (G : Good fs c.root inv)
    (hord : LruOrder ord inv) (hage : ∀ a, c.maxAge = some a → a ≤ now)
    (hne : NoErr (evictCore ord now c fs inv)) :
    ∃ pre, pre <+: ord ∧ (evictCore ord now c fs inv).inv = inv.filter (fun x => decide (x ∉ pre)) := by
  rw [C15_exact ord inv now c fs G hord hage hne]
  generalize hcut : c.maxAge.map (now - ·) = cut
  have hp1 := sizeSel_prefix ord inv c.maxSize
  have hp2 : ord.takeWhile (agedB cut) <+: ord := List.takeWhile_prefix _
  have key : ∀ pre, pre <+: ord → (∀ x, x ∈ pre ↔ (x ∈ sizeSel ord inv c.maxSize ∨ x ∈ ord.takeWhile (agedB cut))) →
      inv.filter (fun x => decide (x ∉ sizeSel ord inv c.maxSize) && !agedB cut x)
        = inv.filter (fun x => decide (x ∉ pre)) := by
    intro pre _ hpre
    apply List.filter_congr
    intro x hx
    have hxo : x ∈ ord := hord.1.mem_iff.mpr hx
    have ha := aged_iff_mem_takeWhile hord.2 cut hxo
    by_cases h1 : x ∈ sizeSel ord inv c.maxSize
    · have : x ∈ pre := (hpre x).mpr (Or.inl h1)
      simp [h1, this]
    · by_cases h2 : agedB cut x = true
      · have : x ∈ pre := (hpre x).mpr (Or.inr (ha.mp h2))
        simp [h2, this]
      · have : x ∉ pre := fun h => by
          rcases (hpre x).mp h with h | h
          · exact h1 h
          · exact h2 (ha.mpr h)
        simp only [Bool.not_eq_true] at h2
        simp [h1, h2, this]
  rcases List.prefix_or_prefix_of_prefix hp1 hp2 with h | h
  · exact ⟨_, hp2, key _ hp2 (fun x => ⟨Or.inr, fun hx => hx.elim (fun h' => h.subset h') id⟩)⟩
  · exact ⟨_, hp1, key _ hp1 (fun x => ⟨Or.inl, fun hx => hx.elim id (fun h' => h.subset h')⟩)⟩

/-- No more than necessary: the rows removed for size are the *shortest* prefix of the LRU order whose
sizes cover the excess — removing only a proper prefix `q` of it leaves the total above the maximum —
it is empty when the total already fits (this is what 9223a525 repaired for `total = max`), and a row
outside it is removed only if it is older than the maximum age. -/
theorem C15_minimal (ord inv : List Row) (now : Nat) (c : Cfg) (fs : FS) (G : Good fs c.root inv)
    (hord : LruOrder ord inv) (hage : ∀ a, c.maxAge = some a → a ≤ now)
    (hne : NoErr (evictCore ord now c fs inv)) :
    ∃ sel, sel <+: ord ∧
      (∀ x ∈ inv, x ∈ (evictCore ord now c fs inv).inv ↔
        (x ∉ sel ∧ agedB (c.maxAge.map (now - ·)) x = false)) ∧
      (c.maxSize = none → sel = []) ∧
      (∀ m, c.maxSize = some m →
        (totalSize inv ≤ m → sel = []) ∧
        (∀ q, q <+: sel → q ≠ sel → m < totalSize inv - sumNat q)) := by
  refine ⟨sizeSel ord inv c.maxSize, sizeSel_prefix _ _ _, ?_, ?_, ?_⟩
  · intro x hx
    rw [C15_exact ord inv now c fs G hord hage hne, List.mem_filter]
    simp [hx]
  · intro h; rw [h]; rfl
  · intro m hm
    rw [hm, totalSize_ok inv G.sizes G.sum]
    simp only [sizeSel]
    constructor
    · intro hle
      have : sumNat inv - m = 0 := by omega
      rw [this, selectPrefix_zero]
    · intro q hq hqne
      have := selectPrefix_minimal _ _ q hq hqne
      omega

/-- A pass that directly follows another (same settings, same clock value, no activity in between)
removes nothing, attempts no deletion and leaves the file system alone — whatever order SQLite picks
for ties in the second pass. -/
theorem C15_idempotent (ord inv : List Row) (now : Nat) (c : Cfg) (fs : FS) (G : Good fs c.root inv)
    (hord : LruOrder ord inv) (hage : ∀ a, c.maxAge = some a → a ≤ now)
    (hne : NoErr (evictCore ord now c fs inv)) (ord2 : List Row)
    (hord2 : LruOrder ord2 (evictCore ord now c fs inv).inv) :
    let r1 := evictCore ord now c fs inv
    let r2 := evictCore ord2 now c r1.fs r1.inv
    r2.out = .ok ∧ r2.inv = r1.inv ∧ r2.fs = r1.fs ∧ r2.attempts = [] := by
  intro r1 r2
  have F1 := evictCore_plain ord inv now c fs G hord.1 hage
  have F2 := evictCore_plain ord2 r1.inv now c r1.fs F1.good hord2.1 hage
  have hnoatt : r2.attempts = [] := by
    cases hatt : r2.attempts with
    | nil => rfl
    | cons a rest =>
      exfalso
      -- which row could a second pass still try to delete?
      show False
      have hsel : sizeSel ord2 r1.inv c.maxSize = [] := by
        cases hm : c.maxSize with
        | none => rfl
        | some m =>
          have hfit := C15_fits ord inv now c fs G hord hage hne m hm
          rw [totalSize_ok _ F1.good.sizes F1.good.sum] at hfit
          have hfit' : sumNat r1.inv ≤ m := hfit
          have : sumNat r1.inv - m = 0 := by omega
          simp only [sizeSel, this, selectPrefix_zero]
      have haged : (sortLRU r1.inv).filter (agedB (c.maxAge.map (now - ·))) = [] := by
        apply List.filter_eq_nil_iff.mpr
        intro x hx
        have hx := (sortLRU_perm r1.inv).mem_iff.mp hx
        cases ha : c.maxAge with
        | none => simp [agedB]
        | some ag =>
          have := C15_age ord inv now c fs G hord hage hne ag ha x hx
          simp only [Option.map_some, agedB, decide_eq_true_eq]
          omega
      have e : r2 = evictCore ord2 now c r1.fs r1.inv := rfl
      unfold evictCore at e
      rw [sizeCands_plain F1.good hord2.1 c.maxSize, hsel] at e
      simp only [List.map_nil, deleteFiles] at e
      rw [agePass_plain now c r1.fs r1.inv [] F1.good hage, haged] at e
      simp only [List.map_nil, deleteFiles, List.append_nil] at e
      rw [e] at hatt
      cases hatt
  refine ⟨F2.ok, ?_, ?_, hnoatt⟩
  · rw [F2.invEq, hnoatt]
    simp [doneRels]
  · -- no attempt ⇒ no node of the file system changed; compare the two association lists through
    -- the definition of the pass
    have hsel : sizeSel ord2 r1.inv c.maxSize = [] := by
      cases hm : c.maxSize with
      | none => rfl
      | some m =>
        have hfit := C15_fits ord inv now c fs G hord hage hne m hm
        rw [totalSize_ok _ F1.good.sizes F1.good.sum] at hfit
        have hfit' : sumNat r1.inv ≤ m := hfit
        have : sumNat r1.inv - m = 0 := by omega
        simp only [sizeSel, this, selectPrefix_zero]
    have haged : (sortLRU r1.inv).filter (agedB (c.maxAge.map (now - ·))) = [] := by
      apply List.filter_eq_nil_iff.mpr
      intro x hx
      have hx := (sortLRU_perm r1.inv).mem_iff.mp hx
      cases ha : c.maxAge with
      | none => simp [agedB]
      | some ag =>
        have := C15_age ord inv now c fs G hord hage hne ag ha x hx
        simp only [Option.map_some, agedB, decide_eq_true_eq]
        omega
    show (evictCore ord2 now c r1.fs r1.inv).fs = r1.fs
    unfold evictCore
    rw [sizeCands_plain F1.good hord2.1 c.maxSize, hsel]
    simp only [List.map_nil, deleteFiles]
    rw [agePass_plain now c r1.fs r1.inv [] F1.good hage, haged]
    simp only [List.map_nil, deleteFiles]

/-- **Confinement, unconditional (physical).** In *every* state — no hypothesis on the recorded paths, on
symbolic links, on sizes, on the settings, on the order — a pass only removes nodes, and every node of
the file system either looks up exactly the same after the pass or is gone **and its physical path has
the managed root as a prefix**. Nothing outside the managed directory is ever touched, whatever has
been recorded and however the directory tree has been changed behind the manager's back (the `assert!`
in `to_absolute_path` turns the remaining bad cases into a panic outcome, see
`C15_confined_excluded_point`). This became provable with 0ea8d7c2; before it the lexical fallback path
escaped (`C15_legacy_counterexample_dangling_link_outside_root`). -/
theorem C15_confined (ord : List Row) (now : Nat) (c : Cfg) (fs : FS) (inv : List Row) :
    (∀ k n, (evictCore ord now c fs inv).fs.lookup k = some n → fs.lookup k = some n) ∧
    ∀ q, (evictCore ord now c fs inv).fs.lookup q = fs.lookup q ∨
      ((evictCore ord now c fs inv).fs.lookup q = none ∧ ∃ rel, q = c.root ++ rel) :=
  evictCore_confined_phys ord now c fs inv

/-- **Confinement, unconditional (lexical).** In every state every path handed to `remove_file` belongs
to a row of the inventory and has the managed root as a component-wise prefix. -/
theorem C15_confined_lexical (ord inv : List Row) (hsub : ∀ r ∈ ord, r ∈ inv) (now : Nat) (c : Cfg)
    (fs : FS) :
    ∀ a ∈ (evictCore ord now c fs inv).attempts, a.row ∈ inv ∧ ∃ rel, a.path = c.root ++ rel :=
  evictCore_confined ord inv hsub now c fs

/-- Reports about a path that does not resolve and whose spelling below the root contains `..` are
ignored (0ea8d7c2): no row with a `..` component is ever recorded. -/
theorem C15_no_dotdot_recorded (fs : FS) (root p rel : Path) (h : relUnder fs root p = some rel) :
    ".." ∉ rel := by
  unfold relUnder at h
  split at h
  · cases h
  · split at h
    · next hall =>
      cases h
      rw [List.all_eq_true] at hall
      intro hm
      have := hall ".." hm
      simp at this
    · cases h

/-- **Confinement on a good state.** Every deleted path is exactly `root/rel` for a recorded `rel` that is
free of `..` and passes through no symbolic link, and these are the only nodes a pass changes. -/
theorem C15_confined_plain (ord inv : List Row) (now : Nat) (c : Cfg) (fs : FS) (G : Good fs c.root inv)
    (hord : LruOrder ord inv) (hage : ∀ a, c.maxAge = some a → a ≤ now) :
    let res := evictCore ord now c fs inv
    (∀ a ∈ res.attempts, a.row ∈ inv ∧ a.path = c.root ++ a.row.rel ∧ ".." ∉ a.row.rel ∧
      NoLinkBelow fs c.root a.row.rel) ∧
    (∀ q, res.fs.lookup q = fs.lookup q ∨
      ∃ a ∈ res.attempts, a.res = .ok ∧ q = c.root ++ a.row.rel ∧ res.fs.lookup q = none) := by
  intro res
  have F := evictCore_plain ord inv now c fs G hord.1 hage
  constructor
  · intro a ha
    obtain ⟨h1, h2⟩ := F.rows a ha
    exact ⟨h1, h2, noLinkBelow_noDotDot fs c.root _ (G.plain _ h1), G.plain _ h1⟩
  · intro q
    rcases F.only q with h | ⟨a, ha, hok, hq⟩
    · exact Or.inl h
    · refine Or.inr ⟨a, ha, hok, ?_, ?_⟩
      · rw [hq, (F.rows a ha).2]
      · rw [hq]; exact F.removed a ha hok

/-- **Bookkeeping matches the disk.** A row whose file was removed, or found to be absent, is gone from
the inventory (absent files are forgotten, not retried forever); a removed file is gone from the
file system; no other row is forgotten. -/
theorem C15_bookkeeping (ord inv : List Row) (now : Nat) (c : Cfg) (fs : FS) (G : Good fs c.root inv)
    (hord : LruOrder ord inv) (hage : ∀ a, c.maxAge = some a → a ≤ now) :
    let res := evictCore ord now c fs inv
    (∀ a ∈ res.attempts, a.res ≠ .err → a.row ∉ res.inv) ∧
    (∀ a ∈ res.attempts, a.res = .ok → res.fs.lookup a.path = none) ∧
    (∀ x ∈ inv, (∀ a ∈ res.attempts, a.res ≠ .err → a.row ≠ x) → x ∈ res.inv) ∧
    (∀ x ∈ res.inv, x ∈ inv) := by
  intro res
  have F := evictCore_plain ord inv now c fs G hord.1 hage
  refine ⟨?_, F.removed, ?_, ?_⟩
  · intro a ha hne hin
    rw [F.invEq, List.mem_filter] at hin
    have : a.row.rel ∈ doneRels res.attempts :=
      List.mem_map.mpr ⟨a, List.mem_filter.mpr ⟨ha, by simpa using hne⟩, rfl⟩
    have h2 := hin.2
    simp only [Bool.not_eq_true', List.contains_eq_mem, decide_eq_false_iff_not] at h2
    exact h2 this
  · intro x hx hall
    rw [F.invEq, List.mem_filter]
    refine ⟨hx, ?_⟩
    simp only [Bool.not_eq_true', List.contains_eq_mem, decide_eq_false_iff_not]
    intro hmem
    obtain ⟨a, ha, e⟩ := List.mem_map.mp hmem
    obtain ⟨ha1, ha2⟩ := List.mem_filter.mp ha
    have hrow := (F.rows a ha1).1
    exact hall a ha1 (by simpa using ha2) (rel_inj_of_nodup G.nodup hrow hx e)
  · intro x hx
    rw [F.invEq] at hx
    exact (List.mem_filter.mp hx).1

/-- **Restart is the identity on the inventory.** Dropping the in-memory manager and re-opening the
database leaves the table and the file system untouched: all eviction state is in the database (SQLite
durability is trusted, not modelled). Only the in-memory settings are reset. -/
theorem C15_restart (now : Nat) (w : World) (m : Mgr) (inv : List Row) (hm : w.mgr = some m)
    (hdb : w.db = some inv) :
    (step now w .restart).1.db = some inv ∧ (step now w .restart).1.fs = w.fs ∧
    (step now w .restart).1.mgr = some ⟨⟨canonOrKeep w.fs m.cfg.root, none, none⟩, false⟩ ∧
    (step now w .restart).2 = .ok := by
  simp [step, hm, openMgr, hdb]

/-- … and with a root that is a chain of real directories the re-opened manager has the same root, so
an eviction pass after the restart is the same function of the same table. -/
theorem C15_restart_same_root (now : Nat) (w : World) (m : Mgr) (hm : w.mgr = some m)
    (hroot : DirChain w.fs [] m.cfg.root) :
    ∃ m', (step now w .restart).1.mgr = some m' ∧ m'.cfg.root = m.cfg.root := by
  refine ⟨_, by simp [step, hm, openMgr]; rfl, ?_⟩
  simp [canonOrKeep, canonicalize_dirChain w.fs _ hroot]

/-- A path that resolves when it is reported (the file exists — samply reports a file after creating or
finding it) is recorded under a *plain* relative path: `canonicalize` returns a physical path, so the
stored `rel` has no `..` and passes through no symbolic link. This is how the `plain` part of `Good`
is established; it can be lost only by later external changes of the directory tree or by reports
about paths that do not resolve (both are generator families of the harness). Since 0ea8d7c2 a `..` component is never recorded at
all (`C15_no_dotdot_recorded`). -/
theorem C15_reported_existing_is_plain (fs : FS) (root p q rel : Path)
    (hc : canonicalize fs p = .ok q) (hrel : relUnder fs root p = some rel) :
    NoLinkBelow fs root rel ∧ ".." ∉ rel := by
  unfold relUnder canonOrKeep at hrel
  rw [hc] at hrel
  simp only at hrel
  cases hsp : stripPrefix root q with
  | none => rw [hsp] at hrel; cases hrel
  | some rel' =>
    rw [hsp] at hrel
    simp only at hrel
    split at hrel
    · cases hrel
      have hq := stripPrefix_some hsp
      have hphys : PhysOk fs q := walkF_physOk fs canonFuel p q hc
      rw [hq] at hphys
      have := noLinkBelow_of_physOk fs root rel hphys
      exact ⟨this, noLinkBelow_noDotDot fs root rel this⟩
    · cases hrel

/-- Reports about paths outside the managed root are ignored (`strip_prefix` fails): the inventory is
unchanged, whatever the arguments. -/
theorem C15_outside_ignored (fs : FS) (root p : Path) (inv : List Row) (size : Nat) (t : Int)
    (h : relUnder fs root p = none) :
    onCreated fs root inv p size t = some inv ∧ onAccessed fs root inv p t = some inv ∧
    onDeleted fs root inv p = inv := by
  simp [onCreated, onAccessed, onDeleted, h]

/-- The order the executable model uses (stable sort of the rowid order by access time — what SQLite's
index on `(LastAccessTime, rowid)` yields) is one of the tie orders the theorems quantify over. -/
theorem C15_model_order (inv : List Row) : LruOrder (sortLRU inv) inv := sortLRU_order inv

/-- `PRIMARY KEY (Path)`: the notification calls keep the recorded paths unique. -/
theorem C15_keys_unique (fs : FS) (root : Path) (inv : List Row) (h : (inv.map (·.rel)).Nodup)
    (p : Path) (size : Nat) (t : Int) :
    (∀ inv', onCreated fs root inv p size t = some inv' → (inv'.map (·.rel)).Nodup) ∧
    (∀ inv', onAccessed fs root inv p t = some inv' → (inv'.map (·.rel)).Nodup) ∧
    ((onDeleted fs root inv p).map (·.rel)).Nodup := by
  have hup : ∀ (r : Row) (l : List Row), (l.map (·.rel)).Nodup →
      ((upsert r l).map (·.rel)).Nodup ∧ ∀ k, k ∈ (upsert r l).map (·.rel) → k = r.rel ∨ k ∈ l.map (·.rel) := by
    intro r l
    induction l with
    | nil => intro _; simp [upsert]
    | cons x xs ih =>
      intro hn
      rw [List.map_cons, List.nodup_cons] at hn
      simp only [upsert]
      split
      · next e =>
        constructor
        · rw [List.map_cons, List.nodup_cons, ← e]; exact hn
        · intro k hk; simp only [List.map_cons, List.mem_cons] at hk ⊢
          rcases hk with h | h
          · exact Or.inl h
          · exact Or.inr (Or.inr h)
      · next ne =>
        obtain ⟨i1, i2⟩ := ih hn.2
        constructor
        · rw [List.map_cons, List.nodup_cons]
          refine ⟨fun hm => ?_, i1⟩
          rcases i2 _ hm with h | h
          · exact ne h
          · exact hn.1 h
        · intro k hk; simp only [List.map_cons, List.mem_cons] at hk ⊢
          rcases hk with h | h
          · exact Or.inr (Or.inl h)
          · rcases i2 k h with h | h
            · exact Or.inl h
            · exact Or.inr (Or.inr h)
  refine ⟨?_, ?_, ?_⟩
  · intro inv' he
    unfold onCreated at he
    split at he
    · cases he; exact h
    · split at he
      · cases he
      · rename_i x rel heq hnt
        cases he; exact (hup ⟨rel, toI64 size, t.toNat, t.toNat⟩ inv h).1
  · intro inv' he
    unfold onAccessed at he
    split at he
    · cases he; exact h
    · split at he
      · cases he
      · rename_i x rel heq hnt
        cases he
        have : (setAtime rel t.toNat inv).map (·.rel) = inv.map (·.rel) := by
          unfold setAtime
          rw [List.map_map]
          apply List.map_congr_left
          intro x _
          simp only [Function.comp]
          split <;> rfl
        rw [this]; exact h
  · unfold onDeleted
    split
    · exact h
    · exact h.sublist (List.filter_sublist.map _)


/-! ### Histories (improvement round): `Good` is an invariant, so the per-pass theorems are history theorems -/

/-- **`Good` is an invariant of the manager's state machine.** `HistInv R now w` = the root `R` is a chain
of real directories, the table satisfies `Good`, an open manager manages `R`, is not poisoned and has a
maximum age that is not beyond the clock. Every operation that satisfies its side condition `OpOk`
(`open` of the canonical spelling `R`, a fresh database only on a tree without files; `created` for a
path that resolves, time ≥ epoch, sizes summing below 2^63; `accessed` with a time ≥ epoch; any `deleted`,
`close`, `restart`, `maxsize`, `evict`, `evictasync`; `maxage ≤ now`; external `mkfile`/`mkdir`/`rm` that
leave `R` a directory chain; **no `symlink`**) preserves it. -/
theorem C15_good_invariant (R : Path) (now : Nat) (w : World) (op : Op) (H : HistInv R now w)
    (hop : OpOk R now w op) : HistInv R now (step now w op).1 :=
  H.step op hop

/-- … hence along every history whose operations satisfy their side conditions. -/
theorem C15_history_good (R : Path) (now : Nat) (w : World) (ops : List Op) (H : HistInv R now w)
    (hok : HistOk R now w ops) : HistInv R now (run now w ops) :=
  H.run ops hok

/-- **The statement of C15 over histories.** After *every* history (of any length, with restarts, external
deletions, re-creations, …) whose operations satisfy `OpOk`, an eviction pass does not panic, and if none
of its `remove_file` calls fails with an error other than NotFound then afterwards the recorded total is
at most the configured maximum, no row is older than the maximum age, and the surviving rows are exactly
those outside the shortest covering LRU prefix that are not too old. -/
theorem C15_history_evict (R : Path) (now : Nat) (w : World) (ops : List Op) (H : HistInv R now w)
    (hok : HistOk R now w ops) (w' : World) (hw : w' = run now w ops) (m : Mgr) (inv : List Row)
    (hm : w'.mgr = some m) (hdb : w'.db = some inv) :
    (step now w' .evict).2 = .ok ∧ (step now w' .evict).1.db = some (evict now m.cfg w'.fs inv).inv ∧
    (step now w' .evict).1.fs = (evict now m.cfg w'.fs inv).fs ∧
    (NoErr (evict now m.cfg w'.fs inv) →
      (∀ mx, m.cfg.maxSize = some mx → totalSize (evict now m.cfg w'.fs inv).inv ≤ mx) ∧
      (∀ a, m.cfg.maxAge = some a → ∀ r ∈ (evict now m.cfg w'.fs inv).inv, now - a ≤ r.atime) ∧
      (evict now m.cfg w'.fs inv).inv = inv.filter (fun x =>
        decide (x ∉ sizeSel (sortLRU inv) inv m.cfg.maxSize) && !agedB (m.cfg.maxAge.map (now - ·)) x)) := by
  have H' : HistInv R now w' := by rw [hw]; exact H.run ops hok
  obtain ⟨hroot, hpois, hage⟩ := H'.mgr m hm
  have G : Good w'.fs m.cfg.root inv := by rw [hroot]; exact H'.good inv hdb
  have hord := sortLRU_order inv
  have hok' : (evict now m.cfg w'.fs inv).out = .ok :=
    C15_no_panic (sortLRU inv) inv now m.cfg w'.fs G hord hage
  refine ⟨?_, ?_, ?_, ?_⟩
  · simp only [step, hm, hdb, hpois, Bool.false_eq_true, if_false]
    rw [if_pos hok']
  · simp only [step, hm, hdb, hpois, Bool.false_eq_true, if_false]
  · simp only [step, hm, hdb, hpois, Bool.false_eq_true, if_false]
  · intro hne
    exact ⟨fun mx hmx => C15_fits (sortLRU inv) inv now m.cfg w'.fs G hord hage hne mx hmx,
      fun a ha => C15_age (sortLRU inv) inv now m.cfg w'.fs G hord hage hne a ha,
      C15_exact (sortLRU inv) inv now m.cfg w'.fs G hord hage hne⟩

/-- **Order of deletion.** On a good state the `remove_file` calls of a pass are issued in this order:
first the shortest covering prefix of the LRU order, least recently used first; then rows that are older
than the maximum age, oldest first. (So a pass that is interrupted has removed a prefix of this list.) -/
theorem C15_deletion_order (ord inv : List Row) (now : Nat) (c : Cfg) (fs : FS) (G : Good fs c.root inv)
    (hord : LruOrder ord inv) (hage : ∀ a, c.maxAge = some a → a ≤ now) :
    ∃ rest, (evictCore ord now c fs inv).attempts.map (·.row) = sizeSel ord inv c.maxSize ++ rest ∧
      (sizeSel ord inv c.maxSize).Pairwise (fun a b => a.atime ≤ b.atime) ∧
      rest.Pairwise (fun a b => a.atime ≤ b.atime) ∧
      (∀ x ∈ rest, x ∈ inv ∧ agedB (c.maxAge.map (now - ·)) x = true) := by
  obtain ⟨rest, h1, h2, h3⟩ := (evictCore_plain ord inv now c fs G hord.1 hage).order
  exact ⟨rest, h1, hord.2.sublist (sizeSel_prefix ord inv c.maxSize).sublist, h2, h3⟩

/-- **What a notification records** (the judge's `[record]` clause as a theorem): a `created` report for a
path under the root with a time after the epoch stores exactly `(rel, size, t, t)` under its key and leaves
every other row alone. -/
theorem C15_record_created (fs : FS) (root p rel : Path) (inv : List Row) (size : Nat) (t : Int)
    (hrel : relUnder fs root p = some rel) (ht : 0 ≤ t) :
    ∃ inv', onCreated fs root inv p size t = some inv' ∧
      (⟨rel, toI64 size, t.toNat, t.toNat⟩ : Row) ∈ inv' ∧
      (∀ x ∈ inv', x = ⟨rel, toI64 size, t.toNat, t.toNat⟩ ∨ (x ∈ inv ∧ x.rel ≠ rel) ∨ (x ∈ inv ∧
        ¬ (inv.map (·.rel)).Nodup)) ∧
      (∀ x ∈ inv, x.rel ≠ rel → x ∈ inv') := by
  refine ⟨upsert ⟨rel, toI64 size, t.toNat, t.toNat⟩ inv, ?_, ?_, ?_, ?_⟩
  · simp only [onCreated, hrel]
    rw [if_neg (by omega)]
  · induction inv with
    | nil => simp [upsert]
    | cons y ys ih =>
      simp only [upsert]
      split
      · exact List.mem_cons_self
      · exact List.mem_cons_of_mem _ ih
  · intro x hx
    induction inv with
    | nil =>
      simp only [upsert, List.mem_singleton] at hx
      exact Or.inl hx
    | cons y ys ih =>
      simp only [upsert] at hx
      split at hx
      · next e =>
        rcases List.mem_cons.mp hx with h | h
        · exact Or.inl h
        · by_cases hxr : x.rel = rel
          · right; right
            refine ⟨List.mem_cons_of_mem _ h, ?_⟩
            rw [List.map_cons, List.nodup_cons]
            intro hn
            exact hn.1 (List.mem_map.mpr ⟨x, h, by rw [hxr]; exact e.symm⟩)
          · exact Or.inr (Or.inl ⟨List.mem_cons_of_mem _ h, hxr⟩)
      · next ne =>
        rcases List.mem_cons.mp hx with h | h
        · exact Or.inr (Or.inl ⟨by rw [h]; exact List.mem_cons_self, by rw [h]; exact ne⟩)
        · rcases ih h with h' | ⟨h', h''⟩ | ⟨h', h''⟩
          · exact Or.inl h'
          · exact Or.inr (Or.inl ⟨List.mem_cons_of_mem _ h', h''⟩)
          · right; right
            refine ⟨List.mem_cons_of_mem _ h', ?_⟩
            rw [List.map_cons, List.nodup_cons]
            exact fun hn => h'' hn.2
  · intro x hx hne
    induction inv with
    | nil => cases hx
    | cons y ys ih =>
      simp only [upsert]
      split
      · next e =>
        rcases List.mem_cons.mp hx with h | h
        · exact absurd (by rw [h]; exact e) hne
        · exact List.mem_cons_of_mem _ h
      · rcases List.mem_cons.mp hx with h | h
        · rw [h]; exact List.mem_cons_self
        · exact List.mem_cons_of_mem _ (ih h)

/-- … and an `accessed` report sets the access time of exactly that row: no row is added or removed, the
row of the reported key gets `atime = t`, every row keeps its size and creation time, and rows of other
keys are untouched. ("LRU" in the eviction theorems is therefore LRU with respect to the *reported*
access times.) -/
theorem C15_record_accessed (fs : FS) (root p rel : Path) (inv : List Row) (t : Int)
    (hrel : relUnder fs root p = some rel) (ht : 0 ≤ t) :
    ∃ inv', onAccessed fs root inv p t = some inv' ∧
      inv'.map (·.rel) = inv.map (·.rel) ∧ inv'.map (·.size) = inv.map (·.size) ∧
      inv'.map (·.ctime) = inv.map (·.ctime) ∧
      (∀ x ∈ inv', x.rel = rel → x.atime = t.toNat) ∧
      (∀ x ∈ inv', x.rel ≠ rel → x ∈ inv) ∧ (∀ x ∈ inv, x.rel ≠ rel → x ∈ inv') := by
  refine ⟨setAtime rel t.toNat inv, ?_, setAtime_rels _ _ _, ?_, ?_, ?_, ?_, ?_⟩
  · simp only [onAccessed, hrel]
    rw [if_neg (by omega)]
  · unfold setAtime
    rw [List.map_map]
    apply List.map_congr_left
    intro x _
    simp only [Function.comp]
    split <;> rfl
  · unfold setAtime
    rw [List.map_map]
    apply List.map_congr_left
    intro x _
    simp only [Function.comp]
    split <;> rfl
  · intro x hx hxr
    unfold setAtime at hx
    obtain ⟨y, _, e⟩ := List.mem_map.mp hx
    split at e
    · subst e; rfl
    · next hne => subst e; exact absurd hxr hne
  · intro x hx hxr
    unfold setAtime at hx
    obtain ⟨y, hy, e⟩ := List.mem_map.mp hx
    split at e
    · next he => subst e; exact absurd he hxr
    · subst e; exact hy
  · intro x hx hxr
    unfold setAtime
    exact List.mem_map.mpr ⟨x, hx, by rw [if_neg hxr]⟩

/-- A notification for a path under the root with a time after the epoch is exactly one `Note` applied to
the table (the key is `relUnder`'s result). -/
theorem C15_notification_is_note (fs : FS) (root p rel : Path) (inv : List Row) (size : Nat) (t : Int)
    (hrel : relUnder fs root p = some rel) (ht : 0 ≤ t) :
    onCreated fs root inv p size t = some (applyNote inv (.created rel size t.toNat)) ∧
    onAccessed fs root inv p t = some (applyNote inv (.accessed rel t.toNat)) ∧
    onDeleted fs root inv p = applyNote inv (.deleted rel) := by
  refine ⟨?_, ?_, ?_⟩
  · simp only [onCreated, hrel, applyNote]; rw [if_neg (by omega)]
  · simp only [onAccessed, hrel, applyNote]; rw [if_neg (by omega)]
  · simp only [onDeleted, hrel, applyNote]

/-- **"Least recently used" is with respect to the reported access history.** For every table and every
sequence of reports, the access time stored for a key is the time of the last `created`/`accessed` report
for that key since it was last (re-)created — `lastReport` is the one-cell state machine `created t ↦ some t`,
`accessed t ↦` (tracked ? `some t` : unchanged), `deleted ↦ none`; a key is in the table iff that machine
says it is tracked. Together with `C15_exact` / `C15_history_evict`: the rows a pass removes for size are
those whose *last reported access* is oldest. -/
theorem C15_atime_is_last_report (rel : Path) (notes : List Note) (inv : List Row) :
    atimeOf rel (notes.foldl applyNote inv) = lastReport rel (atimeOf rel inv) notes :=
  atimeOf_foldl rel notes inv

/-! ### The lock gap: a pass split into its atomic sections, interleaved with notifications
(`Model/QuotaConc.lean`; quota_manager.rs:221-229, 258-266 release the inventory mutex between the selection
and every single delete) -/

/-- **Confinement under every interleaving.** Start a schedule with no pass running; let the eviction task
begin passes and execute their sections (`begin`, `pass`) in *any* interleaving with *any* notifications
(`created` / `accessed` / `deleted`, valid or not, for any path) issued by other tasks: no hypothesis on the
table, the file system or the settings. Nodes only disappear, and every node that disappears has the managed
root as a prefix of its physical path. -/
theorem C15_conc_confined (now : Nat) (cw : CWorld) (evs : List CEv) (hs : NoteSched evs) (m : Mgr)
    (hm : cw.w.mgr = some m) (h0 : cw.run = none) :
    (∀ k n, (crun now cw evs).w.fs.lookup k = some n → cw.w.fs.lookup k = some n) ∧
    ∀ q, (crun now cw evs).w.fs.lookup q = cw.w.fs.lookup q ∨
      ((crun now cw evs).w.fs.lookup q = none ∧ ∃ rel, q = m.cfg.root ++ rel) := by
  have H0 : ConfInv m.cfg.root cw.w.fs cw :=
    ⟨(fun m' h => by rw [hm] at h; cases h; rfl), (fun r h => by rw [h0] at h; cases h),
     (fun r h => by rw [h0] at h; cases h), Sub.refl _, fun q => Or.inl rfl⟩
  have H := H0.crun now evs hs
  exact ⟨H.sub, H.only⟩

/-- **Every deleted file was selected by the pass**, for every schedule whatsoever (any interleaved
operations): each `remove_file` call is for a candidate `(row, path)` that one of the selections returned … -/
theorem C15_conc_selected (now : Nat) (cw : CWorld) (evs : List CEv) (hl : cw.log = []) (h0 : cw.run = none) :
    ∀ a ∈ (crun now cw evs).log, (a.row, a.path) ∈ (crun now cw evs).sel := by
  have H0 : SelInv cw := ⟨(fun a ha => by rw [hl] at ha; cases ha), (fun r h => by rw [h0] at h; cases h)⟩
  exact (H0.crun now evs).log

/-- … and a selection only returns rows of the table as it is *at that moment* (under the lock), each with a
path under the root. -/
theorem C15_conc_selection_sound (fs : FS) (root : Path) (inv : List Row) :
    (∀ ms cs, sizeCands fs root (sortLRU inv) inv ms = some cs →
      ∀ c ∈ cs, c.1 ∈ inv ∧ ∃ rel, c.2 = root ++ rel) ∧
    (∀ cut cs, ageCandidates fs root inv cut = some cs → ∀ c ∈ cs, c.1 ∈ inv ∧ ∃ rel, c.2 = root ++ rel) := by
  constructor
  · intro ms cs h c hc
    obtain ⟨⟨r, hr, e⟩, h2, _⟩ := sizeCands_safe fs root _ inv ms cs h c hc
    exact ⟨by rw [e]; exact (sortLRU_perm inv).mem_iff.mp hr, h2⟩
  · intro cut cs h c hc
    obtain ⟨h1, h2, _⟩ := ageCands_safe fs root inv cut cs h c hc
    exact ⟨h1, h2⟩

/-- **Bookkeeping = disk after quiescence, for every interleaving.** Start in a world that satisfies the
invariant of histories (`HistInv`: root `R` a chain of real directories, the table `Good`, the manager open,
not poisoned, maximum age not beyond the clock) with no pass running and an empty `remove_file` log. Let the
eviction task begin passes and execute their atomic sections in **any** interleaving `evs` with notifications
of other tasks, and let the schedule end with no pass running (quiescence). Let `x` be any row of the initial
table whose key **no notification of the schedule names**: `QuietSched R now x.rel cw evs` — every interleaved
operation is a notification (`created` / `accessed` / `deleted`), valid in the sense of `OpOk` (a `created`
path resolves, times are after the epoch, sizes sum below 2^63), and its path, as
`relative_path_under_managed_directory` resolves it in the state in which it is issued, is not `R/x.rel`.
Exactly the notifications that name a recorded path are excluded — a `created` for a path the pass has
selected is the known finding C15-race-recreated-file-deleted (`C15_conc_counterexample_lru`); an `accessed`
/ `deleted` naming `x` changes or removes the row by itself. Then, exactly as after the sequential pass
(`C15_bookkeeping`):

* the row is still recorded iff no `remove_file` call for its key succeeded or found the file absent
  (removed files disappear from the inventory, files already missing are forgotten, nothing else is);
* if the row is still recorded, its file is untouched (the node `R/x.rel` looks up as at the start);
* if a `remove_file` call for its key succeeded, the file is gone.

This is the clause `judgeQuiescence` evaluates on every stepped-pass case. -/
theorem C15_conc_bookkeeping (R : Path) (now : Nat) (cw : CWorld) (evs : List CEv) (x : Row)
    (inv0 : List Row) (H : HistInv R now cw.w) (m : Mgr) (hm : cw.w.mgr = some m)
    (hdb : cw.w.db = some inv0) (hx : x ∈ inv0) (h0 : cw.run = none) (hl : cw.log = [])
    (hq : QuietSched R now x.rel cw evs) (hend : (crun now cw evs).run = none) :
    ∃ invF, (crun now cw evs).w.db = some invF ∧
      (x ∈ invF ↔ ¬ ∃ a ∈ (crun now cw evs).log, a.row.rel = x.rel ∧ a.res ≠ .err) ∧
      (x ∈ invF → (crun now cw evs).w.fs.lookup (R ++ x.rel) = cw.w.fs.lookup (R ++ x.rel)) ∧
      (∀ a ∈ (crun now cw evs).log, a.row.rel = x.rel → a.res = .ok →
        (crun now cw evs).w.fs.lookup (R ++ x.rel) = none) := by
  have I0 : BkInv R now cw.w.fs x cw := by
    refine ⟨H, ⟨m, hm⟩, (fun r h => by rw [h0] at h; cases h), ?_, ?_, (fun _ => rfl), ?_⟩
    · intro inv h hxn
      rw [hdb] at h; cases h
      exact absurd hx hxn
    · rintro ⟨a, ha, _⟩
      rw [hl] at ha; cases ha
    · intro a ha
      rw [hl] at ha; cases ha
  have I := I0.crun evs hq
  obtain ⟨mF, hmF⟩ := I.mgr
  obtain ⟨invF, hdbF⟩ := I.hist.mgrDb mF hmF
  have hB : (∃ a ∈ (crun now cw evs).log, a.row.rel = x.rel ∧ a.res ≠ .err) → x ∉ invF := by
    intro hex
    rcases I.B hex with h | ⟨r, _, _, _, hr, _⟩
    · exact h invF hdbF
    · rw [hend] at hr; cases hr
  refine ⟨invF, hdbF, ⟨fun hin hex => hB hex hin, fun hno => ?_⟩, ?_, I.D⟩
  · exact Classical.byContradiction fun hxn => hno (I.A invF hdbF hxn)
  · intro hin
    apply I.C
    intro a ha hk hok
    exact hB ⟨a, ha, hk, by rw [hok]; exact fun h => by cases h⟩ hin

/-- **Bookkeeping, per section.** Proved for every state: (1) no section of a pass adds or alters a
row; (2) the unlink section leaves the table alone and logs the call; (3) on a plain candidate `root/rel` (what
a selection returns on a good table, `C15_confined_plain`) the bookkeeping section after an unlink that did
not fail forgets exactly the rows with that key — independently of what ran since the selection — and leaves
the file system alone. (The building blocks of `C15_conc_bookkeeping`.) -/
theorem C15_conc_bookkeeping_sections (now : Nat) (cw : CWorld) (r : Running) (m : Mgr) (inv : List Row)
    (hr : cw.run = some r) (hm : cw.w.mgr = some m) (hdb : cw.w.db = some inv) :
    (∀ inv', (pstep now cw).w.db = some inv' → ∀ x ∈ inv', x ∈ inv) ∧
    (∀ row p rest, r.unlinked = none → r.pending = (row, p) :: rest →
      (pstep now cw).w.db = some inv ∧ (pstep now cw).w.fs = (unlink cw.w.fs p).2 ∧
      (pstep now cw).log = cw.log ++ [⟨row, p, (unlink cw.w.fs p).1⟩]) ∧
    (∀ row res, m.poisoned = false → r.unlinked = some (row, r.cfg.root ++ row.rel, res) → res ≠ .err →
      DirChain cw.w.fs [] r.cfg.root → NoLinkBelow cw.w.fs r.cfg.root row.rel →
      (pstep now cw).w.db = some (inv.filter fun x => !(x.rel == row.rel)) ∧ (pstep now cw).w.fs = cw.w.fs) :=
  ⟨fun inv' h' => pstep_rows_subset now cw inv inv' hdb h',
   fun row p rest hu hpd => pstep_unlink now cw r m inv row p rest hr hm hdb hu hpd,
   fun row res hp hu hres hroot hplain => pstep_forget_exact now cw r m inv row res hr hm hdb hp hu hres hroot hplain⟩

/-- three files `p` (oldest), `a`, `b` of 10 bytes under `/root`, maximum 20: a pass has to remove exactly `p` -/
def C15_raceWorld : World :=
  ⟨[(["root"], .dir), (["root", "p"], .file), (["root", "a"], .file), (["root", "b"], .file)],
   some [⟨["p"], 10, 100, 100⟩, ⟨["a"], 10, 200, 200⟩, ⟨["b"], 10, 300, 300⟩],
   some ⟨⟨["root"], some 20, none⟩, false⟩⟩

/-- **The clause that FAILS under interleaving: "least-recently-accessed order, no more than necessary".**
The pass selects `p` (least recently used); before it unlinks `p`, another task re-creates the file and
reports it (`mkfile`, `created p` at time 900 — e.g. the symbol is downloaded again); the pass then deletes the
*new* file and its bookkeeping forgets the *new* row. The result (`p` gone from disk and inventory, `a` and `b`
kept) is the result of **neither** sequential order: reported-then-pass keeps `p` (most recently used) and
removes `a`; pass-then-reported ends with `p` on disk and recorded. (Confinement, "selected by the pass" and
bookkeeping = disk still hold, in accordance with the theorems above.) Reproduced on the real code by the
harness (`passbegin` … `passstep`), known finding C15-race-recreated-file-deleted (KNOWN_FINDINGS.txt). -/
theorem C15_conc_counterexample_lru :
    let mk := Op.mkfile ["root", "p"]
    let rep := Op.created ["root", "p"] 10 900
    let fin := crun 1000 (CWorld.ofWorld C15_raceWorld) [.begin, .ext mk, .ext rep, .pass, .pass, .pass]
    let s1 := (step 1000 (step 1000 (step 1000 C15_raceWorld mk).1 rep).1 .evict).1
    let s2 := (step 1000 (step 1000 (step 1000 C15_raceWorld .evict).1 mk).1 rep).1
    (fin.run.isNone = true ∧ fin.w.fs.lookup ["root", "p"] = none ∧
      fin.w.db.map (·.map (·.rel)) = some [["a"], ["b"]] ∧
      fin.log.map (fun a => (a.row.atime, a.path, a.res)) = [(100, ["root", "p"], .ok)]) ∧
    (s1.fs.lookup ["root", "p"] = some .file ∧ s1.db.map (·.map (·.rel)) = some [["p"], ["b"]]) ∧
    (s2.fs.lookup ["root", "p"] = some .file ∧ s2.db.map (·.map (·.rel)) = some [["a"], ["b"], ["p"]]) := by
  decide

/-- … whereas an `accessed` report that lands in the gap is harmless in the sense of the property: the
outcome is exactly that of the sequential history "pass, then the report" (the report finds no row), and a
pass that is not interfered with is the atomic pass of the sequential model. -/
theorem C15_conc_accessed_in_gap_is_sequential :
    let acc := Op.accessed ["root", "p"] 900
    let fin := crun 1000 (CWorld.ofWorld C15_raceWorld) [.begin, .ext acc, .pass, .pass, .pass]
    let s := (step 1000 (step 1000 C15_raceWorld .evict).1 acc).1
    let alone := crun 1000 (CWorld.ofWorld C15_raceWorld) [.begin, .pass, .pass, .pass]
    (fin.w.fs = s.fs ∧ fin.w.db = s.db ∧ fin.run.isNone = true) ∧
    (alone.w.fs = (step 1000 C15_raceWorld .evict).1.fs ∧ alone.w.db = (step 1000 C15_raceWorld .evict).1.db) := by
  decide

/-! ### The repaired defects as theorems about the pre-fix loop (`…Legacy`) -/

/-- three files `a` (10, oldest), `b` (20), `c` (30, newest) under `/root`, all present on disk -/
def C15_fs3 : FS :=
  [(["root"], .dir), (["root", "a"], .file), (["root", "b"], .file), (["root", "c"], .file),
   (["out"], .dir), (["out", "s1"], .file)]

def C15_inv3 : List Row := [⟨["a"], 10, 100, 100⟩, ⟨["b"], 20, 200, 200⟩, ⟨["c"], 30, 300, 300⟩]

/-- the same files with sizes 0, 0, 60: removing a least-recently-used file does not change the total -/
def C15_inv0 : List Row := [⟨["a"], 0, 100, 100⟩, ⟨["b"], 0, 200, 200⟩, ⟨["c"], 60, 300, 300⟩]

def C15_cfg60 : Cfg := ⟨["root"], some 60, none⟩

/-- Before 9223a525 a pass with `total == max` (60 = 10 + 20 + 30) deleted the least-recently-used
file although the total already fit (`checked_sub` yields `Some(0)` and the loop pushed before testing
the excess); the repaired loop attempts nothing. -/
theorem C15_legacy_counterexample_total_eq_max :
    totalSize C15_inv3 = 60 ∧
    (evictLegacy 1000 C15_cfg60 C15_fs3 C15_inv3).inv.map (·.rel) = [["b"], ["c"]] ∧
    (evictLegacy 1000 C15_cfg60 C15_fs3 C15_inv3).fs.lookup ["root", "a"] = none ∧
    (evict 1000 C15_cfg60 C15_fs3 C15_inv3).inv = C15_inv3 ∧
    (evict 1000 C15_cfg60 C15_fs3 C15_inv3).fs = C15_fs3 ∧
    (evict 1000 C15_cfg60 C15_fs3 C15_inv3).attempts = [] := by
  decide

/-- … and a directly following pass deleted another file whenever the total still equalled the maximum
(here: the least-recently-used files are empty), so the pre-fix pass was not idempotent either. (With
non-empty files the first wrong deletion brings the total below the maximum and the second pass stops
at `checked_sub`.) -/
theorem C15_legacy_counterexample_total_eq_max_second_pass :
    totalSize C15_inv0 = 60 ∧
    (let r1 := evictLegacy 1000 C15_cfg60 C15_fs3 C15_inv0
     r1.inv.map (·.rel) = [["b"], ["c"]] ∧
     (evictLegacy 1000 C15_cfg60 r1.fs r1.inv).inv.map (·.rel) = [["c"]] ∧
     (evictLegacy 1000 C15_cfg60 r1.fs r1.inv).fs.lookup ["root", "b"] = none) ∧
    (evict 1000 C15_cfg60 C15_fs3 C15_inv0).inv = C15_inv0 := by
  decide

/-! ### The defect repaired by 0ea8d7c2, and what remains at the excluded points
(run against the real code by the harness: `x-dotdot-*`, `x-dirlink-*`, `x-symlink-planted-later`) -/

/-- Before 0ea8d7c2: `root/../out/x` reported while absent was recorded as `../out/x` (`strip_prefix` is
lexical); with a **dangling symbolic link** at `out/x` when the pass runs, `canonicalize` failed, the
f5f79157 fallback handed the lexical path `root/../out/x` to `remove_file`, the `starts_with` assert
passed lexically and the link *outside the managed root* was unlinked. The repaired code ignores the
report (no row), and for an old row `../out/x` it resolves the parent (`/out`) and the assert fires. -/
theorem C15_legacy_counterexample_dangling_link_outside_root :
    let fs0 : FS := [(["root"], .dir), (["out"], .dir), (["out", "s1"], .file)]
    let fs1 : FS := (["out", "x"], .link ["void", "zzz"]) :: fs0
    let cfg : Cfg := ⟨["root"], some 0, none⟩
    let invL := (onCreatedLegacyPath fs0 ["root"] [] ["root", "..", "out", "x"] 1000 50).getD []
    invL.map (·.rel) = [["..", "out", "x"]] ∧
    (sizePassLegacyPath (sortLRU invL) cfg fs1 invL).out = .ok ∧
    (sizePassLegacyPath (sortLRU invL) cfg fs1 invL).attempts.map (fun a => (a.path, a.res))
      = [(["root", "..", "out", "x"], .ok)] ∧
    (sizePassLegacyPath (sortLRU invL) cfg fs1 invL).fs.lookup ["out", "x"] = none ∧
    -- repaired: the report is ignored …
    onCreated fs0 ["root"] [] ["root", "..", "out", "x"] 1000 50 = some [] ∧
    -- … and a row `../out/x` left in an old database makes the pass panic instead of escaping
    (evict 1000 cfg fs1 invL).out = .panicPoison ∧ (evict 1000 cfg fs1 invL).fs = fs1 := by
  decide

/-- What remains outside `Good` on the repaired tree: a row recorded below a **directory symlink that
leaves the root** (`root/dl → /out`, `dl/z` reported while absent) — or a recorded file later replaced
by a symlink out of the root — resolves outside the root when the pass runs; `to_absolute_path` asserts,
the pass panics with the inventory mutex held (poisoned), and nothing is deleted (in accordance with
`C15_confined`): (a) dangling link at `out/z`, (b) regular file at `out/z`, (c) nothing at `out/z`. -/
theorem C15_confined_excluded_point :
    let fs0 : FS := [(["root"], .dir), (["out"], .dir), (["out", "s1"], .file),
      (["root", "dl"], .link ["out"])]
    let inv := (onCreated fs0 ["root"] [] ["root", "dl", "z"] 10 50).getD []
    let cfg : Cfg := ⟨["root"], some 0, none⟩
    inv.map (·.rel) = [["dl", "z"]] ∧
    (let fs1 : FS := (["out", "z"], .link ["void", "zzz"]) :: fs0
     (evict 1000 cfg fs1 inv).out = .panicPoison ∧ (evict 1000 cfg fs1 inv).fs = fs1) ∧
    (let fs2 : FS := (["out", "z"], .file) :: fs0
     (evict 1000 cfg fs2 inv).out = .panicPoison ∧ (evict 1000 cfg fs2 inv).fs = fs2) ∧
    ((evict 1000 cfg fs0 inv).out = .panicPoison ∧ (evict 1000 cfg fs0 inv).inv = inv) := by
  decide

/-! ### Non-vacuity: the hypotheses are satisfiable by a non-trivial state, and the conclusions are the
expected concrete numbers. -/

example : Good C15_fs3 ["root"] C15_inv3 := by
  refine ⟨?_, ?_, ?_, ?_, ?_⟩
  · simp [DirChain, C15_fs3]
  · intro r hr
    simp only [C15_inv3, List.mem_cons, List.not_mem_nil, or_false] at hr
    rcases hr with rfl | rfl | rfl <;> simp [NoLinkBelow, C15_fs3, List.lookup]
  · decide
  · decide
  · decide

example : (evict 1000 ⟨["root"], some 35, none⟩ C15_fs3 C15_inv3).inv.map (·.rel) = [["c"]]
    ∧ (evict 1000 ⟨["root"], some 35, none⟩ C15_fs3 C15_inv3).attempts.map (·.res) = [.ok, .ok] := by
  decide

example : (evict 1000 ⟨["root"], some 50, some 750⟩ C15_fs3 C15_inv3).inv.map (·.rel) = [["c"]] := by
  decide

/-- non-vacuity of the history theorems: the invariant holds in a concrete start state … -/
example : HistInv ["root"] 1000 ⟨[(["root"], .dir)], none, none⟩ :=
  ⟨by simp [DirChain], (fun _ h => by cases h), (fun _ h => by cases h), (fun _ h => by cases h)⟩

/-- … and a concrete history (first start on an empty cache, two files written and reported, a size
limit, a pass) satisfies every side condition. -/
example : HistOk ["root"] 1000 ⟨[(["root"], .dir)], none, none⟩
    [.open_ ["root"] [], .mkfile ["root", "a"], .created ["root", "a"] 10 100, .mkfile ["root", "b"],
     .created ["root", "b"] 20 200, .setMaxSize (some 25), .evict] := by
  refine ⟨⟨rfl, Or.inr ⟨rfl, by decide⟩⟩, ?_, ⟨by decide, by decide, ?_, ⟨["root", "a"], by rfl⟩⟩,
    ?_, ⟨by decide, by decide, ?_, ⟨["root", "b"], by rfl⟩⟩, trivial, trivial, trivial⟩
  · show DirChain _ [] _
    exact dirChain_of_bool _ _ _ (by decide)
  · intro inv h; cases h; decide
  · show DirChain _ [] _
    exact dirChain_of_bool _ _ _ (by decide)
  · intro inv h; cases h; decide

example : atimeOf ["a"] ([Note.created ["a"] 10 100, .created ["b"] 5 150, .accessed ["a"] 200, .accessed ["c"] 300,
    .deleted ["b"]].foldl applyNote []) = some 200 := by decide

/-- non-vacuity of `C15_conc_bookkeeping`: the race world satisfies the invariant of histories, and a
schedule in which another task reports an access to `b` between the selection and the delete of `p` is quiet
for the row of `a` and ends with no pass running. -/
example : HistInv ["root"] 1000 C15_raceWorld := by
  refine ⟨dirChain_of_bool _ _ _ (by decide), ?_, ?_, ?_⟩
  · intro inv h
    cases h
    refine ⟨dirChain_of_bool _ _ _ (by decide), ?_, by decide, by decide, by decide⟩
    intro r hr
    simp only [List.mem_cons, List.not_mem_nil, or_false] at hr
    rcases hr with rfl | rfl | rfl <;> simp [NoLinkBelow, C15_raceWorld, List.lookup]
  · intro m h
    cases h
    exact ⟨rfl, rfl, fun a h => by cases h⟩
  · intro m _
    exact ⟨_, rfl⟩

example :
    QuietSched ["root"] 1000 ["a"] (CWorld.ofWorld C15_raceWorld)
      [.begin, .ext (.accessed ["root", "b"] 900), .pass, .pass, .pass] ∧
    (crun 1000 (CWorld.ofWorld C15_raceWorld)
      [.begin, .ext (.accessed ["root", "b"] 900), .pass, .pass, .pass]).run.isNone = true := by
  refine ⟨?_, by decide⟩
  show ((0 : Int) ≤ 900 ∧ relUnder _ ["root"] ["root", "b"] ≠ some ["a"]) ∧ True
  exact ⟨⟨by decide, by decide⟩, trivial⟩
