import SamplyModel.Lemmas.ChunkCache
import SamplyModel.Lemmas.ChunkCacheIface
import SamplyModel.Lemmas.ChunkCacheConc
import SamplyModel.Lemmas.ChunkCacheConcTerm
import SamplyModel.Lemmas.ChunkCacheConcSeq
import SamplyModel.Lemmas.ChunkCacheShared
import SamplyModel.Lemmas.ChunkCacheCover
/-!
# C13 — chunk-cached file access returns exactly the underlying file's bytes

Model: `SamplyModel/Model/ChunkCache.lean` (follows `samply-symbols/src/cache.rs` and
`chunked_read_buffer_manager.rs`, repaired code). `CC.run c |F| ops` is the cache state after an arbitrary
history `ops` of public calls (`read_bytes_at`, `read_bytes_at_until`, `read_bytes_into`) on a fresh
`FileContentsWithChunkedCaching::new(|F|, source)`; `CC.step c st op` performs one more call and returns
`(state', outcome)` with `outcome ∈ {ok bytes, err kind, panic}`.

Hypotheses used throughout (all satisfiable, see the examples at the end):
* `0 < c.chunk` — the chunk size (the real constant is 32768; it is a parameter here);
* `F.length < 2^64` — the length fits the `u64` the constructor takes;
* `Faithful F c.src` — when the byte source succeeds on an in-bounds request it returns the file's bytes;
* `SourceOk F c.src` (only where stated) — the byte source succeeds on every in-bounds request.

There is no bound on the file, the chunk size, the history length or the offsets/sizes.
Three further parts: concurrent readers under every schedule of the calls' atomic sections at lock granularity
(`Model/ChunkCacheConc.lean`, theorems `C13_interleaving*`, assuming that `std::sync::Mutex` makes a critical
section atomic; notes/C13.md says what that does not cover), the shared.rs layer through which parsers reach the
cache (`Model/ChunkCacheShared.lean`, theorems `C13_shared_*`), and a second invariant for failing sources
(`C13_total_after_success`). The excluded point of `Faithful` — a source that reports success with a buffer of
the wrong length — is `C13_wrong_length_panics` (the harness runs the real code there: `srcmode` lines).
Only property theorems (names `C13_*`) and non-vacuity examples live in this file.
-/
open CC

/-- The invariant behind all theorems holds in every reachable state: the stored lengths are the file's
length, every buffer holds exactly the file's bytes of its range, every range-map entry points to the buffer
range it was inserted with, and every string-cache entry `(start, d) ↦ loc` holds `F[start, start+size)` with
`size` the distance to the first `d` at or after `start`. -/
theorem C13_invariant (c : Cfg) (F : List UInt8) (hc : 0 < c.chunk) (hsz : F.length < U64)
    (hf : Faithful F c.src) (ops : List Op) : Inv F (run c F.length ops) :=
  run_inv c F hc hsz hf ops

/-- Buffers are append-only: a call never changes or removes a buffer that exists (so slices handed out by
earlier calls keep their contents). Holds for every state, reachable or not. -/
theorem C13_buffers_append_only (c : Cfg) (st : St) (op : Op) :
    ∃ ext, (step c st op).1.buffers = st.buffers ++ ext :=
  step_append c st op

/-- **Main statement.** After any history, a call returns exactly what the file alone dictates
(`CC.spec`: a plain slice / a first-delimiter search on `F`; for the uncached `read_bytes_into` the source's
own answer) — or, if the byte source fails on the buffer that has to be read (an in-bounds request inside
the chunk-rounded hull of the requested range, `CC.SrcFails`), the clean error `err source` with the cache
state unchanged. -/
theorem C13_step (c : Cfg) (F : List UInt8) (hc : 0 < c.chunk) (hsz : F.length < U64)
    (hf : Faithful F c.src) (ops : List Op) (op : Op) :
    (step c (run c F.length ops) op).2 = spec F c.src op ∨
    ((step c (run c F.length ops) op).2 = .err .source ∧
      (step c (run c F.length ops) op).1 = run c F.length ops ∧ SrcFails c F op) :=
  (step_spec c F hc hsz hf _ (run_inv c F hc hsz hf ops) op).2

/-- Every successful range read returns precisely the bytes of the file at that range (and the range is
inside the file unless it is empty). -/
theorem C13_bytes (c : Cfg) (F : List UInt8) (hc : 0 < c.chunk) (hsz : F.length < U64)
    (hf : Faithful F c.src) (ops : List Op) (o n : Nat) (bs : List UInt8)
    (h : (readBytesAt c (run c F.length ops) o n).2 = .ok bs) :
    bs = slice F o n ∧ (n = 0 ∨ o + n ≤ F.length) := by
  have hs := C13_step c F hc hsz hf ops (.read o n)
  simp only [step] at hs
  rcases hs with hs | ⟨hs, _⟩
  · rw [hs] at h
    simp only [spec, specRead] at h
    by_cases h0 : n = 0
    · simp only [h0, if_true, Out.ok.injEq] at h
      subst h0; exact ⟨by rw [← h, slice_zero], Or.inl rfl⟩
    · by_cases h1 : U64 ≤ o + n
      · simp [h0, h1] at h
      · by_cases h2 : F.length < o + n
        · simp [h0, h1, h2] at h
        · simp only [h0, h1, h2, if_false, Out.ok.injEq] at h
          exact ⟨h.symm, Or.inr (by omega)⟩
  · rw [hs] at h; cases h

/-- Every in-bounds range read succeeds (with the file's bytes) when the source succeeds on in-bounds
requests. -/
theorem C13_total (c : Cfg) (F : List UInt8) (hc : 0 < c.chunk) (hsz : F.length < U64)
    (hf : Faithful F c.src) (hok : SourceOk F c.src) (ops : List Op) (o n : Nat)
    (hin : o + n ≤ F.length) :
    (readBytesAt c (run c F.length ops) o n).2 = .ok (slice F o n) := by
  have hs := C13_step c F hc hsz hf ops (.read o n)
  simp only [step] at hs
  rcases hs with hs | ⟨_, _, hfail⟩
  · rw [hs]
    simp only [spec, specRead]
    by_cases h0 : n = 0
    · subst h0; simp [slice_zero]
    · have h1 : ¬ U64 ≤ o + n := by omega
      have h2 : ¬ F.length < o + n := by omega
      simp only [h0, h1, h2, if_false]
  · exact absurd hfail (srcFails_not_ok hok _)

/-- … and with a source that may fail: an in-bounds range read either succeeds with the file's bytes or
reports the source's failure on an in-bounds request `[o', o'+n')` with
`roundDown o ≤ o' ≤ o`, `o+n ≤ o'+n' ≤ min (roundUp (o+n)) |F|` — it "succeeds whenever the source does". -/
theorem C13_total_failing_source (c : Cfg) (F : List UInt8) (hc : 0 < c.chunk)
    (hsz : F.length < U64) (hf : Faithful F c.src) (ops : List Op) (o n : Nat)
    (hin : o + n ≤ F.length) :
    (readBytesAt c (run c F.length ops) o n).2 = .ok (slice F o n) ∨
    ((readBytesAt c (run c F.length ops) o n).2 = .err .source ∧ SrcFailsIn c F o (o + n)) := by
  have hs := C13_step c F hc hsz hf ops (.read o n)
  simp only [step] at hs
  rcases hs with hs | ⟨he, _, hfail⟩
  · left
    rw [hs]
    simp only [spec, specRead]
    by_cases h0 : n = 0
    · subst h0; simp [slice_zero]
    · have h1 : ¬ U64 ≤ o + n := by omega
      have h2 : ¬ F.length < o + n := by omega
      simp only [h0, h1, h2, if_false]
  · exact Or.inr ⟨he, hfail.2.2⟩

/-- Out-of-bounds and overflowing non-empty range reads fail cleanly (`err`, not `panic`), with any source,
and leave the cache untouched. -/
theorem C13_out_of_bounds (c : Cfg) (F : List UInt8) (hc : 0 < c.chunk) (hsz : F.length < U64)
    (hf : Faithful F c.src) (ops : List Op) (o n : Nat) (h0 : n ≠ 0) (hout : F.length < o + n) :
    (readBytesAt c (run c F.length ops) o n).2 = .err (if U64 ≤ o + n then .overflow else .oob) ∧
    (readBytesAt c (run c F.length ops) o n).1 = run c F.length ops := by
  have hl := (run_inv c F hc hsz hf ops).fileLen
  unfold readBytesAt
  rw [hl]
  by_cases h1 : U64 ≤ o + n
  · simp [h0, h1]
  · simp [h0, h1, hout]

/-- Every successful delimited read returns the bytes from `range.start` up to (not including) the first
delimiter at or after it: `bs = F[lo, lo+k)` where `F[lo+k] = d`, no `d` in `F[lo, lo+k)`, and the delimiter
lies inside the requested range and within the 4096-byte limit (`lo + k < hi`, `k < 4096`). -/
theorem C13_until (c : Cfg) (F : List UInt8) (hc : 0 < c.chunk) (hsz : F.length < U64)
    (hf : Faithful F c.src) (ops : List Op) (r : Range) (d : UInt8) (bs : List UInt8)
    (h : (readBytesAtUntil c (run c F.length ops) r d).2 = .ok bs) :
    ∃ k, bs = slice F r.lo k ∧ r.lo + k < r.hi ∧ r.hi ≤ F.length ∧ k < maxLenInclDelim ∧
      F[r.lo + k]? = some d ∧ ∀ j, j < k → F[r.lo + j]? ≠ some d := by
  have hs := C13_step c F hc hsz hf ops (.until_ r d)
  simp only [step] at hs
  rcases hs with hs | ⟨hs, _⟩
  · rw [hs] at h
    simp only [spec, specUntil] at h
    by_cases h1 : r.hi < r.lo
    · simp [h1] at h
    by_cases h2 : F.length < r.hi
    · simp [h1, h2] at h
    simp only [h1, h2, if_false] at h
    cases hm : memchr d (slice F r.lo (min (r.hi - r.lo) maxLenInclDelim)) with
    | none => simp [hm] at h
    | some k =>
      simp only [hm, Out.ok.injEq] at h
      obtain ⟨hk1, hk2⟩ := memchr_of_take (l := F.drop r.lo) (by simpa [slice] using hm)
      obtain ⟨e1, e2⟩ := (memchr_eq_some_iff d _ k).1 hk1
      refine ⟨k, h.symm, by omega, by omega, by omega, ?_, ?_⟩
      · simpa [List.getElem?_drop] using e1
      · intro j hj; simpa [List.getElem?_drop] using e2 j hj
  · rw [hs] at h; cases h

/-- Conversely (source succeeding): for a well-formed in-bounds range, if the first `d` at or after `lo` is
at `lo + k`, the delimited read succeeds with `F[lo, lo+k)` exactly when `lo + k < hi` and `k < 4096`, and
otherwise fails cleanly with "Could not find delimiter" — whatever was read before (in particular whatever
is in the string cache). An empty range therefore fails cleanly. -/
theorem C13_until_total (c : Cfg) (F : List UInt8) (hc : 0 < c.chunk) (hsz : F.length < U64)
    (hf : Faithful F c.src) (hok : SourceOk F c.src) (ops : List Op) (r : Range) (d : UInt8)
    (h1 : r.lo ≤ r.hi) (h2 : r.hi ≤ F.length) :
    (∀ k, F[r.lo + k]? = some d → (∀ j, j < k → F[r.lo + j]? ≠ some d) →
      (readBytesAtUntil c (run c F.length ops) r d).2 =
        if r.lo + k < r.hi ∧ k < maxLenInclDelim then .ok (slice F r.lo k) else .err .noDelim) ∧
    ((∀ k, r.lo + k < r.hi → F[r.lo + k]? ≠ some d) →
      (readBytesAtUntil c (run c F.length ops) r d).2 = .err .noDelim) := by
  have hs : (readBytesAtUntil c (run c F.length ops) r d).2 = spec F c.src (.until_ r d) := by
    rcases C13_step c F hc hsz hf ops (.until_ r d) with hs | ⟨_, _, hfail⟩
    · exact hs
    · exact absurd hfail (srcFails_not_ok hok _)
  rw [hs]
  have n1 : ¬ r.hi < r.lo := by omega
  have n2 : ¬ F.length < r.hi := by omega
  simp only [spec, specUntil, n1, n2, if_false]
  have hslice : slice F r.lo (min (r.hi - r.lo) maxLenInclDelim) =
      (F.drop r.lo).take (min (r.hi - r.lo) maxLenInclDelim) := rfl
  rw [hslice, memchr_take]
  constructor
  · intro k e1 e2
    have hk : memchr d (F.drop r.lo) = some k :=
      (memchr_eq_some_iff d _ k).2 ⟨by simpa [List.getElem?_drop] using e1,
        fun j hj => by simpa [List.getElem?_drop] using e2 j hj⟩
    rw [hk]
    by_cases hlt : k < min (r.hi - r.lo) maxLenInclDelim
    · have : r.lo + k < r.hi ∧ k < maxLenInclDelim := by omega
      simp only [hlt, this, if_true, and_self]
    · have : ¬ (r.lo + k < r.hi ∧ k < maxLenInclDelim) := by omega
      simp only [hlt, this, if_false]
  · intro hno
    cases hm : memchr d (F.drop r.lo) with
    | none => rfl
    | some k =>
      simp only
      by_cases hlt : k < min (r.hi - r.lo) maxLenInclDelim
      · exfalso
        obtain ⟨e1, _⟩ := (memchr_eq_some_iff d _ k).1 hm
        exact hno k (by omega) (by simpa [List.getElem?_drop] using e1)
      · simp only [hlt, if_false]

/-- Results do not depend on which reads happened before: with a source that succeeds on in-bounds requests,
the outcome of any call after any history equals `CC.spec F src op`, a function of the file and the request
alone; hence two arbitrary histories give the same outcome. (Chunk alignment is one aspect of this: the
chunk size does not occur in `CC.spec`.) -/
theorem C13_history_independent (c : Cfg) (F : List UInt8) (hc : 0 < c.chunk)
    (hsz : F.length < U64) (hf : Faithful F c.src) (hok : SourceOk F c.src)
    (ops₁ ops₂ : List Op) (op : Op) :
    (step c (run c F.length ops₁) op).2 = spec F c.src op ∧
    (step c (run c F.length ops₁) op).2 = (step c (run c F.length ops₂) op).2 := by
  have key : ∀ ops, (step c (run c F.length ops) op).2 = spec F c.src op := by
    intro ops
    rcases C13_step c F hc hsz hf ops op with hs | ⟨_, _, hfail⟩
    · exact hs
    · exact absurd hfail (srcFails_not_ok hok _)
  exact ⟨key ops₁, by rw [key ops₁, key ops₂]⟩

/-- … and independent of the chunk size: two caches with different chunk sizes over the same source agree
after arbitrary (different) histories. -/
theorem C13_chunk_independent (c₁ c₂ : Cfg) (hsrc : c₁.src = c₂.src) (F : List UInt8) (hc₁ : 0 < c₁.chunk)
    (hc₂ : 0 < c₂.chunk) (hsz : F.length < U64)
    (hf : Faithful F c₁.src) (hok : SourceOk F c₁.src) (ops₁ ops₂ : List Op) (op : Op) :
    (step c₁ (run c₁ F.length ops₁) op).2 = (step c₂ (run c₂ F.length ops₂) op).2 := by
  rw [(C13_history_independent c₁ F hc₁ hsz hf hok ops₁ ops₁ op).1,
      (C13_history_independent c₂ F hc₂ hsz (hsrc ▸ hf) (hsrc ▸ hok) ops₂ ops₂ op).1, hsrc]

/-- No call panics after any history, with any faithful source (failing or not): no `assert!` fails, no
slice or vector index is out of range, no `u64` operation overflows or underflows. -/
theorem C13_no_panic (c : Cfg) (F : List UInt8) (hc : 0 < c.chunk) (hsz : F.length < U64)
    (hf : Faithful F c.src) (ops : List Op) (op : Op) :
    (step c (run c F.length ops) op).2 ≠ .panic := by
  rcases C13_step c F hc hsz hf ops op with hs | ⟨hs, _⟩
  · rw [hs]
    cases op with
    | read o n => simp only [spec, specRead]; repeat' split
                  all_goals simp
    | until_ r d => simp only [spec, specUntil]; repeat' split
                    all_goals simp
    | into o n => simp only [spec]; split <;> simp
  · rw [hs]; simp

/-- The oracle the model driver executes in the correspondence run (`C13.src g`: the harness's in-memory
source for the file line `g`, failing on the bad range) satisfies the source hypotheses of the theorems above
for the generated file `F = C13.fileSlice g 0 g.len`; so for every generated case with `len < 2^64` the
results above apply to exactly the model run that is compared with the real code. -/
theorem C13_driver_source (g : C13.Gen) :
    (C13.fileSlice g 0 g.len).length = g.len ∧ Faithful (C13.fileSlice g 0 g.len) (C13.src g) ∧
    (g.badHi = 0 → SourceOk (C13.fileSlice g 0 g.len) (C13.src g)) :=
  ⟨C13.fileSlice_length g 0 g.len, C13.src_faithful g, C13.src_ok g⟩

/-- **"Succeeds whenever the source does", with a failing source.** If the source is monotone (having
delivered a range it delivers every sub-range: any deterministic source that fails exactly on the requests
touching some set of bad bytes) then, once a range read has succeeded, every later range read inside that range
succeeds with the file's bytes — whatever calls were made before, in between and whatever the source refuses
elsewhere: the cache never turns a failure of the source on *other* bytes into a failure of bytes it has
delivered before. The hypothesis `chunk ∣ 2^64 ∨ |F| + chunk ≤ 2^64` holds for the real chunk size
(`C13_real_chunk_divides`), so for the code as it is this covers every file below `2^64` bytes; for a chunk
size that does not divide `2^64` and a file within one chunk of `2^64` the saturating `round_up_to_multiple`
plans a read up to EOF, past the boundary where the earlier buffer ended. -/
theorem C13_total_after_success (c : Cfg) (F : List UInt8) (hc : 0 < c.chunk)
    (hsz : F.length < U64) (hch : c.chunk ∣ U64 ∨ F.length + c.chunk ≤ U64) (hf : Faithful F c.src)
    (hmono : SrcMono c.src)
    (ops₁ ops₂ : List Op) (o n : Nat) (bs : List UInt8)
    (hprev : (readBytesAt c (run c F.length ops₁) o n).2 = .ok bs)
    (o' n' : Nat) (h1 : o ≤ o') (h2 : o' + n' ≤ o + n) :
    (readBytesAt c (run c F.length (ops₁ ++ .read o n :: ops₂)) o' n').2 = .ok (slice F o' n') := by
  by_cases hn' : n' = 0
  · subst hn'; simp [readBytesAt, slice_zero]
  have hsz : F.length < U64 := by omega
  obtain ⟨i1, j1, _⟩ := run_inv2 c F hc hsz hch hf hmono ops₁ _ (inv_init F) (inv2_init c F)
  have hstep := step_cover c F hc hsz hch hmono _ i1 j1 (.read o n)
  have i2 := (step_spec c F hc hsz hf _ i1 (.read o n)).1
  obtain ⟨j2, _, hcov⟩ := hstep
  have hrun : run c F.length (ops₁ ++ .read o n :: ops₂) =
      ops₂.foldl (fun st op => (step c st op).1) (step c (run c F.length ops₁) (.read o n)).1 := by
    simp [run, List.foldl_append]
  have hcov2 : Covered (step c (run c F.length ops₁) (.read o n)).1 o (o + n) := by
    have hcov' : okCover (.read o n) (readBytesAt c (run c F.length ops₁) o n).2
        (readBytesAt c (run c F.length ops₁) o n).1 := hcov
    rw [hprev] at hcov'
    simp only [okCover] at hcov'
    rcases hcov' with h0 | h
    · omega
    · exact h
  obtain ⟨i3, j3, mono⟩ := run_inv2 c F hc hsz hch hf hmono ops₂ _ i2 j2
  rw [hrun]
  obtain ⟨idx, br, hbr, c1, c2⟩ := mono _ _ hcov2
  exact readBytesAt_covered c F hc hsz hch hf hmono _ i3 j3 o' n' (by omega) ⟨idx, br, hbr, by omega, by omega⟩

/-- The excluded point of `Faithful`, as the code behaves: if the byte source reports success on the buffer
the cache has planned but delivers a different number of bytes (a file truncated or grown after its length was
taken), `get_range_location` panics at `assert!(buffer.len() == read_len)` (cache.rs:67) with the cache state
untouched — the `FileByteSource` contract says "otherwise the caller may panic". The mutex is poisoned, every
later call on the object panics too. -/
theorem C13_wrong_length_panics (c : Cfg) (st : St) (r rr : Range) (buf : List UInt8)
    (hplan : determineRangeSourcing c.chunk st.mgr r = .ok (.needNew rr)) (hle : rr.lo ≤ rr.hi)
    (hsrc : c.src rr.lo (rr.hi - rr.lo) = some buf) (hlen : buf.length ≠ rr.hi - rr.lo) :
    getRangeLocation c st r = (st, .panic) := by
  unfold getRangeLocation
  rw [hplan]
  have n1 : ¬ ¬ rr.lo ≤ rr.hi := by omega
  simp only [n1, if_false, hsrc, hlen, ne_eq, not_false_eq_true, if_true]

/-- outside `srcmode` sections the model driver runs the faithful source of `C13_driver_source` -/
theorem C13_driver_source_mode_zero (g : C13.Gen) : C13.srcMode g 0 = C13.src g := C13.srcMode_zero g

/-- the chunk size of the code (`CHUNK_SIZE = 32 * 1024`, cache.rs:11) divides `2^64` -/
theorem C13_real_chunk_divides : realChunk ∣ U64 := by decide

/-- the harness's byte source (fails exactly on the requests touching `[badLo, badHi)` or reaching past the
end) is monotone, so `C13_total_after_success` applies to the model runs that are compared with the code -/
theorem C13_driver_source_mono (g : C13.Gen) : SrcMono (C13.src g) := C13.src_mono g

/-! ### Concurrent readers: every schedule of the calls' atomic sections

`Model/ChunkCacheConc.lean` cuts each public call into its atomic sections at lock granularity
(`read_bytes_at` = the `buffer_manager` critical section, then the lock-free `slice_from_location`;
`read_bytes_at_until` = lock `string_cache` + lookup, [slice on a hit], the nested `buffer_manager` section,
slice, `memchr` + insert + unlock; a thread that needs the `string_cache` mutex while another holds it is
blocked). `CC.runSched c (Sys.init |F| progs) sched` runs N threads with programs `progs` (lists of calls)
under an arbitrary schedule `sched` (any list of thread numbers: whichever thread is named runs its next
section if it is enabled). No bound on the number of threads, the programs or the schedule. -/

/-- **Results do not depend on concurrent readers.** Under every schedule of the atomic sections of any
number of threads making arbitrary calls on one shared cache, every finished call of every thread returned
exactly what `C13_step` allows for a call made alone: `CC.spec F src op` — a function of the file and the
request only — or the source's own failure on the buffer the call had to read. The cache invariant holds in
every reachable configuration, and every thread's calls (finished, in progress, to come) are its program in
program order (no call is lost, repeated or reordered). -/
theorem C13_interleaving (c : Cfg) (F : List UInt8) (hc : 0 < c.chunk) (hsz : F.length < U64)
    (hf : Faithful F c.src) (progs : List (List Op)) (sched : List Nat) :
    Inv F (runSched c (Sys.init F.length progs) sched).st ∧
    (runSched c (Sys.init F.length progs) sched).threads.length = progs.length ∧
    ∀ (k : Nat) (t : Thread), (runSched c (Sys.init F.length progs) sched).threads[k]? = some t →
      progs[k]? = some t.calls ∧
      ∀ op out, (op, out) ∈ t.done →
        out = spec F c.src op ∨ (out = .err .source ∧ SrcFails c F op) := by
  have h := runSched_ok c F hc hsz hf progs sched _ (sysOk_init c F progs)
  refine ⟨h.inv, h.len, fun k t ht => ⟨h.calls k t ht, fun op out hm => ?_⟩⟩
  exact (h.thr k t ht).done (op, out) hm

/-- With a source that succeeds on in-bounds requests: under every schedule every finished call of every
thread returned `CC.spec F src op`. Hence the outcome of a call is the same under any two schedules, with any
other threads making any other calls, and the same as when the call is made alone on a fresh cache
(`C13_history_independent`). -/
theorem C13_interleaving_source_ok (c : Cfg) (F : List UInt8) (hc : 0 < c.chunk) (hsz : F.length < U64)
    (hf : Faithful F c.src) (hok : SourceOk F c.src) (progs : List (List Op)) (sched : List Nat)
    (k : Nat) (t : Thread) (ht : (runSched c (Sys.init F.length progs) sched).threads[k]? = some t)
    (op : Op) (out : Out (List UInt8)) (hm : (op, out) ∈ t.done) :
    out = spec F c.src op ∧ out = (step c (St.init F.length) op).2 := by
  have key : out = spec F c.src op := by
    rcases (C13_interleaving c F hc hsz hf progs sched).2.2 k t ht |>.2 op out hm with h | ⟨_, hfail⟩
    · exact h
    · exact absurd hfail (srcFails_not_ok hok _)
  exact ⟨key, by rw [key]; exact ((C13_history_independent c F hc hsz hf hok [] [] op).1).symm⟩

/-- No call of any thread panics under any schedule (so no mutex is ever poisoned), with any faithful source. -/
theorem C13_interleaving_no_panic (c : Cfg) (F : List UInt8) (hc : 0 < c.chunk) (hsz : F.length < U64)
    (hf : Faithful F c.src) (progs : List (List Op)) (sched : List Nat)
    (k : Nat) (t : Thread) (ht : (runSched c (Sys.init F.length progs) sched).threads[k]? = some t)
    (op : Op) (out : Out (List UInt8)) (hm : (op, out) ∈ t.done) : out ≠ .panic :=
  good_not_panic ((C13_interleaving c F hc hsz hf progs sched).2.2 k t ht |>.2 op out hm)

/-- Deadlock freedom at lock granularity: in every reachable configuration, unless every thread has finished
its program, some thread is enabled (the owner of the `string_cache` mutex never waits for anything: the
`buffer_manager` mutex is only ever taken inside it, never the other way round). -/
theorem C13_interleaving_deadlock_free (c : Cfg) (F : List UInt8) (hc : 0 < c.chunk) (hsz : F.length < U64)
    (hf : Faithful F c.src) (progs : List (List Op)) (sched : List Nat)
    (j : Nat) (u : Thread) (hj : (runSched c (Sys.init F.length progs) sched).threads[j]? = some u)
    (hu : u.finished = false) :
    ∃ k, (runSched c (Sys.init F.length progs) sched).enabled c k = true :=
  sysOk_progress c F progs _ (runSched_ok c F hc hsz hf progs sched _ (sysOk_init c F progs)) j u hj hu

/-- Sequential histories are among the schedules: for every history `ops` there is a schedule of the
one-thread system with program `ops` that ends in exactly the sequential state `CC.run c |F| ops`, the lock
free, the thread finished, and its recorded outcomes those of `CC.step` along the history (`CC.seqDone`). So
`C13_interleaving*` (all schedules) contain `C13_step` & co. (all histories) as the one-thread case, and the
section model and the sequential model — the one compared with the real code — agree on whole histories. -/
theorem C13_interleaving_contains_histories (c : Cfg) (F : List UInt8) (hc : 0 < c.chunk)
    (hsz : F.length < U64) (hf : Faithful F c.src) (ops : List Op) :
    ∃ sched, runSched c (Sys.init F.length [ops]) sched =
      ⟨run c F.length ops, none, [⟨.idle, [], seqDone c (St.init F.length) ops []⟩]⟩ :=
  seq_schedule c F hc hsz hf ops _ (inv_init F) []

/-- Every execution is finite: a scheduled thread that is enabled runs one section and strictly decreases
`Sys.measure` (4 per call still to make + the sections left in the call in progress), a scheduled thread that
is not enabled (finished, or blocked on the `string_cache` mutex) changes nothing, and the measure starts at
`4 · (total number of calls)`. With `C13_interleaving_deadlock_free`: under every schedule at most
`4 · #calls` sections run, and as long as some call is outstanding some thread can run — so every maximal
execution completes every call of every thread, with the outcomes of `C13_interleaving`. -/
theorem C13_interleaving_terminates (c : Cfg) (s : Sys) (k : Nat) (fileLen : Nat) (progs : List (List Op)) :
    (s.enabled c k = true → (sysStep c s k).measure < s.measure) ∧
    (s.enabled c k = false → sysStep c s k = s) ∧
    (Sys.init fileLen progs).measure = 4 * (progs.map List.length).sum :=
  ⟨sysStep_measure c s k, sysStep_not_enabled c s k, measure_init fileLen progs⟩

/-- The section model refines to the sequential model: the sections of one call run without another thread
in between are exactly `CC.step` — the function that the correspondence run compares with the real code, call
by call — on the state and on the outcome, and the lock is free again afterwards. -/
theorem C13_sections_compose (c : Cfg) (st : St) (op : Op) (hnp : (step c st op).2 ≠ .panic) :
    runSched c (Sys.solo st ⟨.idle, [op], []⟩) [0, 0, 0, 0] =
      Sys.solo (step c st op).1 ⟨.idle, [], [(op, (step c st op).2)]⟩ :=
  sections_compose c st op hnp

/-! ### The shared.rs layer parsers use to reach the cache

`Model/ChunkCacheShared.lean`: `read_entire_data`, `impl ReadRef for &FileContentsWrapper` (errors discarded)
and `RangeReadRef` (`full_range` / `range` / nested `make_subrange`, offsets shifted with `checked_add`).
`CC.xrun c |F| ops` is the cache state after an arbitrary history of calls of *both* layers
(`XOp.base op` = the three `FileContents` methods, `XOp.view v` = the shared.rs entry points).
`viewStart base subs`: where a view starts in the file — the sum of the starts of the nested `make_subrange`
calls, capped at `u64::MAX` (`saturating_add`, repair 989a9c95; the pre-fix code added unchecked, see
`C13_legacy_counterexample_subrange_overflow`). No hypothesis on the views is left. -/

/-- The invariant holds after every history of calls of both layers (also after views whose `make_subrange`
chain overflowed: those calls panic before they reach the cache). -/
theorem C13_shared_invariant (c : Cfg) (F : List UInt8) (hc : 0 < c.chunk) (hsz : F.length < U64)
    (hf : Faithful F c.src) (ops : List XOp) : Inv F (xrun c F.length ops) :=
  xrun_inv c F hc hsz hf ops

/-- **Main statement for both layers.** After any history of calls of both layers, a call returns exactly
what the file alone dictates (`CC.xspec`: for a view, the cache-level answer at the offset shifted by the sum
of the view's starts, errors reduced to `Err(())`; shifted offsets that overflow `u64` fail cleanly; a view's
`range_size` plays no role) — or the source's failure on the buffer it had to read (reported as `err source`
by `read_entire_data` and the `FileContents` methods, as `Err(())` by the `ReadRef` impls), state unchanged. -/
theorem C13_shared_step (c : Cfg) (F : List UInt8) (hc : 0 < c.chunk) (hsz : F.length < U64)
    (hf : Faithful F c.src) (ops : List XOp) (op : XOp) :
    (xstep c (xrun c F.length ops) op).2 = xspec F c.src op ∨
    ((xstep c (xrun c F.length ops) op).2 = .err op.srcErr ∧
      (xstep c (xrun c F.length ops) op).1 = xrun c F.length ops ∧ SrcFails c F (op.under F.length)) :=
  (xstep_spec c F hc hsz hf _ (xrun_inv c F hc hsz hf ops) op).2

/-- With a source that succeeds on in-bounds requests, every call of either layer after any mixed history
returns `CC.xspec F src op`: independent of the history (and of the chunk size, which does not occur in
`xspec`). -/
theorem C13_shared_history_independent (c : Cfg) (F : List UInt8) (hc : 0 < c.chunk) (hsz : F.length < U64)
    (hf : Faithful F c.src) (hok : SourceOk F c.src) (ops₁ ops₂ : List XOp) (op : XOp) :
    (xstep c (xrun c F.length ops₁) op).2 = xspec F c.src op ∧
    (xstep c (xrun c F.length ops₁) op).2 = (xstep c (xrun c F.length ops₂) op).2 := by
  have key : ∀ ops, (xstep c (xrun c F.length ops) op).2 = xspec F c.src op := by
    intro ops
    rcases C13_shared_step c F hc hsz hf ops op with hs | ⟨_, _, hfail⟩
    · exact hs
    · exact absurd hfail (srcFails_not_ok hok _)
  exact ⟨key ops₁, by rw [key ops₁, key ops₂]⟩

/-- `read_entire_data` returns the whole file, after any history (source succeeding). -/
theorem C13_shared_entire (c : Cfg) (F : List UInt8) (hc : 0 < c.chunk) (hsz : F.length < U64)
    (hf : Faithful F c.src) (hok : SourceOk F c.src) (ops : List XOp) :
    (xstep c (xrun c F.length ops) (.view .entire)).2 = .ok F :=
  (C13_shared_history_independent c F hc hsz hf hok ops ops (.view .entire)).1

/-- A read through a (nested) view at offset `o` is the read of the file at `viewStart + o`
(`start₀ + start₁ + … + o`, the sum capped at `u64::MAX`): with a succeeding source, in bounds it returns
exactly those bytes of the file; out of bounds, or when the shifted offset overflows `u64`, it fails cleanly —
for every view, also one whose starts add up to `2^64` or more. -/
theorem C13_shared_view_read (c : Cfg) (F : List UInt8) (hc : 0 < c.chunk) (hsz : F.length < U64)
    (hf : Faithful F c.src) (hok : SourceOk F c.src) (ops : List XOp) (base : Option (Nat × Nat))
    (subs : List (Nat × Nat)) (o n : Nat) :
    (viewStart base subs + o + n ≤ F.length →
      (xstep c (xrun c F.length ops) (.view (.vread base subs o n))).2 = .ok (slice F (viewStart base subs + o) n)) ∧
    (n ≠ 0 → F.length < viewStart base subs + o + n →
      (xstep c (xrun c F.length ops) (.view (.vread base subs o n))).2 = .err .discarded) := by
  have h := (C13_shared_history_independent c F hc hsz hf hok ops ops (.view (.vread base subs o n))).1
  rw [h]
  simp only [xspec, vspec]
  generalize viewStart base subs = s at *
  constructor
  · intro hin
    have n1 : ¬ U64 ≤ s + o := by omega
    simp only [n1, if_false, specRead]
    by_cases h0 : n = 0
    · subst h0; simp [slice_zero, discardErr]
    · have n2 : ¬ U64 ≤ s + o + n := by omega
      have n3 : ¬ F.length < s + o + n := by omega
      simp only [h0, n2, n3, if_false, discardErr]
  · intro h0 hout
    by_cases h1 : U64 ≤ s + o
    · simp only [h1, if_true]
    · simp only [h1, if_false, specRead, h0]
      by_cases h2 : U64 ≤ s + o + n
      · simp only [h2, if_true, discardErr]
      · simp only [h2, hout, if_true, if_false, discardErr]

/-- No call of either layer panics after any history (no hypothesis on the views: `make_subrange` saturates). -/
theorem C13_shared_no_panic (c : Cfg) (F : List UInt8) (hc : 0 < c.chunk) (hsz : F.length < U64)
    (hf : Faithful F c.src) (ops : List XOp) (op : XOp) :
    (xstep c (xrun c F.length ops) op).2 ≠ .panic := by
  rcases C13_shared_step c F hc hsz hf ops op with hs | ⟨hs, _⟩
  · rw [hs]
    cases op with
    | base op =>
      have := C13_no_panic c F hc hsz hf [] op
      intro h
      cases op with
      | read o n => simp only [xspec, spec, specRead] at h; repeat' split at h
                    all_goals simp at h
      | until_ r d => simp only [xspec, spec, specUntil] at h; repeat' split at h
                      all_goals simp at h
      | into o n => simp only [xspec, spec] at h; split at h <;> simp at h
    | view v =>
      intro h
      cases v with
      | entire => simp [xspec, vspec] at h
      | wread o n => simp only [xspec, vspec, specRead] at h; repeat' split at h
                     all_goals simp [discardErr] at h
      | wuntil r d => simp only [xspec, vspec, specUntil] at h; repeat' split at h
                      all_goals simp [discardErr] at h
      | vread base subs o n => simp only [xspec, vspec, specRead] at h; repeat' split at h
                               all_goals simp [discardErr] at h
      | vuntil base subs r d => simp only [xspec, vspec, specUntil] at h; repeat' split at h
                                all_goals simp [discardErr] at h
  · rw [hs]; simp

/-- A view built by a `make_subrange` chain whose starts add up to `2^64` or more (the input family that made the
pre-fix code panic / wrap) fails cleanly after any history: every non-empty read through it returns `Err(())`
and leaves the cache untouched; a zero-length read at offset 0 returns the empty slice (the view starts at
`u64::MAX` and `read_bytes_at(_, 0)` is `Ok(&[])` for every offset), at any other offset `Err(())`. -/
theorem C13_shared_subrange_overflow_fails_cleanly (c : Cfg) (F : List UInt8) (hc : 0 < c.chunk)
    (hsz : F.length < U64) (hf : Faithful F c.src) (ops : List XOp) (base : Option (Nat × Nat))
    (subs : List (Nat × Nat)) (o n : Nat) (hne : subs ≠ [])
    (hov : U64 ≤ (match base with | none => 0 | some (s, _) => s) + (subs.map (·.1)).sum) :
    viewStart base subs = U64 - 1 ∧
    (xstep c (xrun c F.length ops) (.view (.vread base subs o n))).2 =
      (if o = 0 ∧ n = 0 then .ok [] else .err .discarded) ∧
    (xstep c (xrun c F.length ops) (.view (.vread base subs o n))).1 = xrun c F.length ops := by
  have hvs : viewStart base subs = U64 - 1 := by
    unfold viewStart
    cases subs with
    | nil => exact absurd rfl hne
    | cons e rest =>
      simp only [List.isEmpty_cons, Bool.false_eq_true, if_false]
      generalize (List.map (fun x => x.fst) (e :: rest)).sum = sm at hov ⊢
      cases base with
      | none =>
        simp only [U64, Nat.min_def] at hov ⊢
        split <;> omega
      | some b =>
        obtain ⟨s, z⟩ := b
        simp only [U64, Nat.min_def] at hov ⊢
        split <;> omega
  refine ⟨hvs, ?_⟩
  have hl := (xrun_inv c F hc hsz hf ops).fileLen
  generalize xrun c F.length ops = st at hl ⊢
  simp only [xstep, vstep, viewBase_start, hvs]
  by_cases ho : o = 0
  · subst ho
    have n1 : ¬ U64 ≤ U64 - 1 + 0 := by decide
    simp only [n1, if_false, readBytesAt]
    by_cases h0 : n = 0
    · simp [h0, discardErr]
    · have n2 : U64 ≤ U64 - 1 + n := by
        simp only [U64]; omega
      simp [h0, n2, discardErr]
  · have n1 : U64 ≤ U64 - 1 + o := by
      simp only [U64]; omega
    simp [n1, ho]

/-- **A call of the shared.rs layer is its cache-level call plus local wrapper code.** Unless the wrapper
refuses it before it reaches the cache (`v.refused`: shifted offset beyond `u64`, inverted range), a view call
is exactly `CC.step` on the cache-level call `v.under` — same new state — with the outcome passed through
`v.post` (`Err(())` for the `ReadRef` impls, unchanged for `read_entire_data`). The wrapper code touches no
shared state: at lock granularity a view call has the atomic sections of `v.under`. -/
theorem C13_shared_reduces (c : Cfg) (st : St) (v : VOp) :
    vstep c st v =
      if v.refused then (st, .err .discarded)
      else ((step c st (v.under st.fileLen)).1, v.post (step c st (v.under st.fileLen)).2) :=
  vstep_reduces c st v

/-- Concurrent readers going through the shared.rs layer: by `C13_shared_reduces` a thread making the view
call `v` executes the sections of `v.under` and hands `v.post out` to its caller; under every schedule, with any
other threads making any calls, that is `CC.vspec F v` — what the file alone dictates for the view call. -/
theorem C13_interleaving_views (c : Cfg) (F : List UInt8) (hc : 0 < c.chunk) (hsz : F.length < U64)
    (hf : Faithful F c.src) (hok : SourceOk F c.src) (progs : List (List Op)) (sched : List Nat)
    (k : Nat) (t : Thread) (ht : (runSched c (Sys.init F.length progs) sched).threads[k]? = some t)
    (v : VOp) (out : Out (List UInt8)) (hm : (v.under F.length, out) ∈ t.done) (hnr : v.refused = false) :
    v.post out = vspec F v := by
  have h := (C13_interleaving_source_ok c F hc hsz hf hok progs sched k t ht _ out hm).1
  rw [vspec_reduces F c.src hsz v, hnr, h]
  simp

/-- Histories of cache-level calls only are a special case of mixed histories (so the theorems of the first
part are instances of `C13_shared_step`). -/
theorem C13_shared_extends_run (c : Cfg) (fileLen : Nat) (ops : List Op) :
    xrun c fileLen (ops.map .base) = run c fileLen ops :=
  xrun_base c fileLen ops

/-! ### The repaired defects: why the pre-fix code does not satisfy the theorems above

`readBytesAtUntilLegacy` is the code before commits 22b09fd5 / 586a1eab. Concrete 20-byte file, chunk size 8,
delimiter `0` only at offset 12. -/

def C13_legacyFile : List UInt8 := [1, 2, 3, 4, 5, 6, 7, 8, 9, 10, 11, 12, 0, 14, 15, 16, 17, 18, 19, 20]
def C13_legacyCfg : Cfg := ⟨8, srcOf C13_legacyFile⟩

/-- Pre-fix: a delimited read of the empty in-bounds range `5..5` on a fresh cache panics
(`assert!(range.start < range.end)`), while the repaired code fails cleanly. -/
theorem C13_legacy_counterexample_empty_range :
    (readBytesAtUntilLegacy C13_legacyCfg (St.init 20) ⟨5, 5⟩ 0).2 = .panic ∧
    (readBytesAtUntil C13_legacyCfg (St.init 20) ⟨5, 5⟩ 0).2 = .err .noDelim := by
  decide

/-- Pre-fix: the result of `until 4..8` depends on the history. On a fresh cache it fails (no delimiter in
`F[4,8)`); after a successful `until 4..20` the string cache answers it with 8 bytes reaching beyond
`range.end`. The repaired code fails in both histories. -/
theorem C13_legacy_counterexample_cache_ignores_end :
    (readBytesAtUntilLegacy C13_legacyCfg (St.init 20) ⟨4, 8⟩ 0).2 = .err .noDelim ∧
    (readBytesAtUntilLegacy C13_legacyCfg
        (readBytesAtUntilLegacy C13_legacyCfg (St.init 20) ⟨4, 20⟩ 0).1 ⟨4, 8⟩ 0).2
      = .ok [5, 6, 7, 8, 9, 10, 11, 12] ∧
    (readBytesAtUntil C13_legacyCfg
        (readBytesAtUntil C13_legacyCfg (St.init 20) ⟨4, 20⟩ 0).1 ⟨4, 8⟩ 0).2 = .err .noDelim := by
  decide

/-- Pre-9c4312ce: planning the in-bounds read `[2^64-16, 2^64-11)` of a file of length `2^64-1` (chunk size
32768) panics because `round_up_to_multiple` overflows, while the repaired code plans the buffer
`[2^64-32768, 2^64-1)`. -/
theorem C13_legacy_counterexample_round_up_overflow :
    determineRangeSourcingLegacy realChunk ⟨U64 - 1, [], []⟩ ⟨U64 - 16, U64 - 11⟩ = .panic ∧
    determineRangeSourcing realChunk ⟨U64 - 1, [], []⟩ ⟨U64 - 16, U64 - 11⟩
      = .ok (.needNew ⟨U64 - 32768, U64 - 1⟩) := by
  decide

/-- Pre-989a9c95 (`RangeReadRef::make_subrange` added `self.range_start + start` unchecked):
`wrapper.range(2^64-10, 5).make_subrange(20, 1).read_bytes_at(0, 1)` on the 20-byte file panics (overflow checks
on; a release build wraps to offset 10 and returns that byte of the file), while the repaired code — the view
now starts at `u64::MAX` — fails cleanly with `Err(())`; so does the shorter chain that lands exactly on
`2^64`. This is the input family `C13_shared_no_panic` had to exclude before the repair. -/
theorem C13_legacy_counterexample_subrange_overflow :
    (vreadLegacy C13_legacyCfg (St.init 20) (some (U64 - 10, 5)) [(20, 1)] 0 1).2 = .panic ∧
    (vstep C13_legacyCfg (St.init 20) (.vread (some (U64 - 10, 5)) [(20, 1)] 0 1)).2 = .err .discarded ∧
    (vreadLegacy C13_legacyCfg (St.init 20) none [(U64 - 1, 7), (1, 1)] 0 0).2 = .panic ∧
    (vstep C13_legacyCfg (St.init 20) (.vread none [(U64 - 1, 7), (1, 1)] 0 0)).2 = .ok [] := by
  decide

/-- …in general: before the repair every read through a non-empty chain whose starts reach `2^64` panicked,
and on every chain that does not overflow the pre-fix and the repaired view are the same (the repair changes
nothing else). -/
theorem C13_legacy_subrange_overflow_general (c : Cfg) (st : St) (base : Option (Nat × Nat))
    (subs : List (Nat × Nat)) (o n : Nat) :
    (subs ≠ [] → U64 ≤ (viewBase st.fileLen base).start + (subs.map (·.1)).sum →
      vreadLegacy c st base subs o n = (st, .panic)) ∧
    ((viewBase st.fileLen base).start + (subs.map (·.1)).sum < U64 →
      vreadLegacy c st base subs o n = vstep c st (.vread base subs o n)) := by
  constructor
  · intro hne hov
    simp only [vreadLegacy, buildLegacy_overflow _ subs hne hov]
  · intro hok
    simp only [vreadLegacy, buildLegacy_ok _ subs hok, vstep]

/-! ### Non-vacuity: the hypotheses are satisfiable and the conclusions are about real behaviour -/

/-- the plain in-memory source satisfies both source hypotheses, for every file -/
example (F : List UInt8) : Faithful F (srcOf F) ∧ SourceOk F (srcOf F) :=
  ⟨faithful_srcOf F, sourceOk_srcOf F⟩

example : 0 < C13_legacyCfg.chunk ∧ C13_legacyFile.length < U64 := by decide

/-- the scenario of the repo's unit test `not_rounding_down_when_start_straddles_into_old_chunk`, on real
bytes: the third read is served from the second buffer (which starts mid-chunk at 6), the fourth from the
first. -/
example :
    let c := C13_legacyCfg
    let s1 := (readBytesAt c (St.init 20) 3 3).1      -- buffer 0 = [0, 8)
    let s2 := (readBytesAt c s1 6 5).1                -- start cached ⇒ buffer 1 = [6, 16)
    s2.mgr.bufRanges = [⟨⟨0, 8⟩, 0⟩, ⟨⟨6, 16⟩, 1⟩] ∧
    (readBytesAt c s2 6 2).2 = .ok [7, 8] ∧ (readBytesAt c s2 5 3).2 = .ok [6, 7, 8] ∧
    (readBytesAt c s2 18 2).2 = .ok [19, 20] ∧ (readBytesAt c s2 18 3).2 = .err .oob ∧
    (readBytesAtUntil c s2 ⟨4, 20⟩ 0).2 = .ok [5, 6, 7, 8, 9, 10, 11, 12] := by
  decide

/-- Why `C13_history_independent` needs `SourceOk`: with a deterministic source that fails on every request
touching byte 17, `until 10..20` fails on a fresh cache (it has to read the buffer `[8, 20)`), but succeeds
from the string cache after `until 10..14` (which only needed `[8, 16)`). Both answers are allowed by
`C13_step`; the cached one is simply more successful. Range reads do not show this. -/
example :
    let c : Cfg := ⟨8, fun o n => if o ≤ 17 ∧ 17 < o + n then none else srcOf C13_legacyFile o n⟩
    (readBytesAtUntil c (St.init 20) ⟨10, 20⟩ 0).2 = .err .source ∧
    (readBytesAtUntil c (St.init 20) ⟨10, 14⟩ 0).2 = .ok [11, 12] ∧
    (readBytesAtUntil c (readBytesAtUntil c (St.init 20) ⟨10, 14⟩ 0).1 ⟨10, 20⟩ 0).2 = .ok [11, 12] := by
  decide

/-- a real interleaving (chunk size 8, the 20-byte file): thread 0 makes a delimited read `4..20` (string at
4, delimiter at 12) and a range read; thread 1 reads `[6,11)` and then the same delimited range. Schedule:
T0 locks the string cache and misses; T1 runs its `buffer_manager` section (buffer 0 = `[0,16)`); T0's nested
`get_range_location` finds its start cached in T1's buffer and reads buffer 1 = `[4,20)` (`start_is_cached`);
T1 slices; T1 is blocked on the string-cache lock (its step is a no-op); T0 slices, finishes (inserting the
string) and releases; T1 gets the lock and hits the cache; T0's range read is served from buffer 1. All four
outcomes are the file's bytes. -/
example :
    let s := runSched C13_legacyCfg (Sys.init 20 [[.until_ ⟨4, 20⟩ 0, .read 18 2], [.read 6 5, .until_ ⟨4, 20⟩ 0]])
      [0, 1, 0, 1, 1, 0, 0, 1, 1, 0, 0]
    s.threads.map (·.done) =
      [[(.read 18 2, .ok [19, 20]), (.until_ ⟨4, 20⟩ 0, .ok [5, 6, 7, 8, 9, 10, 11, 12])],
       [(.until_ ⟨4, 20⟩ 0, .ok [5, 6, 7, 8, 9, 10, 11, 12]), (.read 6 5, .ok [7, 8, 9, 10, 11])]] ∧
    s.lock = none ∧ s.st.buffers.length = 2 ∧ s.threads.all (·.finished) = true := by
  decide

/-- the shared.rs layer on real bytes (chunk size 8): `range(2, 5).make_subrange(3, 1).make_subrange(1, 100)`
starts at 6 and reads past the sizes of all three views; the `ReadRef` impls reduce errors to `Err(())`;
`read_entire_data` after partial reads returns the whole file. -/
example :
    let c := C13_legacyCfg
    let s1 := (xstep c (St.init 20) (.view (.vread (some (2, 5)) [(3, 1), (1, 100)] 4 6))).1
    (xstep c (St.init 20) (.view (.vread (some (2, 5)) [(3, 1), (1, 100)] 4 6))).2 = .ok [11, 12, 0, 14, 15, 16] ∧
    (xstep c s1 (.view (.vread none [] 15 6))).2 = .err .discarded ∧
    (xstep c s1 (.view (.vuntil (some (2, 5)) [(2, 0)] ⟨0, 16⟩ 0))).2 = .ok [5, 6, 7, 8, 9, 10, 11, 12] ∧
    (xstep c s1 (.view (.wuntil ⟨4, 8⟩ 0))).2 = .err .discarded ∧
    (xstep c s1 (.view .entire)).2 = .ok C13_legacyFile ∧
    (xstep c s1 (.view (.vread (some (U64 - 1, 5)) [(1, 1)] 0 1))).2 = .err .discarded ∧
    (xstep c s1 (.view (.vread (some (U64 - 1, 5)) [] 1 1))).2 = .err .discarded := by
  decide

/-- `C13_total_after_success` on real bytes: a source that refuses every request touching byte 17; the read
`[10, 14)` succeeds (buffer `[8, 16)`), afterwards `[12, 19)` fails (it needs `[12, 20)`), and the sub-range
`[11, 13)` of the first read still succeeds. The plain source over a file is monotone. -/
example :
    let c : Cfg := ⟨8, fun o n => if o ≤ 17 ∧ 17 < o + n then none else srcOf C13_legacyFile o n⟩
    let s1 := (readBytesAt c (St.init 20) 10 4).1
    (readBytesAt c (St.init 20) 10 4).2 = .ok [11, 12, 0, 14] ∧
    (readBytesAt c s1 12 7).2 = .err .source ∧ (readBytesAt c (readBytesAt c s1 12 7).1 11 2).2 = .ok [12, 0] := by
  decide

example (F : List UInt8) : SrcMono (srcOf F) := by
  intro o n o' n' h h1 h2
  simp only [srcOf] at h ⊢
  split at h
  · have : o' + n' ≤ F.length := by omega
    simp [this]
  · simp at h
