import SamplyModel.Lemmas.ConvStacks
import SamplyModel.Lemmas.ConvJit
import SamplyModel.Lemmas.ConvHistFinal
import SamplyModel.Lemmas.ConvElide
import SamplyModel.Lemmas.ConvOrdered
import SamplyModel.Model.SvmaBias
/-!
# C02 — frames are attributed to the library mapped at that address at sample time

Model: `Model/Converter.lean` (`step` for MMAP2 / FORK: the per-process mapping queue `mapq`),
`Model/ConvFlush.lean` (`processOps` = `next_op_if_at_or_before` + `process_ops`, `flushBuffer`,
`convertStack` = first and second pass of `stack_converter.rs`).
Specification side: `ConvSpec.resolveDecl` / `ConvSpec.expectFrame` — among the mappings announced at or
before the sample's timestamp, the most recently announced one covering the lookup address that no later
announced mapping overlaps (or replaces at the same start address).

JIT frames: the functions declared by `/tmp/perf-<pid>.map` (`ConvSpec.pmDecl`: file order, cumulative relative
addresses inside the fake library) form the last level of the mapping hierarchy — a regular mapping wins over
a perf-map function covering the same address (`ConvSpec.resolveH`) — and every frame of a function classified
as JS is preceded by a label frame carrying the JS name (`ConvSpec.expandJs`).

The component theorems quantify over every queue (sorted by timestamp), every buffer of samples in nondecreasing
time order, every address and every stack. **`C02_history`** (end of the first part) is the end-to-end statement:
for every history inside the stated hypotheses the stacks of `views (run cfg rs)` are the judged specification
`expectedSamples cfg rs`; `C02_run_sorted`, `C02_queue_is_announced` and `C02_fork_inherits_run` discharge the
hypotheses of the component theorems (`SortedQ`, `Pairwise tmono`, `hkey`) for converter runs.
-/
open Conv ConvSpec

/-- The cut-off: exactly the queued mappings with timestamp `≤ ts` are applied before a sample at `ts`;
the rest stay queued. -/
theorem C02_cutoff (maps : List MapAdd) (q : List (Nat × MapAdd)) (ts : Nat) (hs : SortedQ q) :
    processOps maps q ts = (tableFrom maps q ts, q.filter (fun o => decide (o.1 > ts))) :=
  processOps_spec maps q ts hs

/-- A mapping whose record carries a later timestamp than the sample never changes the table used for it:
two queues with the same part at or before `ts` give the same table. -/
theorem C02_later_mapping_irrelevant (q q' : List (Nat × MapAdd)) (ts : Nat) (hs : SortedQ q) (hs' : SortedQ q')
    (h : q.filter (fun o => decide (o.1 ≤ ts)) = q'.filter (fun o => decide (o.1 ≤ ts))) :
    (processOps [] q ts).1 = (processOps [] q' ts).1 := by
  rw [C02_cutoff [] q ts hs, C02_cutoff [] q' ts hs']
  simp only [tableFrom, h]

/-- Every sample of a buffer is converted against the table of the mappings announced at or before *its own*
timestamp — independently of the samples flushed before it. -/
theorem C02_flush (pm : List MapAdd) (q : List (Nat × MapAdd)) (us : List USample) (hq : SortedQ q)
    (hu : us.Pairwise (fun a b => a.tmono ≤ b.tmono)) :
    flushBuffer pm [] q us = us.map (fun u => flushOne pm (tableFrom [] q u.tmono) u) :=
  flushBuffer_spec pm [] q us hq hu

/-- Attribution: each frame resolves by the declarative rule — user-mode frames to the newest live mapping
covering the lookup address (instruction pointer as is, return address minus one, saturating), with
relative address `relative start + (lookup address − start)`; addresses covered by no live mapping and
kernel-mode frames stay raw. -/
theorem C02_attribution (q : List (Nat × MapAdd)) (t : Nat) (f : SFrame) :
    convertFrame (tableFrom [] q t) f = expectFrame q t f :=
  convertFrame_eq_expect q t f

/-- Attribution through the whole hierarchy: with the perf-map functions `cands` (in file order) as last
level, the second pass yields, for every frame, the library / relative address **and** the JS classification
of the mapping the declarative rule `resolveH` names: a regular mapping announced at or before `t` if one
is live at the lookup address, else the last declared perf-map function covering it that no later line
displaced, else the raw address. -/
theorem C02_attribution_jit (q : List (Nat × MapAdd)) (t : Nat) (cands : List MapAdd) (f : SFrame) :
    secondPass (tableFrom [] q t) (cands.foldl applyAdd []) f = expectInfo q t cands f :=
  secondPass_eq_expect q t cands f

/-- The perf-map level the converter builds for a pid (`try_load_perf_map`, when it does not panic) is the
table of exactly the functions the file declares (`pmCands`: well-formed lines in file order, relative
address = sum of the earlier sizes), so `C02_attribution_jit` applies to it. No file ⇒ empty level. -/
theorem C02_perf_map_table (cfg : Config) (pid : Nat) (h : (loadPerfMap cfg pid).isSome = true) :
    perfMapTable cfg pid = (pmCands cfg pid).foldl applyAdd [] :=
  perfMapTable_eq cfg pid h

/-- The loader panics (debug build) exactly when a line's range leaves `u64` or the sizes (as `u32`) add up
beyond `u32`; malformed lines are skipped by `filterMap parsePmLine` and never matter. -/
theorem C02_perf_map_load_safe_iff (path : String) (ls : List PmLine) :
    (loadPmLines path [] 0 ls).isSome = true ↔
      (∀ l ∈ ls, l.addr + l.len < 2 ^ 64) ∧ (ls.map (fun l => l.len % 2 ^ 32)).sum < 2 ^ 32 := by
  have := loadPmLines_isSome_iff path [] 0 ls (by decide)
  simpa using this

/-- Regular mappings win: where a regular mapping is live the perf map is not consulted; elsewhere the
perf-map rule decides alone. -/
theorem C02_hierarchy (q : List (Nat × MapAdd)) (t : Nat) (pm : List MapAdd) (a : Nat) :
    (∀ m, resolveDecl q t a = some m → resolveH q t pm a = some m) ∧
    (resolveDecl q t a = none → resolveH q t pm a = resolveDecl.go a pm) := by
  unfold resolveH
  constructor
  · intro m h; rw [h]
  · intro h; rw [h]

theorem C02_lookup_address (a : Nat) (k : Bool) :
    (SFrame.ip a k).lookupAddr = a ∧ (SFrame.ret a k).lookupAddr = a - 1 := ⟨rfl, rfl⟩

/-- What the declarative rule yields: a mapping announced at or before `t` that covers the address and is not
overlapped by any later mapping announced at or before `t`. -/
theorem C02_resolve_sound (q : List (Nat × MapAdd)) (t a : Nat) (m : MapAdd) (h : resolveDecl q t a = some m) :
    m ∈ (q.filter (fun e => decide (e.1 ≤ t))).map (·.2) ∧ m.start ≤ a ∧ a < m.end_ := by
  unfold resolveDecl at h
  rw [go_eq_find] at h
  have hm := List.mem_of_find?_eq_some h
  have hc := List.find?_some h
  simp only [covers, Bool.and_eq_true, decide_eq_true_eq] at hc
  exact ⟨mem_live hm, hc.1, hc.2⟩

/-- The same for the hierarchy: what `resolveH` yields is a regular mapping announced at or before `t`, or —
only if no regular mapping is live at the address — a function the perf map declares; it covers the address. -/
theorem C02_resolve_sound_jit (q : List (Nat × MapAdd)) (t : Nat) (pm : List MapAdd) (a : Nat) (m : MapAdd)
    (h : resolveH q t pm a = some m) :
    (m ∈ (q.filter (fun e => decide (e.1 ≤ t))).map (·.2) ∨ (resolveDecl q t a = none ∧ m ∈ pm)) ∧
      m.start ≤ a ∧ a < m.end_ := by
  unfold resolveH at h
  cases hr : resolveDecl q t a with
  | some r =>
    rw [hr] at h
    simp only [Option.some.injEq] at h
    subst h
    have := C02_resolve_sound q t a r hr
    exact ⟨Or.inl this.1, this.2⟩
  | none =>
    rw [hr] at h
    simp only at h
    rw [go_eq_find] at h
    have hm := List.mem_of_find?_eq_some h
    have hc := List.find?_some h
    simp only [covers, Bool.and_eq_true, decide_eq_true_eq] at hc
    exact ⟨Or.inr ⟨rfl, mem_live hm⟩, hc.1, hc.2⟩

/-- … and it is complete: if some announced mapping covers the address and nothing announced later (at or
before `t`) overlaps it, the address is resolved (to that mapping: live mappings covering one address are
unique). -/
theorem C02_resolve_complete (cands : List MapAdd) (a : Nat) (pre later : List MapAdd) (m : MapAdd)
    (hsplit : cands = pre ++ m :: later) (hc : covers m a = true) (hl : later.any (overlaps m) = false) :
    resolveDecl.go a cands = some m := by
  subst hsplit
  induction pre with
  | nil =>
    simp only [List.nil_append]
    unfold resolveDecl.go
    have hnone : resolveDecl.go a later = none := by
      rw [go_eq_find, List.find?_eq_none]
      intro r hr hcr
      have : later.any (overlaps m) = true := by
        rw [List.any_eq_true]; exact ⟨r, mem_live hr, covers_overlap hc hcr⟩
      rw [hl] at this; cases this
    rw [hnone]; simp [hc, hl]
  | cons x xs ih =>
    simp only [List.cons_append]
    unfold resolveDecl.go
    rw [ih]

/-- Completeness through the hierarchy: where no regular mapping is live, a declared perf-map function that
covers the address and that no later line displaces is the one the address resolves to. -/
theorem C02_resolve_complete_jit (q : List (Nat × MapAdd)) (t a : Nat) (pre later : List MapAdd) (m : MapAdd)
    (hreg : resolveDecl q t a = none) (hc : covers m a = true) (hl : later.any (overlaps m) = false) :
    resolveH q t (pre ++ m :: later) a = some m := by
  unfold resolveH
  rw [hreg]
  exact C02_resolve_complete _ a pre later m rfl hc hl

/-- Call-chain order: the emitted frame list is the root-first list of the recorded frames (the chain
reversed, each frame attributed by the second pass) with every JS-classified frame expanded to label frame +
native frame (`expandJs`, the declarative look-back rule); nothing else is dropped or invented: between one
and two frames per recorded frame, and exactly the attributed frames when no frame is JS-classified. -/
theorem C02_order (maps pm : List MapAdd) (stack : List SFrame) :
    convertStack maps pm stack = expandJs ((stack.map (secondPass maps pm)).reverse) ∧
    stack.length ≤ (convertStack maps pm stack).length ∧
    (convertStack maps pm stack).length ≤ 2 * stack.length ∧
    ((∀ f ∈ stack, (secondPass maps pm f).js = none) →
      convertStack maps pm stack = (stack.map (fun f => (secondPass maps pm f).frame)).reverse) := by
  have hrev : stack.reverse.map (secondPass maps pm) = (stack.map (secondPass maps pm)).reverse := by
    rw [List.map_reverse]
  unfold convertStack convertStackX
  simp only [Option.toList_none, List.nil_append]
  refine ⟨?_, ?_, ?_, ?_⟩
  · rw [emitJs_eq_expandJs, hrev]
  · have := (emitJs_length none (stack.reverse.map (secondPass maps pm))).1
    simpa using this
  · have := (emitJs_length none (stack.reverse.map (secondPass maps pm))).2
    simpa using this
  · intro h
    rw [emitJs_no_js]
    · simp [List.map_reverse]
    · intro i hi
      simp only [List.mem_map, List.mem_reverse] at hi
      obtain ⟨f, hf, rfl⟩ := hi
      exact h f hf

/-- Without a perf map the conversion is the regular-library attribution frame by frame (the statement of
`C02_order` before JIT frames were modelled). -/
theorem C02_order_regular (maps : List MapAdd) (stack : List SFrame)
    (hjs : ∀ m ∈ maps, m.js = none) :
    convertStack maps [] stack = (stack.map (convertFrame maps)).reverse ∧
    (convertStack maps [] stack).length = stack.length := by
  have hno : ∀ f ∈ stack, (secondPass maps [] f).js = none := by
    intro f _
    unfold secondPass lookupH
    simp only
    split
    · rfl
    · cases hl : lookupMap maps f.lookupAddr with
      | none => simp [lookupMap]
      | some m =>
        simp only
        exact hjs m (List.mem_of_find?_eq_some hl)
  have h := (C02_order maps [] stack).2.2.2 hno
  refine ⟨by rw [h]; rfl, by rw [h]; simp⟩

/-- A forked process starts with exactly the parent's announced mappings (`hkey`: the process table is keyed
by the processes' own pids — an invariant of every reachable state, see `Lemmas/ConvInv.lean`). -/
theorem C02_fork_inherits (s : St) (pid tid ppid ptid t : Nat) (h : pid ≠ ppid)
    (hkey : ∀ p, alGet (getByPid s ppid).1.procs pid = some p → p.pid = pid) :
    ((alGet (step s (.fork pid tid ppid ptid t)).procs pid).map (·.mapq)) =
      some (getByPid s ppid).2.mapq := by
  have hp : (getNewProc (getByPid s ppid).1 pid (getByPid s ppid).2.name (conv s t)).2.pid = pid := by
    unfold getNewProc
    split
    · dsimp only
      split <;> rfl
    · rename_i p hp; exact hkey p hp
  simp only [step, h, ne_eq, not_false_eq_true, if_true]
  simp [putProc, alPut, alGet, hp]

/-- The queue of a process only grows at its end, with the timestamp of the MMAP2 record: so in a
time-ordered record stream it stays sorted (`SortedQ`), which is the hypothesis of the theorems above. -/
theorem C02_queue_push_sorted (q : List (Nat × MapAdd)) (t : Nat) (m : MapAdd) (hq : SortedQ q)
    (hle : ∀ o ∈ q, o.1 ≤ t) : SortedQ (q ++ [(t, m)]) := by
  unfold SortedQ at *
  rw [List.pairwise_append]
  refine ⟨hq, List.pairwise_singleton _ _, ?_⟩
  intro a ha b hb
  simp only [List.mem_singleton] at hb
  subst hb
  exact hle a ha

/-! ## Histories

The hypotheses of `C02_history` (all decidable on the configuration and the bare record list):

* `cfg.reuse = false` — default options (the judge answers not-applicable otherwise);
* `Life.grammarOk cfg.ref rs` — the FORK / EXEC clauses of the record grammar (the predicate of `judgeC17`). What
  the proof uses of it is "no FORK onto a live pid" (known finding C02-fork-onto-live-pid: the judge tags failures
  of pids in `Life.forkOntoLive`, which is empty inside `grammarOk`: `C02_grammar_no_fork_onto_live`) and "EXEC on
  main threads only";
* `hasCsRec rs = false` — no context-switch records / `sched_switch` samples (the C02 generator writes none; with
  them synthesized off-CPU samples, stamped with the begin of the sleep, enter the buffers);
* `noSpecial rs` — no executable MMAP2 record names `//anon`, `[heap]`, `[stack]`, `[vvar]` (known finding
  C02-special-path-not-evicting; the judge's tag compares with `ExpSample.legacySp`, which coincides with the
  statement's reading exactly here: `C02_noSpecial_legacySp`);
* `queuedOrdered rs` — MMAP2 and SAMPLE records are delivered in time order (known finding C02-backdated-record;
  the `layout` families are the excluded points; the judge's tag compares with `ExpSample.legacyQ`, which
  coincides with the statement's reading here: `C02_ordered_legacyQ`);
* every perf-map file loads without arithmetic panic (`C02_perf_map_load_safe_iff`; the driver prints `panic`
  otherwise).

Not needed: anything about C02-mmap-arith-panic (`recSafe`): the statement is about `views`, the panic outcome of
the model is the separate flag `perfMapsSafe` / `recSafe` of the driver. -/

/-- **History-level attribution.** For every configuration with default options and every record history inside
the hypotheses above, the recorded samples of the output — keyed by the pid / tid their entry carries and their
profile time — have exactly the stacks of the judged specification `expectedSamples cfg rs` (per-pid announcement
lists inherited at FORK, dropped at EXIT / EXEC of the main thread, same-timestamp look-ahead, regular mappings
before perf-map functions, JS label expansion), passed through the depth limiter with the recorded stack length as
hint. As multisets: nothing is lost, nothing invented. -/
theorem C02_history (cfg : Config) (rs : List Rec) (hr : cfg.reuse = false)
    (hg : Life.grammarOk cfg.ref rs = true) (hcs : hasCsRec rs = false) (hsp : noSpecial rs = true)
    (hord : queuedOrdered rs = true) (hpm : ∀ pid, (loadPerfMap cfg pid).isSome = true) :
    List.Perm
      ((views (run cfg rs)).flatMap (fun v => (v.samples.filter (fun o => !o.synth)).map
        (fun o => (v.pidBase, v.tidBase, o.t, o.frames))))
      ((expectedSamples cfg rs).map
        (fun e => (e.pid, e.tid, e.t - cfg.ref, depthLimit depthN e.frames e.nrec))) :=
  history_views cfg rs hr hg hcs hsp hord hpm

/-- Below the depth limit (every recorded stack shorter than 500 frames — what `judgeC02` compares literally) the
output stacks **are** `expectedStacks cfg rs`. -/
theorem C02_history_stacks (cfg : Config) (rs : List Rec) (hr : cfg.reuse = false)
    (hg : Life.grammarOk cfg.ref rs = true) (hcs : hasCsRec rs = false) (hsp : noSpecial rs = true)
    (hord : queuedOrdered rs = true) (hpm : ∀ pid, (loadPerfMap cfg pid).isSome = true)
    (hshallow : ∀ e ∈ expectedSamples cfg rs, e.nrec < 500) :
    List.Perm
      ((views (run cfg rs)).flatMap (fun v => (v.samples.filter (fun o => !o.synth)).map
        (fun o => (v.pidBase, v.tidBase, o.t, o.frames))))
      ((expectedStacks cfg rs).map (fun x => (x.1, x.2.1, x.2.2.1 - cfg.ref, x.2.2.2))) := by
  refine (C02_history cfg rs hr hg hcs hsp hord hpm).trans (List.Perm.of_eq ?_)
  unfold expectedStacks
  rw [List.map_map]
  apply List.map_congr_left
  intro e he
  have hn := hshallow e he
  have : depthLimit depthN e.frames e.nrec = e.frames := by
    unfold depthLimit shouldElide depthN
    have : ¬ e.nrec ≥ 200 + 200 + 200 / 2 := by omega
    simp only [this, if_false]
  simp only [Function.comp, this]

/-- Link (a) of the review: the pending mapping queue of the process bound to a pid is the specification's
announcement list `annStep` for that pid (an unbound pid has the empty list). -/
theorem C02_queue_is_announced (cfg : Config) (rs : List Rec) (hr : cfg.reuse = false)
    (hg : Life.grammarOk cfg.ref rs = true) (hcs : hasCsRec rs = false) (hsp : noSpecial rs = true)
    (hord : queuedOrdered rs = true) (pid : Nat) :
    ((alGet (run cfg rs).procs pid).map (·.mapq)).getD [] = (alGet (rs.foldl (annStep cfg) []) pid).getD [] := by
  obtain ⟨h, _, _⟩ := hist_run cfg rs hr hg hcs hsp hord
  rw [← pobs_mapq]
  exact h.q pid

/-- Link (b): under time-ordered delivery every buffer the final flush sees — parked or live — has a queue sorted
by timestamp and samples in nondecreasing raw time: the hypotheses of `C02_cutoff` / `C02_flush` hold for
converter runs. -/
theorem C02_run_sorted (cfg : Config) (rs : List Rec) (hr : cfg.reuse = false)
    (hg : Life.grammarOk cfg.ref rs = true) (hcs : hasCsRec rs = false) (hsp : noSpecial rs = true)
    (hord : queuedOrdered rs = true) :
    ∀ b ∈ allBuffers (run cfg rs), SortedQ b.2.1 ∧ b.1.Pairwise (fun a b => a.tmono ≤ b.tmono) := by
  obtain ⟨h, ⟨T, hs⟩, _⟩ := hist_run cfg rs hr hg hcs hsp hord
  exact allBuffers_sorted h.inv hs

/-- Link (c): `C02_fork_inherits` for every reachable state — its hypothesis `hkey` is part of the state
invariant (`C01_state_valid`). -/
theorem C02_fork_inherits_run (cfg : Config) (rs : List Rec) (pid tid ppid ptid t : Nat) (h : pid ≠ ppid) :
    ((alGet (step (run cfg rs) (.fork pid tid ppid ptid t)).procs pid).map (·.mapq)) =
      some (getByPid (run cfg rs) ppid).2.mapq := by
  refine C02_fork_inherits (run cfg rs) pid tid ppid ptid t h ?_
  intro p hp
  obtain ⟨g1, _⟩ := getByPid_spec (run_sim cfg rs).inv (show getByPid (run cfg rs) ppid = (_, _) from rfl)
  exact (g1.inv.get hp).1

/-- Inside `grammarOk` no FORK names a live pid: the `[fork-onto-live-pid]` tag of the judge is never attached
to a history `C02_history` speaks about. -/
theorem C02_grammar_no_fork_onto_live (cfg : Config) (rs : List Rec) (hg : Life.grammarOk cfg.ref rs = true) :
    Life.forkOntoLive cfg.ref rs = [] :=
  forkOntoLive_of_grammar cfg.ref rs hg

/-- Without special-path records the spec-side reading of samply's present mechanism for them (`legacySp`) *is* the
statement's reading: the judge's `[special-path-not-evicting]` tag (attached only when the output equals a
`legacySp` that differs from `frames`) is never attached to a history `C02_history` speaks about. -/
theorem C02_noSpecial_legacySp (cfg : Config) (rs : List Rec) (h : noSpecial rs = true) :
    ∀ e ∈ expectedSamples cfg rs, e.legacySp = e.frames :=
  expectedSamples_go_legacySp cfg rs h [] [] []

/-- Inside `noSpecial` and `queuedOrdered` the spec-side reading of samply's present queue mechanism (`legacyQ`:
queue *prefix* against the running maximum of the buffer's sample times) is the statement's reading (cut-off by
timestamp): the judge's `[backdated-record]` tag (attached only when the output equals a `legacyQ` that differs from
`frames`) is never attached to a history `C02_history` speaks about. -/
theorem C02_ordered_legacyQ (cfg : Config) (rs : List Rec) (h1 : noSpecial rs = true)
    (h2 : queuedOrdered rs = true) : ∀ e ∈ expectedSamples cfg rs, e.legacyQ = e.frames :=
  expectedSamples_legacyQ cfg rs h1 h2

/-! ### Non-vacuity: nested, replaced and adjacent mappings -/
def C02_exQ : List (Nat × MapAdd) :=
  [(10, ⟨0x1000, 0x5000, 0, "a", none⟩), (20, ⟨0x2000, 0x3000, 0x100, "b", none⟩), (30, ⟨0x5000, 0x6000, 0, "c", none⟩)]

example : SortedQ C02_exQ := by unfold SortedQ C02_exQ; decide
example : resolveDecl C02_exQ 15 0x2800 = some ⟨0x1000, 0x5000, 0, "a", none⟩ := by decide
example : resolveDecl C02_exQ 20 0x2800 = some ⟨0x2000, 0x3000, 0x100, "b", none⟩ := by decide
-- the nested mapping displaced the outer one entirely: the rest of the old range is unmapped now
example : resolveDecl C02_exQ 25 0x4000 = none := by decide
example : expectFrame C02_exQ 30 (.ret 0x5000 false) = .raw 0x4fff := by decide
example : expectFrame C02_exQ 30 (.ip 0x5000 false) = .lib "c" 0 := by decide

/-! ### Non-vacuity: a perf map with a displaced function, a regular mapping that wins, JS label frames -/
def C02_exLines : List (List Char) :=
  ["5000 10 py::f".toList, "not a line".toList, "0x5010 0x20 Builtin:x".toList, "7000 40 Interpreter: run (a.js:3:4)".toList,
   "7010 10 Ion: late".toList, "2800 10 py::shadowed".toList]

def C02_exPm : List MapAdd := pmDecl "/tmp/perf-100.map" 0 (C02_exLines.filterMap parsePmLine)

example : (C02_exLines.filterMap parsePmLine).length = 5 := by decide
example : C02_exPm.map (·.rel) = [0, 0x10, 0x30, 0x70, 0x80] := by decide
example : loadPmLines "/tmp/perf-100.map" [] 0 (C02_exLines.filterMap parsePmLine) = some (C02_exPm.foldl applyAdd []) := by
  decide
-- a regular mapping covers 0x2800: the perf-map function declared there is never consulted
example : (resolveH C02_exQ 20 C02_exPm 0x2800).map (·.lib) = some "b" := by decide
-- before the regular mappings are announced the perf-map function resolves
example : (resolveH C02_exQ 5 C02_exPm 0x2800).map (fun m => (m.lib, m.rel)) = some ("/tmp/perf-100.map", 0x80) := by decide
-- "Ion: late" [0x7010, 0x7020) displaced the whole of "Interpreter: run" [0x7000, 0x7040)
example : resolveH C02_exQ 30 C02_exPm 0x7008 = none := by decide
example : (expectInfo C02_exQ 30 C02_exPm (.ret 0x7020 false)) =
    { frame := .lib "/tmp/perf-100.map" 0x7f, js := some (.regular (.nonSelfHosted "late")) } := by decide
example : expandJs [expectInfo C02_exQ 25 C02_exPm (.ip 0x5001 false), expectInfo C02_exQ 25 C02_exPm (.ret 0x5011 false),
      expectInfo C02_exQ 25 C02_exPm (.ret 0x9000 false)] =
    [.label "f", .lib "/tmp/perf-100.map" 1, .lib "/tmp/perf-100.map" 0x10, .raw 0x8fff] := by decide
-- the baseline-interpreter hand-over: regular x, plain, BaselineInterpreter (takes x), BaselineInterpreter (nothing left)
example : expandJs [⟨.raw 1, some (.regular (.nonSelfHosted "x"))⟩, ⟨.raw 2, none⟩, ⟨.raw 3, some .baselineInterp⟩,
      ⟨.raw 4, some .baselineInterp⟩, ⟨.raw 5, some (.stub (.selfHosted "s"))⟩] =
    [.label "x", .raw 1, .raw 2, .label "x", .raw 3, .raw 4, .raw 5] := by decide
-- arithmetic panics of the loader
example : loadPmLines "p" [] 0 [⟨2 ^ 64 - 1, 1, ['f']⟩] = none := by decide
example : loadPmLines "p" [] 0 [⟨0, 2 ^ 32 - 1, ['f']⟩, ⟨0, 1, ['g']⟩] = none := by decide
example : (loadPmLines "p" [] 0 [⟨0, 2 ^ 32, ['f']⟩, ⟨0, 1, ['g']⟩]).isSome = true := by decide

/-! ## Segment-based attribution (the mapped file is present on disk)

Model: `Model/SvmaBias.lean`. The relative start of a mapping is the stated address (SVMA) of the file
byte at the mapping's first page minus the image base — computed through the first segment that encompasses
the mapped file range (or is encompassed by it), so SVMA gaps between segments are honoured. -/

/-- If the reference contribution `c` lies at or before the mapping in the file (it encompasses the mapped
range, the usual case) and nothing wraps, then `relStart + baseSvma + c.fileOff = c.svma + off`, i.e.
`relStart = svma(first mapped byte) − baseSvma`; hence for every address `a` of the mapping
`relStart + (a − start) = c.svma + (fileOffset(a) − c.fileOff) − baseSvma` with
`fileOffset(a) = off + (a − start)`. -/
theorem C02_bias (fi : SvmaBias.FileInfo) (off avma size : Nat) (c : SvmaBias.Contribution)
    (hw : SvmaBias.rangesWrap fi.contribs off size = false)
    (hc : SvmaBias.refContribution fi.contribs off size = some c) (hle : c.fileOff ≤ off)
    (h1 : off - c.fileOff ≤ avma) (h2 : avma < SvmaBias.U64)
    (h3 : c.svma ≤ avma - (off - c.fileOff))
    (h4 : fi.baseSvma ≤ c.svma + (off - c.fileOff))
    (h5 : c.svma + (off - c.fileOff) - fi.baseSvma < 2 ^ 32) :
    ∃ r, SvmaBias.relStart fi off avma size = .ok r ∧ r + fi.baseSvma + c.fileOff = c.svma + off := by
  have hU : SvmaBias.U64 = 18446744073709551616 := by decide
  have hP : (2 : Nat) ^ 32 = 4294967296 := by decide
  have hng : ¬ c.fileOff > off := by omega
  have hnl : ¬ avma < off - c.fileOff := by omega
  -- bias = avma − (off − c.fileOff) − c.svma, exactly
  have hbias : (avma - (off - c.fileOff) + SvmaBias.U64 - c.svma) % SvmaBias.U64
      = avma - (off - c.fileOff) - c.svma := by
    have : avma - (off - c.fileOff) + SvmaBias.U64 - c.svma
        = (avma - (off - c.fileOff) - c.svma) + SvmaBias.U64 := by omega
    rw [this, Nat.add_mod_right, Nat.mod_eq_of_lt (by omega)]
  have hbase : (fi.baseSvma + (avma - (off - c.fileOff) - c.svma)) % SvmaBias.U64
      = fi.baseSvma + (avma - (off - c.fileOff) - c.svma) := Nat.mod_eq_of_lt (by omega)
  refine ⟨avma - (fi.baseSvma + (avma - (off - c.fileOff) - c.svma)), ?_, by omega⟩
  unfold SvmaBias.relStart SvmaBias.computeBias
  simp only [hw, Bool.false_eq_true, hc, hng, hnl, if_false, hbias, hbase]
  have hnb : ¬ fi.baseSvma + (avma - (off - c.fileOff) - c.svma) > avma := by omega
  simp only [hnb, if_false]
  congr 1
  exact Nat.mod_eq_of_lt (by omega)

/-- The other branch of `compute_vma_bias_impl` (svma_file_range.rs:179-180): the mapping starts *before* the
reference contribution in the file (`c.fileOff > off`: the mapping encompasses the segment, the d8 case of the
source comments). Then the contribution sits `c.fileOff − off` bytes into the mapping and
`relStart + baseSvma + (c.fileOff − off) = c.svma`: the relative start is the stated address the first mapped
byte *would* have, `c.svma − (c.fileOff − off) − baseSvma`. -/
theorem C02_bias_before (fi : SvmaBias.FileInfo) (off avma size : Nat) (c : SvmaBias.Contribution)
    (hw : SvmaBias.rangesWrap fi.contribs off size = false)
    (hc : SvmaBias.refContribution fi.contribs off size = some c) (hgt : c.fileOff > off)
    (h1 : avma + (c.fileOff - off) < SvmaBias.U64)
    (h3 : c.svma ≤ avma + (c.fileOff - off))
    (h4 : fi.baseSvma + (c.fileOff - off) ≤ c.svma)
    (h5 : c.svma - (c.fileOff - off) - fi.baseSvma < 2 ^ 32) :
    ∃ r, SvmaBias.relStart fi off avma size = .ok r ∧ r + fi.baseSvma + (c.fileOff - off) = c.svma := by
  have hU : SvmaBias.U64 = 18446744073709551616 := by decide
  have hP : (2 : Nat) ^ 32 = 4294967296 := by decide
  have hnw : ¬ avma + (c.fileOff - off) ≥ SvmaBias.U64 := by omega
  have hbias : (avma + (c.fileOff - off) + SvmaBias.U64 - c.svma) % SvmaBias.U64
      = avma + (c.fileOff - off) - c.svma := by
    have : avma + (c.fileOff - off) + SvmaBias.U64 - c.svma
        = (avma + (c.fileOff - off) - c.svma) + SvmaBias.U64 := by omega
    rw [this, Nat.add_mod_right, Nat.mod_eq_of_lt (by omega)]
  have hbase : (fi.baseSvma + (avma + (c.fileOff - off) - c.svma)) % SvmaBias.U64
      = fi.baseSvma + (avma + (c.fileOff - off) - c.svma) := Nat.mod_eq_of_lt (by omega)
  refine ⟨avma - (fi.baseSvma + (avma + (c.fileOff - off) - c.svma)), ?_, by omega⟩
  unfold SvmaBias.relStart SvmaBias.computeBias
  simp only [hw, Bool.false_eq_true, hc, hgt, hnw, if_true, if_false, hbias, hbase]
  have hnb : ¬ fi.baseSvma + (avma + (c.fileOff - off) - c.svma) > avma := by omega
  simp only [hnb, if_false]
  congr 1
  exact Nat.mod_eq_of_lt (by omega)

/-- No reference contribution ⇒ the mapping is not added at all (the frames stay raw). -/
theorem C02_bias_not_found (fi : SvmaBias.FileInfo) (off avma size : Nat)
    (hw : SvmaBias.rangesWrap fi.contribs off size = false)
    (hc : SvmaBias.refContribution fi.contribs off size = none) :
    SvmaBias.relStart fi off avma size = .notFound := by
  simp [SvmaBias.relStart, SvmaBias.computeBias, hc, hw]

/-- A mapped file range that wraps `u64` (page offset within `size` of 2^64) makes the unchecked additions of
`encompasses_file_range` overflow: the debug build panics (excluded point of `C02_bias`; `decide`). -/
theorem C02_bias_wrap_panics :
    SvmaBias.relStart ⟨0, [⟨0, 0, 0x6000⟩]⟩ (2 ^ 64 - 0x1000) 0x400000 0x2000 = .panic := by decide

/-- the d8 shape: a mapping that starts one page before its segment in the file -/
example : SvmaBias.relStart ⟨0, [⟨0x1000, 0x1000, 0x3000⟩]⟩ 0 0x7f0000000000 0x5000 = .ok 0 ∧
    SvmaBias.relStart ⟨0x1000, [⟨0x3000, 0x2000, 0x1000⟩]⟩ 0x1000 0x7f0000000000 0x3000 = .ok 0x1000 := by decide

/-! ### Non-vacuity: the "hard case" of svma_file_range.rs (SVMA gap between segments) and the repo's own
unit-test vector -/
def C02_jsSegments : List SvmaBias.Contribution :=
  [⟨0x0, 0x0, 0x14bd0bc⟩, ⟨0x14be0c0, 0x14bd0c0, 0xf5bf60⟩, ⟨0x241b020, 0x2419020, 0x08e920⟩, ⟨0x24aa940, 0x24a7940, 0x002d48⟩]

example : SvmaBias.computeBias C02_jsSegments 0x14bd0c0 0x100014be0c0 0xf5bf60 = .ok 0x10000000000 := by decide
example : SvmaBias.computeBias C02_jsSegments 0x14bd000 0x55d605384000 0xf5d000 = .ok 0x55d603ec6000 := by decide
example : SvmaBias.relStart ⟨0, [⟨0, 0, 0x2000⟩, ⟨0x3000, 0x2000, 0x3000⟩]⟩ 0x2000 0x7f0000003000 0x3000 = .ok 0x3000 := by
  decide

/-! ### Non-vacuity of `C02_history`: a history with fork inheritance, a same-timestamp mapping that arrives after
the sample, an exec that drops the mappings, and a perf map -/
def C02_exCfg : Config := { ref := 1000, perfMaps := [(100, ["5000 10 py::f".toList])] }

def C02_exHistory : List Rec :=
  [.comm 100 100 "app" false 1000,
   .mmap2 100 100 0x400000 0x2000 0 true "libfoo.so" 1100,
   .fork 200 200 100 100 1200,
   .sample 200 200 1300 false 1 0x400100 [CTX_USER, 0x400100, 0x401000, 0x5001],
   .mmap2 200 200 0x600000 0x1000 0 true "libbar.so" 1300,
   .sample 200 200 1400 false 1 0x600010 [],
   .comm 200 200 "other" true 1500,
   .sample 200 200 1600 false 1 0x400100 [],
   .sample 100 100 1700 false 1 0x5002 []]

example : Life.grammarOk C02_exCfg.ref C02_exHistory = true ∧ hasCsRec C02_exHistory = false ∧
    noSpecial C02_exHistory = true ∧ queuedOrdered C02_exHistory = true ∧
    (loadPerfMap C02_exCfg 100).isSome = true := by decide
example : (expectedStacks C02_exCfg C02_exHistory).map (fun x => (x.1, x.2.2.1, x.2.2.2)) =
    [(200, 1300, [.raw 0x5000, .lib "libfoo.so" 0xfff, .lib "libfoo.so" 0x100]),
     (200, 1400, [.lib "libbar.so" 0x10]),
     (200, 1600, [.raw 0x400100]),
     (100, 1700, [.label "f", .lib "/tmp/perf-100.map" 2])] := by decide
