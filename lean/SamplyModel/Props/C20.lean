import SamplyModel.Lemmas.AsmDecode
/-!
# C20 — `/asm/v1` returns a gap-free, in-range instruction listing of the requested bytes

Model: `SamplyModel/Model/AsmDecode.lean` (follows `samply-api/src/asm/mod.rs` after the repairs 2d669439 /
b11d9ebc and `samply-symbols/src/binary_image.rs:218-294`).

All theorems are parametric in the decoder oracle `dec : Nat → Dec` (what yaxpeax returns at absolute
position `p` of the byte slice) and only assume `OracleOK bytesLen dec`: a decoded instruction is at least one
byte long and lies inside the slice. There is no bound on the slice length, the requested length or the
number of instructions. `adjust` is the architecture's `ADJUST_BY_AFTER_ERROR` (≥ 1 for all four).

Only property theorems (names `C20_*`) and non-vacuity examples live in this file.
-/
open Asm

/-- **Offsets.** The listed offsets start at 0, are strictly increasing, each lies below the decode length,
and every next offset is the previous offset plus the length of the previous instruction (as decoded by
the oracle at that very offset) or plus `ADJUST_BY_AFTER_ERROR` after an undecodable one — so no byte is
skipped and none is decoded twice. (`chainOk … = true` is the same statement as one decidable check; it is
what the judge evaluates on the implementation's response.) -/
theorem C20_offsets (adjust decodeLen bytesLen : Nat) (dec : Nat → Dec)
    (hor : OracleOK bytesLen dec) (hadj : 1 ≤ adjust) (items : List Item) (final : Nat)
    (h : decode adjust decodeLen bytesLen dec = .done items final) :
    (∀ a, items.head? = some a → a.off = 0) ∧
    items.Pairwise (fun a b => a.off < b.off) ∧
    (∀ it ∈ items, it.off < decodeLen) ∧
    (∀ i a b, items[i]? = some a → items[i + 1]? = some b →
        ∃ s, stepAt dec adjust a = some s ∧ b.off = a.off + s) ∧
    chainOk dec adjust decodeLen 0 items final = true := by
  have hc := loop_chain adjust decodeLen bytesLen dec hor hadj _ _ _ _ h
  refine ⟨?_, chain_pairwise _ _ _ hc, fun it hit => ((chain_bounds _ _ _ hc).2 it hit).2,
    chain_consecutive _ _ _ hc, hc⟩
  intro a ha
  cases items with
  | nil => simp at ha
  | cons it rest =>
    simp only [List.head?_cons, Option.some.injEq] at ha
    subst ha
    exact (chain_cons hc).1

/-- **Termination.** The loop of `decode` always ends: from any offset, `decode_len − offset + 1` iterations
suffice (every instruction is ≥ 1 byte and the resynchronisation step is ≥ 1), so the model's fuel
`decode_len + 1` is never exhausted. -/
theorem C20_terminates (adjust decodeLen bytesLen : Nat) (dec : Nat → Dec)
    (hor : OracleOK bytesLen dec) (hadj : 1 ≤ adjust) :
    (∀ fuel offset, decodeLen - offset < fuel → loop adjust decodeLen bytesLen dec fuel offset ≠ .nofuel) ∧
    decode adjust decodeLen bytesLen dec ≠ .nofuel :=
  ⟨loop_fuel adjust decodeLen bytesLen dec hor hadj,
   loop_fuel adjust decodeLen bytesLen dec hor hadj _ _ (by omega)⟩

/-- **Size.** When at least one instruction is listed, the reported `size` extends past the offset of the
last listed instruction: it is that offset plus the instruction's length (or the resync step). -/
theorem C20_size (adjust decodeLen bytesLen : Nat) (dec : Nat → Dec)
    (hor : OracleOK bytesLen dec) (hadj : 1 ≤ adjust) (items : List Item) (size : Nat)
    (h : decode adjust decodeLen bytesLen dec = .done items size) (last : Item)
    (hl : items.getLast? = some last) :
    last.off < size ∧ ∃ s, stepAt dec adjust last = some s ∧ size = last.off + s := by
  have hc := loop_chain adjust decodeLen bytesLen dec hor hadj _ _ _ _ h
  obtain ⟨s, hs, hs1, hf⟩ := chain_last _ _ _ hc last hl
  exact ⟨by omega, s, hs, hf⟩

/-- **Completeness.** The listing is not cut short: it ends only when the requested length is covered, when
the decoder ran out of input at the end position, or when resynchronising stepped past the slice. -/
theorem C20_complete (adjust decodeLen bytesLen : Nat) (dec : Nat → Dec) (items : List Item) (size : Nat)
    (h : decode adjust decodeLen bytesLen dec = .done items size) :
    decodeLen ≤ size ∨ dec size = .exhausted ∨ bytesLen < size :=
  loop_complete adjust decodeLen bytesLen dec _ _ _ _ h

/-- **No panic in the decode loop.** None of `offset += after − before`, `offset += ADJUST`,
`&bytes[offset as usize..]` overflows `u32` or slices out of range, provided the slice is shorter than
4 GiB − ADJUST (hypothesis `hlen`; a longer slice cannot be produced here: it needs a ≥ 4 GiB section). -/
theorem C20_no_panic (adjust decodeLen bytesLen : Nat) (dec : Nat → Dec)
    (hor : OracleOK bytesLen dec) (hlen : bytesLen + adjust ≤ u32max) :
    decode adjust decodeLen bytesLen dec ≠ .panic :=
  loop_no_panic adjust decodeLen bytesLen dec hor hlen _ _ (Nat.zero_le _)

/-- **Request arithmetic.** The decode length is the requested size, or the distance to the end of the
enclosing function when continuation is requested and that is larger (`specLen`); the start address is
rounded down to the architecture's instruction alignment (by less than the alignment); the padded read
length never exceeds `u32::MAX` (no overflow since b11d9ebc) and covers the decode length. -/
theorem C20_request (arch : Arch) (req : Req) (fe : Option Nat) :
    disasmLen req.start req.size req.cont fe = specLen req fe ∧
    alignStart arch req.start ≤ req.start ∧
    req.start - alignStart arch req.start < arch.align ∧
    alignStart arch req.start % arch.align = 0 ∧
    readSize (specLen req fe) ≤ u32max ∧
    min (specLen req fe) u32max ≤ readSize (specLen req fe) := by
  have hpos := align_pos arch
  refine ⟨disasmLen_eq_specLen req fe, alignStart_le _ _, ?_, ?_, ?_, ?_⟩
  · unfold alignStart
    have := Nat.mod_lt req.start hpos
    omega
  · unfold alignStart
    have h1 := Nat.div_add_mod req.start arch.align
    have h2 : req.start - req.start % arch.align = arch.align * (req.start / arch.align) := by omega
    rw [h2]
    exact Nat.mul_mod_right _ _
  · unfold readSize; omega
  · unfold readSize; omega

/-- **Bytes.** When the read succeeds with file range `(fileOff, n)`: the address lies in a section `sec` of
the object, `n` is the requested read length clamped to the end of that section, and the range is the image
of the address range under the region the bytes are read through (`src`: the first segment containing the
address, else the section): `fileOff = src.fileOff + (svma − src.addr)` and the range lies inside `src`'s
file data. Consequently byte `i` of the slice handed to the decoder is the file byte at that position
(second part, for any window `w` of the file starting at `lo`). Trusted: that `object` reports the
sections/segments and their file ranges correctly, and that `data_range` slices as modelled. -/
theorem C20_bytes (img : Image) (rel size fileOff n : Nat)
    (h : readRange img rel size = .ok fileOff n) :
    (∃ sec src dl, containing img.sections (img.base + rel) = some sec ∧
        src = sourceRegion img sec (img.base + rel) ∧ src.dataLen = some dl ∧
        n = min size (sec.addr + sec.size - (img.base + rel)) ∧
        src.addr ≤ img.base + rel ∧
        fileOff = src.fileOff + (img.base + rel - src.addr) ∧
        (img.base + rel - src.addr) + n ≤ dl) ∧
    (∀ lo w bs, fileSlice lo w fileOff n = some bs →
        bs.length = n ∧ ∀ i, i < n → bs[i]? = w[fileOff + i - lo]?) := by
  obtain ⟨sec, hsec, hn, dl, hdl, hle, hoff, hin⟩ := readRange_ok h
  exact ⟨⟨sec, _, dl, hsec, rfl, hdl, hn, hle, hoff, hin⟩, fun lo w bs hs => fileSlice_some hs⟩

/-- **No panic in the read, any image base** (after fix 37c4c2d8: `image_base.checked_add(start)`): an image
whose base is within 4 GiB of 2^64 answers `AddressNotFound` instead of overflowing. -/
theorem C20_read_no_panic_any_base (img : Image) (rel size : Nat) : readRange img rel size ≠ .panic := by
  unfold readRange
  simp only
  split
  · simp
  · split
    · simp
    · split
      · simp
      · split <;> simp

/-- **No panic in the read.** `image_base + start_address` cannot overflow `u64` when the image base leaves
room for a 32-bit relative address (true for every object whose addresses are below 2^64 − 2^32). -/
theorem C20_read_no_panic (img : Image) (rel size : Nat) (hrel : rel ≤ u32max)
    (hbase : img.base + u32max ≤ u64max) : readRange img rel size ≠ .panic := by
  unfold readRange
  simp only
  split
  · omega
  · split
    · simp
    · split
      · simp
      · split <;> simp

/-- **The whole request.** Whenever `query` answers with a listing: the reported start address is the
alignment-adjusted start, the listing is a gap-free chain from offset 0 whose offsets lie below the length
the statement allows (`specLen`: requested size, or the enclosing function with continuation), `size` ends
the chain (so it exceeds the last listed offset), the listing is complete, and the decoded slice has the
length of the padded request clamped to the section. And `query` neither panics nor runs out of fuel
(given a 32-bit start address, an image base that leaves room for it, and a slice below 4 GiB − 4). -/
theorem C20_query (arch : Arch) (img : Image) (sym : Option Sym) (req : Req) (dec : Nat → Dec)
    (hor : ∀ fo n, (plan arch img sym req).2.2 = .ok fo n → OracleOK n dec) :
    (∀ rel fo n items size, query arch img sym req dec = .resp rel fo n items size →
        rel = alignStart arch req.start ∧
        readRange img rel (readSize (specLen req (fnEnd sym))) = .ok fo n ∧
        chainOk dec arch.adjust (specLen req (fnEnd sym)) 0 items size = true ∧
        (∀ last, items.getLast? = some last → last.off < size) ∧
        (specLen req (fnEnd sym) ≤ size ∨ dec size = .exhausted ∨ n < size)) ∧
    query arch img sym req dec ≠ .nofuel ∧
    (req.start ≤ u32max → img.base + u32max ≤ u64max →
      (∀ fo n, (plan arch img sym req).2.2 = .ok fo n → n + 4 ≤ u32max) →
      query arch img sym req dec ≠ .panic) := by
  have hlen := disasmLen_eq_specLen req (fnEnd sym)
  have hadj := adjust_pos arch
  refine ⟨?_, ?_, ?_⟩
  · intro rel fo n items size hq
    unfold query plan at hq
    simp only at hq
    split at hq <;> try (simp at hq; done)
    rename_i fo' n' hrd
    split at hq
    · simp at hq
    · split at hq <;> try (simp at hq; done)
      rename_i items' f' hd
      simp only [Outcome.resp.injEq] at hq
      obtain ⟨rfl, rfl, rfl, rfl, rfl⟩ := hq
      have hor' := hor fo' n' (by simpa [plan] using hrd)
      rw [hlen] at hd hrd
      have hc := loop_chain _ _ _ dec hor' hadj _ _ _ _ hd
      refine ⟨rfl, hrd, hc, ?_, loop_complete _ _ _ dec _ _ _ _ hd⟩
      intro last hl
      obtain ⟨s, _, hs1, hf⟩ := chain_last _ _ _ hc last hl
      omega
  · unfold query plan
    simp only
    split <;> try simp
    rename_i fo' n' hrd
    split
    · simp
    · have hor' := hor fo' n' (by simpa [plan] using hrd)
      have := loop_fuel arch.adjust (disasmLen req.start req.size req.cont (fnEnd sym)) n' dec hor' hadj
        (disasmLen req.start req.size req.cont (fnEnd sym) + 1) 0 (by omega)
      unfold decode
      split <;> simp_all
  · intro hstart hbase hbig
    unfold query plan
    simp only
    split <;> try simp
    · rename_i hrd
      exact C20_read_no_panic img _ _ (Nat.le_trans (alignStart_le _ _) hstart) hbase hrd
    · rename_i fo' n' hrd
      split
      · simp
      · have hor' := hor fo' n' (by simpa [plan] using hrd)
        have hb := hbig fo' n' (by simpa [plan] using hrd)
        have h4 := adjust_le arch
        have := loop_no_panic arch.adjust (disasmLen req.start req.size req.cont (fnEnd sym)) n' dec hor'
          (by omega) (disasmLen req.start req.size req.cont (fnEnd sym) + 1) 0 (Nat.zero_le _)
        unfold decode
        split <;> simp_all

/-! ### The repaired defect (2d669439): the pre-fix `size` came from the re-created reader -/

/-- x86-like oracle on a 21-byte slice: a 2-byte instruction, then one undecodable byte, then 1-byte
instructions -/
def C20_legacyDec : Nat → Dec
  | 0 => .ok 2
  | 2 => .invalid
  | p => if p < 21 then .ok 1 else .exhausted

/-- With `decode_len = 6` on that slice the listing is `0, 2 (invalid), 3, 4, 5`; the repaired code reports
`size = 6`, while the pre-fix computation (offset of the reader re-created at 3) gives `3`, which is below
the last listed offset `5` — the legacy code violates `C20_size`. -/
theorem C20_legacy_counterexample :
    OracleOK 21 C20_legacyDec ∧
    decode 1 6 21 C20_legacyDec = .done [⟨0, false⟩, ⟨2, true⟩, ⟨3, false⟩, ⟨4, false⟩, ⟨5, false⟩] 6 ∧
    legacySize 1 6 21 C20_legacyDec 7 0 0 = some 3 ∧
    ¬ (5 < 3) := by
  refine ⟨?_, by decide, by decide, by decide⟩
  intro p len h
  unfold C20_legacyDec at h
  split at h
  · simp only [Dec.ok.injEq] at h; omega
  · simp at h
  · split at h
    · simp only [Dec.ok.injEq] at h; omega
    · simp at h

/-! ### Non-vacuity: concrete inputs satisfy the hypotheses and give non-trivial listings -/

/-- thumb-like oracle: 2- and 4-byte instructions, an undecodable halfword at 6 -/
def C20_thumbDec : Nat → Dec
  | 0 => .ok 2 | 2 => .ok 4 | 6 => .invalid | 8 => .ok 4 | 12 => .ok 2 | _ => .exhausted

example : decode 2 13 14 C20_thumbDec
    = .done [⟨0, false⟩, ⟨2, false⟩, ⟨6, true⟩, ⟨8, false⟩, ⟨12, false⟩] 14 := by decide

/-- a whole request on a one-section image: unaligned thumb start 0x1001, continuation to the function end -/
def C20_img : Image :=
  { base := 0x10000,
    sections := [⟨0x11000, 0x100, 0x1000, some 0x100⟩],
    segments := [⟨0x10000, 0x2000, 0, some 0x2000⟩] }

-- (kernel evaluation: the elaborator's `decide` runs out of recursion depth on the 64-bit literals)
example : query .arm C20_img (some ⟨0x1000, some 13⟩) ⟨0x1001, 4, true⟩ C20_thumbDec
    = .resp 0x1000 0x1000 27 [⟨0, false⟩, ⟨2, false⟩, ⟨6, true⟩, ⟨8, false⟩] 12 := by decide +kernel

example : specLen ⟨0x1001, 4, true⟩ (fnEnd (some ⟨0x1000, some 13⟩)) = 12 := by decide
