import SamplyModel.Lemmas.AsmDecode
import SamplyModel.Lemmas.AsmBytes
import SamplyModel.Lemmas.C20Judge
/-!
# C20 — `/asm/v1` returns a gap-free, in-range instruction listing of the requested bytes

Model: `SamplyModel/Model/AsmDecode.lean` (follows `samply-api/src/asm/mod.rs` after the repairs 2d669439 /
b11d9ebc and `samply-symbols/src/binary_image.rs:218-294`).

All theorems are parametric in the decoder oracle `dec : Nat → Dec` (what yaxpeax returns at absolute
position `p` of the byte slice) and only assume `OracleOK bytesLen dec`: a decoded instruction is at least one
byte long and lies inside the slice. There is no bound on the slice length, the requested length or the
number of instructions. `adjust` is the architecture's `ADJUST_BY_AFTER_ERROR` (≥ 1 for all four).

Only property theorems (names `C20_*`) and non-vacuity examples live in this file.
-/
open Asm

/-- **Offsets.** The listed offsets start at 0, are strictly increasing, each lies below the decode length,
and every next offset is the previous offset plus the length of the previous instruction (as decoded by
the oracle at that very offset) or plus `ADJUST_BY_AFTER_ERROR` after an undecodable one — so no byte is
skipped and none is decoded twice. (`chainOk … = true` is the same statement as one decidable check; it is
what the judge evaluates on the implementation's response.) -/
theorem C20_offsets (adjust decodeLen bytesLen : Nat) (dec : Nat → Dec)
    (hor : OracleOK bytesLen dec) (hadj : 1 ≤ adjust) (items : List Item) (final : Nat)
    (h : decode adjust decodeLen bytesLen dec = .done items final) :
    (∀ a, items.head? = some a → a.off = 0) ∧
    items.Pairwise (fun a b => a.off < b.off) ∧
    (∀ it ∈ items, it.off < decodeLen) ∧
    (∀ i a b, items[i]? = some a → items[i + 1]? = some b →
        ∃ s, stepAt dec adjust a = some s ∧ b.off = a.off + s) ∧
    chainOk dec adjust decodeLen 0 items final = true := by
  have hc := loop_chain adjust decodeLen bytesLen dec hor hadj _ _ _ _ h
  refine ⟨?_, chain_pairwise _ _ _ hc, fun it hit => ((chain_bounds _ _ _ hc).2 it hit).2,
    chain_consecutive _ _ _ hc, hc⟩
  intro a ha
  cases items with
  | nil => simp at ha
  | cons it rest =>
    simp only [List.head?_cons, Option.some.injEq] at ha
    subst ha
    exact (chain_cons hc).1

/-- **Termination.** The loop of `decode` always ends: from any offset, `decode_len − offset + 1` iterations
suffice (every instruction is ≥ 1 byte and the resynchronisation step is ≥ 1), so the model's fuel
`decode_len + 1` is never exhausted. -/
theorem C20_terminates (adjust decodeLen bytesLen : Nat) (dec : Nat → Dec)
    (hor : OracleOK bytesLen dec) (hadj : 1 ≤ adjust) :
    (∀ fuel offset, decodeLen - offset < fuel → loop adjust decodeLen bytesLen dec fuel offset ≠ .nofuel) ∧
    decode adjust decodeLen bytesLen dec ≠ .nofuel :=
  ⟨loop_fuel adjust decodeLen bytesLen dec hor hadj,
   loop_fuel adjust decodeLen bytesLen dec hor hadj _ _ (by omega)⟩

/-- **Size.** When at least one instruction is listed, the reported `size` extends past the offset of the
last listed instruction: it is that offset plus the instruction's length (or the resync step). -/
theorem C20_size (adjust decodeLen bytesLen : Nat) (dec : Nat → Dec)
    (hor : OracleOK bytesLen dec) (hadj : 1 ≤ adjust) (items : List Item) (size : Nat)
    (h : decode adjust decodeLen bytesLen dec = .done items size) (last : Item)
    (hl : items.getLast? = some last) :
    last.off < size ∧ ∃ s, stepAt dec adjust last = some s ∧ size = last.off + s := by
  have hc := loop_chain adjust decodeLen bytesLen dec hor hadj _ _ _ _ h
  obtain ⟨s, hs, hs1, hf⟩ := chain_last _ _ _ hc last hl
  exact ⟨by omega, s, hs, hf⟩

/-- **Completeness.** The listing is not cut short: it ends only when the requested length is covered, when
the decoder ran out of input at the end position, or when resynchronising stepped past the slice. -/
theorem C20_complete (adjust decodeLen bytesLen : Nat) (dec : Nat → Dec) (items : List Item) (size : Nat)
    (h : decode adjust decodeLen bytesLen dec = .done items size) :
    decodeLen ≤ size ∨ dec size = .exhausted ∨ bytesLen < size :=
  loop_complete adjust decodeLen bytesLen dec _ _ _ _ h

/-- **No panic in the decode loop.** None of `offset += after − before`, `offset += ADJUST`,
`&bytes[offset as usize..]` overflows `u32` or slices out of range, provided the slice is shorter than
4 GiB − ADJUST (hypothesis `hlen`; a longer slice cannot be produced here: it needs a ≥ 4 GiB section). -/
theorem C20_no_panic (adjust decodeLen bytesLen : Nat) (dec : Nat → Dec)
    (hor : OracleOK bytesLen dec) (hlen : bytesLen + adjust ≤ u32max) :
    decode adjust decodeLen bytesLen dec ≠ .panic :=
  loop_no_panic adjust decodeLen bytesLen dec hor hlen _ _ (Nat.zero_le _)

/-- **Request arithmetic.** The decode length is the requested size, or the distance to the end of the
enclosing function when continuation is requested and that is larger (`specLen`); the start address is
rounded down to the architecture's instruction alignment (by less than the alignment); the padded read
length never exceeds `u32::MAX` (no overflow since b11d9ebc) and covers the decode length. -/
theorem C20_request (arch : Arch) (req : Req) (fe : Option Nat) :
    disasmLen req.start req.size req.cont fe = specLen req fe ∧
    alignStart arch req.start ≤ req.start ∧
    req.start - alignStart arch req.start < arch.align ∧
    alignStart arch req.start % arch.align = 0 ∧
    readSize (specLen req fe) ≤ u32max ∧
    min (specLen req fe) u32max ≤ readSize (specLen req fe) := by
  have hpos := align_pos arch
  refine ⟨disasmLen_eq_specLen req fe, alignStart_le _ _, ?_, ?_, ?_, ?_⟩
  · unfold alignStart
    have := Nat.mod_lt req.start hpos
    omega
  · unfold alignStart
    have h1 := Nat.div_add_mod req.start arch.align
    have h2 : req.start - req.start % arch.align = arch.align * (req.start / arch.align) := by omega
    rw [h2]
    exact Nat.mul_mod_right _ _
  · unfold readSize; omega
  · unfold readSize; omega

/-- **Bytes.** When the read succeeds with file range `(fileOff, n)`: the address lies in a section `sec` of
the object, `n` is the requested read length clamped to the end of that section, and the range is the image
of the address range under the region the bytes are read through (`src`: the first segment containing the
address, else the section): `fileOff = src.fileOff + (svma − src.addr)` and the range lies inside `src`'s
file data. Consequently byte `i` of the slice handed to the decoder is the file byte at that position
(second part, for any window `w` of the file starting at `lo`). Trusted: that `object` reports the
sections/segments and their file ranges correctly, and that `data_range` slices as modelled. -/
theorem C20_bytes (img : Image) (rel size fileOff n : Nat)
    (h : readRange img rel size = .ok fileOff n) :
    (∃ sec src dl, containing img.sections (img.base + rel) = some sec ∧
        src = sourceRegion img sec (img.base + rel) ∧ src.dataLen = some dl ∧
        n = min size (sec.addr + sec.size - (img.base + rel)) ∧
        src.addr ≤ img.base + rel ∧
        fileOff = src.fileOff + (img.base + rel - src.addr) ∧
        (img.base + rel - src.addr) + n ≤ dl) ∧
    (∀ lo w bs, fileSlice lo w fileOff n = some bs →
        bs.length = n ∧ ∀ i, i < n → bs[i]? = w[fileOff + i - lo]?) := by
  obtain ⟨sec, hsec, hn, dl, hdl, hle, hoff, hin⟩ := readRange_ok h
  exact ⟨⟨sec, _, dl, hsec, rfl, hdl, hn, hle, hoff, hin⟩, fun lo w bs hs => fileSlice_some hs⟩

/-- **No panic in the read, any image base** (after fix 37c4c2d8: `image_base.checked_add(start)`): an image
whose base is within 4 GiB of 2^64 answers `AddressNotFound` instead of overflowing. -/
theorem C20_read_no_panic_any_base (img : Image) (rel size : Nat) : readRange img rel size ≠ .panic := by
  unfold readRange
  simp only
  split
  · simp
  · split
    · simp
    · split
      · simp
      · split <;> simp

/-- **The whole request.** Whenever `query` answers with a listing: the reported start address is the
alignment-adjusted start, the listing is a gap-free chain from offset 0 whose offsets lie below the length
the statement allows (`specLen`: requested size, or the enclosing function with continuation), `size` ends
the chain (so it exceeds the last listed offset), the listing is complete, and the decoded slice has the
length of the padded request clamped to the section. And `query` neither panics nor runs out of fuel (for the
panic clause with `OracleOK` alone: given a slice below 4 GiB − 4; `C20_query_tail` removes that hypothesis under
the second oracle assumption. No hypothesis on the start address or the image base is needed since 37c4c2d8). -/
theorem C20_query (arch : Arch) (img : Image) (sym : Option Sym) (req : Req) (dec : Nat → Dec)
    (hor : ∀ fo n, (plan arch img sym req).2.2 = .ok fo n → OracleOK n dec) :
    (∀ rel fo n items size, query arch img sym req dec = .resp rel fo n items size →
        rel = alignStart arch req.start ∧
        readRange img rel (readSize (specLen req (fnEnd sym))) = .ok fo n ∧
        chainOk dec arch.adjust (specLen req (fnEnd sym)) 0 items size = true ∧
        (∀ last, items.getLast? = some last → last.off < size) ∧
        (specLen req (fnEnd sym) ≤ size ∨ dec size = .exhausted ∨ n < size)) ∧
    query arch img sym req dec ≠ .nofuel ∧
    ((∀ fo n, (plan arch img sym req).2.2 = .ok fo n → n + 4 ≤ u32max) →
      query arch img sym req dec ≠ .panic) := by
  have hlen := disasmLen_eq_specLen req (fnEnd sym)
  have hadj := adjust_pos arch
  refine ⟨?_, ?_, ?_⟩
  · intro rel fo n items size hq
    unfold query plan at hq
    simp only at hq
    split at hq <;> try (simp at hq; done)
    rename_i fo' n' hrd
    split at hq
    · simp at hq
    · split at hq <;> try (simp at hq; done)
      rename_i items' f' hd
      simp only [Outcome.resp.injEq] at hq
      obtain ⟨rfl, rfl, rfl, rfl, rfl⟩ := hq
      have hor' := hor fo' n' (by simpa [plan] using hrd)
      rw [hlen] at hd hrd
      have hc := loop_chain _ _ _ dec hor' hadj _ _ _ _ hd
      refine ⟨rfl, hrd, hc, ?_, loop_complete _ _ _ dec _ _ _ _ hd⟩
      intro last hl
      obtain ⟨s, _, hs1, hf⟩ := chain_last _ _ _ hc last hl
      omega
  · unfold query plan
    simp only
    split <;> try simp
    rename_i fo' n' hrd
    split
    · simp
    · have hor' := hor fo' n' (by simpa [plan] using hrd)
      have := loop_fuel arch.adjust (disasmLen req.start req.size req.cont (fnEnd sym)) n' dec hor' hadj
        (disasmLen req.start req.size req.cont (fnEnd sym) + 1) 0 (by omega)
      unfold decode
      split <;> simp_all
  · intro hbig
    unfold query plan
    simp only
    split <;> try simp
    · rename_i hrd
      exact C20_read_no_panic_any_base img _ _ hrd
    · rename_i fo' n' hrd
      split
      · simp
      · have hor' := hor fo' n' (by simpa [plan] using hrd)
        have hb := hbig fo' n' (by simpa [plan] using hrd)
        have h4 := adjust_le arch
        have := loop_no_panic arch.adjust (disasmLen req.start req.size req.cont (fnEnd sym)) n' dec hor'
          (by omega) (disasmLen req.start req.size req.cont (fnEnd sym) + 1) 0 (Nat.zero_le _)
        unfold decode
        split <;> simp_all

/-! ### Improvement round: the listing stays inside the slice, and the bytes clause as a theorem -/

/-- **Inside the slice.** If the decoder also satisfies the tail assumption (`OracleTail`: *invalid* is reported
only when a whole resynchronisation unit is left, otherwise *exhausted*), the reported `size` never exceeds the
number of bytes that were read, and every listed instruction (decoded or undecodable) lies entirely inside the
slice: `[off, off + step) ⊆ [0, bytesLen)`. (Without the assumption this is false: `dec 0 = invalid`,
`bytesLen = 1`, `adjust = 4` gives `size = 4`, see the example below.) -/
theorem C20_within_slice (adjust decodeLen bytesLen : Nat) (dec : Nat → Dec)
    (hor : OracleOK bytesLen dec) (ht : OracleTail adjust bytesLen dec) (hadj : 1 ≤ adjust)
    (items : List Item) (size : Nat) (h : decode adjust decodeLen bytesLen dec = .done items size) :
    size ≤ bytesLen ∧
    ∀ it ∈ items, ∃ s, stepAt dec adjust it = some s ∧ 1 ≤ s ∧ it.off + s ≤ bytesLen :=
  let ⟨_, hf, hall, _⟩ := decode_facts hor ht hadj h
  ⟨hf, hall⟩

/-- **Completeness, sharp form.** Under both oracle assumptions the listing ends only when the requested length
is covered or the decoder ran out of input exactly at `size`; the third disjunct of `C20_complete` is dead. -/
theorem C20_complete_tail (adjust decodeLen bytesLen : Nat) (dec : Nat → Dec)
    (hor : OracleOK bytesLen dec) (ht : OracleTail adjust bytesLen dec) (hadj : 1 ≤ adjust)
    (items : List Item) (size : Nat) (h : decode adjust decodeLen bytesLen dec = .done items size) :
    decodeLen ≤ size ∨ dec size = .exhausted :=
  (decode_facts hor ht hadj h).2.2.2

/-- **No panic in the decode loop, no size hypothesis beyond `u32`.** Under both oracle assumptions a slice of
at most `u32::MAX` bytes (which is all `read_bytes_at_relative_address(_, size: u32)` can return) cannot make
`offset += …` overflow or `&bytes[offset..]` go out of range. This removes the excluded point
`bytesLen + adjust ≤ u32max` of `C20_no_panic`. -/
theorem C20_no_panic_tail (adjust decodeLen bytesLen : Nat) (dec : Nat → Dec)
    (hor : OracleOK bytesLen dec) (ht : OracleTail adjust bytesLen dec) (hlen : bytesLen ≤ u32max) :
    decode adjust decodeLen bytesLen dec ≠ .panic :=
  decode_no_panic_tail hor ht hlen

/-- **The whole request under both oracle assumptions.** As `C20_query`, plus: `size ≤ n` (the response never
claims more bytes than were read), every listed instruction lies inside the slice, completeness without the
"stepped past the slice" disjunct, and `query` never panics — with no hypothesis on the request, the image or
the slice length. -/
theorem C20_query_tail (arch : Arch) (img : Image) (sym : Option Sym) (req : Req) (dec : Nat → Dec)
    (hor : ∀ fo n, (plan arch img sym req).2.2 = .ok fo n → OracleOK n dec ∧ OracleTail arch.adjust n dec) :
    (∀ rel fo n items size, query arch img sym req dec = .resp rel fo n items size →
        rel = alignStart arch req.start ∧
        readRange img rel (readSize (specLen req (fnEnd sym))) = .ok fo n ∧
        chainOk dec arch.adjust (specLen req (fnEnd sym)) 0 items size = true ∧
        size ≤ n ∧
        (∀ it ∈ items, ∃ s, stepAt dec arch.adjust it = some s ∧ 1 ≤ s ∧ it.off + s ≤ n) ∧
        (specLen req (fnEnd sym) ≤ size ∨ dec size = .exhausted)) ∧
    query arch img sym req dec ≠ .nofuel ∧
    query arch img sym req dec ≠ .panic := by
  obtain ⟨hq1, hq2, _⟩ := C20_query arch img sym req dec (fun fo n h => (hor fo n h).1)
  refine ⟨?_, hq2, query_no_panic_tail arch img sym req dec hor⟩
  intro rel fo n items size hq
  obtain ⟨hrel, hrd, hc, _, hcomp⟩ := hq1 rel fo n items size hq
  have hplan : (plan arch img sym req).2.2 = .ok fo n := by
    simp only [plan]
    rw [disasmLen_eq_specLen, ← hrel]
    exact hrd
  obtain ⟨ho, ht⟩ := hor fo n hplan
  obtain ⟨hf, hall⟩ := chain_within ho ht items 0 size hc (Nat.zero_le _)
  refine ⟨hrel, hrd, hc, hf, hall, ?_⟩
  rcases hcomp with h1 | h2 | h3
  · exact Or.inl h1
  · exact Or.inr h2
  · omega

/-- **The bytes clause, decode level.** Let the decoder be a function `D` of the bytes it is handed (satisfying
`ByteDecOK`) and let `decode` run on the slice `bytes`. Then every listed row is the decoding of the slice's own
bytes at the row's offset: a decoded row at `off` means `D (bytes.drop off) = ok len` with the instruction inside
the slice, an undecodable row means `D (bytes.drop off) = invalid` with a whole unit inside the slice, and the
bytes shown in that row (`shown`, mod.rs:387-399) are `bytes[off .. off+adjust]`, all `adjust` of them. -/
theorem C20_listing_decodes_slice (adjust decodeLen : Nat) (D : ByteDec) (bytes : List UInt8)
    (hD : ByteDecOK adjust D) (hadj : 1 ≤ adjust) (items : List Item) (size : Nat)
    (h : decode adjust decodeLen bytes.length (decAt D bytes) = .done items size) :
    size ≤ bytes.length ∧
    ∀ it ∈ items,
      (it.inv = false → ∃ len, D (bytes.drop it.off) = .ok len ∧ 1 ≤ len ∧ it.off + len ≤ bytes.length) ∧
      (it.inv = true → D (bytes.drop it.off) = .invalid ∧ it.off + adjust ≤ bytes.length ∧
          (shown bytes adjust it.off).length = adjust) := by
  obtain ⟨ho, ht⟩ := decAt_oracle hadj hD bytes
  obtain ⟨_, hf, hall, _⟩ := decode_facts ho ht hadj h
  refine ⟨hf, ?_⟩
  intro it hit
  obtain ⟨s, hs, hs1, hw⟩ := hall it hit
  constructor
  · intro hi
    exact ⟨s, stepAt_decoded hi hs, hs1, hw⟩
  · intro hi
    obtain ⟨hd, rfl⟩ := stepAt_undecodable hi hs
    refine ⟨hd, hw, ?_⟩
    unfold shown
    rw [List.length_take, List.length_drop]
    omega

/-- **The bytes clause, whole request** ("The bytes decoded are the bytes of the binary at that relative
address"). `file` is the content of the binary, `D` the decoder as a function of bytes; the only assumptions are
`ByteDecOK` and that the file range the read returns exists in the file (`object`'s ranges lie inside the file:
trusted). Whenever `queryB` answers with a listing for the file range `(fo, n)`:
the range is the one `C20_bytes` describes (`readRange … = ok fo n`), the listing is a gap-free chain below
`specLen`, `size ≤ n`, and **each row at offset `off` is the decoder's verdict on the file's bytes
`fo+off .. fo+n`** — i.e. on the bytes of the binary at relative address `startAddress + off`, cut at the end of
what was read: `ok len` with `off + len ≤ n` for a decoded row, `invalid` for a `.byte` row, whose shown bytes
are the file's bytes `fo+off .. fo+off+adjust`. The listing ends at the requested length or where the decoder
finds the file bytes from `fo+size` exhausted. And `queryB` never panics or runs out of fuel. -/
theorem C20_query_bytes (arch : Arch) (img : Image) (sym : Option Sym) (req : Req) (D : ByteDec)
    (file : List UInt8) (hD : ByteDecOK arch.adjust D)
    (hfile : ∀ fo n, (plan arch img sym req).2.2 = .ok fo n → fo + n ≤ file.length) :
    (∀ rel fo n items size, queryB arch img sym req D file = .resp rel fo n items size →
        rel = alignStart arch req.start ∧
        readRange img rel (readSize (specLen req (fnEnd sym))) = .ok fo n ∧
        chainOk (decAt D (fileBytes file fo n)) arch.adjust (specLen req (fnEnd sym)) 0 items size = true ∧
        size ≤ n ∧
        (∀ it ∈ items,
          (it.inv = false → ∃ len, D (fileBytes file (fo + it.off) (n - it.off)) = .ok len ∧
              1 ≤ len ∧ it.off + len ≤ n) ∧
          (it.inv = true → D (fileBytes file (fo + it.off) (n - it.off)) = .invalid ∧
              it.off + arch.adjust ≤ n ∧
              shown (fileBytes file fo n) arch.adjust it.off = fileBytes file (fo + it.off) arch.adjust)) ∧
        (specLen req (fnEnd sym) ≤ size ∨ D (fileBytes file (fo + size) (n - size)) = .exhausted)) ∧
    queryB arch img sym req D file ≠ .nofuel ∧
    queryB arch img sym req D file ≠ .panic := by
  have hadj := adjust_pos arch
  have key : ∀ fo n, (plan arch img sym req).2.2 = .ok fo n →
      (fun p => match (plan arch img sym req).2.2 with
        | .ok fo n => decAt D (fileBytes file fo n) p
        | _ => .exhausted) = decAt D (fileBytes file fo n) := by
    intro fo n h
    funext p
    rw [h]
  have hor : ∀ fo n, (plan arch img sym req).2.2 = .ok fo n →
      OracleOK n (fun p => match (plan arch img sym req).2.2 with
        | .ok fo n => decAt D (fileBytes file fo n) p
        | _ => .exhausted) ∧
      OracleTail arch.adjust n (fun p => match (plan arch img sym req).2.2 with
        | .ok fo n => decAt D (fileBytes file fo n) p
        | _ => .exhausted) := by
    intro fo n h
    rw [key fo n h]
    have := decAt_oracle hadj hD (fileBytes file fo n)
    rwa [fileBytes_length (hfile fo n h)] at this
  obtain ⟨hq1, hq2, hq3⟩ := C20_query_tail arch img sym req _ hor
  refine ⟨?_, hq2, hq3⟩
  intro rel fo n items size hq
  obtain ⟨hrel, hrd, hc, hf, hall, hcomp⟩ := hq1 rel fo n items size hq
  have hplan : (plan arch img sym req).2.2 = .ok fo n := by
    simp only [plan]
    rw [disasmLen_eq_specLen, ← hrel]
    exact hrd
  rw [key fo n hplan] at hc hall
  simp only [hplan] at hcomp
  refine ⟨hrel, hrd, hc, hf, ?_, ?_⟩
  · intro it hit
    obtain ⟨s, hs, hs1, hw⟩ := hall it hit
    constructor
    · intro hi
      have hd := stepAt_decoded hi hs
      unfold decAt at hd
      rw [fileBytes_drop] at hd
      exact ⟨s, hd, hs1, hw⟩
    · intro hi
      obtain ⟨hd, rfl⟩ := stepAt_undecodable hi hs
      unfold decAt at hd
      rw [fileBytes_drop] at hd
      exact ⟨hd, hw, shown_fileBytes file fo n _ _ hw⟩
  · rcases hcomp with h1 | h2
    · exact Or.inl h1
    · right
      unfold decAt at h2
      rw [fileBytes_drop] at h2
      exact h2

/-- **Bytes, declarative form.** The mechanism prefers the containing *segment* for the file offset
(binary_image.rs:279-294). Whenever segment and section describe the same mapping at the section containing the
address (`seg.fileOff + (sec.addr − seg.addr) = sec.fileOff`, true of every well-formed object; the judge checks
it on every case), the bytes read are simply **the bytes of the section that contains the address, from the
address's offset into the section on, at most to the section's end**: `fileOff = sec.fileOff + (svma − sec.addr)`
and `n = min size (sec.size − (svma − sec.addr))` — a statement that mentions neither segments nor the order in
which they are searched. -/
theorem C20_bytes_section (img : Image) (rel size fileOff n : Nat)
    (h : readRange img rel size = .ok fileOff n) :
    ∃ sec, containing img.sections (img.base + rel) = some sec ∧
      n = min size (sec.size - (img.base + rel - sec.addr)) ∧
      ((∀ seg, containing img.segments (img.base + rel) = some seg →
          seg.addr ≤ sec.addr ∧ seg.fileOff + (sec.addr - seg.addr) = sec.fileOff) →
        fileOff = sec.fileOff + (img.base + rel - sec.addr)) := by
  obtain ⟨sec, hsec, hn, dl, _, hle, hoff, _⟩ := readRange_ok h
  obtain ⟨_, hlo, hhi⟩ := containing_some hsec
  refine ⟨sec, hsec, by omega, ?_⟩
  intro hcons
  unfold sourceRegion at hoff hle
  cases hseg : containing img.segments (img.base + rel) with
  | none =>
    rw [hseg] at hoff
    exact hoff
  | some seg =>
    rw [hseg] at hoff hle
    obtain ⟨h1, h2⟩ := hcons seg hseg
    simp only at hoff hle
    omega

/-- **The two matches on the architecture string agree.** `query_api` derives the start alignment
(mod.rs:124-128) and `decode_arch` the decoder (mod.rs:177-190) from `binary_image.arch()` by two separate
`match`es; for every string (including the aliases `arm64e`, `x86_64h`, and strings neither knows such as the
Mach-O names `i386`, `arm64v8`, `armv7`) the alignment used for the start is the instruction alignment of the
decoder that is chosen (1 when there is none), and the resynchronisation step is a multiple of it. -/
theorem C20_arch_names_agree (name : Option String) :
    alignOfName name = (archOfName name).align ∧ (archOfName name).adjust % (archOfName name).align = 0 := by
  cases name with
  | none => simp [alignOfName, archOfName, Arch.align, Arch.adjust]
  | some s =>
    by_cases h1 : s = "arm64" ∨ s = "arm64e"
    · rcases h1 with rfl | rfl <;> simp [alignOfName, archOfName, Arch.align, Arch.adjust]
    · by_cases h2 : s = "arm"
      · subst h2; simp [alignOfName, archOfName, Arch.align, Arch.adjust]
      · have h3 : alignOfName (some s) = 1 := by simp [alignOfName, h1, h2]
        rw [h3]
        unfold archOfName
        simp only [h1, h2, if_false]
        split
        · simp [Arch.align, Arch.adjust]
        · split <;> simp [Arch.align, Arch.adjust]

/-- **JITDUMP images** (binary_image.rs:225-241, jitdump.rs:121-134). Whenever the request on a JITDUMP image
answers with a listing: the start is the aligned start; it lies inside the code bytes of a `JIT_CODE_LOAD`
record `e` of the dump; the bytes decoded are that record's code bytes from the start's offset in the record on
(`fo = e.codeOff + (rel − e.relAddr)`), at most the padded length, and **never beyond the end of the record's
code** (`fo + n ≤ e.codeOff + e.codeLen`: the next record's header is not decoded); the listing is a gap-free
chain below `specLen` with `size ≤ n`, complete. No panic, no fuel exhaustion. -/
theorem C20_jit (arch : Arch) (entries : List JitEntry) (fileLen : Nat) (sym : Option Sym) (req : Req)
    (dec : Nat → Dec)
    (hor : ∀ fo n, readJit entries fileLen (alignStart arch req.start) (readSize (specLen req (fnEnd sym)))
        = .ok fo n → OracleOK n dec ∧ OracleTail arch.adjust n dec) :
    (∀ rel fo n items size, queryJit arch entries fileLen sym req dec = some (.resp rel fo n items size) →
        rel = alignStart arch req.start ∧
        (∃ e ∈ entries, e.relAddr ≤ rel ∧ rel < e.relAddr + e.codeLen ∧
            fo = e.codeOff + (rel - e.relAddr) ∧
            n = min (readSize (specLen req (fnEnd sym))) (e.codeLen - (rel - e.relAddr)) ∧
            fo + n ≤ e.codeOff + e.codeLen ∧ fo + n ≤ fileLen) ∧
        chainOk dec arch.adjust (specLen req (fnEnd sym)) 0 items size = true ∧
        size ≤ n ∧
        (specLen req (fnEnd sym) ≤ size ∨ dec size = .exhausted)) ∧
    queryJit arch entries fileLen sym req dec ≠ some .nofuel ∧
    queryJit arch entries fileLen sym req dec ≠ some .panic := by
  have hlen := disasmLen_eq_specLen req (fnEnd sym)
  have hadj := adjust_pos arch
  refine ⟨?_, ?_, ?_⟩
  · intro rel fo n items size hq
    unfold queryJit at hq
    simp only [hlen] at hq
    split at hq <;> try (simp at hq; done)
    rename_i fo' n' hrd
    split at hq
    · simp at hq
    · split at hq <;> try (simp at hq; done)
      rename_i items' f' hd
      simp only [Option.some.injEq, Outcome.resp.injEq] at hq
      obtain ⟨rfl, rfl, rfl, rfl, rfl⟩ := hq
      obtain ⟨ho, ht⟩ := hor fo' n' hrd
      obtain ⟨hc, hf, _, hcomp⟩ := decode_facts ho ht hadj hd
      exact ⟨rfl, readJit_ok hrd, hc, hf, hcomp⟩
  · unfold queryJit
    simp only [hlen]
    split <;> try simp
    rename_i fo' n' hrd
    split
    · simp
    · obtain ⟨ho, _⟩ := hor fo' n' hrd
      have := decode_fuel (decodeLen := specLen req (fnEnd sym)) ho hadj
      split <;> simp_all
  · unfold queryJit
    simp only [hlen]
    split <;> try simp
    rename_i fo' n' hrd
    split
    · simp
    · obtain ⟨ho, ht⟩ := hor fo' n' hrd
      obtain ⟨_, _, _, _, _, hn, _, _⟩ := readJit_ok hrd
      have hn' : n' ≤ u32max := by have := readSize_le (specLen req (fnEnd sym)); omega
      have := decode_no_panic_tail (decodeLen := specLen req (fnEnd sym)) ho ht hn'
      split <;> simp_all


/-- **JITDUMP, bytes clause.** With the decoder as a function of bytes and `file` the dump: every row of a
listing is the decoder's verdict on the dump's bytes from the row's position to the end of what was read, all of
it inside the code bytes of one `JIT_CODE_LOAD` record (`fo + n ≤ e.codeOff + e.codeLen`); `.byte` rows show the
dump's bytes at their position; no panic, no fuel exhaustion; only hypothesis: `ByteDecOK`. -/
theorem C20_jit_bytes (arch : Arch) (entries : List JitEntry) (sym : Option Sym) (req : Req) (D : ByteDec)
    (file : List UInt8) (hD : ByteDecOK arch.adjust D) :
    (∀ rel fo n items size, queryJitB arch entries sym req D file = some (.resp rel fo n items size) →
        rel = alignStart arch req.start ∧
        (∃ e ∈ entries, e.relAddr ≤ rel ∧ rel < e.relAddr + e.codeLen ∧
            fo = e.codeOff + (rel - e.relAddr) ∧ fo + n ≤ e.codeOff + e.codeLen) ∧
        fo + n ≤ file.length ∧ size ≤ n ∧
        (∀ it ∈ items,
          (it.inv = false → ∃ len, D (fileBytes file (fo + it.off) (n - it.off)) = .ok len ∧
              1 ≤ len ∧ it.off + len ≤ n) ∧
          (it.inv = true → D (fileBytes file (fo + it.off) (n - it.off)) = .invalid ∧
              it.off + arch.adjust ≤ n ∧
              shown (fileBytes file fo n) arch.adjust it.off = fileBytes file (fo + it.off) arch.adjust)) ∧
        (specLen req (fnEnd sym) ≤ size ∨ D (fileBytes file (fo + size) (n - size)) = .exhausted)) ∧
    queryJitB arch entries sym req D file ≠ some .nofuel ∧
    queryJitB arch entries sym req D file ≠ some .panic := by
  have hadj := adjust_pos arch
  have hlen := disasmLen_eq_specLen req (fnEnd sym)
  have key : ∀ fo n, readJit entries file.length (alignStart arch req.start)
        (readSize (specLen req (fnEnd sym))) = .ok fo n →
      (fun p => match readJit entries file.length (alignStart arch req.start)
            (readSize (disasmLen req.start req.size req.cont (fnEnd sym))) with
        | .ok fo n => decAt D (fileBytes file fo n) p
        | _ => .exhausted) = decAt D (fileBytes file fo n) := by
    intro fo n h
    funext p
    rw [hlen, h]
  have hor : ∀ fo n, readJit entries file.length (alignStart arch req.start)
        (readSize (specLen req (fnEnd sym))) = .ok fo n →
      OracleOK n (fun p => match readJit entries file.length (alignStart arch req.start)
            (readSize (disasmLen req.start req.size req.cont (fnEnd sym))) with
        | .ok fo n => decAt D (fileBytes file fo n) p
        | _ => .exhausted) ∧
      OracleTail arch.adjust n (fun p => match readJit entries file.length (alignStart arch req.start)
            (readSize (disasmLen req.start req.size req.cont (fnEnd sym))) with
        | .ok fo n => decAt D (fileBytes file fo n) p
        | _ => .exhausted) := by
    intro fo n h
    rw [key fo n h]
    obtain ⟨_, _, _, _, _, _, _, hfl⟩ := readJit_ok h
    have := decAt_oracle hadj hD (fileBytes file fo n)
    rwa [fileBytes_length hfl] at this
  obtain ⟨hq1, hq2, hq3⟩ := C20_jit arch entries file.length sym req _ hor
  refine ⟨?_, hq2, hq3⟩
  intro rel fo n items size hq
  -- the read result, from the definition
  have hq' := hq
  unfold queryJitB queryJit at hq'
  simp only [hlen] at hq'
  split at hq' <;> try (simp at hq'; done)
  rename_i fo' n' hrd
  split at hq'
  · simp at hq'
  · split at hq' <;> try (simp at hq'; done)
    rename_i items' f' hd
    simp only [Option.some.injEq, Outcome.resp.injEq] at hq'
    obtain ⟨rfl, rfl, rfl, rfl, rfl⟩ := hq'
    obtain ⟨e, hmem, hle, hlt, hfo, _, hin, hfl⟩ := readJit_ok hrd
    simp only [hrd] at hd
    obtain ⟨_, hf, hrows, hcomp⟩ := decode_file_rows hD hadj hfl hd
    exact ⟨rfl, ⟨e, hmem, hle, hlt, hfo, hin⟩, hfl, hf, hrows, hcomp⟩

/-- **Fat archive members.** The bytes of a member are the file's bytes from the member's start
(`MachOFatArchiveMemberData::data()`, macho.rs:495-498), so a range `(fo, n)` read inside a member of size `msize`
starting at `mstart` is the file range `(mstart + fo, n)`: every statement of `C20_query_bytes` about
`fileBytes (memberData file mstart msize) …` is a statement about the archive file's bytes at `mstart + …`. -/
theorem C20_fat_member (file : List UInt8) (mstart msize fo n : Nat) (h : fo + n ≤ msize) :
    fileBytes (memberData file mstart msize) fo n = fileBytes file (mstart + fo) n :=
  fileBytes_fileBytes file mstart msize fo n h

/-- **The judge checks the proved statement.** The judge's walker (`C20.walk` in `Iface/C20.lean`: an independent
re-implementation that walks the implementation's listing and produces the error messages) accepts a listing with
end `stop` **iff** the listing satisfies `chainOk` — the specification that `C20_offsets` / `C20_query` prove of
the model — and then the listing has the list-level properties of the statement: first offset 0, strictly
increasing, each below the limit, each next offset = previous + step of the previous instruction. So a response
passes clauses 2-4 of the judge exactly when it has the property the theorems are about, for every oracle. -/
theorem C20_judge_walk_iff (dec : Nat → Dec) (adjust limit : Nat) (items : List Item) (stop : Nat) :
    (C20.walk dec adjust limit none items = .ok stop ↔ chainOk dec adjust limit 0 items stop = true) ∧
    (C20.walk dec adjust limit none items = .ok stop →
      (∀ a, items.head? = some a → a.off = 0) ∧
      items.Pairwise (fun a b => a.off < b.off) ∧
      (∀ it ∈ items, it.off < limit) ∧
      (∀ i a b, items[i]? = some a → items[i + 1]? = some b →
          ∃ s, stepAt dec adjust a = some s ∧ b.off = a.off + s)) := by
  have hs := C20.walk_sound dec adjust limit items none stop
  have hc := C20.walk_complete dec adjust limit items none stop
  simp only [C20.expectedNext] at hs hc
  refine ⟨⟨hs, hc⟩, ?_⟩
  intro h
  have hch := hs h
  refine ⟨?_, chain_pairwise _ _ _ hch, fun it hit => ((chain_bounds _ _ _ hch).2 it hit).2,
    chain_consecutive _ _ _ hch⟩
  intro a ha
  cases items with
  | nil => simp at ha
  | cons it rest =>
    simp only [List.head?_cons, Option.some.injEq] at ha
    subst ha
    exact (chain_cons hch).1

/-- **The judge's oracle check discharges the oracle assumptions.** Every case carries the decoder oracle as a
table; the judge evaluates `tableOk` on it (clause 0, reason "assumption violated"). When that check passes, the
oracle the model and the judge use for the case (`decOfTable`, = `C20.Case.dec`) satisfies `OracleOK` and
`OracleTail`, i.e. the hypotheses of `C20_query_tail` hold for that case — so for every case the check lets
through, the conclusions of `C20_query_tail` hold of the model's answer with no assumption left. -/
theorem C20_table_oracle (adjust n : Nat) (tab : List Dec) (h : tableOk adjust n tab 0 = true) :
    OracleOK n (decOfTable tab) ∧ OracleTail adjust n (decOfTable tab) :=
  tableOk_oracle h

/-! ### The repaired defect (2d669439): the pre-fix `size` came from the re-created reader -/

/-- x86-like oracle on a 21-byte slice: a 2-byte instruction, then one undecodable byte, then 1-byte
instructions -/
def C20_legacyDec : Nat → Dec
  | 0 => .ok 2
  | 2 => .invalid
  | p => if p < 21 then .ok 1 else .exhausted

/-- With `decode_len = 6` on that slice the listing is `0, 2 (invalid), 3, 4, 5`; the repaired code reports
`size = 6`, while the pre-fix computation (offset of the reader re-created at 3) gives `3`, which is below
the last listed offset `5` — the legacy code violates `C20_size`. -/
theorem C20_legacy_counterexample :
    OracleOK 21 C20_legacyDec ∧
    decode 1 6 21 C20_legacyDec = .done [⟨0, false⟩, ⟨2, true⟩, ⟨3, false⟩, ⟨4, false⟩, ⟨5, false⟩] 6 ∧
    legacySize 1 6 21 C20_legacyDec 7 0 0 = some 3 ∧
    ¬ (5 < 3) := by
  refine ⟨?_, by decide, by decide, by decide⟩
  intro p len h
  unfold C20_legacyDec at h
  split at h
  · simp only [Dec.ok.injEq] at h; omega
  · simp at h
  · split at h
    · simp only [Dec.ok.injEq] at h; omega
    · simp at h

/-! ### Non-vacuity: concrete inputs satisfy the hypotheses and give non-trivial listings -/

/-- thumb-like oracle: 2- and 4-byte instructions, an undecodable halfword at 6 -/
def C20_thumbDec : Nat → Dec
  | 0 => .ok 2 | 2 => .ok 4 | 6 => .invalid | 8 => .ok 4 | 12 => .ok 2 | _ => .exhausted

example : decode 2 13 14 C20_thumbDec
    = .done [⟨0, false⟩, ⟨2, false⟩, ⟨6, true⟩, ⟨8, false⟩, ⟨12, false⟩] 14 := by decide

/-- a whole request on a one-section image: unaligned thumb start 0x1001, continuation to the function end -/
def C20_img : Image :=
  { base := 0x10000,
    sections := [⟨0x11000, 0x100, 0x1000, some 0x100⟩],
    segments := [⟨0x10000, 0x2000, 0, some 0x2000⟩] }

-- (kernel evaluation: the elaborator's `decide` runs out of recursion depth on the 64-bit literals)
example : query .arm C20_img (some ⟨0x1000, some 13⟩) ⟨0x1001, 4, true⟩ C20_thumbDec
    = .resp 0x1000 0x1000 27 [⟨0, false⟩, ⟨2, false⟩, ⟨6, true⟩, ⟨8, false⟩] 12 := by decide +kernel

example : specLen ⟨0x1001, 4, true⟩ (fnEnd (some ⟨0x1000, some 13⟩)) = 12 := by decide

/-! ### Non-vacuity of the improvement-round theorems -/

/-- why `OracleTail` is needed: `OracleOK` alone lets the response claim 4 bytes of a 1-byte slice -/
example : decode 4 4 1 (fun p => if p = 0 then .invalid else .exhausted) = .done [⟨0, true⟩] 4 := by decide

/-- a byte-level thumb-like decoder: halfword `0xbf00`-style 2-byte instructions when the low byte is even,
4-byte ones when the first byte is `0xf0`, anything else undecodable; fewer than the needed bytes: exhausted -/
def C20_byteDec : ByteDec
  | [] => .exhausted
  | [_] => .exhausted
  | a :: _ :: rest =>
    if a = 0xf0 then (if rest.length < 2 then .exhausted else .ok 4)
    else if a % 2 = 0 then .ok 2 else .invalid

example : ByteDecOK 2 C20_byteDec := by
  intro bs
  match bs with
  | [] => simp [C20_byteDec]
  | [_] => simp [C20_byteDec]
  | a :: b :: rest =>
    simp only [C20_byteDec, List.length_cons]
    constructor
    · intro len h
      split at h
      · split at h
        · simp at h
        · simp only [Dec.ok.injEq] at h; omega
      · split at h
        · simp only [Dec.ok.injEq] at h; omega
        · simp at h
    · intro _; omega

/-- a 0x40-byte file whose bytes `0x20..` are code; one-section image mapping address `0x1000` to file offset
`0x20`; the listing of a whole request over the byte-level decoder -/
def C20_file : List UInt8 :=
  List.replicate 0x20 0 ++ [0x00, 0xbf, 0xf0, 0x00, 0x00, 0xf8, 0x01, 0x00, 0x70, 0x47] ++ List.replicate 0x16 0xff

def C20_img2 : Image :=
  { base := 0, sections := [⟨0x1000, 10, 0x20, some 10⟩], segments := [] }

example : queryB .arm C20_img2 none ⟨0x1001, 9, false⟩ C20_byteDec C20_file
    = .resp 0x1000 0x20 10 [⟨0, false⟩, ⟨2, false⟩, ⟨6, true⟩, ⟨8, false⟩] 10 := by decide +kernel

example : (plan .arm C20_img2 none ⟨0x1001, 9, false⟩).2.2 = .ok 0x20 10 ∧ 0x20 + 10 ≤ C20_file.length := by
  decide +kernel

/-- a JITDUMP index with two records; a request inside the second one, continuation to its end -/
example : queryJit .arm [⟨0, 0x100, 8⟩, ⟨8, 0x200, 14⟩] 0x300 (some ⟨8, some 14⟩) ⟨9, 2, true⟩ C20_thumbDec
    = some (.resp 8 0x200 14 [⟨0, false⟩, ⟨2, false⟩, ⟨6, true⟩, ⟨8, false⟩, ⟨12, false⟩] 14) := by decide +kernel

example : archOfName (some "arm64e") = .a64 ∧ archOfName (some "x86_64h") = .x64 ∧
    archOfName (some "arm64v8") = .unknown ∧ archOfName (some "i386") = .unknown := by
  simp [archOfName]

/-- the same bytes as one `JIT_CODE_LOAD` record of a dump, byte-level decoder -/
example : queryJitB .arm [⟨0, 0x20, 10⟩] none ⟨1, 9, false⟩ C20_byteDec C20_file
    = some (.resp 0 0x20 10 [⟨0, false⟩, ⟨2, false⟩, ⟨6, true⟩, ⟨8, false⟩] 10) := by decide +kernel

example : fileBytes (memberData C20_file 0x20 10) 2 4 = [0xf0, 0x00, 0x00, 0xf8] := by decide +kernel
