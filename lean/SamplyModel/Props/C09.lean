import SamplyModel.Lemmas.SourceApi
import SamplyModel.Lemmas.SourceApiHex
/-!
# C09 — `/source/v1` only ever reads files named by the debug info of the queried address

Model: `SamplyModel/Model/SourceApi.lean` (follows `samply-api/src/source/mod.rs:48-101`,
`samply-symbols/src/lib.rs:283-302`, `samply-api/src/api_file_path.rs`, `mapped_path.rs:80-97` and the
`file` / `inlines[].file` part of `symbolicate/mod.rs:229-251`).

All theorems hold for **every** spelling function `apiPath : SourceFilePath → String` (so whatever
`to_special_path_str` does), every helper (`Env.locationFor`, `Env.fileLen`, any location type), every
lookup outcome and frame list of any length, and every request string.
`FirstMatch apiPath fs requested fp` (Lemmas) says: `fp` is the first file path, in frame order, whose API
spelling equals `requested`.
The second half (`C09_symbol_map_choice` …) adds the library's debug id, the module offset, the debug-file
candidates and the receiver of `location_for_source_file` (`Manager`, `sourceApiAt`), a batched `/symbolicate/v5`
(`symbolicate`), the `moduleOffset` string, the two lookup loops of `symbol_map.rs` and wholesym's location policy.
Only property theorems (names `C09_*`) and non-vacuity examples live in this file.
-/
open SourceApi

/-- **Confinement.** A source-file load happens iff the request is well formed, the queried address has
debug-info frames, some frame's file path is spelled exactly `requested`, and the helper makes a location
for it; what is loaded is the location of the **raw path of the first such frame's file path** — computed
from the debug info, not from the request string. -/
theorem C09_confinement {Loc : Type} (apiPath : SourceFilePath → String) (env : Env Loc) (req : Request) :
    ((sourceApi apiPath env req).loads ≠ [] ↔
      req.parsed = true ∧ req.debugIdOk = true ∧
      ∃ fs fp, env.lookup = .frames fs ∧ FirstMatch apiPath fs req.file fp ∧
        (env.locationFor fp.rawPath).isSome = true) ∧
    (∀ fs fp, req.parsed = true → req.debugIdOk = true → env.lookup = .frames fs →
      FirstMatch apiPath fs req.file fp →
      (sourceApi apiPath env req).loads = (env.locationFor fp.rawPath).toList) := by
  constructor
  · constructor
    · intro hne
      rcases sourceApi_cases apiPath env req with ⟨h0, _⟩ | ⟨hp, hd, fs, fp, hl, hf, he⟩
      · exact absurd h0 hne
      · refine ⟨hp, hd, fs, fp, hl, (findPermitted_eq_some_iff _ _ _ _).1 hf, ?_⟩
        rw [he, loadSourceFile_loads] at hne
        cases h : env.locationFor fp.rawPath with
        | none => rw [h] at hne; exact absurd rfl hne
        | some _ => rfl
    · rintro ⟨hp, hd, fs, fp, hl, hm, hs⟩
      have hf := (findPermitted_eq_some_iff _ _ _ _).2 hm
      have : sourceApi apiPath env req = loadSourceFile env fp := by
        unfold sourceApi; simp [hp, hd, hl, hf]
      rw [this, loadSourceFile_loads]
      cases h : env.locationFor fp.rawPath with
      | none => rw [h] at hs; cases hs
      | some _ => simp
  · intro fs fp hp hd hl hm
    have hf := (findPermitted_eq_some_iff _ _ _ _).2 hm
    have : sourceApi apiPath env req = loadSourceFile env fp := by
      unfold sourceApi; simp [hp, hd, hl, hf]
    rw [this, loadSourceFile_loads]

/-- A first match exists exactly when some file path of the address's frames is spelled `requested`. -/
theorem C09_match_iff_exists (apiPath : SourceFilePath → String) (fs : List Frame) (requested : String) :
    (∃ fp, FirstMatch apiPath fs requested fp) ↔ ∃ fp ∈ filePaths fs, apiPath fp = requested :=
  exists_firstMatch_iff apiPath fs requested

/-- **The request string acts only through the equality test.** Two requests that are equal to the same
spellings among the address's file paths get the same loads and the same response class, whatever else
distinguishes the strings (prefixes, `..`, case, doubled slashes, …). -/
theorem C09_request_only_through_equality {Loc : Type} (apiPath : SourceFilePath → String) (env : Env Loc)
    (r1 r2 : Request) (hp : r1.parsed = r2.parsed) (hd : r1.debugIdOk = r2.debugIdOk)
    (heq : ∀ fs, env.lookup = .frames fs → ∀ fp ∈ filePaths fs,
      (apiPath fp = r1.file ↔ apiPath fp = r2.file)) :
    sourceApi apiPath env r1 = sourceApi apiPath env r2 := by
  unfold sourceApi
  rw [hp, hd]
  cases hl : env.lookup with
  | frames fs =>
    have : findPermitted apiPath fs r1.file = findPermitted apiPath fs r2.file := by
      unfold findPermitted
      apply find?_congr_mem
      intro fp hfp
      have h := heq fs hl fp hfp
      by_cases h1 : apiPath fp = r1.file
      · have h2 := h.1 h1
        have e1 : (apiPath fp == r1.file) = true := by simp [h1]
        have e2 : (apiPath fp == r2.file) = true := by simp [h2]
        rw [e1, e2]
      · have h2 : ¬ apiPath fp = r2.file := fun h2 => h1 (h.2 h2)
        have e1 : (apiPath fp == r1.file) = false := by simp [h1]
        have e2 : (apiPath fp == r2.file) = false := by simp [h2]
        rw [e1, e2]
    simp only [this]
  | _ => rfl

/-- **A refused request reads nothing.** If no file path of the queried address is spelled exactly
`requested` — or the request is malformed, the library has no symbols, the address no debug info — the
answer is an error and no source file is loaded. -/
theorem C09_refused_reads_nothing {Loc : Type} (apiPath : SourceFilePath → String) (env : Env Loc)
    (req : Request)
    (h : req.parsed = false ∨ req.debugIdOk = false ∨ env.lookup = .noSymbols ∨ env.lookup = .notFound ∨
      env.lookup = .noFrames ∨
      ∃ fs, env.lookup = .frames fs ∧ ∀ fp ∈ filePaths fs, apiPath fp ≠ req.file) :
    (sourceApi apiPath env req).loads = [] ∧ (sourceApi apiPath env req).outcome.accepted = false ∧
    ((∃ fs, req.parsed = true ∧ req.debugIdOk = true ∧ env.lookup = .frames fs) →
      (sourceApi apiPath env req).outcome = .err .invalidPath) := by
  rcases sourceApi_cases apiPath env req with ⟨h0, ha, hc⟩ | ⟨hp, hd, fs, fp, hl, hf, _⟩
  · refine ⟨h0, ha, ?_⟩
    rintro ⟨fs, hp, hd, hl⟩
    rcases hc with hc | hc | hc | hc | hc | ⟨_, _, _, hc⟩
    · rw [hp] at hc; cases hc
    · rw [hd] at hc; cases hc
    · rw [hl] at hc; cases hc
    · rw [hl] at hc; cases hc
    · rw [hl] at hc; cases hc
    · exact hc
  · exfalso
    rcases h with h | h | h | h | h | ⟨fs', hl', hn⟩
    · rw [hp] at h; cases h
    · rw [hd] at h; cases h
    · rw [hl] at h; cases h
    · rw [hl] at h; cases h
    · rw [hl] at h; cases h
    · rw [hl] at hl'
      cases hl'
      have := (findPermitted_eq_none_iff apiPath fs req.file).2 hn
      rw [this] at hf
      cases hf

/-- Conversely, every response that is not an acceptance read nothing. -/
theorem C09_error_reads_nothing {Loc : Type} (apiPath : SourceFilePath → String) (env : Env Loc)
    (req : Request) (h : (sourceApi apiPath env req).outcome.accepted = false) :
    (sourceApi apiPath env req).loads = [] := by
  rcases sourceApi_cases apiPath env req with ⟨h0, _⟩ | ⟨_, _, fs, fp, _, _, he⟩
  · exact h0
  · rw [he, loadSourceFile_accepted] at h; cases h

/-- One request loads at most one source file. -/
theorem C09_at_most_one_load {Loc : Type} (apiPath : SourceFilePath → String) (env : Env Loc)
    (req : Request) : (sourceApi apiPath env req).loads.length ≤ 1 := by
  rcases sourceApi_cases apiPath env req with ⟨h0, _⟩ | ⟨_, _, fs, fp, _, _, he⟩
  · rw [h0]; simp
  · rw [he, loadSourceFile_loads]
    cases env.locationFor fp.rawPath <;> simp

/-- **Completeness.** Every file string that `/symbolicate/v5` reports for an address — the outer `file`
and every `inlines[].file` — is accepted by `/source/v1` for the same address: the request is not refused,
and the raw path of a frame with that spelling is loaded (unless the helper itself refuses to make a
location for it). -/
theorem C09_complete {Loc : Type} (apiPath : SourceFilePath → String) (env : Env Loc) (fs : List Frame)
    (r : ReportedDebugInfo) (hl : env.lookup = .frames fs) (hr : reportDebugInfo apiPath fs = some r)
    (f : String) (hf : f ∈ r.files) :
    ∃ fp, FirstMatch apiPath fs f fp ∧
      sourceApi apiPath env ⟨true, true, f⟩ = loadSourceFile env fp ∧
      (sourceApi apiPath env ⟨true, true, f⟩).outcome.accepted = true ∧
      (sourceApi apiPath env ⟨true, true, f⟩).loads = (env.locationFor fp.rawPath).toList := by
  -- every reported file is the spelling of some frame's file path
  have hmem : ∃ fp ∈ filePaths fs, apiPath fp = f := by
    unfold reportDebugInfo at hr
    cases hlast : fs.getLast? with
    | none => rw [hlast] at hr; cases hr
    | some outer =>
      rw [hlast] at hr
      simp only [Option.some.injEq] at hr
      subst hr
      simp only [ReportedDebugInfo.files, List.filterMap_cons, id] at hf
      have houter : outer ∈ fs := List.mem_of_getLast? hlast
      cases hof : outer.filePath with
      | some p =>
        rw [hof] at hf
        simp only [Option.map_some, List.mem_cons, List.mem_filterMap, List.mem_map] at hf
        rcases hf with hf | ⟨a, ⟨fr, hfr, ha⟩, hfa⟩
        · exact ⟨p, by unfold filePaths; exact List.mem_filterMap.2 ⟨outer, houter, hof⟩, hf.symm⟩
        · subst ha
          cases hq : fr.filePath with
          | none => rw [hq] at hfa; cases hfa
          | some q =>
            rw [hq] at hfa
            simp only [Option.map_some, id, Option.some.injEq] at hfa
            exact ⟨q, by unfold filePaths; exact List.mem_filterMap.2 ⟨fr, List.dropLast_subset fs hfr, hq⟩, hfa⟩
      | none =>
        rw [hof] at hf
        simp only [Option.map_none, List.mem_filterMap, List.mem_map] at hf
        rcases hf with ⟨a, ⟨fr, hfr, ha⟩, hfa⟩
        subst ha
        cases hq : fr.filePath with
        | none => rw [hq] at hfa; cases hfa
        | some q =>
          rw [hq] at hfa
          simp only [Option.map_some, id, Option.some.injEq] at hfa
          exact ⟨q, by unfold filePaths; exact List.mem_filterMap.2 ⟨fr, List.dropLast_subset fs hfr, hq⟩, hfa⟩
  obtain ⟨fp, hm⟩ := (exists_firstMatch_iff apiPath fs f).2 hmem
  have hfind := (findPermitted_eq_some_iff _ _ _ _).2 hm
  have he : sourceApi apiPath env ⟨true, true, f⟩ = loadSourceFile env fp := by
    unfold sourceApi; simp [hl, hfind]
  exact ⟨fp, hm, he, by rw [he]; exact loadSourceFile_accepted env fp, by rw [he, loadSourceFile_loads]⟩

/-- The converse: a path `/source/v1` accepts for an address is one `/symbolicate/v5` reports for it. -/
theorem C09_only_reported (apiPath : SourceFilePath → String) (fs : List Frame) (requested : String)
    (fp : SourceFilePath) (hm : FirstMatch apiPath fs requested fp) :
    ∃ r, reportDebugInfo apiPath fs = some r ∧ requested ∈ r.files := by
  obtain ⟨hmem, hp⟩ := firstMatch_mem hm
  unfold filePaths at hmem
  obtain ⟨fr, hfr, hq⟩ := List.mem_filterMap.1 hmem
  have hne : fs ≠ [] := List.ne_nil_of_mem hfr
  unfold reportDebugInfo
  rw [List.getLast?_eq_some_getLast hne]
  refine ⟨_, rfl, ?_⟩
  simp only [ReportedDebugInfo.files, List.mem_filterMap, id]
  refine ⟨some requested, ?_, rfl⟩
  have hsplit : fs = fs.dropLast ++ [fs.getLast hne] := (List.dropLast_concat_getLast hne).symm
  rw [hsplit] at hfr
  rcases List.mem_append.1 hfr with h | h
  · apply List.mem_cons_of_mem
    exact List.mem_map.2 ⟨fr, h, by rw [hq, ← hp]; rfl⟩
  · have : fr = fs.getLast hne := by simpa using h
    rw [← this, hq, ← hp]
    exact List.mem_cons_self

/-- The model's result satisfies the judged specification (`SourceApi.specOk`, the property statement as a
decidable predicate, including "the response class is justified by the helper") for every request, when the
address has at least one frame. -/
theorem C09_model_meets_spec {Loc : Type} [DecidableEq Loc] (apiPath : SourceFilePath → String)
    (env : Env Loc) (req : Request) (fs : List Frame) (r : ReportedDebugInfo)
    (hl : env.lookup = .frames fs) (hr : reportDebugInfo apiPath fs = some r) :
    specOk (pairsOf apiPath fs) r.files env.locationFor env.fileLen (req.parsed && req.debugIdOk) req.file
      (sourceApi apiPath env req) = true := by
  unfold specOk
  rcases sourceApi_cases apiPath env req with ⟨h0, ha, hc⟩ | ⟨hp, hd, fs', fp, hl', hf, he⟩
  · -- refused: nothing loaded; a well-formed request for a reported path cannot be refused
    have hnot : (req.parsed && req.debugIdOk && r.files.contains req.file) = false := by
      rcases hc with hc | hc | hc | hc | hc | ⟨fs', hl', hn, _⟩
      · simp [hc]
      · simp [hc]
      · rw [hl] at hc; cases hc
      · rw [hl] at hc; cases hc
      · rw [hl] at hc; cases hc
      · rw [hl] at hl'; cases hl'
        cases hcont : r.files.contains req.file with
        | false => simp
        | true =>
          exfalso
          have hmem : req.file ∈ r.files := by simpa using hcont
          obtain ⟨fp, hm, _⟩ := C09_complete apiPath env fs r hl hr req.file hmem
          rw [(findPermitted_eq_some_iff _ _ _ _).2 hm] at hn
          cases hn
    rw [h0, hnot]
    cases ho : (sourceApi apiPath env req).outcome with
    | ok n => rw [ho] at ha; cases ha
    | err e =>
      cases e <;> first | (simp [Outcome.accepted]; done) | (rw [ho] at ha; simp [Outcome.accepted] at ha)
  · rw [hl] at hl'; cases hl'
    have hm := (findPermitted_eq_some_iff _ _ _ _).1 hf
    obtain ⟨r', hr', hin⟩ := C09_only_reported apiPath fs req.file fp hm
    rw [hr] at hr'; cases hr'
    obtain ⟨hmem, hpath⟩ := firstMatch_mem hm
    have hcont : r.files.contains req.file = true := by simpa using hin
    have hpair : (fp.rawPath, apiPath fp) ∈ pairsOf apiPath fs := by
      unfold pairsOf; exact List.mem_map.2 ⟨fp, hmem, rfl⟩
    rw [he]
    unfold loadSourceFile
    cases hloc : env.locationFor fp.rawPath with
    | none =>
      simp only [hp, hd, hcont, Outcome.accepted, List.length_nil, Nat.zero_le, decide_true,
        List.isEmpty_nil, Bool.true_or, Bool.and_self, Bool.true_and, Bool.not_true, Bool.false_or,
        List.any_eq_true]
      exact ⟨(fp.rawPath, apiPath fp), hpair, by simp [hpath, hloc]⟩
    | some loc =>
      have hany : (pairsOf apiPath fs).any (fun p => p.2 == req.file && env.locationFor p.1 == some loc) = true :=
        List.any_eq_true.2 ⟨(fp.rawPath, apiPath fp), hpair, by simp [hpath, hloc]⟩
      cases hlen : env.fileLen loc with
      | none => simp [hp, hd, hin, Outcome.accepted, hany, hlen]
      | some n => simp [hp, hd, hin, Outcome.accepted, hany, hlen]

/-- With the concrete spelling `toApiFilePath`: for file paths without a mapped path (every path that does
not come from `/rustc/…`, a cargo registry or a PDB `srcsrv` stream) the permitted request strings are
literally the raw paths, and the loaded location is `locationFor requested`. -/
theorem C09_unmapped_exact {Loc : Type} (env : Env Loc) (fs : List Frame) (requested : String)
    (hl : env.lookup = .frames fs) (hu : ∀ fp ∈ filePaths fs, fp.mappedPath = none) :
    (sourceApi toApiFilePath env ⟨true, true, requested⟩).loads =
      if requested ∈ (filePaths fs).map (·.rawPath) then (env.locationFor requested).toList else [] := by
  have hapi : ∀ fp ∈ filePaths fs, toApiFilePath fp = fp.rawPath := by
    intro fp hfp; unfold toApiFilePath; rw [hu fp hfp]
  by_cases hin : requested ∈ (filePaths fs).map (·.rawPath)
  · obtain ⟨fp, hfp, hraw⟩ := List.mem_map.1 hin
    obtain ⟨q, hm⟩ := (exists_firstMatch_iff toApiFilePath fs requested).2 ⟨fp, hfp, by rw [hapi fp hfp, hraw]⟩
    obtain ⟨hqm, hqp⟩ := firstMatch_mem hm
    have := (C09_confinement toApiFilePath env ⟨true, true, requested⟩).2 fs q rfl rfl hl hm
    rw [this, if_pos hin, ← hqp, hapi q hqm]
  · rw [if_neg hin]
    refine (C09_refused_reads_nothing toApiFilePath env ⟨true, true, requested⟩ ?_).1
    refine Or.inr (Or.inr (Or.inr (Or.inr (Or.inr ⟨fs, hl, ?_⟩))))
    intro fp hfp heq
    apply hin
    exact List.mem_map.2 ⟨fp, hfp, by rw [← hapi fp hfp]; exact heq⟩

/-! ## Several offsets, one symbol manager, the receiver of `location_for_source_file`

`Manager` / `loadSymbolMap` / `sourceApiAt` / `symbolicate` (Model/SourceApi.lean) follow
`samply-symbols/src/lib.rs:304-362`, `source/mod.rs:63-79` and `symbolicate/mod.rs:69-130`: the library's debug
id, the module offset and the debug-file candidates are now part of the model. -/

/-- **Which symbol map a request sees** (`load_symbol_map`, lib.rs:304-362): the helper-supplied one if there
is one; otherwise the FIRST candidate, in the helper's order, that loaded and carries the requested debug id —
every earlier candidate failed to load or has another id. -/
theorem C09_symbol_map_choice {DL Loc : Type} (m : Manager DL Loc) (id : String) (l : Loaded DL) :
    loadSymbolMap m id = some l ↔
      m.direct = some l ∨
      (m.direct = none ∧ ∃ before after, m.cands = before ++ .ok l :: after ∧ l.id = id ∧
        ∀ c ∈ before, c = .err ∨ ∃ l', c = .ok l' ∧ l'.id ≠ id) := by
  unfold loadSymbolMap
  cases hd : m.direct with
  | some d => simp
  | none =>
    simp only [reduceCtorEq, false_or, true_and]
    rw [List.findSome?_eq_some_iff]
    constructor
    · rintro ⟨l₁, a, l₂, hl, ha, hn⟩
      obtain ⟨rfl, hid⟩ := (candMatch_eq_some_iff id a l).1 ha
      exact ⟨l₁, l₂, hl, hid, fun c hc => (candMatch_eq_none_iff id c).1 (hn c hc)⟩
    · rintro ⟨l₁, l₂, hl, hid, hn⟩
      exact ⟨l₁, .ok l, l₂, hl, (candMatch_eq_some_iff id _ l).2 ⟨rfl, hid⟩,
        fun c hc => (candMatch_eq_none_iff id c).2 (hn c hc)⟩

/-- **Confinement, with library, offset and receiver.** A source-file load happens iff the body parsed, the
debug id is valid, `load_symbol_map` finds a symbol map `l` for it, the frames of **the requested offset in
that symbol map** contain a file path spelled exactly `file`, and `l`'s **own** `debug_file_location` makes a
location for the first such path's raw path; that location is what is loaded. -/
theorem C09_confinement_offset {DL Loc : Type} (apiPath : SourceFilePath → String) (m : Manager DL Loc)
    (rq : OffsetRequest) :
    ((sourceApiAt apiPath m rq).loads ≠ [] ↔
      rq.parsed = true ∧ ∃ id l fs fp, rq.debugId = some id ∧ loadSymbolMap m id = some l ∧
        l.lookup rq.offset = .frames fs ∧ FirstMatch apiPath fs rq.file fp ∧
        (m.locationFor l.dfl fp.rawPath).isSome = true) ∧
    (∀ id l fs fp, rq.parsed = true → rq.debugId = some id → loadSymbolMap m id = some l →
      l.lookup rq.offset = .frames fs → FirstMatch apiPath fs rq.file fp →
      (sourceApiAt apiPath m rq).loads = (m.locationFor l.dfl fp.rawPath).toList) := by
  unfold sourceApiAt
  have hc := C09_confinement apiPath (envOf m rq.debugId rq.offset) ⟨rq.parsed, rq.debugId.isSome, rq.file⟩
  constructor
  · rw [hc.1]
    constructor
    · rintro ⟨hp, hd, fs, fp, hl, hm, hs⟩
      cases hid : rq.debugId with
      | none => rw [hid] at hd; cases hd
      | some id =>
        rw [hid] at hl hs
        cases hsm : loadSymbolMap m id with
        | none => rw [envOf_none m id _ hsm] at hl; cases hl
        | some l =>
          rw [envOf_some m id l _ hsm] at hl hs
          exact ⟨hp, id, l, fs, fp, rfl, hsm, hl, hm, hs⟩
    · rintro ⟨hp, id, l, fs, fp, hid, hsm, hl, hm, hs⟩
      rw [hid, envOf_some m id l _ hsm]
      exact ⟨hp, rfl, fs, fp, hl, hm, hs⟩
  · intro id l fs fp hp hid hsm hl hm
    have := hc.2 fs fp hp (by simp [hid]) (by rw [hid, envOf_some m id l _ hsm]; exact hl) hm
    rw [this, hid, envOf_some m id l _ hsm]

/-- **Accepted ⇔ reported for that same offset.** For a well-formed request, `/source/v1` accepts `file` for
offset `a` (does not refuse it by the path check) exactly when `file` is one of the strings a `/symbolicate/v5`
request over ANY batch of addresses containing `a`, served by the same manager, reports for `a`. In particular a
file reported only for other offsets of the batch is refused. "Accepted" = `ok`, or the helper refusing to make
a location for the permitted raw path, or the permitted file being unreadable. -/
theorem C09_accepted_iff_reported_in_batch {DL Loc : Type} (apiPath : SourceFilePath → String)
    (m : Manager DL Loc) (id : String) (addrs : List Nat) (a : Nat) (e : SymEntry) (f : String)
    (he : (a, e) ∈ symbolicate apiPath m (some id) addrs) :
    (sourceApiAt apiPath m ⟨true, some id, a, f⟩).outcome.accepted = true ↔ f ∈ e.files := by
  unfold symbolicate at he
  obtain ⟨a', _, hpair⟩ := List.mem_map.1 he
  cases hpair
  unfold sourceApiAt symbolicateAt envOf
  simp only [Option.bind_some, Option.isSome_some]
  cases hsm : loadSymbolMap m id with
  | none => simp [sourceApi, SymEntry.files, Outcome.accepted]
  | some l =>
    simp only
    cases hl : l.lookup a with
    | noSymbols => simp [sourceApi, symEntry, SymEntry.files, Outcome.accepted]
    | notFound => simp [sourceApi, symEntry, SymEntry.files, Outcome.accepted]
    | noFrames => simp [sourceApi, symEntry, SymEntry.files, Outcome.accepted]
    | frames fs =>
      let env : Env Loc := ⟨Lookup.frames fs, m.locationFor l.dfl, m.fileLen⟩
      constructor
      · intro hacc
        rcases sourceApi_cases apiPath env ⟨true, true, f⟩ with ⟨_, ha, _⟩ | ⟨_, _, fs', fp, hl', hf, _⟩
        · rw [ha] at hacc; cases hacc
        · cases hl'
          obtain ⟨r, hr, hin⟩ := C09_only_reported apiPath fs f fp ((findPermitted_eq_some_iff _ _ _ _).1 hf)
          simp [symEntry, hr, SymEntry.files, hin]
      · intro hin
        cases hr : reportDebugInfo apiPath fs with
        | none => simp [symEntry, hr, SymEntry.files] at hin
        | some r =>
          simp only [symEntry, hr, SymEntry.files] at hin
          exact (C09_complete apiPath env fs r rfl hr f hin).choose_spec.2.2.1

/-- **A file that is not reported for the requested offset is never read**, whatever the request looks like
(well formed or not) and whatever other offsets of the library report. -/
theorem C09_not_reported_for_offset_refused {DL Loc : Type} (apiPath : SourceFilePath → String)
    (m : Manager DL Loc) (id : String) (rq : OffsetRequest)
    (hid : rq.debugId = some id ∨ rq.debugId = none)
    (hn : rq.file ∉ (symbolicateAt apiPath m (some id) rq.offset).files) :
    (sourceApiAt apiPath m rq).loads = [] ∧ (sourceApiAt apiPath m rq).outcome.accepted = false := by
  have key : (sourceApiAt apiPath m rq).outcome.accepted = false := by
    cases hacc : (sourceApiAt apiPath m rq).outcome.accepted with
    | false => rfl
    | true =>
      exfalso
      rcases hid with hid | hid
      · -- a well-formed prefix is needed for acceptance
        have hp : rq.parsed = true := by
          cases hp : rq.parsed with
          | true => rfl
          | false => simp [sourceApiAt, sourceApi, hp, Outcome.accepted] at hacc
        have hrq : rq = ⟨true, some id, rq.offset, rq.file⟩ := by
          cases rq; simp_all
        rw [hrq] at hacc
        exact hn ((C09_accepted_iff_reported_in_batch apiPath m id [rq.offset] rq.offset _ rq.file
          (by simp [symbolicate])).1 hacc)
      · cases hp : rq.parsed <;> simp [sourceApiAt, sourceApi, hid, hp, Outcome.accepted] at hacc
  exact ⟨C09_error_reads_nothing apiPath _ _ key, key⟩

/-- **Requests do not influence each other**: whatever was asked before or is asked after on the same manager
(other offsets, other files, malformed requests), a request gets the answer it would get alone. The manager
holds no state (lib.rs:262-264) and every request loads the symbol map afresh (source/mod.rs:72). -/
theorem C09_requests_independent {DL Loc : Type} (apiPath : SourceFilePath → String) (m : Manager DL Loc)
    (before after : List OffsetRequest) (rq : OffsetRequest) :
    (serve apiPath m (before ++ rq :: after)).length = before.length + 1 + after.length ∧
    (serve apiPath m (before ++ rq :: after))[before.length]? = some (sourceApiAt apiPath m rq) := by
  unfold serve
  constructor
  · simp; omega
  · simp

/-- The model meets the judged specification per offset: pairs = the frames of the requested offset in the
symbol map `load_symbol_map` chose, reported = what the batched `/symbolicate/v5` model reports for that offset,
location = what the chosen symbol map's `debug_file_location` gives. -/
theorem C09_model_meets_spec_offset {DL Loc : Type} [DecidableEq Loc] (apiPath : SourceFilePath → String)
    (m : Manager DL Loc) (id : String) (l : Loaded DL) (rq : OffsetRequest) (fs : List Frame)
    (hid : rq.debugId = some id) (hsm : loadSymbolMap m id = some l)
    (hl : l.lookup rq.offset = .frames fs) (hne : fs ≠ []) :
    specOk (pairsOf apiPath fs) (symbolicateAt apiPath m (some id) rq.offset).files (m.locationFor l.dfl)
      m.fileLen (rq.parsed && rq.debugId.isSome) rq.file (sourceApiAt apiPath m rq) = true := by
  obtain ⟨r, hr⟩ : ∃ r, reportDebugInfo apiPath fs = some r := by
    unfold reportDebugInfo
    rw [List.getLast?_eq_some_getLast hne]
    exact ⟨_, rfl⟩
  have := C09_model_meets_spec apiPath (⟨l.lookup rq.offset, m.locationFor l.dfl, m.fileLen⟩ : Env Loc)
    ⟨rq.parsed, rq.debugId.isSome, rq.file⟩ fs r hl hr
  unfold sourceApiAt symbolicateAt
  rw [hid, envOf_some m id l _ hsm]
  simp only [Option.bind_some, hsm, hl, symEntry, hr, SymEntry.files]
  rw [hid, hl] at this
  exact this

/-- **The `moduleOffset` string.** What `from_prefixed_hex_str` accepts is a `0x`-prefixed, non-empty string and
denotes an offset below `2^32`; a body whose offset string it rejects is answered with a parse error and reads
nothing, whatever file it names. -/
theorem C09_offset_string {DL Loc : Type} (apiPath : SourceFilePath → String) (m : Manager DL Loc)
    (r : RawRequest) :
    (∀ n, parseModuleOffset r.offsetStr = some n →
      n < 4294967296 ∧ (∃ rest, r.offsetStr = '0' :: 'x' :: rest ∧ rest ≠ []) ∧
      r.toOffsetRequest = ⟨r.wellFormedJson, r.debugId, n, r.file⟩) ∧
    (parseModuleOffset r.offsetStr = none →
      (sourceApiAt apiPath m r.toOffsetRequest).loads = [] ∧
      (sourceApiAt apiPath m r.toOffsetRequest).outcome = .err .parse) := by
  constructor
  · intro n h
    exact ⟨(parseModuleOffset_some h).1, (parseModuleOffset_some h).2, by simp [RawRequest.toOffsetRequest, h]⟩
  · intro h
    simp [RawRequest.toOffsetRequest, h, sourceApiAt, sourceApi]

/-- **Every `u32` offset has an accepted spelling.** The lower-case hex rendering `0x{:x}` of any offset below
`2^32` (`Nat.toDigits 16 n` — the spelling the front end uses for the offsets `/symbolicate/v5` answered) is
accepted by `from_prefixed_hex_str` and denotes exactly `n`: the request reaches the permission check with the
offset the client meant, so the "every reported path is accepted for that same offset" clause
(`C09_complete`, `C09_accepted_iff_reported_in_batch`) is not lost in the parsing of the body. Together with `C09_offset_string`
(`some n → n < 2^32`): the accepted offsets are exactly the `u32` values. -/
theorem C09_offset_string_complete (r : RawRequest) (n : Nat) (h : n < 4294967296)
    (hs : r.offsetStr = '0' :: 'x' :: Nat.toDigits 16 n) :
    parseModuleOffset r.offsetStr = some n ∧
    r.toOffsetRequest = ⟨r.wellFormedJson, r.debugId, n, r.file⟩ := by
  have hp : parseModuleOffset r.offsetStr = some n := by rw [hs]; exact parseModuleOffset_toDigits16 n h
  exact ⟨hp, by simp [RawRequest.toOffsetRequest, hp]⟩

/-- non-vacuity: the spelling of the fixture offset, and of the largest `u32` -/
example : '0' :: 'x' :: Nat.toDigits 16 30426946 = "0x1d04742".toList ∧
    '0' :: 'x' :: Nat.toDigits 16 4294967295 = "0xffffffff".toList := by decide

/-! ## Both endpoints see the same frames

`lookupFresh` = `SymbolMap::lookup` (`/source/v1`), `lookupBatch` = `lookup_sync` + `lookup_external`
(`/symbolicate/v5`), Model/SourceApi.lean. -/

/-- **The two lookup paths agree**, provided the external-file cache of the inner symbol map is coherent:
`try_lookup_external(x)` either misses (hands `x` back) or answers what loading `x`'s file and asking it would
answer. Whenever `SymbolMap::lookup` returns (after loading at most `fuel` external files),
`lookup_sync` + `lookup_external` returns the same frames within the same bound, for every address, whatever
the inner symbol map and the helper do; conversely with one more load. -/
theorem C09_lookup_paths_agree {X C : Type} (im : InnerMap X C)
    (hc : ∀ x, im.tryCached x = some (.external x) ∨ im.tryCached x = im.tryWithFile x (im.loadAux x))
    (fuel a : Nat) (v : Option (List Frame)) :
    (lookupFresh im fuel a = some v → lookupBatch im fuel a = some v) ∧
    (lookupBatch im fuel a = some v → lookupFresh im (fuel + 1) a = some v) := by
  unfold lookupFresh lookupBatch
  cases hs : im.lookupSync a with
  | none => simp
  | some o =>
    cases o with
    | none => simp
    | some f =>
      cases f with
      | available fs => simp
      | external x =>
        cases hw : im.withAddFile <;> cases hh : im.hasHelper <;> simp
        rcases hc x with hx | hx
        · rw [hx]
          exact ⟨id, resolveExternal_mono im fuel _ v⟩
        · rw [hx]
          constructor
          · intro h
            cases fuel with
            | zero => simp [resolveExternal] at h
            | succ n =>
              simp only [resolveExternal] at h
              exact resolveExternal_mono im n _ v h
          · intro h
            simp only [resolveExternal]
            exact h

/-! ## wholesym's location policy (`wholesym/src/helper.rs:92-125`) as the helper -/

/-- With wholesym's policy, if the symbol map that `load_symbol_map` chose does not live in a local file (it
was downloaded from a symbol server, debuginfod, a Breakpad server, …), no source file is read for any request. -/
theorem C09_wholesym_remote_reads_nothing (ops : PathOps) (apiPath : SourceFilePath → String)
    (m : Manager WLoc WLoc) (hm : m.locationFor = wholesymLocationFor ops) (id : String) (l : Loaded WLoc)
    (hsm : loadSymbolMap m id = some l) (hrem : ∀ p, l.dfl ≠ .localFile p) (rq : OffsetRequest)
    (hid : rq.debugId = some id ∨ rq.debugId = none) :
    (sourceApiAt apiPath m rq).loads = [] := by
  cases hloads : (sourceApiAt apiPath m rq).loads with
  | nil => rfl
  | cons x xs =>
    exfalso
    have hne : (sourceApiAt apiPath m rq).loads ≠ [] := by rw [hloads]; simp
    obtain ⟨_, id', l', fs, fp, hid', hsm', _, _, hs⟩ := (C09_confinement_offset apiPath m rq).1.1 hne
    rcases hid with hid | hid
    · rw [hid] at hid'; cases hid'
      rw [hsm] at hsm'; cases hsm'
      rw [hm] at hs
      cases hd : l.dfl with
      | localFile p => exact hrem p hd
      | url u => rw [hd] at hs; simp [wholesymLocationFor] at hs
      | remote => rw [hd] at hs; simp [wholesymLocationFor] at hs
    · rw [hid] at hid'; cases hid'

/-- With wholesym's policy and a local debug file `dbg`: whatever is read is the raw path `raw` of the first
frame of the requested offset spelled like the request — as a URL if it starts with `http(s)://`, as it stands
if absolute, otherwise joined to the directory of `dbg`. The request string itself is never turned into a location. -/
theorem C09_wholesym_local (ops : PathOps) (apiPath : SourceFilePath → String)
    (m : Manager WLoc WLoc) (hm : m.locationFor = wholesymLocationFor ops) (id : String) (l : Loaded WLoc)
    (dbg : String) (hsm : loadSymbolMap m id = some l) (hloc : l.dfl = .localFile dbg)
    (rq : OffsetRequest) (hid : rq.debugId = some id) (x : WLoc) (hx : x ∈ (sourceApiAt apiPath m rq).loads) :
    ∃ fs fp, l.lookup rq.offset = .frames fs ∧ FirstMatch apiPath fs rq.file fp ∧
      (((fp.rawPath.startsWith "https://" || fp.rawPath.startsWith "http://") = true ∧ x = .url fp.rawPath) ∨
       ((fp.rawPath.startsWith "https://" || fp.rawPath.startsWith "http://") = false ∧
          ops.isAbsolute fp.rawPath = true ∧ x = .localFile fp.rawPath) ∨
       ((fp.rawPath.startsWith "https://" || fp.rawPath.startsWith "http://") = false ∧
          ops.isAbsolute fp.rawPath = false ∧
          ∃ b, ops.parent dbg = some b ∧ x = .localFile (ops.join b fp.rawPath))) := by
  have hne : (sourceApiAt apiPath m rq).loads ≠ [] := List.ne_nil_of_mem hx
  obtain ⟨hp, id', l', fs, fp, hid', hsm', hl, hfm, _⟩ := (C09_confinement_offset apiPath m rq).1.1 hne
  rw [hid] at hid'; cases hid'
  rw [hsm] at hsm'; cases hsm'
  have hloads := (C09_confinement_offset apiPath m rq).2 id l fs fp hp hid hsm hl hfm
  rw [hloads, hm, hloc] at hx
  refine ⟨fs, fp, hl, hfm, ?_⟩
  simp only [wholesymLocationFor] at hx
  cases hu : (fp.rawPath.startsWith "https://" || fp.rawPath.startsWith "http://") with
  | true =>
    rw [hu] at hx
    simp only [if_true, Option.toList_some, List.mem_singleton] at hx
    exact Or.inl ⟨rfl, hx⟩
  | false =>
    rw [hu] at hx
    simp only [Bool.false_eq_true, if_false] at hx
    cases ha : ops.isAbsolute fp.rawPath with
    | true =>
      rw [ha] at hx
      simp only [if_true, Option.toList_some, List.mem_singleton] at hx
      exact Or.inr (Or.inl ⟨rfl, rfl, hx⟩)
    | false =>
      rw [ha] at hx
      simp only [Bool.false_eq_true, if_false] at hx
      cases hpar : ops.parent dbg with
      | none => rw [hpar] at hx; simp at hx
      | some b =>
        rw [hpar] at hx
        simp only [Option.map_some, Option.toList_some, List.mem_singleton] at hx
        exact Or.inr (Or.inr ⟨rfl, rfl, b, rfl, hx⟩)

/-! ### Non-vacuity

One address with three frames (innermost first): an inlinee from a cargo registry crate (raw path ≠ API
spelling), an inlinee without a file, and the outer function in a plain local file; a second inlinee shares
the outer function's file in `C09_exShared`. -/

def C09_exCargo : SourceFilePath :=
  ⟨"/home/u/.cargo/registry/src/github.com-1ecc6299db9ec823/nom-7.1.3/src/bytes/complete.rs",
   some (.cargo "github.com-1ecc6299db9ec823" "nom" "7.1.3" "src/bytes/complete.rs")⟩
def C09_exLocal : SourceFilePath := ⟨"/home/u/proj/src/main.rs", none⟩
def C09_exRustc : SourceFilePath :=
  ⟨"/rustc/abc123/library/core/src/ptr.rs", some (.git "github.com/rust-lang/rust" "library/core/src/ptr.rs" "abc123")⟩
def C09_exFrames : List Frame := [⟨some C09_exCargo⟩, ⟨none⟩, ⟨some C09_exRustc⟩, ⟨some C09_exLocal⟩]
def C09_exShared : List Frame := [⟨some C09_exLocal⟩, ⟨some C09_exCargo⟩, ⟨some C09_exLocal⟩]
/-- helper that accepts absolute paths only and stores two of the three files -/
def C09_exEnv (fs : List Frame) : Env String :=
  { lookup := .frames fs
    locationFor := fun p => if p.toList.head? == some '/' then some p else none
    fileLen := fun l => if l == C09_exLocal.rawPath then some 120 else if l == C09_exCargo.rawPath then some 77 else none }

example : toApiFilePath C09_exCargo = "cargo:github.com-1ecc6299db9ec823:nom-7.1.3:src/bytes/complete.rs" := by decide
example : toApiFilePath C09_exRustc = "git:github.com/rust-lang/rust:library/core/src/ptr.rs:abc123" := by decide
-- the reported files of the address: outer file first, then the inlines in order
example : (reportDebugInfo toApiFilePath C09_exFrames).map (·.files) =
    some ["/home/u/proj/src/main.rs", "cargo:github.com-1ecc6299db9ec823:nom-7.1.3:src/bytes/complete.rs",
          "git:github.com/rust-lang/rust:library/core/src/ptr.rs:abc123"] := by decide
-- the API spelling is accepted and the RAW path is what gets loaded
example : (sourceApi toApiFilePath (C09_exEnv C09_exFrames)
      ⟨true, true, "cargo:github.com-1ecc6299db9ec823:nom-7.1.3:src/bytes/complete.rs"⟩).loads
    = [C09_exCargo.rawPath] := by decide
example : (sourceApi toApiFilePath (C09_exEnv C09_exFrames)
      ⟨true, true, "cargo:github.com-1ecc6299db9ec823:nom-7.1.3:src/bytes/complete.rs"⟩).outcome = .ok 77 := by decide
-- the raw path of a mapped file is NOT an accepted spelling
example : (sourceApi toApiFilePath (C09_exEnv C09_exFrames) ⟨true, true, C09_exCargo.rawPath⟩).loads = [] ∧
    (sourceApi toApiFilePath (C09_exEnv C09_exFrames) ⟨true, true, C09_exCargo.rawPath⟩).outcome
      = .err .invalidPath := by decide
-- decorated variants of a permitted path are refused without a read
example : ∀ r ∈ ["/home/u/proj/src/main.rs/", "/home/u/proj/src/../src/main.rs", "/home/u/proj//src/main.rs",
      "/home/u/proj/src/main.r", "/HOME/u/proj/src/main.rs", "home/u/proj/src/main.rs", "/etc/passwd", "", "../../x"],
    (sourceApi toApiFilePath (C09_exEnv C09_exFrames) ⟨true, true, r⟩).loads = [] := by decide
-- a file that exists in the store but is missing for this address is refused
example : (sourceApi toApiFilePath (C09_exEnv [⟨some C09_exLocal⟩]) ⟨true, true, C09_exCargo.rawPath⟩).outcome
    = .err .invalidPath := by decide
-- several frames sharing a file: one load, of the first match
example : (sourceApi toApiFilePath (C09_exEnv C09_exShared) ⟨true, true, "/home/u/proj/src/main.rs"⟩).loads
    = ["/home/u/proj/src/main.rs"] := by decide
-- accepted but unreadable (the rustc file is not in the store): the load is attempted, error class openFile
example : (sourceApi toApiFilePath (C09_exEnv C09_exFrames)
      ⟨true, true, "git:github.com/rust-lang/rust:library/core/src/ptr.rs:abc123"⟩).loads
    = ["/rustc/abc123/library/core/src/ptr.rs"] ∧
    (sourceApi toApiFilePath (C09_exEnv C09_exFrames)
      ⟨true, true, "git:github.com/rust-lang/rust:library/core/src/ptr.rs:abc123"⟩).outcome
    = .err .openFile := by decide
-- the hypotheses of C09_complete / C09_model_meets_spec are satisfiable
example : ∃ r, reportDebugInfo toApiFilePath C09_exFrames = some r ∧ r.files.length = 3 := by decide
example : FirstMatch toApiFilePath C09_exShared "/home/u/proj/src/main.rs" C09_exLocal :=
  ⟨[], [C09_exCargo, C09_exLocal], by decide, by decide, by simp⟩

/-- **The path handed to the file system is the matched raw path as it stands.** With wholesym's policy, a
local debug file `dbg` and a request whose file matches a frame `fp` of the requested offset (raw path not a
URL): exactly one location is loaded; for an absolute raw path it is `LocalFile raw` — the very string of the
debug info, no component dropped, collapsed or otherwise rewritten — and for a relative one `LocalFile (join
(parent dbg) raw)`. Consequently, when the helper's `fileLen` is the operating system's reading `osRead` of a
path string (symlinks and `..` resolved by the OS, not lexically), the response is `ok n` exactly when the OS
reads `n` bytes for that very string, and an open error exactly when the OS cannot read it. -/
theorem C09_wholesym_path_verbatim (ops : PathOps) (apiPath : SourceFilePath → String)
    (m : Manager WLoc WLoc) (hm : m.locationFor = wholesymLocationFor ops)
    (osRead : String → Option Nat)
    (hf : m.fileLen = fun l => match l with
      | .localFile p => osRead p
      | _ => none)
    (id : String) (l : Loaded WLoc) (dbg : String) (hsm : loadSymbolMap m id = some l)
    (hloc : l.dfl = .localFile dbg) (rq : OffsetRequest) (hp : rq.parsed = true) (hid : rq.debugId = some id)
    (fs : List Frame) (fp : SourceFilePath) (hl : l.lookup rq.offset = .frames fs)
    (hfm : FirstMatch apiPath fs rq.file fp)
    (hnu : (fp.rawPath.startsWith "https://" || fp.rawPath.startsWith "http://") = false) :
    (ops.isAbsolute fp.rawPath = true →
      (sourceApiAt apiPath m rq).loads = [.localFile fp.rawPath] ∧
      (sourceApiAt apiPath m rq).outcome =
        (match osRead fp.rawPath with
         | some n => .ok n
         | none => .err .openFile)) ∧
    (ops.isAbsolute fp.rawPath = false → ∀ b, ops.parent dbg = some b →
      (sourceApiAt apiPath m rq).loads = [.localFile (ops.join b fp.rawPath)] ∧
      (sourceApiAt apiPath m rq).outcome =
        (match osRead (ops.join b fp.rawPath) with
         | some n => .ok n
         | none => .err .openFile)) := by
  have hfind := (findPermitted_eq_some_iff _ _ _ _).2 hfm
  have hres : sourceApiAt apiPath m rq
      = loadSourceFile (⟨l.lookup rq.offset, m.locationFor l.dfl, m.fileLen⟩ : Env WLoc) fp := by
    unfold sourceApiAt
    rw [hid, envOf_some m id l _ hsm]
    unfold sourceApi
    simp [hp, hl, hfind]
  constructor
  · intro habs
    have hlocn : m.locationFor l.dfl fp.rawPath = some (.localFile fp.rawPath) := by
      rw [hm, hloc]; simp [wholesymLocationFor, hnu, habs]
    rw [hres]
    unfold loadSourceFile
    simp only [hlocn, hf]
    cases osRead fp.rawPath <;> simp
  · intro hrel b hb
    have hlocn : m.locationFor l.dfl fp.rawPath = some (.localFile (ops.join b fp.rawPath)) := by
      rw [hm, hloc]; simp [wholesymLocationFor, hnu, hrel, hb]
    rw [hres]
    unfold loadSourceFile
    simp only [hlocn, hf]
    cases osRead (ops.join b fp.rawPath) <;> simp

/-- The model's response class and content satisfy the content-only specification `specOkContent` (the judge
of the real-wholesym cases, where loads cannot be observed), for every request, when the address has frames. -/
theorem C09_model_meets_content_spec {Loc : Type} (apiPath : SourceFilePath → String)
    (env : Env Loc) (req : Request) (fs : List Frame) (r : ReportedDebugInfo)
    (hl : env.lookup = .frames fs) (hr : reportDebugInfo apiPath fs = some r) :
    specOkContent (pairsOf apiPath fs) r.files env.locationFor env.fileLen (req.parsed && req.debugIdOk) req.file
      (sourceApi apiPath env req).outcome = true := by
  rcases sourceApi_cases apiPath env req with ⟨_, ha, hc⟩ | ⟨hp, hd, fs', fp, hl', hf, he⟩
  · have hnot : (req.parsed && req.debugIdOk && r.files.contains req.file) = false := by
      rcases hc with hc | hc | hc | hc | hc | ⟨fs', hl', hn, _⟩
      · simp [hc]
      · simp [hc]
      · rw [hl] at hc; cases hc
      · rw [hl] at hc; cases hc
      · rw [hl] at hc; cases hc
      · rw [hl] at hl'; cases hl'
        cases hcont : r.files.contains req.file with
        | false => simp
        | true =>
          exfalso
          have hmem : req.file ∈ r.files := by simpa using hcont
          obtain ⟨fp, hm, _⟩ := C09_complete apiPath env fs r hl hr req.file hmem
          rw [(findPermitted_eq_some_iff _ _ _ _).2 hm] at hn
          cases hn
    unfold specOkContent
    cases ho : (sourceApi apiPath env req).outcome with
    | ok n => rw [ho] at ha; cases ha
    | err e =>
      have hgoal : (!(req.parsed && req.debugIdOk && r.files.contains req.file)) = true := by rw [hnot]; rfl
      cases e with
      | openFile => rw [ho] at ha; simp [Outcome.accepted] at ha
      | refusedLocation => rw [ho] at ha; simp [Outcome.accepted] at ha
      | parse => exact hgoal
      | noSymbols => exact hgoal
      | noDebugInfo => exact hgoal
      | invalidPath => exact hgoal
  · rw [hl] at hl'; cases hl'
    have hm := (findPermitted_eq_some_iff _ _ _ _).1 hf
    obtain ⟨r', hr', hin⟩ := C09_only_reported apiPath fs req.file fp hm
    rw [hr] at hr'; cases hr'
    obtain ⟨hmem, hpath⟩ := firstMatch_mem hm
    have hpair : (fp.rawPath, apiPath fp) ∈ (pairsOf apiPath fs).filter (fun p => p.2 == req.file) := by
      refine List.mem_filter.2 ⟨?_, by simp [hpath]⟩
      unfold pairsOf; exact List.mem_map.2 ⟨fp, hmem, rfl⟩
    have hcont : r.files.contains req.file = true := by simpa using hin
    rw [he]
    unfold loadSourceFile specOkContent
    cases hloc : env.locationFor fp.rawPath with
    | none =>
      simp only [hp, hd, hcont, Bool.and_self, Bool.true_and]
      refine List.any_eq_true.2 ⟨(fp.rawPath, apiPath fp), hpair, ?_⟩
      simp [hloc]
    | some loc =>
      cases hlen : env.fileLen loc with
      | none =>
        simp only [hlen, hp, hd, hcont, Bool.and_self, Bool.true_and]
        refine List.any_eq_true.2 ⟨(fp.rawPath, apiPath fp), hpair, ?_⟩
        simp [hloc, hlen]
      | some n =>
        simp only [hlen, hp, hd, hcont, Bool.and_self, Bool.true_and]
        refine List.any_eq_true.2 ⟨(fp.rawPath, apiPath fp), hpair, ?_⟩
        simp [hloc, hlen]

/-! ### Non-vacuity of the offset / candidate / receiver theorems

Four candidates: one fails to load, one is another build, two carry the requested build (the first of them, a
downloaded one, wins). Offset 16 has the frames of `C09_exFrames`, offset 32 only the local file. -/

def C09_exManager : Manager (Bool × String) (String × String) :=
  { direct := none
    cands := [.err,
              .ok ⟨"OTHER", (false, "/local/lib.debug"), fun _ => .frames C09_exFrames⟩,
              .ok ⟨"ID1", (true, "/symcache/lib.debug"), fun o =>
                if o == 16 then .frames C09_exFrames else if o == 32 then .frames [⟨some C09_exLocal⟩] else .notFound⟩,
              .ok ⟨"ID1", (false, "/mirror/lib.debug"), fun _ => .frames C09_exFrames⟩]
    locationFor := fun dl p => some (dl.2, p)
    fileLen := fun l => if l.2 == C09_exLocal.rawPath then some 120 else none }

-- the receiver is the location of the first candidate with the requested id, not of the first candidate
example : (sourceApiAt toApiFilePath C09_exManager ⟨true, some "ID1", 16, "/home/u/proj/src/main.rs"⟩).loads
    = [("/symcache/lib.debug", "/home/u/proj/src/main.rs")] := by decide
example : (sourceApiAt toApiFilePath C09_exManager ⟨true, some "ID1", 16, "/home/u/proj/src/main.rs"⟩).outcome
    = .ok 120 := by decide
-- reported for offset 16, not for offset 32: refused there, nothing read
example : (sourceApiAt toApiFilePath C09_exManager
      ⟨true, some "ID1", 32, "cargo:github.com-1ecc6299db9ec823:nom-7.1.3:src/bytes/complete.rs"⟩).outcome
    = .err .invalidPath := by decide
example : (sourceApiAt toApiFilePath C09_exManager
      ⟨true, some "ID1", 16, "cargo:github.com-1ecc6299db9ec823:nom-7.1.3:src/bytes/complete.rs"⟩).loads
    = [("/symcache/lib.debug", C09_exCargo.rawPath)] := by decide
-- a build nobody has
example : (sourceApiAt toApiFilePath C09_exManager ⟨true, some "ID2", 16, "/home/u/proj/src/main.rs"⟩).outcome
    = .err .noSymbols := by decide
-- one batched /symbolicate/v5 over three addresses: 1, 3 and 0 files
example : (symbolicate toApiFilePath C09_exManager (some "ID1") [32, 16, 7]).map (fun e => e.2.files.length)
    = [1, 3, 0] := by decide
-- requests interleaved on one manager
example : ((serve toApiFilePath C09_exManager
      [⟨true, some "ID1", 32, "/etc/passwd"⟩, ⟨true, some "ID1", 16, "/home/u/proj/src/main.rs"⟩,
       ⟨true, none, 16, "/home/u/proj/src/main.rs"⟩]).map (·.loads.length)) = [0, 1, 0] := by decide
-- hypotheses of the wholesym theorems: a downloaded debug file wins
example : ∃ (m : Manager WLoc WLoc) (l : Loaded WLoc), loadSymbolMap m "ID1" = some l ∧ ∀ p, l.dfl ≠ .localFile p :=
  ⟨⟨none, [.err, .ok ⟨"ID1", .remote, fun _ => .frames C09_exFrames⟩], wholesymLocationFor ⟨fun _ => true, fun _ => none, fun a _ => a⟩,
     fun _ => none⟩, ⟨"ID1", .remote, fun _ => .frames C09_exFrames⟩, by simp [loadSymbolMap, List.findSome?, candMatch], by intro p h; cases h⟩

/-- external references chained through two files (dwo → …): `x` resolves after `x + 1` loads; the cache never hits -/
def C09_exInner : InnerMap Nat Unit :=
  { lookupSync := fun a => if a == 0 then none else some (some (.external (a - 1)))
    withAddFile := true
    hasHelper := true
    loadAux := fun _ => some ()
    tryWithFile := fun x _ => if x == 0 then some (.available [⟨some C09_exLocal⟩]) else some (.external (x - 1))
    tryCached := fun x => some (.external x) }

example : ∀ x, C09_exInner.tryCached x = some (.external x) ∨
    C09_exInner.tryCached x = C09_exInner.tryWithFile x (C09_exInner.loadAux x) := fun _ => Or.inl rfl
example : lookupFresh C09_exInner 2 2 = some (some [⟨some C09_exLocal⟩]) := by decide
example : lookupBatch C09_exInner 2 2 = some (some [⟨some C09_exLocal⟩]) := by decide
example : lookupFresh C09_exInner 1 2 = none := by decide

-- the offset string: prefix, sign, case, leading zeros, overflow
example : parseModuleOffset "0x1d04742".toList = some 30426946 := by decide
example : parseModuleOffset "0x+1F".toList = some 31 := by decide
example : parseModuleOffset "0x0000000000ff".toList = some 255 := by decide
example : parseModuleOffset "0xffffffff".toList = some 4294967295 := by decide
example : ∀ s ∈ ["0x100000000", "1f", "0X1f", "0x", "0x+", "0x-1", "0x1g", "0x 1", "", "x1", "0x1_0"],
    parseModuleOffset s.toList = none := by decide

-- hypotheses of C09_wholesym_path_verbatim: a local Breakpad file wins, the file system is the OS's reading of
-- path strings (here: only the path through the symlinked directory is readable, 64 bytes)
example : ∃ (m : Manager WLoc WLoc) (l : Loaded WLoc) (osRead : String → Option Nat),
    m.locationFor = wholesymLocationFor ⟨fun p => p.startsWith "/", fun _ => some "/ROOT/sym", fun a b => a ++ "/" ++ b⟩ ∧
    (m.fileLen = fun l => match l with
      | .localFile p => osRead p
      | _ => none) ∧
    loadSymbolMap m "ID1" = some l ∧ l.dfl = .localFile "/ROOT/sym/lib" ∧
    l.lookup 4096 = .frames [⟨some ⟨"/ROOT/src/link/../prog.c", none⟩⟩] ∧
    osRead "/ROOT/src/link/../prog.c" = some 64 ∧ osRead "/ROOT/src/prog.c" = none :=
  ⟨⟨none, [.ok ⟨"ID1", .localFile "/ROOT/sym/lib", fun _ => .frames [⟨some ⟨"/ROOT/src/link/../prog.c", none⟩⟩]⟩],
      wholesymLocationFor ⟨fun p => p.startsWith "/", fun _ => some "/ROOT/sym", fun a b => a ++ "/" ++ b⟩,
      fun l => match l with
        | .localFile p => (fun p => if p = "/ROOT/src/link/../prog.c" then some 64 else none) p
        | _ => none⟩,
    ⟨"ID1", .localFile "/ROOT/sym/lib", fun _ => .frames [⟨some ⟨"/ROOT/src/link/../prog.c", none⟩⟩]⟩,
    fun p => if p = "/ROOT/src/link/../prog.c" then some 64 else none,
    rfl, rfl, by simp [loadSymbolMap, List.findSome?, candMatch], rfl, rfl, by simp, by decide⟩
