import SamplyModel.Lemmas.SourceApi
/-!
# C09 — `/source/v1` only ever reads files named by the debug info of the queried address

Model: `SamplyModel/Model/SourceApi.lean` (follows `samply-api/src/source/mod.rs:48-101`,
`samply-symbols/src/lib.rs:283-302`, `samply-api/src/api_file_path.rs`, `mapped_path.rs:80-97` and the
`file` / `inlines[].file` part of `symbolicate/mod.rs:229-251`).

All theorems hold for **every** spelling function `apiPath : SourceFilePath → String` (so whatever
`to_special_path_str` does), every helper (`Env.locationFor`, `Env.fileLen`, any location type), every
lookup outcome and frame list of any length, and every request string.
`FirstMatch apiPath fs requested fp` (Lemmas) says: `fp` is the first file path, in frame order, whose API
spelling equals `requested`.
Only property theorems (names `C09_*`) and non-vacuity examples live in this file.
-/
open SourceApi

/-- **Confinement.** A source-file load happens iff the request is well formed, the queried address has
debug-info frames, some frame's file path is spelled exactly `requested`, and the helper makes a location
for it; what is loaded is the location of the **raw path of the first such frame's file path** — computed
from the debug info, not from the request string. -/
theorem C09_confinement {Loc : Type} (apiPath : SourceFilePath → String) (env : Env Loc) (req : Request) :
    ((sourceApi apiPath env req).loads ≠ [] ↔
      req.parsed = true ∧ req.debugIdOk = true ∧
      ∃ fs fp, env.lookup = .frames fs ∧ FirstMatch apiPath fs req.file fp ∧
        (env.locationFor fp.rawPath).isSome = true) ∧
    (∀ fs fp, req.parsed = true → req.debugIdOk = true → env.lookup = .frames fs →
      FirstMatch apiPath fs req.file fp →
      (sourceApi apiPath env req).loads = (env.locationFor fp.rawPath).toList) := by
  constructor
  · constructor
    · intro hne
      rcases sourceApi_cases apiPath env req with ⟨h0, _⟩ | ⟨hp, hd, fs, fp, hl, hf, he⟩
      · exact absurd h0 hne
      · refine ⟨hp, hd, fs, fp, hl, (findPermitted_eq_some_iff _ _ _ _).1 hf, ?_⟩
        rw [he, loadSourceFile_loads] at hne
        cases h : env.locationFor fp.rawPath with
        | none => rw [h] at hne; exact absurd rfl hne
        | some _ => rfl
    · rintro ⟨hp, hd, fs, fp, hl, hm, hs⟩
      have hf := (findPermitted_eq_some_iff _ _ _ _).2 hm
      have : sourceApi apiPath env req = loadSourceFile env fp := by
        unfold sourceApi; simp [hp, hd, hl, hf]
      rw [this, loadSourceFile_loads]
      cases h : env.locationFor fp.rawPath with
      | none => rw [h] at hs; cases hs
      | some _ => simp
  · intro fs fp hp hd hl hm
    have hf := (findPermitted_eq_some_iff _ _ _ _).2 hm
    have : sourceApi apiPath env req = loadSourceFile env fp := by
      unfold sourceApi; simp [hp, hd, hl, hf]
    rw [this, loadSourceFile_loads]

/-- A first match exists exactly when some file path of the address's frames is spelled `requested`. -/
theorem C09_match_iff_exists (apiPath : SourceFilePath → String) (fs : List Frame) (requested : String) :
    (∃ fp, FirstMatch apiPath fs requested fp) ↔ ∃ fp ∈ filePaths fs, apiPath fp = requested :=
  exists_firstMatch_iff apiPath fs requested

/-- **The request string acts only through the equality test.** Two requests that are equal to the same
spellings among the address's file paths get the same loads and the same response class, whatever else
distinguishes the strings (prefixes, `..`, case, doubled slashes, …). -/
theorem C09_request_only_through_equality {Loc : Type} (apiPath : SourceFilePath → String) (env : Env Loc)
    (r1 r2 : Request) (hp : r1.parsed = r2.parsed) (hd : r1.debugIdOk = r2.debugIdOk)
    (heq : ∀ fs, env.lookup = .frames fs → ∀ fp ∈ filePaths fs,
      (apiPath fp = r1.file ↔ apiPath fp = r2.file)) :
    sourceApi apiPath env r1 = sourceApi apiPath env r2 := by
  unfold sourceApi
  rw [hp, hd]
  cases hl : env.lookup with
  | frames fs =>
    have : findPermitted apiPath fs r1.file = findPermitted apiPath fs r2.file := by
      unfold findPermitted
      apply find?_congr_mem
      intro fp hfp
      have h := heq fs hl fp hfp
      by_cases h1 : apiPath fp = r1.file
      · have h2 := h.1 h1
        have e1 : (apiPath fp == r1.file) = true := by simp [h1]
        have e2 : (apiPath fp == r2.file) = true := by simp [h2]
        rw [e1, e2]
      · have h2 : ¬ apiPath fp = r2.file := fun h2 => h1 (h.2 h2)
        have e1 : (apiPath fp == r1.file) = false := by simp [h1]
        have e2 : (apiPath fp == r2.file) = false := by simp [h2]
        rw [e1, e2]
    simp only [this]
  | _ => rfl

/-- **A refused request reads nothing.** If no file path of the queried address is spelled exactly
`requested` — or the request is malformed, the library has no symbols, the address no debug info — the
answer is an error and no source file is loaded. -/
theorem C09_refused_reads_nothing {Loc : Type} (apiPath : SourceFilePath → String) (env : Env Loc)
    (req : Request)
    (h : req.parsed = false ∨ req.debugIdOk = false ∨ env.lookup = .noSymbols ∨ env.lookup = .notFound ∨
      env.lookup = .noFrames ∨
      ∃ fs, env.lookup = .frames fs ∧ ∀ fp ∈ filePaths fs, apiPath fp ≠ req.file) :
    (sourceApi apiPath env req).loads = [] ∧ (sourceApi apiPath env req).outcome.accepted = false ∧
    ((∃ fs, req.parsed = true ∧ req.debugIdOk = true ∧ env.lookup = .frames fs) →
      (sourceApi apiPath env req).outcome = .err .invalidPath) := by
  rcases sourceApi_cases apiPath env req with ⟨h0, ha, hc⟩ | ⟨hp, hd, fs, fp, hl, hf, _⟩
  · refine ⟨h0, ha, ?_⟩
    rintro ⟨fs, hp, hd, hl⟩
    rcases hc with hc | hc | hc | hc | hc | ⟨_, _, _, hc⟩
    · rw [hp] at hc; cases hc
    · rw [hd] at hc; cases hc
    · rw [hl] at hc; cases hc
    · rw [hl] at hc; cases hc
    · rw [hl] at hc; cases hc
    · exact hc
  · exfalso
    rcases h with h | h | h | h | h | ⟨fs', hl', hn⟩
    · rw [hp] at h; cases h
    · rw [hd] at h; cases h
    · rw [hl] at h; cases h
    · rw [hl] at h; cases h
    · rw [hl] at h; cases h
    · rw [hl] at hl'
      cases hl'
      have := (findPermitted_eq_none_iff apiPath fs req.file).2 hn
      rw [this] at hf
      cases hf

/-- Conversely, every response that is not an acceptance read nothing. -/
theorem C09_error_reads_nothing {Loc : Type} (apiPath : SourceFilePath → String) (env : Env Loc)
    (req : Request) (h : (sourceApi apiPath env req).outcome.accepted = false) :
    (sourceApi apiPath env req).loads = [] := by
  rcases sourceApi_cases apiPath env req with ⟨h0, _⟩ | ⟨_, _, fs, fp, _, _, he⟩
  · exact h0
  · rw [he, loadSourceFile_accepted] at h; cases h

/-- One request loads at most one source file. -/
theorem C09_at_most_one_load {Loc : Type} (apiPath : SourceFilePath → String) (env : Env Loc)
    (req : Request) : (sourceApi apiPath env req).loads.length ≤ 1 := by
  rcases sourceApi_cases apiPath env req with ⟨h0, _⟩ | ⟨_, _, fs, fp, _, _, he⟩
  · rw [h0]; simp
  · rw [he, loadSourceFile_loads]
    cases env.locationFor fp.rawPath <;> simp

/-- **Completeness.** Every file string that `/symbolicate/v5` reports for an address — the outer `file`
and every `inlines[].file` — is accepted by `/source/v1` for the same address: the request is not refused,
and the raw path of a frame with that spelling is loaded (unless the helper itself refuses to make a
location for it). -/
theorem C09_complete {Loc : Type} (apiPath : SourceFilePath → String) (env : Env Loc) (fs : List Frame)
    (r : ReportedDebugInfo) (hl : env.lookup = .frames fs) (hr : reportDebugInfo apiPath fs = some r)
    (f : String) (hf : f ∈ r.files) :
    ∃ fp, FirstMatch apiPath fs f fp ∧
      sourceApi apiPath env ⟨true, true, f⟩ = loadSourceFile env fp ∧
      (sourceApi apiPath env ⟨true, true, f⟩).outcome.accepted = true ∧
      (sourceApi apiPath env ⟨true, true, f⟩).loads = (env.locationFor fp.rawPath).toList := by
  -- every reported file is the spelling of some frame's file path
  have hmem : ∃ fp ∈ filePaths fs, apiPath fp = f := by
    unfold reportDebugInfo at hr
    cases hlast : fs.getLast? with
    | none => rw [hlast] at hr; cases hr
    | some outer =>
      rw [hlast] at hr
      simp only [Option.some.injEq] at hr
      subst hr
      simp only [ReportedDebugInfo.files, List.filterMap_cons, id] at hf
      have houter : outer ∈ fs := List.mem_of_getLast? hlast
      cases hof : outer.filePath with
      | some p =>
        rw [hof] at hf
        simp only [Option.map_some, List.mem_cons, List.mem_filterMap, List.mem_map] at hf
        rcases hf with hf | ⟨a, ⟨fr, hfr, ha⟩, hfa⟩
        · exact ⟨p, by unfold filePaths; exact List.mem_filterMap.2 ⟨outer, houter, hof⟩, hf.symm⟩
        · subst ha
          cases hq : fr.filePath with
          | none => rw [hq] at hfa; cases hfa
          | some q =>
            rw [hq] at hfa
            simp only [Option.map_some, id, Option.some.injEq] at hfa
            exact ⟨q, by unfold filePaths; exact List.mem_filterMap.2 ⟨fr, List.dropLast_subset fs hfr, hq⟩, hfa⟩
      | none =>
        rw [hof] at hf
        simp only [Option.map_none, List.mem_filterMap, List.mem_map] at hf
        rcases hf with ⟨a, ⟨fr, hfr, ha⟩, hfa⟩
        subst ha
        cases hq : fr.filePath with
        | none => rw [hq] at hfa; cases hfa
        | some q =>
          rw [hq] at hfa
          simp only [Option.map_some, id, Option.some.injEq] at hfa
          exact ⟨q, by unfold filePaths; exact List.mem_filterMap.2 ⟨fr, List.dropLast_subset fs hfr, hq⟩, hfa⟩
  obtain ⟨fp, hm⟩ := (exists_firstMatch_iff apiPath fs f).2 hmem
  have hfind := (findPermitted_eq_some_iff _ _ _ _).2 hm
  have he : sourceApi apiPath env ⟨true, true, f⟩ = loadSourceFile env fp := by
    unfold sourceApi; simp [hl, hfind]
  exact ⟨fp, hm, he, by rw [he]; exact loadSourceFile_accepted env fp, by rw [he, loadSourceFile_loads]⟩

/-- The converse: a path `/source/v1` accepts for an address is one `/symbolicate/v5` reports for it. -/
theorem C09_only_reported (apiPath : SourceFilePath → String) (fs : List Frame) (requested : String)
    (fp : SourceFilePath) (hm : FirstMatch apiPath fs requested fp) :
    ∃ r, reportDebugInfo apiPath fs = some r ∧ requested ∈ r.files := by
  obtain ⟨hmem, hp⟩ := firstMatch_mem hm
  unfold filePaths at hmem
  obtain ⟨fr, hfr, hq⟩ := List.mem_filterMap.1 hmem
  have hne : fs ≠ [] := List.ne_nil_of_mem hfr
  unfold reportDebugInfo
  rw [List.getLast?_eq_some_getLast hne]
  refine ⟨_, rfl, ?_⟩
  simp only [ReportedDebugInfo.files, List.mem_filterMap, id]
  refine ⟨some requested, ?_, rfl⟩
  have hsplit : fs = fs.dropLast ++ [fs.getLast hne] := (List.dropLast_concat_getLast hne).symm
  rw [hsplit] at hfr
  rcases List.mem_append.1 hfr with h | h
  · apply List.mem_cons_of_mem
    exact List.mem_map.2 ⟨fr, h, by rw [hq, ← hp]; rfl⟩
  · have : fr = fs.getLast hne := by simpa using h
    rw [← this, hq, ← hp]
    exact List.mem_cons_self

/-- The model's result satisfies the judged specification (`SourceApi.specOk`, the property statement as a
decidable predicate) for every request, when the address has at least one frame. -/
theorem C09_model_meets_spec {Loc : Type} [DecidableEq Loc] (apiPath : SourceFilePath → String)
    (env : Env Loc) (req : Request) (fs : List Frame) (r : ReportedDebugInfo)
    (hl : env.lookup = .frames fs) (hr : reportDebugInfo apiPath fs = some r) :
    specOk (pairsOf apiPath fs) r.files env.locationFor (req.parsed && req.debugIdOk) req.file
      (sourceApi apiPath env req) = true := by
  have h1 := C09_at_most_one_load apiPath env req
  unfold specOk
  rcases sourceApi_cases apiPath env req with ⟨h0, ha, hc⟩ | ⟨hp, hd, fs', fp, hl', hf, he⟩
  · -- refused: nothing loaded; a well-formed request for a reported path cannot be refused
    have hnot : (req.parsed && req.debugIdOk && r.files.contains req.file) = false := by
      rcases hc with hc | hc | hc | hc | hc | ⟨fs', hl', hn, _⟩
      · simp [hc]
      · simp [hc]
      · rw [hl] at hc; cases hc
      · rw [hl] at hc; cases hc
      · rw [hl] at hc; cases hc
      · rw [hl] at hl'; cases hl'
        cases hcont : r.files.contains req.file with
        | false => simp
        | true =>
          exfalso
          have hmem : req.file ∈ r.files := by simpa using hcont
          obtain ⟨fp, hm, _⟩ := C09_complete apiPath env fs r hl hr req.file hmem
          rw [(findPermitted_eq_some_iff _ _ _ _).2 hm] at hn
          cases hn
    rw [h0, hnot]
    simp
  · rw [hl] at hl'; cases hl'
    have hm := (findPermitted_eq_some_iff _ _ _ _).1 hf
    obtain ⟨r', hr', hin⟩ := C09_only_reported apiPath fs req.file fp hm
    rw [hr] at hr'; cases hr'
    obtain ⟨hmem, hpath⟩ := firstMatch_mem hm
    have hacc := loadSourceFile_accepted env fp
    have hloads := loadSourceFile_loads env fp
    have hcont : r.files.contains req.file = true := by simpa using hin
    have hpair : (fp.rawPath, apiPath fp) ∈ pairsOf apiPath fs := by
      unfold pairsOf; exact List.mem_map.2 ⟨fp, hmem, rfl⟩
    rw [he] at h1 ⊢
    simp only [hp, hd, hcont, hacc, Bool.and_self, Bool.true_and, Bool.true_or, Bool.and_true,
      Bool.not_true, Bool.false_or, decide_eq_true h1]
    cases hloc : env.locationFor fp.rawPath with
    | none =>
      have hempty : (loadSourceFile env fp).loads = [] := by rw [hloads, hloc]; rfl
      have := (loadSourceFile_refused_iff env fp).1 hempty
      simp [hempty, this]
    | some loc =>
      have hone : (loadSourceFile env fp).loads = [loc] := by rw [hloads, hloc]; rfl
      simp only [hone, List.isEmpty_cons, Bool.false_or, List.all_cons, List.all_nil, Bool.and_true,
        Bool.not_false, Bool.true_or, Bool.and_true, List.any_eq_true]
      exact ⟨(fp.rawPath, apiPath fp), hpair, by simp [hpath, hloc]⟩

/-- With the concrete spelling `toApiFilePath`: for file paths without a mapped path (every path that does
not come from `/rustc/…`, a cargo registry or a PDB `srcsrv` stream) the permitted request strings are
literally the raw paths, and the loaded location is `locationFor requested`. -/
theorem C09_unmapped_exact {Loc : Type} (env : Env Loc) (fs : List Frame) (requested : String)
    (hl : env.lookup = .frames fs) (hu : ∀ fp ∈ filePaths fs, fp.mappedPath = none) :
    (sourceApi toApiFilePath env ⟨true, true, requested⟩).loads =
      if requested ∈ (filePaths fs).map (·.rawPath) then (env.locationFor requested).toList else [] := by
  have hapi : ∀ fp ∈ filePaths fs, toApiFilePath fp = fp.rawPath := by
    intro fp hfp; unfold toApiFilePath; rw [hu fp hfp]
  by_cases hin : requested ∈ (filePaths fs).map (·.rawPath)
  · obtain ⟨fp, hfp, hraw⟩ := List.mem_map.1 hin
    obtain ⟨q, hm⟩ := (exists_firstMatch_iff toApiFilePath fs requested).2 ⟨fp, hfp, by rw [hapi fp hfp, hraw]⟩
    obtain ⟨hqm, hqp⟩ := firstMatch_mem hm
    have := (C09_confinement toApiFilePath env ⟨true, true, requested⟩).2 fs q rfl rfl hl hm
    rw [this, if_pos hin, ← hqp, hapi q hqm]
  · rw [if_neg hin]
    refine (C09_refused_reads_nothing toApiFilePath env ⟨true, true, requested⟩ ?_).1
    refine Or.inr (Or.inr (Or.inr (Or.inr (Or.inr ⟨fs, hl, ?_⟩))))
    intro fp hfp heq
    apply hin
    exact List.mem_map.2 ⟨fp, hfp, by rw [← hapi fp hfp]; exact heq⟩

/-! ### Non-vacuity

One address with three frames (innermost first): an inlinee from a cargo registry crate (raw path ≠ API
spelling), an inlinee without a file, and the outer function in a plain local file; a second inlinee shares
the outer function's file in `C09_exShared`. -/

def C09_exCargo : SourceFilePath :=
  ⟨"/home/u/.cargo/registry/src/github.com-1ecc6299db9ec823/nom-7.1.3/src/bytes/complete.rs",
   some (.cargo "github.com-1ecc6299db9ec823" "nom" "7.1.3" "src/bytes/complete.rs")⟩
def C09_exLocal : SourceFilePath := ⟨"/home/u/proj/src/main.rs", none⟩
def C09_exRustc : SourceFilePath :=
  ⟨"/rustc/abc123/library/core/src/ptr.rs", some (.git "github.com/rust-lang/rust" "library/core/src/ptr.rs" "abc123")⟩
def C09_exFrames : List Frame := [⟨some C09_exCargo⟩, ⟨none⟩, ⟨some C09_exRustc⟩, ⟨some C09_exLocal⟩]
def C09_exShared : List Frame := [⟨some C09_exLocal⟩, ⟨some C09_exCargo⟩, ⟨some C09_exLocal⟩]
/-- helper that accepts absolute paths only and stores two of the three files -/
def C09_exEnv (fs : List Frame) : Env String :=
  { lookup := .frames fs
    locationFor := fun p => if p.toList.head? == some '/' then some p else none
    fileLen := fun l => if l == C09_exLocal.rawPath then some 120 else if l == C09_exCargo.rawPath then some 77 else none }

example : toApiFilePath C09_exCargo = "cargo:github.com-1ecc6299db9ec823:nom-7.1.3:src/bytes/complete.rs" := by decide
example : toApiFilePath C09_exRustc = "git:github.com/rust-lang/rust:library/core/src/ptr.rs:abc123" := by decide
-- the reported files of the address: outer file first, then the inlines in order
example : (reportDebugInfo toApiFilePath C09_exFrames).map (·.files) =
    some ["/home/u/proj/src/main.rs", "cargo:github.com-1ecc6299db9ec823:nom-7.1.3:src/bytes/complete.rs",
          "git:github.com/rust-lang/rust:library/core/src/ptr.rs:abc123"] := by decide
-- the API spelling is accepted and the RAW path is what gets loaded
example : (sourceApi toApiFilePath (C09_exEnv C09_exFrames)
      ⟨true, true, "cargo:github.com-1ecc6299db9ec823:nom-7.1.3:src/bytes/complete.rs"⟩).loads
    = [C09_exCargo.rawPath] := by decide
example : (sourceApi toApiFilePath (C09_exEnv C09_exFrames)
      ⟨true, true, "cargo:github.com-1ecc6299db9ec823:nom-7.1.3:src/bytes/complete.rs"⟩).outcome = .ok 77 := by decide
-- the raw path of a mapped file is NOT an accepted spelling
example : (sourceApi toApiFilePath (C09_exEnv C09_exFrames) ⟨true, true, C09_exCargo.rawPath⟩).loads = [] ∧
    (sourceApi toApiFilePath (C09_exEnv C09_exFrames) ⟨true, true, C09_exCargo.rawPath⟩).outcome
      = .err .invalidPath := by decide
-- decorated variants of a permitted path are refused without a read
example : ∀ r ∈ ["/home/u/proj/src/main.rs/", "/home/u/proj/src/../src/main.rs", "/home/u/proj//src/main.rs",
      "/home/u/proj/src/main.r", "/HOME/u/proj/src/main.rs", "home/u/proj/src/main.rs", "/etc/passwd", "", "../../x"],
    (sourceApi toApiFilePath (C09_exEnv C09_exFrames) ⟨true, true, r⟩).loads = [] := by decide
-- a file that exists in the store but is missing for this address is refused
example : (sourceApi toApiFilePath (C09_exEnv [⟨some C09_exLocal⟩]) ⟨true, true, C09_exCargo.rawPath⟩).outcome
    = .err .invalidPath := by decide
-- several frames sharing a file: one load, of the first match
example : (sourceApi toApiFilePath (C09_exEnv C09_exShared) ⟨true, true, "/home/u/proj/src/main.rs"⟩).loads
    = ["/home/u/proj/src/main.rs"] := by decide
-- accepted but unreadable (the rustc file is not in the store): the load is attempted, error class openFile
example : (sourceApi toApiFilePath (C09_exEnv C09_exFrames)
      ⟨true, true, "git:github.com/rust-lang/rust:library/core/src/ptr.rs:abc123"⟩).loads
    = ["/rustc/abc123/library/core/src/ptr.rs"] ∧
    (sourceApi toApiFilePath (C09_exEnv C09_exFrames)
      ⟨true, true, "git:github.com/rust-lang/rust:library/core/src/ptr.rs:abc123"⟩).outcome
    = .err .openFile := by decide
-- the hypotheses of C09_complete / C09_model_meets_spec are satisfiable
example : ∃ r, reportDebugInfo toApiFilePath C09_exFrames = some r ∧ r.files.length = 3 := by decide
example : FirstMatch toApiFilePath C09_exShared "/home/u/proj/src/main.rs" C09_exLocal :=
  ⟨[], [C09_exCargo, C09_exLocal], by decide, by decide, by simp⟩
