import SamplyModel.Lemmas.LibIdentity
/-!
# C19 — a saved profile carries enough library identity for the server to symbolicate it

Model: `SamplyModel/Model/LibIdentity.lean`. Writer `serializeLib` / `serializeProfile` (fxprof-processed-profile),
reader `preparse` (samply's profile pre-parser), the Breakpad form of debug ids (`debugid`), the text form of code ids
(`samply-symbols`), the server's known-library tables and candidate paths (`wholesym`).

All theorems quantify over every profile (any number of used libraries and threads), every library of it, every
debug id in the representable range (`DebugId.WF`: 16 uuid bytes, 32-bit age) and arbitrary byte strings for
names and paths. JSON text, gzip and the actual symbol lookup in the file found are outside the model
(correspondence only, see `harness/src/bin/c19.rs`).
Only property theorems (names `C19_*`) and non-vacuity examples live in this file.
-/
open LI

/-- Every debug id — 128-bit uuid with 32-bit age, or the PDB 2.0 form — survives
`breakpad().to_string()` → `DebugId::from_breakpad`. -/
theorem C19_breakpad_roundtrip (id : DebugId) (h : id.WF) :
    DebugId.fromBreakpad id.toBreakpad = some id := by
  cases id with
  | uuid bs age => obtain ⟨h1, h2, h3⟩ := h; exact fromBreakpad_toBreakpad_uuid bs age h1 h2 h3
  | pdb20 ts age => obtain ⟨h1, h2⟩ := h; exact fromBreakpad_toBreakpad_pdb20 ts age h1 h2

/-- ELF build ids of at least 9 bytes that are not 16 bytes of decimal-only hex survive
`to_string` → `CodeId::from_str`. -/
theorem C19_codeid_roundtrip_elf (b : List Nat) (hb : IsBytes b) (hlen : 9 ≤ b.length)
    (hnot : ¬ (b.length = 16 ∧ DecimalOnly b)) :
    CodeId.fromStr (CodeId.elf b).toStr = some (.elf b) :=
  codeId_roundtrip_elf b hb hlen hnot

/-- Excluded point 1 (e.g. `--build-id=fast`, 8 bytes): a build id of at most 8 bytes does not come back as
an ELF build id — `from_str` takes its PE branch and yields nothing or a `PeCodeId`. -/
theorem C19_codeid_short_elf_mistyped (b : List Nat) (hlen : b.length ≤ 8) :
    CodeId.fromStr (CodeId.elf b).toStr ≠ some (.elf b) ∧
    (CodeId.fromStr (CodeId.elf b).toStr = none ∨
      ∃ ts size, CodeId.fromStr (CodeId.elf b).toStr = some (.pe ts size)) := by
  have h := codeId_short_elf b hlen
  refine ⟨?_, h⟩
  rcases h with h | ⟨ts, size, h⟩ <;> rw [h] <;> simp

/-- Excluded point 2: a 16-byte build id whose 32 hex digits are all decimal comes back as a Mach-O uuid. -/
theorem C19_codeid_decimal16_elf_mistyped (b : List Nat) (hb : IsBytes b) (hlen : b.length = 16)
    (hdec : DecimalOnly b) :
    CodeId.fromStr (CodeId.elf b).toStr = some (.macho b) :=
  codeId_decimal16_elf b hb hlen hdec

/-- The hypothesis of `C19_codeid_roundtrip_elf` is sharp: an ELF build id round-trips exactly when it has at
least 9 bytes and is not 16 bytes of decimal-only hex. -/
theorem C19_codeid_roundtrip_elf_iff (b : List Nat) (hb : IsBytes b) :
    CodeId.fromStr (CodeId.elf b).toStr = some (.elf b) ↔
      (9 ≤ b.length ∧ ¬ (b.length = 16 ∧ DecimalOnly b)) := by
  constructor
  · intro h
    refine ⟨?_, ?_⟩
    · rcases Nat.lt_or_ge b.length 9 with hl | hl
      · exact absurd h (C19_codeid_short_elf_mistyped b (by omega)).1
      · exact hl
    · rintro ⟨h16, hdec⟩
      rw [codeId_decimal16_elf b hb h16 hdec] at h
      simp at h
  · rintro ⟨h1, h2⟩; exact codeId_roundtrip_elf b hb h1 h2

/-- Every code id inside `CodeIdRoundTrips` (all PE code ids, all Mach-O uuids, the ELF build ids above)
survives `to_string` → `from_str`. -/
theorem C19_codeid_roundtrip (c : CodeId) (h : CodeIdRoundTrips c) : CodeId.fromStr c.toStr = some c := by
  cases c with
  | pe ts size => exact codeId_roundtrip_pe ts size h.1 h.2
  | macho u => exact codeId_roundtrip_macho u h.1 h.2
  | elf b => exact codeId_roundtrip_elf b h.1 h.2.1 h.2.2

/-- General form of the round trip, without any assumption on duplicate keys: the reader accepts the
writer's document, and for every used library its key `⟨debugName, debugId⟩` is in the map, bound to the
reader's view of a used library with that same key (the last one listed). -/
theorem C19_roundtrip_anykeys (p : Profile) (hwf : ∀ l ∈ p.usedLibs, l.debugId.WF)
    (lib : LibInfo) (hmem : lib ∈ p.usedLibs) :
    ∃ m, preparse (serializeProfile p) = some m ∧ MapInv m ∧
      ∃ lib' ∈ p.usedLibs, lib'.key = lib.key ∧ m.find? lib.key = some lib'.view ∧
        (KeysDistinct p.usedLibs → lib' = lib) := by
  refine ⟨addLibs [] (p.usedLibs.map jlibOf), ?_, ?_, ?_⟩
  · unfold preparse; rw [collect_serializeProfile]; rfl
  · exact addLibs_inv _ hwf [] ⟨by simp, by simp⟩
  · obtain ⟨l', hl'⟩ := lastWith_some_of_mem lib.key p.usedLibs lib hmem rfl
    have hm := lastWith_mem _ _ _ hl'
    refine ⟨l', hm.1, hm.2, ?_, ?_⟩
    · rw [addLibs_find? p.usedLibs hwf [] lib.key, hl']
    · intro hd; exact eq_of_key_eq _ hd _ _ hm.1 hmem hm.2

/-- **Identity round trip.** For every profile whose used libraries have pairwise distinct
`(debugName, debugId)`, `preparse (serialize p)` succeeds and has, for every used library, an entry under
`⟨debugName, debugId⟩` whose debugName, debugId, path, debugPath, name and arch are the recorded ones; the
code id is the recorded one whenever it is the text of a code id inside `CodeIdRoundTrips`, and absent when
none was recorded. -/
theorem C19_roundtrip (p : Profile) (hwf : ∀ l ∈ p.usedLibs, l.debugId.WF) (hd : KeysDistinct p.usedLibs)
    (lib : LibInfo) (hmem : lib ∈ p.usedLibs) :
    ∃ m e, preparse (serializeProfile p) = some m ∧ m.find? (lib.debugName, lib.debugId) = some e ∧
      e.debugName = some lib.debugName ∧ e.debugId = some lib.debugId ∧ e.path = some lib.path ∧
      e.debugPath = some lib.debugPath ∧ e.name = some lib.name ∧ e.arch = lib.arch ∧
      (lib.codeId = none → e.codeId = none) ∧
      (∀ c, lib.codeId = some c.toStr → CodeIdRoundTrips c → e.codeId = some c) := by
  obtain ⟨m, hpre, _, lib', _, _, hfind, heq⟩ := C19_roundtrip_anykeys p hwf lib hmem
  have := heq hd; subst this
  refine ⟨m, lib'.view, hpre, hfind, rfl, rfl, rfl, rfl, rfl, rfl, ?_, ?_⟩
  · intro h; simp [LibInfo.view, h]
  · intro c hc hrt; simp [LibInfo.view, hc, C19_codeid_roundtrip c hrt]

/-- **Candidate path.** After `samply load` has registered the map's values as known libraries — in any
order — a request that names a used library only by `(debugName, debugId)` gets the recorded `path` as the
first candidate location of the binary, and the recorded `path` is among the candidate locations of the
debug file (which is what `/symbolicate/v5` walks). -/
theorem C19_candidate (p : Profile) (hwf : ∀ l ∈ p.usedLibs, l.debugId.WF) (hd : KeysDistinct p.usedLibs)
    (lib : LibInfo) (hmem : lib ∈ p.usedLibs) (m : LibMap) (hm : preparse (serializeProfile p) = some m)
    (vs : List RLib) (hperm : vs.Perm (m.map (·.2))) :
    (candidatesForBinary (KnownLibs.ofValues vs) (requestFor lib.debugName lib.debugId)).head?
        = some (Cand.localFile lib.path) ∧
    Cand.localFile lib.path ∈
      candidatesForDebugFile (KnownLibs.ofValues vs) (requestFor lib.debugName lib.debugId) := by
  obtain ⟨m', hpre, hinv, lib', _, _, hfind, heq⟩ := C19_roundtrip_anykeys p hwf lib hmem
  have := heq hd; subst this
  rw [hm] at hpre; have := Option.some.inj hpre; subst this
  have hknown := known_of_map m hinv vs hperm lib'.key lib'.view hfind
  have hpath := fillIn_request (KnownLibs.ofValues vs) lib'.debugName lib'.debugId lib'.view hknown lib'.path rfl
  constructor
  · unfold candidatesForBinary; simp [hpath]
  · unfold candidatesForDebugFile; simp [hpath]

/-- The same without the distinctness assumption: the first candidate is the recorded path of a used library
with the requested key. -/
theorem C19_candidate_anykeys (p : Profile) (hwf : ∀ l ∈ p.usedLibs, l.debugId.WF)
    (lib : LibInfo) (hmem : lib ∈ p.usedLibs) (m : LibMap) (hm : preparse (serializeProfile p) = some m)
    (vs : List RLib) (hperm : vs.Perm (m.map (·.2))) :
    ∃ lib' ∈ p.usedLibs, lib'.key = lib.key ∧
      (candidatesForBinary (KnownLibs.ofValues vs) (requestFor lib.debugName lib.debugId)).head?
        = some (Cand.localFile lib'.path) := by
  obtain ⟨m', hpre, hinv, lib', hmem', hkey, hfind, _⟩ := C19_roundtrip_anykeys p hwf lib hmem
  rw [hm] at hpre; have := Option.some.inj hpre; subst this
  have hknown := known_of_map m hinv vs hperm lib.key lib'.view hfind
  have hpath := fillIn_request (KnownLibs.ofValues vs) lib.debugName lib.debugId lib'.view hknown lib'.path rfl
  exact ⟨lib', hmem', hkey, by unfold candidatesForBinary; simp [hpath]⟩

/-- The reader looks at every position the profile format ever used: a library object in the top-level
`libs`, in any `threads[i].libs`, or anywhere below `processes[…]`, is collected. -/
theorem C19_reader_walks_threads_and_processes (libs : List JObj) (threads : List (List JObj)) (procs : List PDoc)
    (all : List JLib) (h : collect (.mk libs threads procs) = some all) :
    ∃ a b c, parseLibs libs = some a ∧ parseLibs threads.flatten = some b ∧ collectAll procs = some c ∧
      all = a ++ b ++ c := by
  rw [collect] at h
  cases ha : parseLibs libs <;> cases hb : parseLibs threads.flatten <;> cases hc : collectAll procs <;>
    simp [ha, hb, hc] at h
  exact ⟨_, _, _, rfl, rfl, rfl, by rw [List.append_assoc]; exact h.symm⟩

/-! ## non-vacuity: the hypotheses are satisfiable by non-trivial inputs, the excluded points are real -/

/-- the converter's library info for `/usr/lib/libfoo.so` with a 20-byte build id -/
def C19_exampleLib : LibInfo :=
  convertLib [47, 117, 115, 114, 47, 108, 105, 98, 47, 108, 105, 98, 102, 111, 111, 46, 115, 111]
    (DebugId.fromIdentifierLE [1, 35, 69, 103, 137, 171, 205, 239, 16, 50, 84, 118, 152, 186, 220, 254, 1, 2, 3, 4])
    (some [1, 35, 69, 103, 137, 171, 205, 239, 16, 50, 84, 118, 152, 186, 220, 254, 1, 2, 3, 4])

example : C19_exampleLib.debugId.WF := ⟨by decide, by decide, by decide⟩
example : C19_exampleLib.name = [108, 105, 98, 102, 111, 111, 46, 115, 111] := by decide
example : KeysDistinct [C19_exampleLib] := by simp [KeysDistinct]
example : CodeIdRoundTrips (.elf [1, 35, 69, 103, 137, 171, 205, 239, 16, 50, 84, 118, 152, 186, 220, 254, 1, 2, 3, 4]) :=
  ⟨by decide, by decide, by decide⟩
example : C19_exampleLib.codeId =
    some (CodeId.elf [1, 35, 69, 103, 137, 171, 205, 239, 16, 50, 84, 118, 152, 186, 220, 254, 1, 2, 3, 4]).toStr := rfl
example : CodeIdRoundTrips (.pe 0x5EB1A2C3 0x1f000) := ⟨by decide, by decide⟩
/-- DESIGN.md §8 row 13: the 8-byte id `0123456789abcdef` is read back as a PE code id -/
example : CodeId.fromStr (CodeId.elf [0x01, 0x23, 0x45, 0x67, 0x89, 0xab, 0xcd, 0xef]).toStr
    = some (.pe 0x01234567 0x89abcdef) := by decide
/-- … and 32 decimal digits as a Mach-O uuid -/
example : CodeId.fromStr (CodeId.elf (List.replicate 16 0x12)).toStr = some (.macho (List.replicate 16 0x12)) := by
  decide
/-- "ABAB…AB1f": upper-case uuid, lower-case age without leading zeros -/
example : (DebugId.uuid (List.replicate 16 0xAB) 0x1f).toBreakpad
    = (List.replicate 16 [65, 66]).flatten ++ [49, 102] := by
  have h : toHexLower 0x1f = [49, 102] := by
    rw [toHexLower, if_neg (by decide), toHexLower, if_pos (by decide)]; decide
  simp only [DebugId.toBreakpad, h]; decide
