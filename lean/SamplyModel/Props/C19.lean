import SamplyModel.Lemmas.LibIdentity
import SamplyModel.Lemmas.LibWalk
/-!
# C19 — a saved profile carries enough library identity for the server to symbolicate it

Model: `SamplyModel/Model/LibIdentity.lean`. Writer `serializeLib` / `serializeProfile` (fxprof-processed-profile),
reader `preparse` (samply's profile pre-parser), the Breakpad form of debug ids (`debugid`), the text form of code ids
(`samply-symbols`), the server's known-library tables and candidate paths (`wholesym`).

All theorems quantify over every profile (any number of used libraries and threads), every library of it, every
debug id in the representable range (`DebugId.WF`: 16 uuid bytes, 32-bit age) and arbitrary byte strings for
names and paths. JSON text, gzip and the actual symbol lookup in the file found are outside the model
(correspondence only, see `harness/src/bin/c19.rs`).
Only property theorems (names `C19_*`) and non-vacuity examples live in this file.
-/
open LI

/-- Every debug id — 128-bit uuid with 32-bit age, or the PDB 2.0 form — survives
`breakpad().to_string()` → `DebugId::from_breakpad`. -/
theorem C19_breakpad_roundtrip (id : DebugId) (h : id.WF) :
    DebugId.fromBreakpad id.toBreakpad = some id := by
  cases id with
  | uuid bs age => obtain ⟨h1, h2, h3⟩ := h; exact fromBreakpad_toBreakpad_uuid bs age h1 h2 h3
  | pdb20 ts age => obtain ⟨h1, h2⟩ := h; exact fromBreakpad_toBreakpad_pdb20 ts age h1 h2

/-- ELF build ids of at least 9 bytes that are not 16 bytes of decimal-only hex survive
`to_string` → `CodeId::from_str`. -/
theorem C19_codeid_roundtrip_elf (b : List Nat) (hb : IsBytes b) (hlen : 9 ≤ b.length)
    (hnot : ¬ (b.length = 16 ∧ DecimalOnly b)) :
    CodeId.fromStr (CodeId.elf b).toStr = some (.elf b) :=
  codeId_roundtrip_elf b hb hlen hnot

/-- Excluded point 1 (e.g. `--build-id=fast`, 8 bytes): a build id of at most 8 bytes does not come back as
an ELF build id — `from_str` takes its PE branch and yields nothing or a `PeCodeId`. -/
theorem C19_codeid_short_elf_mistyped (b : List Nat) (hlen : b.length ≤ 8) :
    CodeId.fromStr (CodeId.elf b).toStr ≠ some (.elf b) ∧
    (CodeId.fromStr (CodeId.elf b).toStr = none ∨
      ∃ ts size, CodeId.fromStr (CodeId.elf b).toStr = some (.pe ts size)) := by
  have h := codeId_short_elf b hlen
  refine ⟨?_, h⟩
  rcases h with h | ⟨ts, size, h⟩ <;> rw [h] <;> simp

/-- Excluded point 2: a 16-byte build id whose 32 hex digits are all decimal comes back as a Mach-O uuid. -/
theorem C19_codeid_decimal16_elf_mistyped (b : List Nat) (hb : IsBytes b) (hlen : b.length = 16)
    (hdec : DecimalOnly b) :
    CodeId.fromStr (CodeId.elf b).toStr = some (.macho b) :=
  codeId_decimal16_elf b hb hlen hdec

/-- The hypothesis of `C19_codeid_roundtrip_elf` is sharp: an ELF build id round-trips exactly when it has at
least 9 bytes and is not 16 bytes of decimal-only hex. -/
theorem C19_codeid_roundtrip_elf_iff (b : List Nat) (hb : IsBytes b) :
    CodeId.fromStr (CodeId.elf b).toStr = some (.elf b) ↔
      (9 ≤ b.length ∧ ¬ (b.length = 16 ∧ DecimalOnly b)) := by
  constructor
  · intro h
    refine ⟨?_, ?_⟩
    · rcases Nat.lt_or_ge b.length 9 with hl | hl
      · exact absurd h (C19_codeid_short_elf_mistyped b (by omega)).1
      · exact hl
    · rintro ⟨h16, hdec⟩
      rw [codeId_decimal16_elf b hb h16 hdec] at h
      simp at h
  · rintro ⟨h1, h2⟩; exact codeId_roundtrip_elf b hb h1 h2

/-- Every code id inside `CodeIdRoundTrips` (all PE code ids, all Mach-O uuids, the ELF build ids above)
survives `to_string` → `from_str`. -/
theorem C19_codeid_roundtrip (c : CodeId) (h : CodeIdRoundTrips c) : CodeId.fromStr c.toStr = some c := by
  cases c with
  | pe ts size => exact codeId_roundtrip_pe ts size h.1 h.2
  | macho u => exact codeId_roundtrip_macho u h.1 h.2
  | elf b => exact codeId_roundtrip_elf b h.1 h.2.1 h.2.2

/-- General form of the round trip, without any assumption on duplicate keys: the reader accepts the
writer's document, and for every used library its key `⟨debugName, debugId⟩` is in the map, bound to the
reader's view of a used library with that same key (the last one listed). -/
theorem C19_roundtrip_anykeys (p : Profile) (hwf : ∀ l ∈ p.usedLibs, l.debugId.WF)
    (lib : LibInfo) (hmem : lib ∈ p.usedLibs) :
    ∃ m, preparse (serializeProfile p) = some m ∧ MapInv m ∧
      ∃ lib' ∈ p.usedLibs, lib'.key = lib.key ∧ m.find? lib.key = some lib'.view ∧
        (KeysDistinct p.usedLibs → lib' = lib) := by
  refine ⟨addLibs [] (p.usedLibs.map jlibOf), ?_, ?_, ?_⟩
  · unfold preparse; rw [collect_serializeProfile]; rfl
  · exact addLibs_inv _ hwf [] ⟨by simp, by simp⟩
  · obtain ⟨l', hl'⟩ := lastWith_some_of_mem lib.key p.usedLibs lib hmem rfl
    have hm := lastWith_mem _ _ _ hl'
    refine ⟨l', hm.1, hm.2, ?_, ?_⟩
    · rw [addLibs_find? p.usedLibs hwf [] lib.key, hl']
    · intro hd; exact eq_of_key_eq _ hd _ _ hm.1 hmem hm.2

/-- **Identity round trip.** For every profile whose used libraries have pairwise distinct
`(debugName, debugId)`, `preparse (serialize p)` succeeds and has, for every used library, an entry under
`⟨debugName, debugId⟩` whose debugName, debugId, path, debugPath, name and arch are the recorded ones; the
code id is the recorded one whenever it is the text of a code id inside `CodeIdRoundTrips`, and absent when
none was recorded. -/
theorem C19_roundtrip (p : Profile) (hwf : ∀ l ∈ p.usedLibs, l.debugId.WF) (hd : KeysDistinct p.usedLibs)
    (lib : LibInfo) (hmem : lib ∈ p.usedLibs) :
    ∃ m e, preparse (serializeProfile p) = some m ∧ m.find? (lib.debugName, lib.debugId) = some e ∧
      e.debugName = some lib.debugName ∧ e.debugId = some lib.debugId ∧ e.path = some lib.path ∧
      e.debugPath = some lib.debugPath ∧ e.name = some lib.name ∧ e.arch = lib.arch ∧
      (lib.codeId = none → e.codeId = none) ∧
      (∀ c, lib.codeId = some c.toStr → CodeIdRoundTrips c → e.codeId = some c) := by
  obtain ⟨m, hpre, _, lib', _, _, hfind, heq⟩ := C19_roundtrip_anykeys p hwf lib hmem
  have := heq hd; subst this
  refine ⟨m, lib'.view, hpre, hfind, rfl, rfl, rfl, rfl, rfl, rfl, ?_, ?_⟩
  · intro h; simp [LibInfo.view, h]
  · intro c hc hrt; simp [LibInfo.view, hc, C19_codeid_roundtrip c hrt]

/-- **Candidate path.** After `samply load` has registered the map's values as known libraries — in any
order — a request that names a used library only by `(debugName, debugId)` gets the recorded `path` as the
first candidate location of the binary, and the recorded `path` is among the candidate locations of the
debug file (which is what `/symbolicate/v5` walks). -/
theorem C19_candidate (p : Profile) (hwf : ∀ l ∈ p.usedLibs, l.debugId.WF) (hd : KeysDistinct p.usedLibs)
    (lib : LibInfo) (hmem : lib ∈ p.usedLibs) (m : LibMap) (hm : preparse (serializeProfile p) = some m)
    (vs : List RLib) (hperm : vs.Perm (m.map (·.2))) :
    (candidatesForBinary (KnownLibs.ofValues vs) (requestFor lib.debugName lib.debugId)).head?
        = some (Cand.localFile lib.path) ∧
    Cand.localFile lib.path ∈
      candidatesForDebugFile (KnownLibs.ofValues vs) (requestFor lib.debugName lib.debugId) := by
  obtain ⟨m', hpre, hinv, lib', _, _, hfind, heq⟩ := C19_roundtrip_anykeys p hwf lib hmem
  have := heq hd; subst this
  rw [hm] at hpre; have := Option.some.inj hpre; subst this
  have hknown := known_of_map m hinv vs hperm lib'.key lib'.view hfind
  have hpath := fillIn_request (KnownLibs.ofValues vs) lib'.debugName lib'.debugId lib'.view hknown lib'.path rfl
  constructor
  · unfold candidatesForBinary; simp [hpath]
  · unfold candidatesForDebugFile debugCandsOf; simp [hpath]

/-- The same without the distinctness assumption: the first candidate is the recorded path of a used library
with the requested key. -/
theorem C19_candidate_anykeys (p : Profile) (hwf : ∀ l ∈ p.usedLibs, l.debugId.WF)
    (lib : LibInfo) (hmem : lib ∈ p.usedLibs) (m : LibMap) (hm : preparse (serializeProfile p) = some m)
    (vs : List RLib) (hperm : vs.Perm (m.map (·.2))) :
    ∃ lib' ∈ p.usedLibs, lib'.key = lib.key ∧
      (candidatesForBinary (KnownLibs.ofValues vs) (requestFor lib.debugName lib.debugId)).head?
        = some (Cand.localFile lib'.path) := by
  obtain ⟨m', hpre, hinv, lib', hmem', hkey, hfind, _⟩ := C19_roundtrip_anykeys p hwf lib hmem
  rw [hm] at hpre; have := Option.some.inj hpre; subst this
  have hknown := known_of_map m hinv vs hperm lib.key lib'.view hfind
  have hpath := fillIn_request (KnownLibs.ofValues vs) lib.debugName lib.debugId lib'.view hknown lib'.path rfl
  exact ⟨lib', hmem', hkey, by unfold candidatesForBinary; simp [hpath]⟩

/-- The reader looks at every position the profile format ever used: a library object in the top-level
`libs`, in any `threads[i].libs`, or anywhere below `processes[…]`, is collected. -/
theorem C19_reader_walks_threads_and_processes (libs : List JObj) (threads : List (List JObj)) (procs : List PDoc)
    (all : List JLib) (h : collect (.mk libs threads procs) = some all) :
    ∃ a b c, parseLibs libs = some a ∧ parseLibs threads.flatten = some b ∧ collectAll procs = some c ∧
      all = a ++ b ++ c := by
  rw [collect] at h
  cases ha : parseLibs libs <;> cases hb : parseLibs threads.flatten <;> cases hc : collectAll procs <;>
    simp [ha, hb, hc] at h
  exact ⟨_, _, _, rfl, rfl, rfl, by rw [List.append_assoc]; exact h.symm⟩

/-- **The walk reaches every position** (stronger form of the unfolding lemma above). `allObjs` is the
specification-side list of all library objects anywhere in the document; `PDoc.sub path` follows `processes[i]`
for each index of `path`. If the reader accepts the document, what it collected is exactly the deserialization of
`allObjs`, in document order; in particular every library object in the `libs` of a process reached by *any* path,
or in the `libs` of any of that process's threads, has been collected. -/
theorem C19_reader_collects_every_position (d : PDoc) (all : List JLib) (h : collect d = some all) :
    parseLibs d.allObjs = some all ∧
    ∀ (path : List Nat) (libs : List JObj) (threads : List (List JObj)) (procs : List PDoc),
      PDoc.sub path d = some (.mk libs threads procs) →
      ∀ o, (o ∈ libs ∨ ∃ t ∈ threads, o ∈ t) → ∃ l ∈ all, parseLib o = some l := by
  have hall : parseLibs d.allObjs = some all := by rw [← collect_eq_parse_allObjs]; exact h
  refine ⟨hall, ?_⟩
  intro path libs threads procs hsub o ho
  apply parseLibs_mem d.allObjs all hall o
  apply sub_allObjs path d _ hsub o
  simp only [PDoc.allObjs, List.mem_append, List.mem_flatten]
  rcases ho with h1 | ⟨t, ht, hot⟩
  · exact Or.inl (Or.inl h1)
  · exact Or.inl (Or.inr ⟨t, ht, hot⟩)

/-! ## improvement round: key names, the converter's identity, which candidate is used -/

/-- **Key names agree.** For each of the seven keys the writer's string literal (library_info.rs:48-54) is what
serde's `rename_all = "camelCase"` makes of the reader's field identifier (profile_json_preparse.rs:32-42); the
reader's key matching accepts exactly that spelling (any other text is an unknown key, which is skipped). -/
theorem C19_keys_agree (k : Key) :
    camelCase k.readerField = k.writerText ∧ Key.ofText k.writerText = some k ∧
    ∀ s, Key.ofText s = some k → s = k.writerText :=
  ⟨camelCase_readerField k, ofText_writerText k, fun s h => ofText_eq_some s k h⟩

/-- **Identity round trip over documents with textual keys.** The writer emits its own key literals, the reader
resolves key text through its own renamed field names; nothing is shared between the two sides but the JSON
object. The statement is that of `C19_roundtrip`. -/
theorem C19_roundtrip_text (p : Profile) (hwf : ∀ l ∈ p.usedLibs, l.debugId.WF) (hd : KeysDistinct p.usedLibs)
    (lib : LibInfo) (hmem : lib ∈ p.usedLibs) :
    ∃ m e, preparseText (serializeProfileText p) = some m ∧ m.find? (lib.debugName, lib.debugId) = some e ∧
      e.debugName = some lib.debugName ∧ e.debugId = some lib.debugId ∧ e.path = some lib.path ∧
      e.debugPath = some lib.debugPath ∧ e.name = some lib.name ∧ e.arch = lib.arch ∧
      (lib.codeId = none → e.codeId = none) ∧
      (∀ c, lib.codeId = some c.toStr → CodeIdRoundTrips c → e.codeId = some c) := by
  unfold preparseText
  rw [resolve_serializeProfileText]
  exact C19_roundtrip p hwf hd lib hmem

/-- **The converter records the identity of the file it opened** (converter.rs:1416-1465, 1597-1613). Whatever
build id the recording carries for the mapping, a library that is added for a file found at `path` has the debug
id and the code id *of that file* and `path` as both paths; and it is added only if the recording names no build
id or exactly the file's. -/
theorem C19_convert_keeps_file_identity (path : Str) (fileId : Option (List Nat)) (textHash : List Nat)
    (recId : Option (List Nat)) (lib : LibInfo) (h : convertMapping path (.elf fileId textHash) recId = some lib) :
    lib.debugId = fileDebugId fileId textHash ∧ lib.codeId = fileId.map elfCodeText ∧
    lib.path = path ∧ lib.debugPath = path ∧ lib.name = basename path ∧ lib.debugName = basename path ∧
    lib.arch = none ∧ (∀ e, recId = some e → fileId = some e) := by
  unfold convertMapping at h
  cases recId with
  | none =>
    simp at h; subst h
    exact ⟨rfl, rfl, rfl, rfl, rfl, rfl, rfl, by simp⟩
  | some e =>
    cases fileId with
    | none => simp [codeIdMatches] at h
    | some f =>
      by_cases hfe : f = e
      · subst hfe; simp [codeIdMatches] at h; subst h
        exact ⟨rfl, rfl, rfl, rfl, rfl, rfl, rfl, by simp⟩
      · simp [codeIdMatches, hfe] at h

/-- … and a file whose build id is not the one the recording names (no note at all, or a note that differs in any
byte, e.g. only in bytes 17–20) is never listed under the recording's identity: the mapping is dropped. -/
theorem C19_convert_drops_mismatch (path : Str) (fileId : Option (List Nat)) (textHash e : List Nat)
    (hne : fileId ≠ some e) : convertMapping path (.elf fileId textHash) (some e) = none := by
  unfold convertMapping
  cases fileId with
  | none => simp [codeIdMatches]
  | some f =>
    have : f ≠ e := fun h => hne (by rw [h])
    simp [codeIdMatches, this]

/-- A mapping whose file was not accessible at import time is listed under the identity of the recording
(converter.rs:1547-1562); that identity is the one the converter computes from a little-endian file with that
build id, so the library is found once the file is there. -/
theorem C19_convert_absent_agrees_with_file (path : Str) (b textHash : List Nat) :
    convertMapping path .absent (some b) = convertMapping path (.elf (some b) textHash) (some b) ∧
    convertMapping path .absent (some b) = convertMapping path (.elf (some b) textHash) none := by
  simp [convertMapping, codeIdMatches, fileDebugId]

/-- Every library the converter lists has a representable debug id (hypothesis `hwf` of the round-trip theorems),
provided build ids and text hashes are byte strings. -/
theorem C19_convert_wf (path : Str) (file : MappedFile) (recId : Option (List Nat)) (lib : LibInfo)
    (hfile : ∀ f th, file = .elf f th → (∀ b, f = some b → IsBytes b) ∧ IsBytes th)
    (hrec : ∀ b, recId = some b → IsBytes b)
    (h : convertMapping path file recId = some lib) : lib.debugId.WF := by
  cases file with
  | absent =>
    simp [convertMapping] at h; subst h
    cases recId with
    | none => exact ⟨by decide, by decide, by decide⟩
    | some b => exact fromIdentifierLE_wf b (hrec b rfl)
  | elf f th =>
    have hid := (C19_convert_keeps_file_identity path f th recId lib h).1
    rw [hid]
    obtain ⟨hf, hth⟩ := hfile f th rfl
    cases f with
    | none => exact fromIdentifierLE_wf th hth
    | some b => exact fromIdentifierLE_wf b (hf b rfl)

/-- **Order of the debug-file candidates.** For a request that names a used library by `(debugName, debugId)`,
the list `/symbolicate/v5` walks is exactly: the candidates computed from the recorded fields that come before
the binary (`earlierDebugCands`: `<debugPath>.dbg` for `.so`, a `.pdb` debug path, `parent(path)/debugName` when
`name ≠ debugName`, `/usr/lib/debug/.build-id/xx/….debug`, the local Breakpad file), then the binary at the
recorded `path`, then the vdso special case. For every registration order. -/
theorem C19_debug_candidates_order (p : Profile) (hwf : ∀ l ∈ p.usedLibs, l.debugId.WF)
    (hd : KeysDistinct p.usedLibs) (lib : LibInfo) (hmem : lib ∈ p.usedLibs) (m : LibMap)
    (hm : preparse (serializeProfile p) = some m) (vs : List RLib) (hperm : vs.Perm (m.map (·.2))) :
    candidatesForDebugFile (KnownLibs.ofValues vs) (requestFor lib.debugName lib.debugId) =
      earlierDebugCands lib.view ++ [Cand.localFile lib.path]
        ++ (if lib.name = [91, 118, 100, 115, 111, 93] then [Cand.vdso] else []) := by
  obtain ⟨m', hpre, hinv, lib', _, _, hfind, heq⟩ := C19_roundtrip_anykeys p hwf lib hmem
  have := heq hd; subst this
  rw [hm] at hpre; have := Option.some.inj hpre; subst this
  have hknown := known_of_map m hinv vs hperm lib'.key lib'.view hfind
  rw [candidatesForDebugFile_known _ lib' hknown]
  simp [debugCandsOf, LibInfo.view]

/-- **Which file answers.** The symbolication uses the first candidate that is there and has the requested debug
id. If the file at the recorded `path` still has the recorded debug id, the request is always answered from a
source with that debug id, and that source is the recorded binary unless an *earlier* candidate with the very
same debug id exists (a separate debug file of that binary); with no such earlier candidate it is the recorded
binary. -/
theorem C19_symbolicate_uses_recorded_binary (p : Profile) (hwf : ∀ l ∈ p.usedLibs, l.debugId.WF)
    (hd : KeysDistinct p.usedLibs) (lib : LibInfo) (hmem : lib ∈ p.usedLibs) (m : LibMap)
    (hm : preparse (serializeProfile p) = some m) (vs : List RLib) (hperm : vs.Perm (m.map (·.2)))
    (fs : FsView) (hfs : fs (Cand.localFile lib.path) = some lib.debugId) :
    (∃ c, firstAccepted fs lib.debugId
            (candidatesForDebugFile (KnownLibs.ofValues vs) (requestFor lib.debugName lib.debugId)) = some c ∧
          fs c = some lib.debugId ∧ (c = Cand.localFile lib.path ∨ c ∈ earlierDebugCands lib.view)) ∧
    ((∀ c ∈ earlierDebugCands lib.view, fs c ≠ some lib.debugId) →
      firstAccepted fs lib.debugId
        (candidatesForDebugFile (KnownLibs.ofValues vs) (requestFor lib.debugName lib.debugId))
        = some (Cand.localFile lib.path)) := by
  rw [C19_debug_candidates_order p hwf hd lib hmem m hm vs hperm]
  constructor
  · exact firstAccepted_cases fs lib.debugId _ _ _ hfs
  · intro hnone
    rw [List.append_assoc, firstAccepted_append_of_none fs lib.debugId _ _ hnone]
    simp [firstAccepted, hfs]

/-- **From the recording to the answer.** A used library that the converter listed for a file it opened at
`path` is symbolicated from that file, as long as the file is unchanged (it still has the debug id the converter
computed) and no earlier candidate carries the same debug id — whatever build id the recording named. -/
theorem C19_converted_lib_is_found (p : Profile) (hwf : ∀ l ∈ p.usedLibs, l.debugId.WF)
    (hd : KeysDistinct p.usedLibs) (lib : LibInfo) (hmem : lib ∈ p.usedLibs)
    (path : Str) (fileId : Option (List Nat)) (textHash : List Nat) (recId : Option (List Nat))
    (hconv : convertMapping path (.elf fileId textHash) recId = some lib)
    (m : LibMap) (hm : preparse (serializeProfile p) = some m) (vs : List RLib) (hperm : vs.Perm (m.map (·.2)))
    (fs : FsView) (hfs : fs (Cand.localFile path) = some (fileDebugId fileId textHash))
    (hearlier : ∀ c ∈ earlierDebugCands lib.view, fs c ≠ some lib.debugId) :
    firstAccepted fs lib.debugId
      (candidatesForDebugFile (KnownLibs.ofValues vs) (requestFor lib.debugName lib.debugId))
      = some (Cand.localFile path) := by
  obtain ⟨hid, _, hpath, _⟩ := C19_convert_keeps_file_identity path fileId textHash recId lib hconv
  have hfs' : fs (Cand.localFile lib.path) = some lib.debugId := by rw [hpath, hid]; exact hfs
  have := (C19_symbolicate_uses_recorded_binary p hwf hd lib hmem m hm vs hperm fs hfs').2 hearlier
  rw [hpath] at this; exact this

/-- For a library as the converter lists it (`name = debugName`, `debugPath = path`) the earlier candidates are:
`<path>.dbg` when the path ends in `.so`, the path itself when it ends in `.pdb`, the build-id debug file when
the recorded code id reads back as an ELF build id of more than one byte, and the local Breakpad file. -/
theorem C19_converted_lib_earlier_candidates (path : Str) (file : MappedFile) (recId : Option (List Nat))
    (lib : LibInfo) (h : convertMapping path file recId = some lib) :
    earlierDebugCands lib.view =
      (if endsWith path [46, 115, 111] then [Cand.localFile (path ++ [46, 100, 98, 103])] else [])
      ++ (if endsWith path [46, 112, 100, 98] then [Cand.localFile path] else [])
      ++ (match lib.view.codeId with
          | some (.elf b) =>
            if (hexLower b).length > 2 then
              [Cand.localFile ("/usr/lib/debug/.build-id/".toUTF8.toList.map (·.toNat) ++ (hexLower b).take 2 ++ [47]
                ++ (hexLower b).drop 2 ++ ".debug".toUTF8.toList.map (·.toNat))]
            else []
          | _ => [])
      ++ [Cand.breakpad (basename path) lib.debugId.toBreakpad] := by
  have hfields : lib.name = basename path ∧ lib.debugName = basename path ∧ lib.path = path ∧ lib.debugPath = path := by
    cases file with
    | absent => simp [convertMapping] at h; subst h; exact ⟨rfl, rfl, rfl, rfl⟩
    | elf f th =>
      obtain ⟨_, _, h3, h4, h5, h6, _⟩ := C19_convert_keeps_file_identity path f th recId lib h
      exact ⟨h5, h6, h3, h4⟩
  obtain ⟨h1, h2, h3, h4⟩ := hfields
  unfold earlierDebugCands
  simp only [LibInfo.view, h1, h2, h3, h4]
  cases hc : lib.codeId.bind CodeId.fromStr with
  | none => simp
  | some c => cases c <;> simp

/-! ## `--unstable-presymbolicate` (repaired defect C19-presym-badcodeid, `fix:` 4dd060e3) -/

/-- **Presymbolication never panics and registers the recorded identity.** For *every* profile — whatever text its
libraries carry as code id — the library infos `samply import --unstable-presymbolicate` builds from the used
libraries exist (no panic), and each of them is the reader's view of that library (`LibInfo.view`: every field as
recorded, the code id as the typed id its text denotes, none if it denotes none) except that `name` is the debug name
(symbol_precog.rs:347). No hypothesis on the code ids: the repair is what makes this provable, see
`C19_legacy_counterexample`. -/
theorem C19_presym_registers_recorded_identity (p : Profile) :
    presymLibs p = some (p.usedLibs.map fun l => { l.view with name := some l.debugName }) := by
  unfold presymLibs
  induction p.usedLibs with
  | nil => rfl
  | cons l ls ih =>
    rw [List.mapM_cons, ih]
    simp [presymLib, presymLibWith, presymCodeId, LibInfo.view]

/-- Before the repair the same step panicked (`expect("bad codeid")`) exactly when a used library's code id text is
rejected by `CodeId::from_str`; every ELF build id of at most 4 bytes is such a text. -/
theorem C19_legacy_panics_on_tiny_build_id (b : List Nat) (h : b.length ≤ 4) :
    presymCodeIdLegacy (some (elfCodeText b)) = none := by
  have hl := hexLower_length b
  have h17 : (hexLower b).length ≤ 17 := by omega
  have h9 : (hexLower b).length < 9 := by omega
  simp [presymCodeIdLegacy, elfCodeText, CodeId.toStr, CodeId.fromStr, peFromStr, h17, h9]

/-- **Legacy counterexample** (pre-fix behaviour kept as `presymLibsLegacy`): the profile whose only used library is
what the converter lists for `/a` with the 4-byte build id `01020304` made the import panic; the repaired step
registers it without a code id. -/
theorem C19_legacy_counterexample :
    presymLibsLegacy ⟨[convertLib [47, 97] (DebugId.fromIdentifierLE [1, 2, 3, 4]) (some [1, 2, 3, 4])], 1⟩ = none ∧
    (presymLibs ⟨[convertLib [47, 97] (DebugId.fromIdentifierLE [1, 2, 3, 4]) (some [1, 2, 3, 4])], 1⟩).map
      (fun infos => infos.map (·.codeId)) = some [none] := by
  decide

/-! ## non-vacuity: the hypotheses are satisfiable by non-trivial inputs, the excluded points are real -/

/-- the converter's library info for `/usr/lib/libfoo.so` with a 20-byte build id -/
def C19_exampleLib : LibInfo :=
  convertLib [47, 117, 115, 114, 47, 108, 105, 98, 47, 108, 105, 98, 102, 111, 111, 46, 115, 111]
    (DebugId.fromIdentifierLE [1, 35, 69, 103, 137, 171, 205, 239, 16, 50, 84, 118, 152, 186, 220, 254, 1, 2, 3, 4])
    (some [1, 35, 69, 103, 137, 171, 205, 239, 16, 50, 84, 118, 152, 186, 220, 254, 1, 2, 3, 4])

example : C19_exampleLib.debugId.WF := ⟨by decide, by decide, by decide⟩
example : C19_exampleLib.name = [108, 105, 98, 102, 111, 111, 46, 115, 111] := by decide
example : KeysDistinct [C19_exampleLib] := by simp [KeysDistinct]
example : CodeIdRoundTrips (.elf [1, 35, 69, 103, 137, 171, 205, 239, 16, 50, 84, 118, 152, 186, 220, 254, 1, 2, 3, 4]) :=
  ⟨by decide, by decide, by decide⟩
example : C19_exampleLib.codeId =
    some (CodeId.elf [1, 35, 69, 103, 137, 171, 205, 239, 16, 50, 84, 118, 152, 186, 220, 254, 1, 2, 3, 4]).toStr := rfl
example : CodeIdRoundTrips (.pe 0x5EB1A2C3 0x1f000) := ⟨by decide, by decide⟩
/-- DESIGN.md §8 row 13: the 8-byte id `0123456789abcdef` is read back as a PE code id -/
example : CodeId.fromStr (CodeId.elf [0x01, 0x23, 0x45, 0x67, 0x89, 0xab, 0xcd, 0xef]).toStr
    = some (.pe 0x01234567 0x89abcdef) := by decide
/-- … and 32 decimal digits as a Mach-O uuid -/
example : CodeId.fromStr (CodeId.elf (List.replicate 16 0x12)).toStr = some (.macho (List.replicate 16 0x12)) := by
  decide
/-- "ABAB…AB1f": upper-case uuid, lower-case age without leading zeros -/
example : (DebugId.uuid (List.replicate 16 0xAB) 0x1f).toBreakpad
    = (List.replicate 16 [65, 66]).flatten ++ [49, 102] := by
  have h : toHexLower 0x1f = [49, 102] := by
    rw [toHexLower, if_neg (by decide), toHexLower, if_pos (by decide)]; decide
  simp only [DebugId.toBreakpad, h]; decide

/-- a writer that spelled the key `breakpadID` would not be understood: the reader skips the unknown key -/
example : resolveObj [([98, 114, 101, 97, 107, 112, 97, 100, 73, 68], JVal.str [48])] = [] := by decide
/-- … whereas the real spelling resolves -/
example : resolveObj [([98, 114, 101, 97, 107, 112, 97, 100, 73, 100], JVal.str [48])] = [(Key.breakpadId, JVal.str [48])] := by
  decide
/-- a recording whose MMAP2 build id differs from the file's note only in byte 20: dropped -/
example : convertMapping [47, 97] (.elf (some (List.replicate 19 1 ++ [2])) []) (some (List.replicate 20 1)) = none := by
  decide
/-- the same ids: listed, under the file's identity -/
example : (convertMapping [47, 97] (.elf (some (List.replicate 20 1)) []) (some (List.replicate 20 1))).map (·.codeId)
    = some (some (elfCodeText (List.replicate 20 1))) := by decide
/-- a stale `<path>.dbg` with another debug id is skipped, the binary answers -/
example : firstAccepted (fun c => if c = Cand.localFile [1] then some (DebugId.uuid [] 1) else some (DebugId.uuid [] 2))
    (DebugId.uuid [] 2) [Cand.localFile [1], Cand.localFile [2]] = some (Cand.localFile [2]) := by decide

/-- a library object three levels down (`processes[1].processes[0].threads[1].libs`) is reached -/
example : PDoc.sub [1, 0] (.mk [] [] [.mk [] [] [], .mk [] [] [.mk [] [[], [[(Key.name, JVal.null)]]] []]])
    = some (.mk [] [[], [[(Key.name, JVal.null)]]] []) := by simp [PDoc.sub]
