import SamplyModel.Model.AsmDecode
/-!
Byte-level layer of the `/asm/v1` model (C20, improvement round).

`Model/AsmDecode.lean` describes the decoders by a *position-indexed* oracle `dec : Nat → Dec`. Here the decoder is
what it is in the code: a function of the bytes it is handed (`decoder.decode(&mut U8Reader::new(bytes))`,
mod.rs:367, 376, 418), `D : List UInt8 → Dec`, and the slice handed to `decode` is a range of the file
(`fileBytes file fileOff n`). The position-indexed oracle is then *defined* as `decAt D bytes p = D (bytes.drop p)`,
which is literally how the harness tabulates it (`probe_arch(arch, &slice[p..])`, c20.rs `tables`), so that the last
sentence of the statement ("the bytes decoded are the bytes of the binary at that relative address") becomes a
theorem about the listing (`C20_listing_decodes_file_bytes`, `C20_query_bytes`).

Also here:
* `OracleTail`: a decoder reports *invalid* (as opposed to *exhausted*) only when at least one resynchronisation
  unit of input is left. With it the listing never claims more bytes than the slice has.
* `shown`: the bytes printed in a `.byte … # Invalid instruction` row (mod.rs:387-399).
* `archOfName`, `alignOfName`: the two independent `match`es on `binary_image.arch()` (mod.rs:124-128 and
  mod.rs:177-190), as functions of the *string the code sees*.
* `readJit`: the JITDUMP branch of `read_bytes_at_relative_address` (binary_image.rs:225-241 with
  `JitDumpIndex::lookup_relative_address`, jitdump.rs:121-134).
* `memberData`: a member of a fat Mach-O archive is the sub-range `start .. start+size` of the file
  (`MachOFatArchiveMemberData::data()`, macho.rs:495-498); offsets inside the member are offsets from `start`.

Core Lean only (linked into the driver executable).
-/
namespace Asm

/-! ### Decoders as functions of bytes -/

abbrev ByteDec := List UInt8 → Dec

/-- What the loop assumes of a decoder (for every input, not just the slices that occur): a decoded instruction
is at least one byte long and was read from the input; *invalid* is only reported when at least `adjust` bytes
(one instruction unit: 1 on x86, 2 on thumb, 4 on AArch64) were available — with less input the decoder reports
*exhausted*. -/
def ByteDecOK (adjust : Nat) (D : ByteDec) : Prop :=
  ∀ bs, (∀ len, D bs = .ok len → 1 ≤ len ∧ len ≤ bs.length) ∧ (D bs = .invalid → adjust ≤ bs.length)

/-- the position-indexed oracle of a byte-level decoder on the slice `bytes`: a fresh reader on `bytes[p..]` -/
def decAt (D : ByteDec) (bytes : List UInt8) (p : Nat) : Dec := D (bytes.drop p)

/-- bytes `off .. off+n` of the file -/
def fileBytes (file : List UInt8) (off n : Nat) : List UInt8 := (file.drop off).take n

/-- second half of the oracle assumption, position-indexed (see `ByteDecOK`) -/
def OracleTail (adjust bytesLen : Nat) (dec : Nat → Dec) : Prop :=
  ∀ p, dec p = .invalid → p + adjust ≤ bytesLen

/-- decidable form of `OracleOK ∧ OracleTail` for a tabulated oracle (`tab[p]` for `p < tab.length`, exhausted
beyond), used by the judge on every generated oracle -/
def tableOk (adjust bytesLen : Nat) (tab : List Dec) : Nat → Bool
  | p =>
    match tab with
    | [] => true
    | d :: rest =>
      (match d with
       | .ok len => decide (1 ≤ len) && decide (p + len ≤ bytesLen)
       | .invalid => decide (p + adjust ≤ bytesLen)
       | .exhausted => true) && tableOk adjust bytesLen rest (p + 1)

/-- the oracle a table denotes: `tab[p]`, exhausted beyond the table (this is `C20.Case.dec`) -/
def decOfTable (tab : List Dec) (p : Nat) : Dec :=
  match tab[p]? with
  | some d => d
  | none => .exhausted

/-- `remaining_bytes.iter().take(ADJUST_BY_AFTER_ERROR)` with `remaining_bytes = &bytes[offset..]`,
mod.rs:387-399: the bytes printed in the row of an undecodable instruction -/
def shown (bytes : List UInt8) (adjust off : Nat) : List UInt8 := (bytes.drop off).take adjust

/-- the whole request with a byte-level decoder and the file's bytes: the slice is the file range the read
returns, the oracle is the decoder on the suffixes of that slice -/
def queryB (arch : Arch) (img : Image) (sym : Option Sym) (req : Req) (D : ByteDec) (file : List UInt8) : Outcome :=
  query arch img sym req (fun p =>
    match (plan arch img sym req).2.2 with
    | .ok fo n => decAt D (fileBytes file fo n) p
    | _ => .exhausted)

/-! ### The architecture string (`binary_image.arch()`)

The code matches the string twice, independently: for the start alignment (mod.rs:124-128) and for the choice of
the decoder (`decode_arch`, mod.rs:177-190). Both are modelled as written; `C20_arch_names_agree` proves that
they agree for every string. -/

/-- mod.rs:124-128 -/
def alignOfName (name : Option String) : Nat :=
  match name with
  | some s => if s = "arm64" ∨ s = "arm64e" then 4 else if s = "arm" then 2 else 1
  | none => 1

/-- `decode_arch`, mod.rs:177-190 -/
def archOfName (name : Option String) : Arch :=
  match name with
  | some s =>
    if s = "x86" then .x86
    else if s = "x86_64" ∨ s = "x86_64h" then .x64
    else if s = "arm64" ∨ s = "arm64e" then .a64
    else if s = "arm" then .arm
    else .unknown
  | none => .unknown

/-! ### JITDUMP images (binary_image.rs:225-241, jitdump.rs:121-134)

The index is the list of `JIT_CODE_LOAD` records in file order: `relAddr` (cumulative sum of the code lengths,
jitdump.rs:83-84), the file offset of the code bytes and their length. -/

structure JitEntry where
  relAddr : Nat
  codeOff : Nat
  codeLen : Nat
deriving Repr, DecidableEq

/-- `binary_search(&address)` on the sorted `relative_addresses`: `Ok(i)` / `Err(i) ⇒ i − 1` is the last entry
whose address is `≤ address` (`Err(0)` ⇒ none). For equal addresses (zero-length code records are followed by a
record with the same address) `binary_search` is documented to return any of them; the implementation in the
pinned toolchain converges to the last element that is not greater, i.e. the last of the equal ones, which is the
only one that can contain the address. The model picks the last one; the harness generates such duplicates. -/
def jitFind : List JitEntry → Nat → Option JitEntry
  | [], _ => none
  | e :: rest, a =>
    if e.relAddr ≤ a then
      match jitFind rest a with
      | some e' => some e'
      | none => some e
    else none

/-- `lookup_relative_address` + the JITDUMP branch of `read_bytes_at_relative_address`: file range of the bytes.
`fileLen` is the length of the dump: `read_bytes_at` beyond it fails (`FileIO`). -/
inductive JitRead
  | ok (fileOff len : Nat)
  | notFound
  | io
deriving Repr, DecidableEq

def readJit (entries : List JitEntry) (fileLen rel size : Nat) : JitRead :=
  match jitFind entries rel with
  | none => .notFound                                              -- jitdump.rs:124
  | some e =>
    let off := rel - e.relAddr                                      -- :128 (no underflow: e.relAddr ≤ rel)
    if off ≥ e.codeLen then .notFound                               -- :130
    else
      let remaining := e.codeLen - off                              -- binary_image.rs:233 (no underflow: off < len)
      let n := min size remaining                                   -- :235
      let start := e.codeOff + off                                  -- :236
      if start + n ≤ fileLen then .ok start n else .io              -- :237 `read_bytes_at`

/-- `query_api` on a JITDUMP image; `none` = the error `AsmError::FileIO` (the dump is shorter than its index
says) -/
def queryJit (arch : Arch) (entries : List JitEntry) (fileLen : Nat) (sym : Option Sym) (req : Req)
    (dec : Nat → Dec) : Option Outcome :=
  let len := disasmLen req.start req.size req.cont (fnEnd sym)
  let rel := alignStart arch req.start
  match readJit entries fileLen rel (readSize len) with
  | .notFound => some (.err .notFound)
  | .io => none
  | .ok fileOff n =>
    if arch = .unknown then some (.err .arch)
    else
      match decode arch.adjust len n dec with
      | .done items f => some (.resp rel fileOff n items f)
      | .panic => some .panic
      | .nofuel => some .nofuel

/-- `queryJit` with a byte-level decoder and the dump's bytes -/
def queryJitB (arch : Arch) (entries : List JitEntry) (sym : Option Sym) (req : Req) (D : ByteDec)
    (file : List UInt8) : Option Outcome :=
  queryJit arch entries file.length sym req (fun p =>
    match readJit entries file.length (alignStart arch req.start)
        (readSize (disasmLen req.start req.size req.cont (fnEnd sym))) with
    | .ok fo n => decAt D (fileBytes file fo n) p
    | _ => .exhausted)

/-! ### Members of a fat Mach-O archive (macho.rs:473-503)

`MachOFatArchiveMemberData::data()` is `file_data.range(start_offset, range_size)`; the object is parsed from, and
every read goes through, that range. The request on a member is therefore `queryB` on `memberData file start size`. -/

def memberData (file : List UInt8) (start size : Nat) : List UInt8 := fileBytes file start size

end Asm
