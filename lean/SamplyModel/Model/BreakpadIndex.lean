import SamplyModel.Model.LineBuffer
/-!
Model of the Breakpad `.sym` indexer and of the symbol map built on it (C10; kernels reused by C08).

Follows, branch by branch and byte by byte,

* `samply-symbols/src/breakpad/index.rs`
  - the `nom` line parsers `module_line`, `info_code_id_line`, `file_line`, `inline_origin_line`,
    `public_line`, `func_line` and their leaves `hex_str`, `decimal_u32`, `non_space`, `space1`, `tag`,
    `hex_digit1` (index.rs:840-1018),
  - `SortedVecBuilder` (index.rs:522-573), `BreakpadIndexCreatorInner::{process_line,
    finish_pending_func_block, finish}` (index.rs:587-697), `BreakpadIndexCreator::{consume, finish}`
    (index.rs:507-519),
  - `BreakpadIndex::{serialize_to_bytes, parse_symindex_file}` (index.rs:40-210),
  - `BreakpadFuncSymbol::parse`, the `Tokenizer`, `parse_func_data_line`,
    `parse_inline_line_remainder`, `get_innermost_sourceloc`, `get_inlinee_at_depth`
    (index.rs:379-428, 793-838, 988-1120),
* `samply-symbols/src/breakpad/symbol_map.rs`: `make_index_storage` (62-93), `get_public_info` /
  `get_func_info` / `ItemCache::get_string` (146-233), `lookup_sync` (274-371).

Text is `List UInt8` throughout. Arithmetic is on `Nat`; every `as u32` truncation is an explicit
`% 2^32`, every checked / overflowing / slicing / indexing operation of the Rust code that can fail is
an explicit outcome (`Option.none` = panic in `processLine`, `Outcome.panic`, `Look.panic`).

External functions and how they are treated
* `str::from_utf8` — modelled (`validUtf8`, the Unicode well-formedness table);
* `DebugId::from_breakpad` on a string of hex digits — modelled (`debugIdOk`, from debugid-0.8.0
  `parse_str`: 9..16 digits = PDB 2.0 form, otherwise 32 digits + an appendix that fits `u32`);
* `sort_unstable_by_key` + `dedup_by_key` — the result is, for every distinct key in ascending order,
  *one* of the entries with that key; which one is an oracle `pick : key → file offset of the
  survivor` (supplied per case by the harness from the implementation's own index; every theorem is
  parametric in it, and nothing depends on it when the keys are distinct);
* `binary_search_by_key` — its contract on a strictly sorted slice (`lastLE`);
* `CodeId::from_str`, `SourceFilePath::from_breakpad_path` — not modelled (not observable in C10).

Core Lean only (linked into the driver executable).
-/
namespace BP
open LB (Byte Log)

def pow32 : Nat := 4294967296
def pow64 : Nat := 18446744073709551616

/-! ## Leaf parsers -/

/-- `nom::bytes::complete::tag` / `<[u8]>::starts_with` + skip -/
def tag : List Byte → List Byte → Option (List Byte)
  | [], inp => some inp
  | _ :: _, [] => none
  | t :: ts, i :: is => if t = i then tag ts is else none

def tMODULE : List Byte := [77, 79, 68, 85, 76, 69]
def tINFO_CODE_ID : List Byte := [73, 78, 70, 79, 32, 67, 79, 68, 69, 95, 73, 68]
def tINFO_ : List Byte := [73, 78, 70, 79, 32]
def tSTACK_ : List Byte := [83, 84, 65, 67, 75, 32]
def tFILE : List Byte := [70, 73, 76, 69]
def tINLINE_ORIGIN : List Byte := [73, 78, 76, 73, 78, 69, 95, 79, 82, 73, 71, 73, 78]
def tINLINE : List Byte := [73, 78, 76, 73, 78, 69]
def tPUBLIC : List Byte := [80, 85, 66, 76, 73, 67]
def tFUNC : List Byte := [70, 85, 78, 67]
def tM : List Byte := [109]
def tMODULE_ : List Byte := [77, 79, 68, 85, 76, 69, 32]
def tSYMINDEX : List Byte := [83, 89, 77, 73, 78, 68, 69, 88]

/-- nom's `space1` accepts spaces **and tabs** (nom-7.1.3 character/complete.rs:636) -/
def isSpTab (b : Byte) : Bool := b = 32 || b = 9

def space1 : List Byte → Option (List Byte)
  | [] => none
  | b :: rest => if isSpTab b then some (rest.dropWhile isSpTab) else none

/-- `Tokenizer::consume_space1` (index.rs:1056-1072): spaces only -/
def tokSpace1 : List Byte → Option (List Byte)
  | [] => none
  | b :: rest => if b = 32 then some (rest.dropWhile (· = 32)) else none

/-- `(b as char).to_digit(16)` -/
def hexVal (b : Byte) : Option Nat :=
  let n := b.toNat
  if 48 ≤ n ∧ n ≤ 57 then some (n - 48)
  else if 97 ≤ n ∧ n ≤ 102 then some (n - 87)
  else if 65 ≤ n ∧ n ≤ 70 then some (n - 55)
  else none

/-- `(b as char).to_digit(10)` -/
def decVal (b : Byte) : Option Nat :=
  let n := b.toNat
  if 48 ≤ n ∧ n ≤ 57 then some (n - 48) else none

/-- the digit loop shared by `hex_str` and `decimal_u32`: at most `fuel` digits, returns
(value, number of digits, remaining input) -/
def digits (val : Byte → Option Nat) (base : Nat) : Nat → Nat → Nat → List Byte → Nat × Nat × List Byte
  | 0, acc, k, inp => (acc, k, inp)
  | _ + 1, acc, k, [] => (acc, k, [])
  | fuel + 1, acc, k, b :: rest =>
    match val b with
    | some d => digits val base fuel (acc * base + d) (k + 1) rest
    | none => (acc, k, b :: rest)

/-- `hex_str::<T>` (index.rs:841-867) with `max_len = 2 * size_of::<T>()`: no overflow is possible
because at most `max_len` digits are consumed (`res << 4 | digit` = `res * 16 + digit`) -/
def hexStr (maxLen : Nat) (inp : List Byte) : Option (Nat × List Byte) :=
  let r := digits hexVal 16 maxLen 0 0 inp
  if r.2.1 = 0 then none else some (r.1, r.2.2)

def hexU32 := hexStr 8
def hexU64 := hexStr 16

/-- `decimal_u32` (index.rs:876-896): at most 10 digits accumulated in a `u64`, then `u32::try_from` -/
def decimalU32 (inp : List Byte) : Option (Nat × List Byte) :=
  let r := digits decVal 10 10 0 0 inp
  if r.2.1 = 0 then none else if r.1 < pow32 then some (r.1, r.2.2) else none

/-- `while input.last() == Some(&b'\r') { input = &input[..len-1] }` (index.rs:590, 389) -/
def stripCR (l : List Byte) : List Byte := (l.reverse.dropWhile (· = 13)).reverse

/-- `str::from_utf8(..).is_ok()`: well-formed UTF-8 byte sequences (Unicode table 3-7) -/
def validUtf8 : List Byte → Bool
  | [] => true
  | b0 :: rest =>
    let n0 := b0.toNat
    if n0 < 128 then validUtf8 rest
    else if 194 ≤ n0 ∧ n0 ≤ 223 then
      match rest with
      | b1 :: rest => if 128 ≤ b1.toNat ∧ b1.toNat ≤ 191 then validUtf8 rest else false
      | _ => false
    else if 224 ≤ n0 ∧ n0 ≤ 239 then
      match rest with
      | b1 :: b2 :: rest =>
        let lo := if n0 = 224 then 160 else 128
        let hi := if n0 = 237 then 159 else 191
        if lo ≤ b1.toNat ∧ b1.toNat ≤ hi ∧ 128 ≤ b2.toNat ∧ b2.toNat ≤ 191 then validUtf8 rest else false
      | _ => false
    else if 240 ≤ n0 ∧ n0 ≤ 244 then
      match rest with
      | b1 :: b2 :: b3 :: rest =>
        let lo := if n0 = 240 then 144 else 128
        let hi := if n0 = 244 then 143 else 191
        if lo ≤ b1.toNat ∧ b1.toNat ≤ hi ∧ 128 ≤ b2.toNat ∧ b2.toNat ≤ 191
            ∧ 128 ≤ b3.toNat ∧ b3.toNat ≤ 191 then validUtf8 rest else false
      | _ => false
    else false

/-- value of a string of hex digits (no length limit) -/
def hexValue (l : List Byte) : Nat := l.foldl (fun acc b => acc * 16 + (hexVal b).getD 0) 0

/-- `DebugId::from_breakpad(s).is_ok()` for `s` consisting of hex digits (debugid-0.8.0 lib.rs:249-289):
9..=16 digits: PDB 2.0 (8-digit timestamp + appendix ≤ 8 digits); otherwise the first 32 digits are the
UUID and the non-empty rest must parse as a `u32` (`u32::from_str_radix` accepts leading zeros) -/
def debugIdOk (s : List Byte) : Bool :=
  if 9 ≤ s.length ∧ s.length ≤ 16 then true
  else if s.length ≤ 32 then false
  else decide (hexValue (s.drop 32) < pow32)

/-! ## Line parsers -/

structure ModuleRec where
  os : List Byte
  arch : List Byte
  id : List Byte
  name : List Byte
deriving Repr, DecidableEq

/-- `module_line` (index.rs:904-916). `non_space` stops at `' '` only (a tab is part of the token);
`hex_digit1` = one or more of `[0-9A-Fa-f]` -/
def moduleLine (inp : List Byte) : Option ModuleRec :=
  match tag tMODULE inp with
  | none => none
  | some inp =>
  match space1 inp with
  | none => none
  | some inp =>
  let os := inp.takeWhile (· ≠ 32)
  match space1 (inp.dropWhile (· ≠ 32)) with
  | none => none
  | some inp =>
  let arch := inp.takeWhile (· ≠ 32)
  match space1 (inp.dropWhile (· ≠ 32)) with
  | none => none
  | some inp =>
  let id := inp.takeWhile (fun b => (hexVal b).isSome)
  match space1 (inp.dropWhile (fun b => (hexVal b).isSome)) with
  | none => none
  | some name =>
    if validUtf8 os && validUtf8 arch && !id.isEmpty && debugIdOk id && validUtf8 name
    then some ⟨os, arch, id, name⟩ else none

/-- `info_code_id_line` (index.rs:919-926): (code id string, optional name), split at the first space -/
def infoCodeIdLine (inp : List Byte) : Option (List Byte × Option (List Byte)) :=
  match tag tINFO_CODE_ID inp with
  | none => none
  | some inp =>
  match space1 inp with
  | none => none
  | some r =>
    if !validUtf8 r then none
    else if r.contains 32 then some (r.takeWhile (· ≠ 32), some ((r.dropWhile (· ≠ 32)).drop 1))
    else some (r, none)

/-- `<TAG> space1 decimal_u32 space1 rest` — `file_line` / `inline_origin_line` (index.rs:929-940) -/
def indexedLine (t : List Byte) (inp : List Byte) : Option (Nat × List Byte) :=
  match tag t inp with
  | none => none
  | some inp =>
  match space1 inp with
  | none => none
  | some inp =>
  match decimalU32 inp with
  | none => none
  | some (idx, inp) =>
  match space1 inp with
  | none => none
  | some name => some (idx, name)

def fileLine := indexedLine tFILE
def inlineOriginLine := indexedLine tINLINE_ORIGIN

/-- `opt(terminated(tag("m"), space1))` -/
def optM (inp : List Byte) : List Byte :=
  match tag tM inp with
  | none => inp
  | some r => match space1 r with
    | none => inp
    | some r => r

/-- `public_line` (index.rs:943-952): `(address as u32, name)`; the address is parsed as `u64` -/
def publicLine (inp : List Byte) : Option (Nat × List Byte) :=
  match tag tPUBLIC inp with
  | none => none
  | some inp =>
  match space1 inp with
  | none => none
  | some inp =>
  match hexU64 (optM inp) with
  | none => none
  | some (addr, inp) =>
  match space1 inp with
  | none => none
  | some inp =>
  match hexU32 inp with
  | none => none
  | some (_, inp) =>
  match space1 inp with
  | none => none
  | some name => some (addr % pow32, name)

/-- `func_line` (index.rs:1008-1018): `(address, size, name)` -/
def funcLine (inp : List Byte) : Option (Nat × Nat × List Byte) :=
  match tag tFUNC inp with
  | none => none
  | some inp =>
  match space1 inp with
  | none => none
  | some inp =>
  match hexU32 (optM inp) with
  | none => none
  | some (addr, inp) =>
  match space1 inp with
  | none => none
  | some inp =>
  match hexU32 inp with
  | none => none
  | some (size, inp) =>
  match space1 inp with
  | none => none
  | some inp =>
  match hexU32 inp with
  | none => none
  | some (_, inp) =>
  match space1 inp with
  | none => none
  | some name => some (addr, size, name)

/-! ## Creator state -/

/-- `FileOrInlineOriginEntry` -/
structure FEntry where
  index : Nat
  lineLen : Nat
  offset : Nat
deriving Repr, DecidableEq

/-- `BreakpadSymbolEntry` -/
structure SymEntry where
  kind : Nat
  len : Nat
  offset : Nat
deriving Repr, DecidableEq

/-- `SortedVecBuilder` (index.rs:522-573) -/
structure SVB where
  inner : List FEntry
  last : Option Nat
  sorted : Bool
deriving Repr, DecidableEq

def SVB.init : SVB := ⟨[], none, true⟩

/-- `SortedVecBuilder::push` (index.rs:540-564) -/
def SVB.push (b : SVB) (e : FEntry) : SVB :=
  if b.sorted then
    match b.last with
    | none => ⟨b.inner ++ [e], some e.index, true⟩
    | some l =>
      if l < e.index then ⟨b.inner ++ [e], some e.index, true⟩
      else if e.index = l then b
      else ⟨b.inner ++ [e], some l, false⟩
  else ⟨b.inner ++ [e], b.last, false⟩

/-- `BreakpadIndexCreatorInner` (index.rs:575-585); `hasModule` = `module_info.is_some()`. The parsed
module tuple / code id / name are not kept: they do not reach the serialized index (they are re-derived
from `module_info_bytes` by `parse_symindex_file`, see `deriveModule`). -/
structure Inner where
  moduleInfoBytes : List Byte
  hasModule : Bool
  symbols : List (Nat × SymEntry)
  files : SVB
  origins : SVB
  pending : Option (Nat × Nat)
deriving Repr, DecidableEq

def Inner.init : Inner := ⟨[], false, [], SVB.init, SVB.init, none⟩

/-- `finish_pending_func_block` (index.rs:645-657); `none` = the `u64` subtraction underflows -/
def finishPending (st : Inner) (off : Nat) : Option Inner :=
  match st.pending with
  | none => some st
  | some (addr, fo) =>
    if fo ≤ off then
      some { st with pending := none, symbols := st.symbols ++ [(addr, ⟨1, (off - fo) % pow32, fo⟩)] }
    else none

/-- which branch of the `if let … else if let …` cascade of `process_line` (index.rs:607-642) a
(CR-stripped) line takes -/
inductive LineClass
  | file (idx : Nat)
  | origin (idx : Nat)
  | pub (addr : Nat)
  | func (addr : Nat)
  | info
  | stack
  | other
deriving Repr, DecidableEq

def classify (input : List Byte) : LineClass :=
  match fileLine input with
  | some (idx, _) => .file idx
  | none =>
  match inlineOriginLine input with
  | some (idx, _) => .origin idx
  | none =>
  match publicLine input with
  | some (addr, _) => .pub addr
  | none =>
  match funcLine input with
  | some (addr, _, _) => .func addr
  | none =>
    if (tag tINFO_ input).isSome then .info
    else if (tag tSTACK_ input).isSome then .stack
    else .other

/-- the body of the branch taken (index.rs:607-642); `lineLen` = `input.len() as u32` -/
def applyClass (st : Inner) (off lineLen : Nat) (input : List Byte) : LineClass → Option Inner
  | .file idx => some { st with files := st.files.push ⟨idx, lineLen, off⟩ }
  | .origin idx => some { st with origins := st.origins.push ⟨idx, lineLen, off⟩ }
  | .pub addr =>
    (finishPending st off).map fun st => { st with symbols := st.symbols ++ [(addr, ⟨0, lineLen, off⟩)] }
  | .func addr => (finishPending st off).map fun st => { st with pending := some (addr, off) }
  | .info =>
    (finishPending st off).map fun st => { st with moduleInfoBytes := st.moduleInfoBytes ++ 10 :: input }
  | .stack => finishPending st off
  | .other => some st

/-- `process_line` (index.rs:588-643) -/
def processLine (st : Inner) (off : Nat) (line : List Byte) : Option Inner :=
  let input := stripCR line
  if !st.hasModule then
    some { st with hasModule := (moduleLine input).isSome, moduleInfoBytes := input }
  else applyClass st off (input.length % pow32) input (classify input)

/-- the callback log of the line buffer, fed to `process_line` in order -/
def processLog (st : Inner) : Log → Option Inner
  | [] => some st
  | (off, line) :: rest =>
    match processLine st off line with
    | none => none
    | some st' => processLog st' rest

/-! ## Index, serialization -/

structure Index where
  moduleInfo : List Byte
  files : List FEntry
  origins : List FEntry
  addrs : List Nat
  entries : List SymEntry
deriving Repr, DecidableEq

def le32 (n : Nat) : List Byte :=
  [UInt8.ofNat (n % 256), UInt8.ofNat (n / 256 % 256), UInt8.ofNat (n / 65536 % 256),
   UInt8.ofNat (n / 16777216 % 256)]

def le64 (n : Nat) : List Byte := le32 (n % pow32) ++ le32 (n / pow32 % pow32)

def encFEntry (e : FEntry) : List Byte := le32 e.index ++ le32 e.lineLen ++ le64 e.offset
def encSymEntry (e : SymEntry) : List Byte := le32 e.kind ++ le32 e.len ++ le64 e.offset

/-- `BreakpadSymindexFileHeader` after the magic -/
structure Header where
  version : Nat
  miOff : Nat
  miLen : Nat
  fileCount : Nat
  fileOff : Nat
  originCount : Nat
  originOff : Nat
  symCount : Nat
  addrOff : Nat
  entOff : Nat
deriving Repr, DecidableEq

def encHeader (h : Header) : List Byte :=
  tSYMINDEX ++ (le32 h.version ++ (le32 h.miOff ++ (le32 h.miLen ++ (le32 h.fileCount ++ (le32 h.fileOff ++
    (le32 h.originCount ++ (le32 h.originOff ++ (le32 h.symCount ++ (le32 h.addrOff ++ le32 h.entOff)))))))))

/-- `align_to_4_bytes(n) - n` -/
def padLen (n : Nat) : Nat := (n + 3) / 4 * 4 - n

/-- the offsets computed by `serialize_to_bytes` (index.rs:167-195) -/
def layout (ix : Index) : Header :=
  let miLen := ix.moduleInfo.length
  let fileOff := 48 + miLen + padLen miLen
  let originOff := fileOff + ix.files.length * 16
  let addrOff := originOff + ix.origins.length * 16
  let entOff := addrOff + ix.addrs.length * 4
  ⟨1, 48, miLen, ix.files.length, fileOff, ix.origins.length, originOff, ix.addrs.length, addrOff, entOff⟩

def totalLen (ix : Index) : Nat := (layout ix).entOff + ix.addrs.length * 16

/-- `serialize_to_bytes` does not panic: no `u32` computation overflows (debug build) and the final
`assert_eq!(vec.len(), total_file_len)` holds. Equivalent to: everything fits below 2^32 and the two
symbol arrays have the same length. -/
def serializeSafe (ix : Index) : Bool :=
  decide (totalLen ix < pow32) && decide (ix.addrs.length = ix.entries.length)

/-- `serialize_to_bytes` (index.rs:166-209) -/
def serialize (ix : Index) : List Byte :=
  encHeader (layout ix) ++ (ix.moduleInfo ++ (List.replicate (padLen ix.moduleInfo.length) 0 ++
    (ix.files.flatMap encFEntry ++ (ix.origins.flatMap encFEntry ++
      (ix.addrs.flatMap le32 ++ ix.entries.flatMap encSymEntry)))))

/-! ### sort + dedup with an oracle for ties -/

def insertKey (k : Nat) : List Nat → List Nat
  | [] => [k]
  | x :: xs => if k < x then k :: x :: xs else if k = x then x :: xs else x :: insertKey k xs

/-- the distinct keys in ascending order -/
def sortedKeys (ks : List Nat) : List Nat := ks.foldr insertKey []

/-- the survivor among the candidates (in push order) with one key: the one at file offset `want`, else
the first -/
def choose {α : Type} (off : α → Nat) (cands : List α) (want : Nat) : Option α :=
  match cands.find? (fun c => off c = want) with
  | some c => some c
  | none => cands.head?

/-- `v.sort_unstable_by_key(key); v.dedup_by_key(key)`: ascending distinct keys, one candidate each -/
def sortDedup {α : Type} (key off : α → Nat) (pick : Nat → Nat) (l : List α) : List α :=
  (sortedKeys (l.map key)).filterMap fun k => choose off (l.filter fun x => key x = k) (pick k)

/-- `SortedVecBuilder::into_sorted_vec` (index.rs:566-572) -/
def SVB.intoSorted (pick : Nat → Nat) (b : SVB) : List FEntry :=
  if b.sorted then b.inner else sortDedup (·.index) (·.offset) pick b.inner

/-- the three tie-break oracles (symbols by address, files and inline origins by index) -/
structure Pick where
  sym : Nat → Nat
  file : Nat → Nat
  origin : Nat → Nat

def Pick.first : Pick := ⟨fun _ => 0, fun _ => 0, fun _ => 0⟩

inductive Outcome
  | panic
  | err
  | ok (bytes : List Byte)
deriving Repr, DecidableEq

/-- the index a finished creator state stands for (before the `module_info` check) -/
def Inner.toIndex (pick : Pick) (st : Inner) : Index :=
  let syms := sortDedup (·.1) (·.2.offset) pick.sym st.symbols
  ⟨st.moduleInfoBytes, st.files.intoSorted pick.file, st.origins.intoSorted pick.origin,
   syms.map (·.1), syms.map (·.2)⟩

/-- result of the creator before serialization -/
inductive Pre
  | panic
  | err
  | ix (i : Index)
deriving Repr, DecidableEq

/-- `serialize_to_bytes` applied to the creator's index, with its panic condition -/
def Pre.toOutcome : Pre → Outcome
  | .panic => .panic
  | .err => .err
  | .ix i => if serializeSafe i then .ok (serialize i) else .panic

/-- `BreakpadIndexCreatorInner::finish` (index.rs:659-694) up to the `BreakpadIndex` value -/
def Inner.pre (pick : Pick) (st : Inner) (endOff : Nat) : Pre :=
  match finishPending st endOff with
  | none => .panic
  | some st => if !st.hasModule then .err else .ix (st.toIndex pick)

/-! ## The creator -/

structure Creator where
  lb : LB.St
  inner : Inner
deriving Repr, DecidableEq

def Creator.init : Creator := ⟨LB.St.init, Inner.init⟩

/-- `BreakpadIndexCreator::consume` (index.rs:507-511); `none` = panic -/
def Creator.consume (c : Creator) (chunk : List Byte) : Option Creator :=
  if LB.consumeSafe c.lb then
    let r := LB.consume c.lb chunk
    match processLog c.inner r.2 with
    | none => none
    | some i => some ⟨r.1, i⟩
  else none

def Creator.consumeAll (c : Creator) : List (List Byte) → Option Creator
  | [] => some c
  | ch :: rest =>
    match c.consume ch with
    | none => none
    | some c' => c'.consumeAll rest

/-- `BreakpadIndexCreator::finish` (index.rs:513-519) up to the `BreakpadIndex` value -/
def Creator.pre (pick : Pick) (c : Creator) : Pre :=
  match LB.finish c.lb with
  | none => .panic
  | some (tail, endOff) =>
    match processLog c.inner tail with
    | none => .panic
    | some i => i.pre pick endOff

/-- the `BreakpadIndex` value a fresh creator computes from the chunks fed in order -/
def preIndex (pick : Pick) (chunks : List (List Byte)) : Pre :=
  match Creator.init.consumeAll chunks with
  | none => .panic
  | some c => c.pre pick

/-- the index bytes produced by feeding the chunks in order to a fresh creator and calling `finish` -/
def index (pick : Pick) (chunks : List (List Byte)) : Outcome := (preIndex pick chunks).toOutcome

/-! ## `parse_symindex_file` -/

/-- `read_bytes_at(offset, size)` on a byte slice: `get(offset..)?.get(..size)` -/
def readAt (bs : List Byte) (off len : Nat) : Option (List Byte) :=
  if off + len ≤ bs.length then some ((bs.drop off).take len) else none

def take32 : List Byte → Option (Nat × List Byte)
  | b0 :: b1 :: b2 :: b3 :: rest =>
    some (b0.toNat + 256 * b1.toNat + 65536 * b2.toNat + 16777216 * b3.toNat, rest)
  | _ => none

def take64 (bs : List Byte) : Option (Nat × List Byte) :=
  match take32 bs with
  | none => none
  | some (lo, bs) =>
    match take32 bs with
    | none => none
    | some (hi, bs) => some (lo + pow32 * hi, bs)

def decHeader (bs : List Byte) : Option Header :=
  match tag tSYMINDEX bs with
  | none => none
  | some bs =>
  match take32 bs with
  | none => none
  | some (version, bs) =>
  match take32 bs with
  | none => none
  | some (miOff, bs) =>
  match take32 bs with
  | none => none
  | some (miLen, bs) =>
  match take32 bs with
  | none => none
  | some (fileCount, bs) =>
  match take32 bs with
  | none => none
  | some (fileOff, bs) =>
  match take32 bs with
  | none => none
  | some (originCount, bs) =>
  match take32 bs with
  | none => none
  | some (originOff, bs) =>
  match take32 bs with
  | none => none
  | some (symCount, bs) =>
  match take32 bs with
  | none => none
  | some (addrOff, bs) =>
  match take32 bs with
  | none => none
  | some (entOff, _) =>
    some ⟨version, miOff, miLen, fileCount, fileOff, originCount, originOff, symCount, addrOff, entOff⟩

def decFEntry (bs : List Byte) : Option (FEntry × List Byte) :=
  match take32 bs with
  | none => none
  | some (index, bs) =>
  match take32 bs with
  | none => none
  | some (lineLen, bs) =>
  match take64 bs with | none => none | some (offset, bs) => some (⟨index, lineLen, offset⟩, bs)

def decSymEntry (bs : List Byte) : Option (SymEntry × List Byte) :=
  match take32 bs with
  | none => none
  | some (kind, bs) =>
  match take32 bs with
  | none => none
  | some (len, bs) =>
  match take64 bs with | none => none | some (offset, bs) => some (⟨kind, len, offset⟩, bs)

/-- reinterpret a byte slice as `n` fixed-size items (`Ref::<&[u8], [T]>::from_bytes`) -/
def decList {α : Type} (dec : List Byte → Option (α × List Byte)) : Nat → List Byte → Option (List α)
  | 0, _ => some []
  | n + 1, bs =>
    match dec bs with
    | none => none
    | some (a, bs) =>
      match decList dec n bs with
      | none => none
      | some l => some (a :: l)

/-- the lines of the module-info block as `parse_symindex_file` sees them (index.rs:61-89): a fresh
`LineBuffer`, one `consume`, then `finish` -/
def moduleInfoLines (mi : List Byte) : List (List Byte) :=
  let r := LB.consume LB.St.init mi
  let tail := if r.1.leftover.isEmpty then [] else [r.1.leftover]
  r.2.map (·.2) ++ tail

/-- the module tuple `parse_symindex_file` derives: the last line that parses as a MODULE record -/
def deriveModule (mi : List Byte) : Option ModuleRec :=
  (moduleInfoLines mi).foldl (fun acc l => match moduleLine l with | some m => some m | none => acc) none

/-- `(code_id string, name)` derived from the last `INFO CODE_ID` line that is not a MODULE line -/
def deriveCodeId (mi : List Byte) : Option (List Byte × Option (List Byte)) :=
  (moduleInfoLines mi).foldl (fun acc l =>
    match moduleLine l with
    | some _ => acc
    | none => match infoCodeIdLine l with | some c => some c | none => acc) none

/-- `BreakpadIndex::parse_symindex_file` (index.rs:40-164); `none` = any `Err` -/
def parseSymindex (bs : List Byte) : Option Index :=
  match readAt bs 0 48 with
  | none => none
  | some hb =>
  match decHeader hb with
  | none => none
  | some h =>
  match readAt bs h.miOff h.miLen with
  | none => none
  | some mi =>
  if (deriveModule mi).isNone then none else
  if ¬ h.fileCount * 16 < pow32 then none else
  match readAt bs h.fileOff (h.fileCount * 16) with
  | none => none
  | some fb =>
  if ¬ h.originCount * 16 < pow32 then none else
  match readAt bs h.originOff (h.originCount * 16) with
  | none => none
  | some ob =>
  if ¬ h.symCount * 4 < pow32 then none else
  match readAt bs h.addrOff (h.symCount * 4) with
  | none => none
  | some ab =>
  if ¬ h.symCount * 16 < pow32 then none else
  match readAt bs h.entOff (h.symCount * 16) with
  | none => none
  | some eb =>
  match decList decFEntry h.fileCount fb, decList decFEntry h.originCount ob,
        decList take32 h.symCount ab, decList decSymEntry h.symCount eb with
  | some files, some origins, some addrs, some entries => some ⟨mi, files, origins, addrs, entries⟩
  | _, _, _, _ => none

/-! ## FUNC block parsing (`BreakpadFuncSymbol::parse`) -/

structure SourceLine where
  address : Nat
  size : Nat
  file : Nat
  line : Nat
deriving Repr, DecidableEq

structure Inlinee where
  depth : Nat
  address : Nat
  size : Nat
  callFile : Nat
  callLine : Nat
  originId : Nat
deriving Repr, DecidableEq

structure FuncInfo where
  name : List Byte
  size : Nat
  lines : List SourceLine
  inlinees : List Inlinee
deriving Repr, DecidableEq

/-- `parse_func_data_line` (index.rs:991-1005): `<hex u64 addr> <hex u32 size> <dec line> <dec file>`,
separated by `consume_space1` (spaces only); `address as u32` -/
def parseLineRec (inp : List Byte) : Option SourceLine :=
  match hexU64 inp with
  | none => none
  | some (addr, inp) =>
  match tokSpace1 inp with
  | none => none
  | some inp =>
  match hexU32 inp with
  | none => none
  | some (size, inp) =>
  match tokSpace1 inp with
  | none => none
  | some inp =>
  match decimalU32 inp with
  | none => none
  | some (line, inp) =>
  match tokSpace1 inp with
  | none => none
  | some inp =>
  match decimalU32 inp with
  | none => none
  | some (file, _) =>
    some ⟨addr % pow32, size, file, line⟩

/-- the `[<address> <size>]+` loop of `parse_inline_line_remainder` (index.rs:1100-1118). After a pair,
`consume_space1` succeeding means another pair MUST follow (otherwise `Err`). Fuel: every round consumes
at least one byte, so `inp.length + 1` rounds suffice. -/
def inlineRanges : Nat → List Byte → Option (List (Nat × Nat))
  | 0, _ => none
  | fuel + 1, inp =>
    match hexU32 inp with
    | none => none
    | some (addr, inp) =>
    match tokSpace1 inp with
    | none => none
    | some inp =>
    match hexU32 inp with
    | none => none
    | some (size, inp) =>
    match tokSpace1 inp with
    | none => some [(addr, size)]
    | some inp =>
      match inlineRanges fuel inp with
      | none => none
      | some rs => some ((addr, size) :: rs)

/-- `parse_inline_line_remainder` (index.rs:1086-1120), input = the line after the `INLINE` token -/
def parseInlineRest (inp : List Byte) : Option (List Inlinee) :=
  match tokSpace1 inp with
  | none => none
  | some inp =>
  match decimalU32 inp with
  | none => none
  | some (depth, inp) =>
  match tokSpace1 inp with
  | none => none
  | some inp =>
  match decimalU32 inp with
  | none => none
  | some (callLine, inp) =>
  match tokSpace1 inp with
  | none => none
  | some inp =>
  match decimalU32 inp with
  | none => none
  | some (callFile, inp) =>
  match tokSpace1 inp with
  | none => none
  | some inp =>
  match decimalU32 inp with
  | none => none
  | some (originId, inp) =>
  match tokSpace1 inp with
  | none => none
  | some inp =>
  match inlineRanges (inp.length + 1) inp with
  | none => none
  | some rs => some (rs.map fun r => ⟨depth, r.1, r.2, callFile, callLine, originId⟩)

/-- the lines the tokenizer loop of `BreakpadFuncSymbol::parse` visits (index.rs:412-420): pieces between
`\n`s; an unterminated non-empty tail is a line, an empty tail is not. The tokenizer parses from the
start of each piece and never crosses a `\n` (no parser consumes byte 10), so parsing the piece alone is
the same as parsing the remaining input. -/
def splitLinesAux : List Byte → List Byte → List (List Byte)
  | [], cur => if cur.isEmpty then [] else [cur]
  | b :: bs, cur => if b = 10 then cur :: splitLinesAux bs [] else splitLinesAux bs (cur ++ [b])

def splitLines (bs : List Byte) : List (List Byte) := splitLinesAux bs []

/-- lexicographic `(depth, address)` order used by `sort_unstable_by_key` / `binary_search_by_key` -/
def inlLE (a b : Inlinee) : Bool := a.depth < b.depth || (a.depth = b.depth && a.address ≤ b.address)

/-- the body loop (index.rs:412-423): a line starting with `INLINE_ORIGIN` is skipped (fix c4b9d51a);
`none` = a line starting with `INLINE` failed to parse as an INLINE record
(`BreakpadParseError::ParsingInline`); any other line is a line record or ignored -/
def parseBody : List (List Byte) → Option (List SourceLine × List Inlinee)
  | [] => some ([], [])
  | l :: rest =>
    match tag tINLINE_ORIGIN l with
    | some _ => parseBody rest
    | none =>
    match tag tINLINE l with
    | some r =>
      match parseInlineRest r with
      | none => none
      | some is =>
        match parseBody rest with
        | none => none
        | some (ls, is') => some (ls, is ++ is')
    | none =>
      match parseBody rest with
      | none => none
      | some (ls, is') =>
        match parseLineRec l with
        | some sl => some (sl :: ls, is')
        | none => some (ls, is')

/-- the body loop before fix c4b9d51a: the token test `starts_with(b"INLINE")` also matched an
`INLINE_ORIGIN` line inside the block, whose remainder then failed to parse as an INLINE record and made
the whole FUNC unparseable (see `C10_legacy_counterexample_origin_in_func`) -/
def parseBodyLegacy : List (List Byte) → Option (List SourceLine × List Inlinee)
  | [] => some ([], [])
  | l :: rest =>
    match tag tINLINE l with
    | some r =>
      match parseInlineRest r with
      | none => none
      | some is =>
        match parseBodyLegacy rest with
        | none => none
        | some (ls, is') => some (ls, is ++ is')
    | none =>
      match parseBodyLegacy rest with
      | none => none
      | some (ls, is') =>
        match parseLineRec l with
        | some sl => some (sl :: ls, is')
        | none => some (ls, is')

/-- `BreakpadFuncSymbol::parse` (index.rs:404-431) -/
def parseFunc (block : List Byte) : Option FuncInfo :=
  let (first, rest) :=
    match LB.splitNl block with
    | some (l, r) => (stripCR l, r)
    | none => (stripCR block, [])
  match funcLine first with
  | none => none
  | some (_, size, name) =>
    match parseBody (splitLines rest) with
    | none => none
    | some (lines, inlinees) =>
      if validUtf8 name then some ⟨name, size, lines, inlinees.mergeSort inlLE⟩ else none

/-- `BreakpadPublicSymbol::parse` (index.rs:367-373): the name -/
def parsePublic (line : List Byte) : Option (List Byte) :=
  match publicLine line with
  | none => none
  | some (_, name) => if validUtf8 name then some name else none

/-! ## Lookup (`lookup_sync`, symbol_map.rs:274-371) -/

/-- the loop of `core::slice::binary_search_by` (Rust ≥ 1.82, library/core/src/slice/mod.rs): `size`
halves, `base` moves to `mid` unless the element there compares `Greater` than the target. Returns the
final `base`. (`l[mid]?` is always in range; the `none` arm is dead.) -/
def bsearchBase {α : Type} (gt : α → Bool) (l : List α) (size base : Nat) : Nat :=
  if 1 < size then
    let half := size / 2
    let mid := base + half
    let base' := match l[mid]? with
      | some x => if gt x then base else mid
      | none => base
    bsearchBase gt l (size - half) base'
  else base
termination_by size
decreasing_by omega

/-- `binary_search_by_key(&t, key)` followed by `Ok(i) => i, Err(0) => return None, Err(i) => i - 1`
(symbol_map.rs:286-294, index.rs:803-807, 819-826); `gt x` = `key(x) > t`. On a slice sorted by `key`
this is the index of the last element with `key ≤ t` (`bsearchLE_sorted` in the lemmas); on an unsorted
slice it is whatever the std algorithm yields, which the model reproduces. -/
def bsearchLE {α : Type} (gt : α → Bool) (l : List α) : Option Nat :=
  if l.isEmpty then none else
  let base := bsearchBase gt l l.length 0
  match l[base]? with
  | none => none
  | some x => if gt x then (if base = 0 then none else some (base - 1)) else some base

/-- `binary_search_by_key(&t, key).ok()` (index.rs:457-461); `eq x` = `key(x) == t` -/
def bsearchEq {α : Type} (gt eq : α → Bool) (l : List α) : Option Nat :=
  if l.isEmpty then none else
  let base := bsearchBase gt l l.length 0
  match l[base]? with
  | none => none
  | some x => if eq x then some base else none

structure Frame where
  function : Option (List Byte)
  file : Option (List Byte)
  line : Option Nat
deriving Repr, DecidableEq

structure LookupResult where
  symAddr : Nat
  size : Option Nat
  name : List Byte
  frames : Option (List Frame)
deriving Repr, DecidableEq

inductive Look
  | panic
  | none
  | found (r : LookupResult)
deriving Repr, DecidableEq

/-- `ItemCache::get_string(index).ok()` (symbol_map.rs:209-232) -/
def getString (lineParser : List Byte → Option (Nat × List Byte)) (text : List Byte)
    (items : List FEntry) (idx : Nat) : Option (List Byte) :=
  match (bsearchEq (fun e => idx < e.index) (fun e => e.index = idx) items).bind (items[·]?) with
  | none => none
  | some e =>
    match readAt text e.offset e.lineLen with
    | none => none
    | some line =>
      match lineParser line with
      | none => none
      | some (_, name) => if validUtf8 name then some name else none

/-- `get_inlinee_at_depth` (index.rs:818-837) -/
def inlineeAt (inlinees : List Inlinee) (depth addr : Nat) : Option Inlinee :=
  match (bsearchLE (fun i => !inlLE i ⟨depth, addr, 0, 0, 0, 0⟩) inlinees).bind (inlinees[·]?) with
  | none => none
  | some i =>
    if i.depth ≠ depth then none
    else if i.address + i.size < pow32 ∧ addr < i.address + i.size then some i else none

/-- the `while let Some(inlinee) = info.get_inlinee_at_depth(depth, address)` loop
(symbol_map.rs:335-345); fuel = number of inlinees + 1 (every round uses a new depth) -/
def inlineFrames (text : List Byte) (ix : Index) (info : FuncInfo) (addr : Nat) :
    Nat → Nat → Option (List Byte) → List Frame → List Frame × Option (List Byte)
  | 0, _, name, acc => (acc, name)
  | fuel + 1, depth, name, acc =>
    match inlineeAt info.inlinees depth addr with
    | none => (acc, name)
    | some i =>
      let file := getString fileLine text ix.files i.callFile
      let origin := getString inlineOriginLine text ix.origins i.originId
      inlineFrames text ix info addr fuel (depth + 1) origin (acc ++ [⟨name, file, some i.callLine⟩])

/-- `get_innermost_sourceloc` (index.rs:802-809) -/
def sourceLoc (lines : List SourceLine) (addr : Nat) : Option SourceLine :=
  (bsearchLE (fun l => addr < l.address) lines).bind (lines[·]?)

def lookup (text : List Byte) (ix : Index) (a : Nat) : Look :=
  match bsearchLE (fun x => a < x) ix.addrs with
  | none => .none
  | some i =>
    match ix.addrs[i]? with
    | none => .none
    | some symAddr =>
    match ix.entries[i]? with
    | none => .panic   -- `self.index.symbol_entries[index]` out of range
    | some e =>
      let next := ix.addrs[i + 1]?
      if e.kind = 0 then
        match readAt text e.offset e.len with
        | none => .none
        | some line =>
          match parsePublic line with
          | none => .none
          | some name =>
            .found ⟨symAddr, next.bind (fun nx => if symAddr ≤ nx then some (nx - symAddr) else none),
                    name, none⟩
      else if e.kind = 1 then
        match readAt text e.offset e.len with
        | none => .none
        | some block =>
          match parseFunc block with
          | none => .none
          | some info =>
            if symAddr + info.size ≤ a then .none
            else
              let (fr, name) := inlineFrames text ix info a (info.inlinees.length + 1) 0 (some info.name) []
              let last : Frame :=
                match sourceLoc info.lines a with
                | some sl => ⟨name, getString fileLine text ix.files sl.file, some sl.line⟩
                | none => ⟨name, none, none⟩
              .found ⟨symAddr, some info.size, info.name, some ((fr ++ [last]).reverse)⟩
      else .none

/-! ## Symbol maps with and without a stored index (`make_index_storage`, `make_symbol_map`) -/

/-- the 1 MiB reads of `make_index_storage` (symbol_map.rs:71-90); fuel = length -/
def chunksOf (n : Nat) : Nat → List Byte → List (List Byte)
  | 0, _ => []
  | fuel + 1, l => if l.isEmpty then [] else l.take n :: chunksOf n fuel (l.drop n)

def selfChunks (text : List Byte) : List (List Byte) := chunksOf 1048576 text.length text

inductive MapOutcome
  | panic
  | notBreakpad
  | noModule
  | ok (ix : Index)
deriving Repr, DecidableEq

/-- the map that indexes the file itself -/
def mapSelf (pick : Pick) (text : List Byte) : MapOutcome :=
  if (tag tMODULE_ text).isNone then .notBreakpad
  else match index pick (selfChunks text) with
    | .panic => .panic
    | .err => .noModule
    | .ok bytes =>
      match parseSymindex bytes with
      | none => .panic      -- `parse_symindex_file(..).unwrap()` in make_symbol_map
      | some ix => .ok ix

/-- the MODULE line stored in an index: `module_info_bytes.split(|b| *b == b'\n').next()`
(symbol_map.rs:71-75) -/
def storedModuleLine (ix : Index) : List Byte := ix.moduleInfo.takeWhile (· ≠ 10)

/-- the `DebugId` value `DebugId::from_breakpad` builds from an accepted hex token (debugid-0.8.0
lib.rs:171-197, 249-289; `DebugId` derives `PartialEq` over `bytes`, `appendix`, `typ`): (PDB-2.0 form?,
the 8-digit timestamp resp. the 32-digit UUID, the appendix / age as a number). Two accepted tokens denote
the same `DebugId` iff these triples are equal (letter case and leading zeros of the appendix do not
matter; a 9..16-digit id never equals a 33..40-digit one). -/
def debugIdValue (id : List Byte) : Bool × Nat × Nat :=
  let short := decide (9 ≤ id.length ∧ id.length ≤ 16)
  let k := if short then 8 else 32
  (short, hexValue (id.take k), hexValue (id.drop k))

/-- `debug_id_of_module_line` (index.rs:906-910, fix d2664d76): the id component of `module_line`, `None`
when the line is not a MODULE record (`cut` only turns `Error` into `Failure`; both are `Err`) -/
def debugIdOfModuleLine (line : List Byte) : Option (Bool × Nat × Nat) :=
  (moduleLine line).map fun m => debugIdValue m.id

/-- `index.debug_id` of a parsed index: the id of the LAST line of the module-info block that parses as a
MODULE record (index.rs:57-95, `deriveModule`) -/
def indexDebugId (ix : Index) : Option (Bool × Nat × Nat) :=
  (deriveModule ix.moduleInfo).map fun m => debugIdValue m.id

/-- `debug_id_of_module_line(module_line) == Some(index.debug_id)` (symbol_map.rs:82, fix d2664d76) -/
def storedIdAgrees (ix : Index) : Bool :=
  match debugIdOfModuleLine (storedModuleLine ix), indexDebugId ix with
  | some a, some b => a == b
  | _, _ => false

/-- the test of fix 3f61c23c alone: the stored MODULE line is not empty and the `.sym` file starts with
exactly these bytes (`read_bytes_at(0, len)` fails when the file is shorter) -/
def storedMatchesFirstLine (text : List Byte) (ix : Index) : Bool :=
  let m := storedModuleLine ix
  !m.isEmpty && text.take m.length == m

/-- `matches_sym_file` (symbol_map.rs:76-82, fixes 3f61c23c + d2664d76): additionally the index must
report the debug id which that first line states -/
def storedMatches (text : List Byte) (ix : Index) : Bool :=
  storedMatchesFirstLine text ix && storedIdAgrees ix

/-- the map that is offered a stored index (`make_index_storage`, symbol_map.rs:62-110): the stored index
is used when it parses, its MODULE line is the beginning of the `.sym` file AND the debug id it reports is
the one that line states; otherwise the file is indexed as if nothing had been offered -/
def mapStored (pick : Pick) (text : List Byte) (stored : Option (List Byte)) : MapOutcome :=
  if (tag tMODULE_ text).isNone then .notBreakpad
  else match stored.bind parseSymindex with
    | some ix => if storedMatches text ix then .ok ix else mapSelf pick text
    | none => mapSelf pick text

/-- fix 3f61c23c without d2664d76: only the first line of the stored module info was compared, although
`parse_symindex_file` takes the debug id from the LAST MODULE line of that block -/
def mapStoredFirstLineOnly (pick : Pick) (text : List Byte) (stored : Option (List Byte)) : MapOutcome :=
  if (tag tMODULE_ text).isNone then .notBreakpad
  else match stored.bind parseSymindex with
    | some ix => if storedMatchesFirstLine text ix then .ok ix else mapSelf pick text
    | none => mapSelf pick text

/-- before fix 3f61c23c: any stored index that parses was used, whatever file it had been built from -/
def mapStoredLegacy (pick : Pick) (text : List Byte) (stored : Option (List Byte)) : MapOutcome :=
  if (tag tMODULE_ text).isNone then .notBreakpad
  else match stored.bind parseSymindex with
    | some ix => .ok ix
    | none => mapSelf pick text

end BP
