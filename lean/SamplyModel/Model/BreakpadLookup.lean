import SamplyModel.Model.SymbolList
/-!
Model of the Breakpad symbol lookup (C05; also C07/C08).

Follows `samply-symbols/src/breakpad/symbol_map.rs`:

* `Breakpad.lookup`      = `BreakpadSymbolMapInner::lookup_sync` (lines 274-371), symbol part, *without* cache;
* `Breakpad.lookupC`     = the same code as it is written, going through the `Mutex`-guarded
  `BreakpadSymbolMapSymbolCache` (`get_public_info` / `get_func_info`, lines 146-186), modelled as memo tables
  keyed by the record's file offset;
* `Breakpad.iterSymbols` / `iterSymbolsC` = `iter_symbols` (lines 244-272), which fills the same cache;
* `Breakpad.buildIndex`  = the part of `BreakpadIndexCreatorInner::finish` (index.rs:671-675) that produces
  the sorted, de-duplicated address array (the sort there is *unstable*: the theorems about lookups are
  stated for every strictly sorted index, so they do not depend on which of several records with one
  address survives; the parser itself is C10's subject).

The file is abstracted to the two parse functions the lookup calls: `pubAt off` / `funcAt off` are
`BreakpadPublicSymbol::parse` / `BreakpadFuncSymbol::parse` of the bytes at `off` (`none` = read or parse
error, e.g. a name that is not UTF-8).
Core Lean only.
-/
namespace Breakpad
open SymLookup

/-- `SYMBOL_ENTRY_KIND_PUBLIC` / `SYMBOL_ENTRY_KIND_FUNC` / anything else -/
inductive Kind where
  | public_
  | func
  | other
deriving DecidableEq, Repr

/-- one slot of `symbol_addresses` + `symbol_entries` -/
structure Entry where
  addr : Nat
  kind : Kind
  offset : Nat
deriving DecidableEq, Repr

/-- the parse oracles over the file's bytes -/
structure File where
  pubAt : Nat → Option Name
  funcAt : Nat → Option (Nat × Name)      -- (size, name)

structure Cache where
  pubs : Memo Name
  funcs : Memo (Nat × Name)

def Cache.empty : Cache := ⟨[], []⟩

/-- lines 286-296 -/
def pick (ix : List Entry) (a : Nat) : Option Nat := pickIndex (ix.map (·.addr)) a

/-- the body of `lookup_sync` after the entry has been chosen, given the parse results -/
def answer (e : Entry) (next : Option Nat) (a : Nat) (pubInfo : Option Name)
    (funcInfo : Option (Nat × Name)) : Out SymInfo :=
  match e.kind with
  | .public_ =>
    match pubInfo with
    | none => .miss                                   -- `.ok()?`
    | some n =>
      -- `next_symbol_address.and_then(|n| n.checked_sub(symbol_address))`
      .hit ⟨e.addr, next.bind (fun nx => if e.addr ≤ nx then some (nx - e.addr) else none), n⟩
  | .func =>
    match funcInfo with
    | none => .miss
    | some (size, n) =>
      -- `u64::from(symbol_address) + u64::from(info.size)`: cannot overflow, both are `u32`
      if e.addr + size ≤ a then .miss else .hit ⟨e.addr, some size, n⟩
  | .other => .miss

/-- cache-free lookup of a relative address -/
def lookupRel (f : File) (ix : List Entry) (a : Nat) : Out SymInfo :=
  match pick ix a with
  | none => .miss
  | some i =>
    match ix[i]? with
    | none => .panic                                  -- `symbol_addresses[index]`, `symbol_entries[index]`
    | some e => answer e ((ix[i + 1]?).map (·.addr)) a (f.pubAt e.offset) (f.funcAt e.offset)

/-- lines 275-285: only relative addresses are supported -/
def lookup (f : File) (ix : List Entry) : Addr → Out SymInfo
  | .rel a => lookupRel f ix a
  | .svma _ => .miss
  | .fileOffset _ => .miss

/-- the lookup as written: parse results come out of / go into the cache -/
def lookupRelC (f : File) (ix : List Entry) (c : Cache) (a : Nat) : Cache × Out SymInfo :=
  match pick ix a with
  | none => (c, .miss)
  | some i =>
    match ix[i]? with
    | none => (c, .panic)
    | some e =>
      let next := (ix[i + 1]?).map (·.addr)
      match e.kind with
      | .public_ =>
        let r := Memo.get f.pubAt c.pubs e.offset
        ({ c with pubs := r.1 }, answer e next a r.2 none)
      | .func =>
        let r := Memo.get f.funcAt c.funcs e.offset
        ({ c with funcs := r.1 }, answer e next a none r.2)
      | .other => (c, .miss)

def lookupC (f : File) (ix : List Entry) (c : Cache) : Addr → Cache × Out SymInfo
  | .rel a => lookupRelC f ix c a
  | .svma _ => (c, .miss)
  | .fileOffset _ => (c, .miss)

/-- name of one index slot as `iter_symbols` reports it -/
def entryName (f : File) (e : Entry) : Option Name :=
  match e.kind with
  | .public_ => f.pubAt e.offset
  | .func => (f.funcAt e.offset).map (·.2)
  | .other => none

/-- cache-free `iter_symbols` -/
def iterSymbols (f : File) (ix : List Entry) : List (Nat × Name) :=
  ix.filterMap fun e => (entryName f e).map fun n => (e.addr, n)

/-- `iter_symbols` as written (each step locks the cache and goes through it) -/
def iterSymbolsC (f : File) : List Entry → Cache → Cache × List (Nat × Name)
  | [], c => (c, [])
  | e :: rest, c =>
    match e.kind with
    | .public_ =>
      let r := Memo.get f.pubAt c.pubs e.offset
      let t := iterSymbolsC f rest { c with pubs := r.1 }
      (t.1, match r.2 with | some n => (e.addr, n) :: t.2 | none => t.2)
    | .func =>
      let r := Memo.get f.funcAt c.funcs e.offset
      let t := iterSymbolsC f rest { c with funcs := r.1 }
      (t.1, match r.2 with | some i => (e.addr, i.2) :: t.2 | none => t.2)
    | .other => iterSymbolsC f rest c

/-- the operations a client can perform on a shared symbol map -/
inductive Op where
  | lookup (a : Addr)
  | iter
deriving DecidableEq, Repr

inductive Ans where
  | lookup (r : Out SymInfo)
  | iter (l : List (Nat × Name))
deriving DecidableEq, Repr

/-- cache-free meaning of an operation -/
def pureAns (f : File) (ix : List Entry) : Op → Ans
  | .lookup a => .lookup (lookup f ix a)
  | .iter => .iter (iterSymbols f ix)

/-- any sequence of operations, each an atomic critical section on the cache -/
def runC (f : File) (ix : List Entry) : Cache → List Op → List Ans
  | _, [] => []
  | c, .lookup a :: ops => let r := lookupC f ix c a; .lookup r.2 :: runC f ix r.1 ops
  | c, .iter :: ops => let r := iterSymbolsC f ix c; .iter r.2 :: runC f ix r.1 ops

/-! ### `iter_symbols` element by element

The iterator returned by `iter_symbols` locks the cache once *per element* (lines 246-248), not once for the whole
enumeration: between two elements of one thread's enumeration other threads' lookups and elements interleave. -/

/-- one element (index `i` of `0..symbol_count()`) as written, through the cache -/
def iterElemC (f : File) (ix : List Entry) (c : Cache) (i : Nat) : Cache × Option (Nat × Name) :=
  match ix[i]? with
  | none => (c, none)                                 -- not reached: `i < symbol_count()`
  | some e =>
    match e.kind with
    | .public_ =>
      let r := Memo.get f.pubAt c.pubs e.offset
      ({ c with pubs := r.1 }, r.2.map fun n => (e.addr, n))
    | .func =>
      let r := Memo.get f.funcAt c.funcs e.offset
      ({ c with funcs := r.1 }, r.2.map fun i => (e.addr, i.2))
    | .other => (c, none)

/-- cache-free meaning of one element -/
def iterElem (f : File) (ix : List Entry) (i : Nat) : Option (Nat × Name) :=
  (ix[i]?).bind fun e => (entryName f e).map fun n => (e.addr, n)

/-- the critical sections of the map: a lookup, or one element of somebody's enumeration -/
inductive Step where
  | lookup (a : Addr)
  | elem (i : Nat)
deriving DecidableEq, Repr

inductive StepAns where
  | lookup (r : Out SymInfo)
  | elem (o : Option (Nat × Name))
deriving DecidableEq, Repr

def pureStep (f : File) (ix : List Entry) : Step → StepAns
  | .lookup a => .lookup (lookup f ix a)
  | .elem i => .elem (iterElem f ix i)

/-- any interleaving of critical sections -/
def runSteps (f : File) (ix : List Entry) : Cache → List Step → List StepAns
  | _, [] => []
  | c, .lookup a :: st => let r := lookupC f ix c a; .lookup r.2 :: runSteps f ix r.1 st
  | c, .elem i :: st => let r := iterElemC f ix c i; .elem r.2 :: runSteps f ix r.1 st

/-! ### index construction from the records of a `.sym` file (executable side of the driver) -/

/-- one `FUNC` / `PUBLIC` record in file order; the record's ordinal serves as its file offset -/
structure Rec where
  kind : Kind
  addr : Nat
  size : Nat
  name : Option Name                    -- `none`: the name is not valid UTF-8
deriving DecidableEq, Repr

def fileOf (recs : List Rec) : File where
  pubAt off := match recs[off]? with
    | some r => if r.kind = .public_ then r.name else none
    | none => none
  funcAt off := match recs[off]? with
    | some r => if r.kind = .func then r.name.map (fun n => (r.size, n)) else none
    | none => none

def dedupAux (prev : Entry) : List Entry → List Entry
  | [] => [prev]
  | e :: rest => if prev.addr = e.addr then dedupAux prev rest else prev :: dedupAux e rest

def dedup : List Entry → List Entry
  | [] => []
  | e :: rest => dedupAux e rest

def enumFrom (k : Nat) : List Rec → List Entry
  | [] => []
  | r :: rest => ⟨r.addr, r.kind, k⟩ :: enumFrom (k + 1) rest

/-- `symbols.sort_unstable_by_key(addr); symbols.dedup_by_key(addr)` with a stable sort standing in for
the unstable one -/
def buildIndex (recs : List Rec) : List Entry :=
  dedup ((enumFrom 0 recs).mergeSort fun a b => a.addr ≤ b.addr)

end Breakpad
