/-!
Model of the `/asm/v1` request path (C20; the arithmetic is shared with C08).

Rust code followed (pinned tree, after the two `fix:` commits 2d669439 and b11d9ebc):

* `samply-api/src/asm/mod.rs:101-114`   continuation length            → `disasmLen`, `fnEnd` (`:157-168`)
* `samply-api/src/asm/mod.rs:123-128`   per-architecture start alignment → `alignStart`
* `samply-api/src/asm/mod.rs:139-146`   padded read length               → `readSize`
* `samply-symbols/src/binary_image.rs:218-294` `read_bytes_at_relative_address` → `readRange`, `fileSlice`
* `samply-api/src/asm/mod.rs:171-192`   `decode_arch`                    → the `Arch.unknown` branch of `query`
* `samply-api/src/asm/mod.rs:357-431`   the generic `decode` loop        → `loop`
* the pre-fix size computation (reader's `total_offset`)                  → `legacySize`

Arithmetic is on `Nat`. Every place where the Rust code can overflow (`offset += …` on `u32`,
`image_base + start_address` on `u64`) or slice out of range (`&bytes[offset as usize..]`) is an explicit
`panic` outcome, so that "no panic" is a theorem (`C20_no_panic`) and the driver prints `panic` exactly when
the real code would panic.

The instruction decoders (yaxpeax) are an **oracle** `dec : Nat → Dec`: `dec p` is what the decoder returns
when it is run on a reader positioned at absolute offset `p` of the byte slice handed to `decode`.
Assumption about yaxpeax readers (stated, not proved): a fresh `U8Reader` on `bytes[p..]` decodes exactly what
a reader on `bytes` that has advanced to `p` decodes, decoding is a function of the remaining bytes only
(the decoders are used through `&self`, no state), and `total_offset` advances by the instruction length on
success. Under it one position-indexed oracle describes both the advancing reader and the readers that the
loop re-creates after an invalid instruction.

Core Lean only (linked into the driver executable).
-/
namespace Asm

def u32max : Nat := 4294967295
def u64max : Nat := 18446744073709551615

/-! ### Architectures (`binary_image.arch()` strings as matched by `query_api` / `decode_arch`) -/

inductive Arch
  | x86      -- "x86"
  | x64      -- "x86_64" | "x86_64h"
  | a64      -- "arm64" | "arm64e"
  | arm      -- "arm" (always decoded as thumb, mod.rs:342)
  | unknown  -- anything else / None
deriving Repr, DecidableEq

/-- `ADJUST_BY_AFTER_ERROR`, mod.rs:206, 286, 307, 328 -/
def Arch.adjust : Arch → Nat
  | .x86 => 1 | .x64 => 1 | .a64 => 4 | .arm => 2 | .unknown => 1

/-- instruction alignment used for the start address, mod.rs:124-128 -/
def Arch.align : Arch → Nat
  | .a64 => 4 | .arm => 2 | _ => 1

/-- `start_address & !0b11` / `& !0b1` / unchanged, mod.rs:124-128 -/
def alignStart (a : Arch) (start : Nat) : Nat := start - start % a.align

/-- `A::ARCH_NAME`, mod.rs:204, 284, 305, 326 -/
def Arch.respName : Arch → String
  | .x86 => "i686" | .x64 => "x86_64" | .a64 => "aarch64" | .arm => "arm" | .unknown => "?"

/-! ### Request arithmetic -/

/-- the symbol found by `lookup_sync(Relative(start_address))`: address and optional size -/
structure Sym where
  addr : Nat
  size : Option Nat
deriving Repr, DecidableEq

/-- `get_function_end_address`, mod.rs:157-168: `symbol.address.checked_add(symbol.size?)` -/
def fnEnd : Option Sym → Option Nat
  | none => none
  | some s =>
    match s.size with
    | none => none
    | some sz => if s.addr + sz ≤ u32max then some (s.addr + sz) else none

/-- `disassembly_len`, mod.rs:101-114. The subtraction `function_end_address - start_address` is only
evaluated behind the guard `function_end_address >= start_address` (short-circuit `&&`), so it cannot
underflow. -/
def disasmLen (start size : Nat) (cont : Bool) (fe : Option Nat) : Nat :=
  if cont then
    match fe with
    | some e => if start ≤ e then (if e - start > size then e - start else size) else size
    | none => size
  else size

/-- `disassembly_len.saturating_add(MAX_INSTR_LEN)`, mod.rs:139-146 (after fix b11d9ebc) -/
def readSize (len : Nat) : Nat := min (len + 15) u32max

/-- pre-fix read length: `disassembly_len + MAX_INSTR_LEN` on `u32` panics on overflow (C08) -/
def readSizeLegacy (len : Nat) : Option Nat := if len + 15 ≤ u32max then some (len + 15) else none

/-! ### `read_bytes_at_relative_address` (binary_image.rs:218-294), object files only

The `object` crate's view of the file is an input of the model: the list of sections and the list of
segments, each with its address range and the file range of its data (`fileOff`, `dataLen`;
`dataLen = none` when `data()` fails). That `object` parses the file correctly is trusted. The JITDUMP
branch (`:225-241`) is not modelled. -/

structure Region where
  addr : Nat
  size : Nat
  fileOff : Nat
  dataLen : Option Nat
deriving Repr, DecidableEq

structure Image where
  /-- `relative_address_base(&object)` -/
  base : Nat
  sections : List Region
  segments : List Region
deriving Repr

/-- `(start..end).contains(&svma)` with `end = start.checked_add(size)?`, binary_image.rs:253-258, 264-271 -/
def Region.containsAddr (r : Region) (svma : Nat) : Bool :=
  decide (r.addr + r.size ≤ u64max) && decide (r.addr ≤ svma) && decide (svma < r.addr + r.size)

def containing (rs : List Region) (svma : Nat) : Option Region := rs.find? (·.containsAddr svma)

inductive ReadRes
  /-- the bytes are `len` bytes of the file starting at `fileOff` -/
  | ok (fileOff len : Nat)
  | notFound   -- CodeByteReadingError::AddressNotFound
  | range      -- ByteRangeNotInSection (`data_range` returned None)
  | parse      -- ObjectParseError (`data()` failed)
  | panic      -- `image_base + u64::from(start_address)` overflowed
deriving Repr, DecidableEq

/-- the region the bytes are read through: the first segment containing the address, else the section
(binary_image.rs:277-292) -/
def sourceRegion (img : Image) (sec : Region) (svma : Nat) : Region :=
  match containing img.segments svma with
  | some seg => seg
  | none => sec

def readRange (img : Image) (rel size : Nat) : ReadRes :=
  let svma := img.base + rel                                     -- :247
  if svma > u64max then .notFound else                          -- checked_add (fix 37c4c2d8)
  match containing img.sections svma with                        -- :251-262
  | none => .notFound
  | some sec =>
    let maxReadLen := sec.addr + sec.size - svma                  -- :273 (no underflow: svma < end)
    let readLen := min size maxReadLen                            -- :274
    let src := sourceRegion img sec svma
    match src.dataLen with
    | none => .parse
    | some dataLen =>
      -- object::read::util::data_range: `data.get(offset..)?.get(..size)` with offset = svma - src.addr
      let off := svma - src.addr
      if src.addr ≤ svma ∧ off ≤ dataLen ∧ readLen ≤ dataLen - off then .ok (src.fileOff + off) readLen
      else .range

/-- bytes `off .. off+n` of the file, of which the window `w` (starting at file offset `lo`) is known -/
def fileSlice (lo : Nat) (w : List UInt8) (off n : Nat) : Option (List UInt8) :=
  if lo ≤ off ∧ off + n ≤ lo + w.length then some ((w.drop (off - lo)).take n) else none

/-! ### The decode loop (mod.rs:357-431) -/

inductive Dec
  | ok (len : Nat)
  | exhausted
  | invalid
deriving Repr, DecidableEq

/-- what the loop assumes of a decoder on a slice of `bytesLen` bytes: a decoded instruction is at least
one byte long and lies inside the slice -/
def OracleOK (bytesLen : Nat) (dec : Nat → Dec) : Prop :=
  ∀ p len, dec p = .ok len → 1 ≤ len ∧ p + len ≤ bytesLen

/-- one listed instruction: its offset and whether it is the `.byte … # Invalid instruction` form -/
structure Item where
  off : Nat
  inv : Bool
deriving Repr, DecidableEq

inductive LoopRes
  | done (items : List Item) (final : Nat)
  | panic
  | nofuel
deriving Repr, DecidableEq

def LoopRes.cons (it : Item) : LoopRes → LoopRes
  | .done items f => .done (it :: items) f
  | r => r

/-- `loop { … }` of `decode`, started with `offset`; `final` is the value of `offset` when the loop is left
(reported as `size` since fix 2d669439). Fuel: one unit per iteration; `decodeLen - offset` strictly
decreases (every instruction is ≥ 1 byte, `ADJUST_BY_AFTER_ERROR ≥ 1`), see `C20_terminates`. -/
def loop (adjust decodeLen bytesLen : Nat) (dec : Nat → Dec) : Nat → Nat → LoopRes
  | 0, _ => .nofuel
  | fuel + 1, offset =>
    if decodeLen ≤ offset then .done [] offset                                 -- :372
    else
      match dec offset with                                                    -- :376
      | .ok len =>
        if offset + len > u32max then .panic                                   -- :380 `offset += after - before`
        else (loop adjust decodeLen bytesLen dec fuel (offset + len)).cons ⟨offset, false⟩
      | .exhausted => .done [] offset                                          -- :383
      | .invalid =>
        if offset > bytesLen then .panic                                       -- :387 `&bytes[offset as usize..]`
        else if offset + adjust > u32max then .panic                           -- :414 `offset += ADJUST as u32`
        else if offset + adjust > bytesLen then                                -- :415 `bytes.get(offset..)` is None
          .done [⟨offset, true⟩] (offset + adjust)
        else (loop adjust decodeLen bytesLen dec fuel (offset + adjust)).cons ⟨offset, true⟩

/-- `decode(bytes, rel_address, decode_len)` -/
def decode (adjust decodeLen bytesLen : Nat) (dec : Nat → Dec) : LoopRes :=
  loop adjust decodeLen bytesLen dec (decodeLen + 1) 0

/-- Pre-fix `size` (before 2d669439): the `total_offset` of the *current* reader when the loop is left. The
reader is re-created at `offset + ADJUST` after an invalid instruction, so its offset restarts at 0 there;
`base` is the absolute offset at which the current reader was created. (Bytes a failing decode consumed
before reporting exhaustion are ignored here; the witness below ends on `offset >= decode_len`.) -/
def legacySize (adjust decodeLen bytesLen : Nat) (dec : Nat → Dec) : Nat → Nat → Nat → Option Nat
  | 0, _, _ => none
  | fuel + 1, offset, base =>
    if decodeLen ≤ offset then some (offset - base)
    else
      match dec offset with
      | .ok len => legacySize adjust decodeLen bytesLen dec fuel (offset + len) base
      | .exhausted => some (offset - base)
      | .invalid =>
        if offset + adjust > bytesLen then some (offset - base)
        else legacySize adjust decodeLen bytesLen dec fuel (offset + adjust) (offset + adjust)

/-! ### The whole request -/

structure Req where
  start : Nat
  size : Nat
  cont : Bool
deriving Repr, DecidableEq

inductive ErrKind
  | notFound | range | parse | arch
deriving Repr, DecidableEq

inductive Outcome
  /-- `startAddress`, the file range of the decoded bytes, the listed instructions, `size` -/
  | resp (rel : Nat) (fileOff bytesLen : Nat) (items : List Item) (size : Nat)
  | err (e : ErrKind)
  | panic
  | nofuel
deriving Repr, DecidableEq

/-- the arithmetic of `query_api` up to the read: `(disassembly_len, rel_address, read result)` -/
def plan (arch : Arch) (img : Image) (sym : Option Sym) (req : Req) : Nat × Nat × ReadRes :=
  let len := disasmLen req.start req.size req.cont (fnEnd sym)
  let rel := alignStart arch req.start
  (len, rel, readRange img rel (readSize len))

/-- `query_api` (mod.rs:65-155) after the binary has been loaded; `dec` is the decoder oracle for the byte
slice that the read returns. -/
def query (arch : Arch) (img : Image) (sym : Option Sym) (req : Req) (dec : Nat → Dec) : Outcome :=
  let (len, rel, rd) := plan arch img sym req
  match rd with
  | .panic => .panic
  | .notFound => .err .notFound
  | .range => .err .range
  | .parse => .err .parse
  | .ok fileOff n =>
    if arch = .unknown then .err .arch                              -- decode_arch :186
    else
      match decode arch.adjust len n dec with
      | .done items f => .resp rel fileOff n items f
      | .panic => .panic
      | .nofuel => .nofuel

/-! ### Specification side (used by the theorems and by the judge) -/

/-- the number of bytes the listing says the instruction at `it` occupies: the oracle's instruction length
for a decoded instruction, the architecture's resynchronisation step for an undecodable one; `none` when the
listing and the decoder disagree about the kind -/
def stepAt (dec : Nat → Dec) (adjust : Nat) (it : Item) : Option Nat :=
  match dec it.off, it.inv with
  | .ok len, false => some len
  | .invalid, true => some adjust
  | _, _ => none

/-- "starts at `p`, every listed offset is `< limit`, each next offset is the previous one plus the step of
the previous instruction (≥ 1), and `final` is the last offset plus the last step" -/
def chainOk (dec : Nat → Dec) (adjust limit : Nat) : Nat → List Item → Nat → Bool
  | p, [], final => p == final
  | p, it :: rest, final =>
    it.off == p && decide (p < limit) &&
      (match stepAt dec adjust it with
       | some s => decide (1 ≤ s) && chainOk dec adjust limit (p + s) rest final
       | none => false)

/-- the length the statement allows: the requested size, or the distance to the end of the enclosing
function when continuation is requested and that is larger -/
def specLen (req : Req) (fe : Option Nat) : Nat :=
  if req.cont then
    match fe with
    | some e => max req.size (e - req.start)
    | none => req.size
  else req.size

end Asm
