import SamplyModel.Model.ProfileApi
/-!
Canonical interning (C03), specification side: the frame list a stack index denotes.
-/
namespace PT

/-- frames (as frame-table indices) of stack `i`, root first; `fuel` bounds the walk — since every
prefix is an earlier row, `fuel = i + 1` suffices -/
def walk (prefixes : List (Option Nat)) (frames : List Nat) : Nat → Nat → Option (List Nat)
  | 0, _ => none
  | fuel + 1, i =>
    match frames[i]?, prefixes[i]? with
    | some f, some none => some [f]
    | some f, some (some q) => (walk prefixes frames fuel q).map (· ++ [f])
    | _, _ => none

/-- the frame list of a stack handle of thread `t` in state `p` -/
def P.stackFrames? (p : P) (h : TH) : Option (List Nat) :=
  match p.threads[h.1]? with
  | some th => walk th.stacks.prefixes th.stacks.frames (h.2 + 1) h.2
  | none => none

/-- the frame list of "`parent` followed by frame `f`" in state `p` -/
def P.extendFrames? (p : P) (parent : Option TH) (f : Nat) : Option (List Nat) :=
  match parent with
  | none => some [f]
  | some par => (p.stackFrames? par).map (· ++ [f])

end PT
