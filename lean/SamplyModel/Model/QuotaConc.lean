import SamplyModel.Model.Quota
/-!
C15, the lock gap: `perform_eviction_if_needed` (quota_manager.rs:214-273) is **not** atomic. The
inventory mutex is taken for the size selection (:221-223), released, then for every candidate the file
is unlinked *without* the lock (:258) and only the bookkeeping call is made under the lock (:260-261,
:264-265); the age selection (:237-238) and its deletions follow in the same way. Notifications issued by
other tasks (`QuotaManagerNotifier`, symbol_manager_observer.rs:79-96) take the same mutex and can run
between any two of these sections.

This file splits a pass into its atomic sections as transitions of a small-step machine `cstep` over
`CWorld` = the sequential `World` + the state of the running pass; any `Quota.Op` can be interleaved
(`CEv.ext`). The sections are

  `begin`        settings snapshot + size selection under the lock            (:215-225)
  `pass`         one of: unlink the next candidate, no lock                    (:258)
                         bookkeeping for the file just unlinked, under the lock (:259-266)
                         age selection under the lock (after the size list)     (:234-241)
                         end of the pass

Ghost fields `log` (every `remove_file` call) and `sel` (every candidate a selection returned) survive the
end of the pass. Core Lean only.
-/
namespace Quota

inductive Phase where
  | size | age
deriving DecidableEq, Repr

structure Running where
  /-- `let settings = *self.settings.lock().unwrap()` at the start of the pass -/
  cfg : Cfg
  phase : Phase
  pending : List (Row × Path)
  /-- `remove_file` has returned for this candidate, the bookkeeping under the lock is still to come -/
  unlinked : Option (Row × Path × DelRes)
deriving Repr

structure CWorld where
  w : World
  run : Option Running
  /-- ghost: every `remove_file` call so far -/
  log : List Attempt
  /-- ghost: every candidate returned by a selection so far -/
  sel : List (Row × Path)
deriving Repr

def CWorld.ofWorld (w : World) : CWorld := ⟨w, none, [], []⟩

/-- the eviction task dies (a panic); `poison` = the panic happened with the inventory mutex held -/
def killPass (cw : CWorld) (poison : Bool) : CWorld :=
  match cw.w.mgr with
  | some m => { cw with w := { cw.w with mgr := some { m with poisoned := m.poisoned || poison } }, run := none }
  | none => { cw with run := none }

/-- start of `perform_eviction_if_needed`: settings snapshot, `total_size_in_bytes`, size selection -/
def passBegin (cw : CWorld) : CWorld :=
  match cw.run, cw.w.mgr, cw.w.db with
  | none, some m, some inv =>
    if m.poisoned then cw
    else match sizeCands cw.w.fs m.cfg.root (sortLRU inv) inv m.cfg.maxSize with
      | none => killPass cw true
      | some cs => { cw with run := some ⟨m.cfg, .size, cs, none⟩, sel := cw.sel ++ cs }
  | _, _, _ => cw

/-- the next atomic section of the running pass -/
def pstep (now : Nat) (cw : CWorld) : CWorld :=
  match cw.run, cw.w.mgr, cw.w.db with
  | some r, some m, some inv =>
    match r.unlinked with
    | some (_, p, res) =>
      match res with
      | .err => { cw with run := some { r with unlinked := none } }
      | _ =>
        if m.poisoned then killPass cw false
        else { cw with w := { cw.w with db := some (onDeleted cw.w.fs r.cfg.root inv p) },
                       run := some { r with unlinked := none } }
    | none =>
      match r.pending with
      | (row, p) :: rest =>
        let u := unlink cw.w.fs p
        { cw with w := { cw.w with fs := u.2 },
                  run := some { r with pending := rest, unlinked := some (row, p, u.1) },
                  log := cw.log ++ [⟨row, p, u.1⟩] }
      | [] =>
        match r.phase with
        | .age => { cw with run := none }
        | .size =>
          match r.cfg.maxAge with
          | none => { cw with run := none }
          | some a =>
            if now + 2 ^ 63 < a then killPass cw false
            else if m.poisoned then killPass cw false
            else if now < a then killPass cw true
            else match ageCandidates cw.w.fs r.cfg.root inv (now - a) with
              | none => killPass cw true
              | some cs => { cw with run := some { r with phase := .age, pending := cs }, sel := cw.sel ++ cs }
  | _, _, _ => cw

inductive CEv where
  /-- the eviction task wakes up and starts a pass -/
  | begin
  /-- the running pass executes its next atomic section -/
  | pass
  /-- anything else: a notification from another task, external file-system activity, … -/
  | ext (op : Op)
deriving Repr

def cstep (now : Nat) (cw : CWorld) : CEv → CWorld
  | .begin => passBegin cw
  | .pass => pstep now cw
  | .ext op => { cw with w := (step now cw.w op).1 }

def crun (now : Nat) : CWorld → List CEv → CWorld
  | cw, [] => cw
  | cw, e :: es => crun now (cstep now cw e) es

def isNote : Op → Bool
  | .created .. | .accessed .. | .deleted .. => true
  | _ => false

/-- the pass runs until it is about to unlink a file or is over: at most a bookkeeping section, an age
selection and the end (what the harness's `passbegin` / `passstep` observe between two unlinks) -/
def settle (now : Nat) (cw : CWorld) : CWorld :=
  let atUnlink (c : CWorld) : Bool := match c.run with
    | none => true
    | some r => r.unlinked.isNone && !r.pending.isEmpty
  let s1 := if atUnlink cw then cw else pstep now cw
  let s2 := if atUnlink s1 then s1 else pstep now s1
  if atUnlink s2 then s2 else pstep now s2

/-- run the pass to its end without interference (fuel = number of sections, generous) -/
def finishPass (now : Nat) : Nat → CWorld → CWorld
  | 0, cw => cw
  | f + 1, cw => match cw.run with
    | none => cw
    | some _ => finishPass now f (pstep now cw)

end Quota
