import SamplyModel.Model.Candidates
/-!
Model of the *file-level* parts of the candidate handling of `samply-symbols` (C06, improvement round):
code that is reachable from the quantifier of C06 ("all byte-level corruptions of companion files",
"all candidate lists") and that `Model/Candidates.lean` treats as a field or not at all.

* `samply-symbols/src/elf.rs:181-200`  `compute_debug_link_crc_of_file_contents`  → `crcLoop` / `crcChunked`
* `samply-symbols/src/elf.rs:111-154`  `get_symbol_map_for_debug_link_candidate` on *bytes* → `debugLinkFiles`
* `samply-symbols/src/lib.rs:611-624`, `breakpad/symbol_map.rs:62-70, :95-103, :236-237`
  the `.symindex` sidecar of a Breakpad `.sym` candidate                          → `BpCand`
* `samply-symbols/src/lib.rs:472-545`  `load_binary_for_dyld_cache_image` /
  `load_symbol_map_for_dyld_cache_image`                                          → `dyldLoop`

Core Lean only (linked into the driver executable).
-/
namespace Cand

/-! ### `.gnu_debuglink` CRC: the chunked read loop -/

/-- outcome of the CRC computation -/
inductive CrcRes (σ : Type) where
  | ok (s : σ)
  /-- `offset += CHUNK_SIZE` (elf.rs:197) left the range of `u64` (panic in debug builds) -/
  | overflow
  /-- the model ran out of fuel (never happens with `fuel ≥ len`, see `crcLoop_ok`) -/
  | fuel
deriving DecidableEq, Repr

/-- `hasher.update(&buffer)`: a streaming hasher consumes its input byte by byte (`step`) -/
def hashUpdate {σ : Type} (step : σ → UInt8 → σ) (s : σ) (buffer : List UInt8) : σ := buffer.foldl step s

/-- The `while offset < len` loop of `compute_debug_link_crc_of_file_contents`, elf.rs:191-198.
`chunk` is `CHUNK_SIZE` (1 MiB in the code; any value here). Termination measure: `len - offset`, which drops by
`chunk ≥ 1` per iteration; `fuel` is an upper bound for the number of iterations. -/
def crcLoop {σ : Type} (step : σ → UInt8 → σ) (chunk : Nat) (bytes : List UInt8) : Nat → Nat → σ → CrcRes σ
  | 0, offset, s => if offset < bytes.length then .fuel else .ok s
  | fuel + 1, offset, s =>
    if offset < bytes.length then                                   -- :191
      let chunkLen := min chunk (bytes.length - offset)             -- :192
      let buffer := (bytes.drop offset).take chunkLen               -- :193 `read_bytes_into` (the buffer is empty: :196)
      let s' := hashUpdate step s buffer                            -- :195
      if offset + chunk < 2 ^ 64 then crcLoop step chunk bytes fuel (offset + chunk) s'   -- :197
      else .overflow
    else .ok s

/-- `compute_debug_link_crc_of_file_contents` with hasher `(init, step)`; `finalize` is applied by the caller -/
def crcChunked {σ : Type} (step : σ → UInt8 → σ) (init : σ) (chunk : Nat) (bytes : List UInt8) : CrcRes σ :=
  crcLoop step chunk bytes bytes.length 0 init

/-- a streaming hasher: `Hasher::new()`, `update` byte by byte, `finalize` -/
structure Hasher (σ : Type) where
  init : σ
  step : σ → UInt8 → σ
  fin : σ → Nat

/-- the hash of a whole byte string, read in one go (specification side) -/
def Hasher.whole {σ : Type} (h : Hasher σ) (bytes : List UInt8) : Nat := h.fin (bytes.foldl h.step h.init)

/-- CRC-32 (IEEE 802.3, reflected; what `crc32fast::Hasher::new()` computes), bit by bit -/
def crc32Bit (s : UInt32) : UInt32 := if s &&& 1 = 1 then (s >>> 1) ^^^ 0xEDB88320 else s >>> 1

def crc32Step (s : UInt32) (b : UInt8) : UInt32 :=
  let s := s ^^^ b.toUInt32
  crc32Bit (crc32Bit (crc32Bit (crc32Bit (crc32Bit (crc32Bit (crc32Bit (crc32Bit s)))))))

def crc32 : Hasher UInt32 := ⟨0xFFFFFFFF, crc32Step, fun s => (s ^^^ 0xFFFFFFFF).toNat⟩

/-- `CHUNK_SIZE`, elf.rs:186 -/
def debugLinkChunk : Nat := 1024 * 1024

/-- a debuglink candidate as a file: its bytes (or `none`: `load_file` fails) -/
structure DlFile (β : Type) where
  bytes : Option (List UInt8)
  /-- `ElfSymbolMapDataAndObjects::new` / `ObjectSymbolMap::new` succeed on these bytes -/
  parses : Bool
  payload : β
deriving Repr

inductive DlRes (β : Type) where
  | used (p : β)
  | notUsed
  | panic
deriving DecidableEq, Repr

/-- elf.rs:93-108 with :111-154 on file contents: the CRC that is compared is computed by the chunked loop -/
def debugLinkFilesLoop {σ β : Type} (h : Hasher σ) (chunk wanted : Nat) : List (DlFile β) → DlRes β
  | [] => .notUsed
  | f :: fs =>
    match f.bytes with
    | none => debugLinkFilesLoop h chunk wanted fs                                   -- :122-125
    | some bytes =>
      match crcChunked h.step h.init chunk bytes with                                -- :127
      | .ok s =>
        if h.fin s == wanted && f.parses then .used f.payload                        -- :129, :142-149
        else debugLinkFilesLoop h chunk wanted fs
      | _ => .panic

def debugLinkFiles {σ β : Type} (h : Hasher σ) (chunk : Nat) (link : Option Nat) (hasId : Bool)
    (fs : List (DlFile β)) : DlRes β :=
  match link, hasId with
  | some wanted, true => debugLinkFilesLoop h chunk wanted fs
  | _, _ => .notUsed

/-- the abstraction used by `debugLink`: the CRC of the whole file as a field -/
def DlFile.toCand {σ β : Type} (h : Hasher σ) (f : DlFile β) : DlCand β :=
  match f.bytes with
  | some b => ⟨true, h.whole b, f.parses, f.payload⟩
  | none => ⟨false, 0, f.parses, f.payload⟩

/-! ### Breakpad `.sym` candidates and their `.symindex` sidecar -/

/-- nom `space1`: one or more blanks or tabs -/
def isSp (b : UInt8) : Bool := b == 32 || b == 9
/-- `non_space` (breakpad/index.rs:902): everything but a blank -/
def notBlank (b : UInt8) : Bool := b != 32
/-- nom `hex_digit1` -/
def isHexDigit (b : UInt8) : Bool := (48 ≤ b && b ≤ 57) || (65 ≤ b && b ≤ 70) || (97 ≤ b && b ≤ 102)

def space1 : List UInt8 → Option (List UInt8)
  | [] => none
  | b :: r => if isSp b then some (r.dropWhile isSp) else none

/-- "MODULE" -/
def tagModule : List UInt8 := [77, 79, 68, 85, 76, 69]

def stripTag (l : List UInt8) : Option (List UInt8) := if l.take 6 = tagModule then some (l.drop 6) else none

/-- The debug-id token of a MODULE line, as the `module_line` parser (breakpad/index.rs:907-919) cuts it out:
`MODULE <blanks> os <blanks> cpu <blanks> HEX+ <blanks> name`. (The parser also wants `os`, `cpu`, `name` to be UTF-8 and
the token to be a Breakpad id; the id a line states is a function of this token.) -/
def idToken (l : List UInt8) : Option (List UInt8) :=
  match stripTag l with
  | none => none
  | some r0 =>
  match space1 r0 with
  | none => none
  | some r1 =>
  match space1 (r1.dropWhile notBlank) with          -- os
  | none => none
  | some r2 =>
  match space1 (r2.dropWhile notBlank) with          -- cpu
  | none => none
  | some r3 =>
  if (r3.takeWhile isHexDigit).isEmpty then none else
  match space1 (r3.dropWhile isHexDigit) with        -- at least one blank after the id
  | none => none
  | some _ => some (r3.takeWhile isHexDigit)

/-- the bytes up to the first line feed -/
def firstLine (bytes : List UInt8) : List UInt8 := bytes.takeWhile (· != 10)

/-- the lines of a module info, as `LineBuffer::consume` / `finish` (breakpad/index.rs:713-752) cut them: pieces between
line feeds (a trailing empty piece is never handed on by the code; it parses as nothing here) -/
def splitLines : List UInt8 → List (List UInt8)
  | [] => [[]]
  | b :: r =>
    if b == 10 then [] :: splitLines r
    else match splitLines r with
      | l :: ls => (b :: l) :: ls
      | [] => [[b]]

/-- A Breakpad `.sym` candidate: `head` = the bytes of the file (any prefix that contains its first line will do);
`side` = the `.symindex` at `location_for_breakpad_symindex()`: `.ok info` = the file has the `SYMINDEX` header and
well-formed tables and `info` is its `module_info_bytes` (whether `parse_symindex_file` then succeeds depends on `info`, see
`sideReported`); `.unreadable` = no such location / `load_file` fails (lib.rs:613-620); `.unparsable` = header or tables are
broken. -/
structure BpCand where
  head : List UInt8
  side : Load (List UInt8)
deriving Repr

section
variable {ι : Type} (parseId : List UInt8 → Option (DebugId ι)) (utf8 : List UInt8 → Bool)

/-- `module_line` / `debug_id_of_module_line` (breakpad/index.rs:906-925) on one line: the tokens must be there, the id token
must be a Breakpad id (`parseId` = `DebugId::from_breakpad`), and os, cpu and name must be UTF-8 — the separators, the tag
and the id token are ASCII, so that is the same as the whole line being UTF-8 (`utf8` = `str::from_utf8(..).is_ok()`). -/
def lineId (line : List UInt8) : Option (DebugId ι) :=
  if utf8 line then (idToken line).bind parseId else none

/-- `BreakpadIndex::parse_symindex_file` (index.rs:57-95): the id of the index is that of the LAST line of the module info
that parses as a MODULE record; `none` = `CouldntParseModuleInfoLine` -/
def moduleInfoId (info : List UInt8) : Option (DebugId ι) :=
  (splitLines info).foldl (fun acc l => match lineId parseId utf8 l with | some d => some d | none => acc) none

/-- the id a parsable sidecar reports (`index.debug_id`) -/
def BpCand.sideReported (c : BpCand) : Option (DebugId ι) :=
  match c.side with
  | .ok info => moduleInfoId parseId utf8 info
  | _ => none

/-- the id stated by the first line of the sidecar's module info (`debug_id_of_module_line(module_line)`) -/
def BpCand.sideFirstId (c : BpCand) : Option (DebugId ι) :=
  match c.side with
  | .ok info => lineId parseId utf8 (firstLine info)
  | _ => none

/-- symbol_map.rs:66-87 (fixes 3f61c23c + d2664d76): a parsable sidecar is used only if the first line of its module
info is non-empty, equals the first bytes of the `.sym` file (`read_bytes_at(0, len)` succeeds and compares equal) and states
the id that the index reports -/
def BpCand.sidecarUsed [DecidableEq ι] (c : BpCand) : Bool :=
  match c.side, c.sideReported parseId utf8 with
  | .ok info, some r =>
    let moduleLine := firstLine info
    !moduleLine.isEmpty && decide (c.head.take moduleLine.length = moduleLine)
      && decide (c.sideFirstId parseId utf8 = some r)
  | _, _ => false

/-- 3f61c23c only: the first line is compared, the reported id is not -/
def BpCand.sidecarUsedFirstLineOnly (c : BpCand) : Bool :=
  match c.side, c.sideReported parseId utf8 with
  | .ok info, some _ =>
    let moduleLine := firstLine info
    !moduleLine.isEmpty && decide (c.head.take moduleLine.length = moduleLine)
  | _, _ => false

/-- before 3f61c23c: every parsable sidecar was used -/
def BpCand.sidecarUsedLegacy (c : BpCand) : Bool :=
  (c.sideReported parseId utf8).isSome

/-- the id in the MODULE line of the `.sym` itself: the build its text belongs to (the token of its first line, whether or
not the rest of that line is UTF-8) -/
def BpCand.own (c : BpCand) : Option (DebugId ι) := (idToken (firstLine c.head)).bind parseId

/-- the id the symbol map reports (symbol_map.rs `debug_id()` = the id of the index in use): the sidecar's if the
sidecar is used, else that of the index `BreakpadIndexCreator` builds from the `.sym` (its first line through `module_line`) -/
def BpCand.reportedIf (used : Bool) (c : BpCand) : Option (DebugId ι) :=
  if used then c.sideReported parseId utf8 else lineId parseId utf8 (firstLine c.head)

def BpCand.reported [DecidableEq ι] (c : BpCand) : Option (DebugId ι) :=
  c.reportedIf parseId utf8 (c.sidecarUsed parseId utf8)

/-- lookups are always served from the text of the `.sym` file (`data: &self.data`), i.e. from build `own` -/
def BpCand.content (c : BpCand) : Option (DebugId ι) := c.own parseId

def BpCand.toCandidateOf (r : Option (DebugId ι)) : Candidate ι (SymInfo ι) :=
  match r with
  | some d => .single (.ok ⟨d⟩)
  | none => .single .unparsable          -- no MODULE line: `BreakpadIndexCreator::finish` fails

/-- `load_symbol_map` over Breakpad candidates with sidecars under a given "is the sidecar used" rule: the outcome of
`loadSymbolMap` plus the build whose text serves the lookups -/
def loadSymbolMapBpBy [DecidableEq ι] (usedRule : BpCand → Bool) (native : List ι) (req : Option (DebugId ι))
    (cs : List BpCand) : SymOut ι × Option (DebugId ι) :=
  match loadSymbolMap native req (cs.map fun c => BpCand.toCandidateOf (c.reportedIf parseId utf8 (usedRule c))) with
  | .ok k m => (.ok k m, (cs[k]?).bind (BpCand.content parseId))
  | out => (out, none)

/-- the code as it is -/
def loadSymbolMapBp [DecidableEq ι] (native : List ι) (req : Option (DebugId ι)) (cs : List BpCand) :
    SymOut ι × Option (DebugId ι) :=
  loadSymbolMapBpBy parseId utf8 (BpCand.sidecarUsed parseId utf8) native req cs

/-- before 3f61c23c -/
def loadSymbolMapBpLegacy [DecidableEq ι] (native : List ι) (req : Option (DebugId ι)) (cs : List BpCand) :
    SymOut ι × Option (DebugId ι) :=
  loadSymbolMapBpBy parseId utf8 (BpCand.sidecarUsedLegacy parseId utf8) native req cs

/-- between 3f61c23c and d2664d76 -/
def loadSymbolMapBpFirstLineOnly [DecidableEq ι] (native : List ι) (req : Option (DebugId ι)) (cs : List BpCand) :
    SymOut ι × Option (DebugId ι) :=
  loadSymbolMapBpBy parseId utf8 (BpCand.sidecarUsedFirstLineOnly parseId utf8) native req cs
end

/-! ### dyld shared cache entry points -/

inductive DyldOut (α : Type) (ι : Type) where
  | ok (a : α)
  | noCache                                  -- `NoCandidatePathForDyldCache`
  | lastErr (e : Err ι)
deriving DecidableEq, Repr

/-- lib.rs:486-505 and :522-544 (same shape): `caches` = what loading the dylib from each dyld shared cache path
yields; `idOf` = the debug id the result reports. With a `DebugId` disambiguator a result is returned only if it
reports that id (:493 / :532); with `Arch` or no disambiguator the first loadable result is returned unchecked
(:501 / :540). Only the last error is kept. -/
def dyldLoop {α ι : Type} [DecidableEq ι] (idOf : α → Option (DebugId ι)) (d : Option (Disamb ι)) :
    List (Load α) → Option (Err ι) → DyldOut α ι
  | [], none => .noCache
  | [], some e => .lastErr e
  | l :: ls, _last =>
    match l with
    | .ok a =>
      match d with
      | some (.debugId exp) =>
        if idOf a = some exp then .ok a                                        -- :493 / :532
        else dyldLoop idOf d ls (some (.unmatched (idOf a)))                   -- :496 / :535
      | _ => .ok a                                                             -- :501 / :540
    | .unreadable => dyldLoop idOf d ls (some .open_)                          -- :502 / :541
    | .unparsable => dyldLoop idOf d ls (some .parse)

def loadForDyldCacheImage {α ι : Type} [DecidableEq ι] (idOf : α → Option (DebugId ι)) (d : Option (Disamb ι))
    (caches : List (Load α)) : DyldOut α ι :=
  dyldLoop idOf d caches none

end Cand
