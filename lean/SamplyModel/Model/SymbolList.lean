/-!
Model of the object-file symbol list of `samply-symbols` (C05; also used by C07/C20).

Follows `samply-symbols/src/symbol_map_object.rs`:

* `SymList.parts` / `SymList.build`   = `SymbolList::new` (lines 85-253): the eight entry sources in the
  order "best to worst", stable sort by address, `dedup_by_key` (first of each run is kept).
* `SymList.lookupRel`                 = `SymbolList::lookup_relative_address` (lines 255-275).
* `SymList.fileOffsetToSvma`          = `SvmaFileRanges::file_offset_to_svma` (lines 329-340).
* `SymList.toRel` / `lookupSync`      = the symbol part of `ObjectSymbolMapInner::lookup_sync` (lines 517-543).
* `SymList.iterSymbols`, `symbolCount`= `iter_symbols` (592-610), `symbol_count` (505-509).

The shared namespace `SymLookup` holds what the three lookup cores (object, Breakpad, jitdump) have in
common: names as byte strings, the three-way outcome (`panic` is an explicit outcome: every integer
overflow/underflow and every indexing operation of the Rust code that can fail is listed), the result record,
the address forms and `bsearch`, the `binary_search` contract of the standard library.

Arithmetic is on `Nat`; `U32`/`U64` bounds are explicit wherever the code converts or checks.
What the `object` crate delivers (symbol kind, section index, name bytes, exports, entry, section list) is
the *input* of this model (`Desc`): parsing object files is not modelled.
Core Lean only (linked into the driver executable).
-/
namespace SymLookup

/-- symbol names are byte strings (`String::from_utf8_lossy` is the identity on valid UTF-8) -/
abbrev Name := List UInt8

def U32 : Nat := 4294967296
def U64 : Nat := 18446744073709551616

/-- outcome of a lookup: the Rust code panics / returns `None` / returns `Some r` -/
inductive Out (α : Type) where
  | panic
  | miss
  | hit (r : α)
deriving DecidableEq, Repr

/-- `SymbolInfo` (shared.rs:671-679) -/
structure SymInfo where
  start : Nat
  size : Option Nat
  name : Name
deriving DecidableEq, Repr

/-- `LookupAddress` (shared.rs:68-110) -/
inductive Addr where
  | rel (a : Nat)
  | svma (a : Nat)
  | fileOffset (o : Nat)
deriving DecidableEq, Repr

/-- number of leading keys `≤ a`; on a sorted list this is the number of all keys `≤ a` -/
def ub : List Nat → Nat → Nat
  | [], _ => 0
  | k :: ks, a => if k ≤ a then ub ks a + 1 else 0

/-- result of `slice::binary_search` -/
inductive BS where
  | ok (i : Nat)
  | err (i : Nat)
deriving DecidableEq, Repr

/-- The `binary_search` contract on a sorted slice: `Ok i` with `keys[i] = a` if `a` occurs, otherwise
`Err i` with `i` the insertion point. On a *strictly* sorted slice this determines the answer. When a key is
repeated the contract allows any of the hits; this definition returns the last one, which is what the
standard library of the pinned toolchain does (its loop has no early exit on `Equal`) — only the jitdump
excluded point (zero-length records) depends on that choice. -/
def bsearch (keys : List Nat) (a : Nat) : BS :=
  match ub keys a with
  | 0 => .err 0
  | i + 1 => if keys[i]? = some a then .ok i else .err (i + 1)

/-- the three arms `Ok(i) => i, Err(0) => return None, Err(i) => i - 1` used by all three lookups -/
def pickIndex (keys : List Nat) (a : Nat) : Option Nat :=
  match bsearch keys a with
  | .err 0 => none
  | .ok i => some i
  | .err (i + 1) => some i

/-- memo table of a `HashMap<key, value>` cache that is only ever filled with `f key` -/
abbrev Memo (β : Type) := List (Nat × β)

/-- `match map.entry(k) { Occupied(e) => e, Vacant(v) => v.insert(f(k)?) }`: a failed computation is not
cached -/
def Memo.get {β : Type} (f : Nat → Option β) (m : Memo β) (k : Nat) : Memo β × Option β :=
  match m.lookup k with
  | some v => (m, some v)
  | none =>
    match f k with
    | some v => ((k, v) :: m, some v)
    | none => (m, none)

end SymLookup

namespace SymList
open SymLookup

/-- `object::SymbolKind` as far as `SymbolList::new` distinguishes it -/
inductive SymKind where
  | text
  | label
  | other
deriving DecidableEq, Repr

/-- what `SymbolList::new` reads from one `object::ObjectSymbol` -/
structure ObjSym where
  addr : Nat
  size : Nat
  kind : SymKind
  /-- `symbol.section_index()` -/
  sect : Option Nat
  /-- `symbol.name_bytes().ok()` -/
  name : Option Name
deriving DecidableEq, Repr

/-- `FullSymbolListEntry` (lines 27-36) -/
inductive EKind where
  | synthesized
  | entryPoint
  | symbol (name : Option Name)
  | export_ (name : Name)
  | endAddress
deriving DecidableEq, Repr

structure Entry where
  addr : Nat
  kind : EKind
deriving DecidableEq, Repr

/-- everything `SymbolList::new` reads from the object file and its two extra arguments -/
structure Desc where
  base : Nat
  /-- indices of the sections counted as executable (lines 98-114) -/
  execSections : List Nat
  symbols : List ObjSym
  dynSymbols : List ObjSym
  /-- `object_file.exports().ok()` as (address, name) -/
  exports : Option (List (Nat × Name))
  funcStarts : Option (List Nat)
  entry : Nat
  /-- (address, size) of the sections of kind `Text`, in file order -/
  textSections : List (Nat × Nat)
  funcEnds : Option (List Nat)
deriving Repr

/-- lower-case hexadecimal digits of `{addr:x}` -/
def hexName (n : Nat) : Name := (Nat.toDigits 16 n).map fun c => UInt8.ofNat c.toNat

/-- `format!("fun_{addr:x}")` -/
def synthName (addr : Nat) : Name := [102, 117, 110, 95] ++ hexName addr

/-- `"EntryPoint"` -/
def entryPointName : Name := [69, 110, 116, 114, 121, 80, 111, 105, 110, 116]

/-- `FullSymbolListEntry::name` (lines 57-68) -/
def EKind.name (addr : Nat) : EKind → Option Name
  | .endAddress => none
  | .synthesized => some (synthName addr)
  | .entryPoint => some entryPointName
  | .symbol n => n
  | .export_ n => some n

/-- `counts_as_proper_symbol` (lines 70-77) -/
def EKind.proper : EKind → Bool
  | .symbol _ => true
  | .export_ _ => true
  | _ => false

/-- the filter of lines 124-151 -/
def keepSym (execs : List Nat) (s : ObjSym) : Bool :=
  if s.addr = 0 then false else
  let sectOk : Bool := match s.sect with
    | some i => execs.contains i
    | none => false
  match s.kind with
  | .text => sectOk
  | .label => if s.size ≠ 0 then sectOk else false
  | .other => false

/-- `u32::try_from(a.checked_sub(base)?).ok()` -/
def relU32 (base a : Nat) : Option Nat :=
  if base ≤ a then (if a - base < U32 then some (a - base) else none) else none

/-- `u32::try_from(a.checked_add(size)?.checked_sub(base)?).ok()` -/
def endRelU32 (base a size : Nat) : Option Nat :=
  if a + size < U64 then relU32 base (a + size) else none

/-- the unchecked `export.address() - base_address` of line 164 does not underflow -/
def buildSafe (d : Desc) : Bool :=
  match d.exports with
  | none => true
  | some xs => xs.all fun x => decide (d.base ≤ x.1)

/-- the entries in push order (sources 1-8, lines 116-239) -/
def parts (d : Desc) : List Entry :=
  -- 1. + 2. normal and dynamic symbols
  ((d.symbols ++ d.dynSymbols).filter (keepSym d.execSections)).filterMap
      (fun s => (relU32 d.base s.addr).map fun a => ⟨a, .symbol s.name⟩)
  -- 3. exports: `(export.address() - base_address) as u32`
  ++ (match d.exports with
      | none => []
      | some xs => xs.map fun x => ⟨(x.1 - d.base) % U32, .export_ x.2⟩)
  -- 4. function start addresses
  ++ (match d.funcStarts with
      | none => []
      | some xs => xs.map fun a => ⟨a, .synthesized⟩)
  -- 5. entry point: `entry().checked_sub(base)` then `as u32`
  ++ (if d.base ≤ d.entry then [⟨(d.entry - d.base) % U32, .entryPoint⟩] else [])
  -- 6. text section ends
  ++ d.textSections.filterMap (fun s => (endRelU32 d.base s.1 s.2).map fun a => ⟨a, .endAddress⟩)
  -- 7. ends of sized Text symbols of the normal symbol table
  ++ (d.symbols.filter fun s => s.kind = .text && s.addr ≠ 0 && s.size ≠ 0).filterMap
      (fun s => (endRelU32 d.base s.addr s.size).map fun a => ⟨a, .endAddress⟩)
  -- 8. known function ends
  ++ (match d.funcEnds with
      | none => []
      | some xs => xs.map fun a => ⟨a, .endAddress⟩)

/-- `Vec::dedup_by_key`: of each run of consecutive entries with the same address the first is kept -/
def dedupAux (prev : Entry) : List Entry → List Entry
  | [] => [prev]
  | e :: rest => if prev.addr = e.addr then dedupAux prev rest else prev :: dedupAux e rest

def dedup : List Entry → List Entry
  | [] => []
  | e :: rest => dedupAux e rest

/-- `sort_by_key` is a stable sort -/
def sortEntries (es : List Entry) : List Entry := es.mergeSort fun a b => a.addr ≤ b.addr

/-- `SymbolList::new` (lines 249-252) -/
def build (d : Desc) : List Entry := dedup (sortEntries (parts d))

/-- `SymbolList::lookup_relative_address` → (start, end, name) -/
def lookupRel (es : List Entry) (a : Nat) : Out (Nat × Nat × Name) :=
  match pickIndex (es.map (·.addr)) a with
  | none => .miss
  | some i =>
    match es[i]? with
    | none => .panic                     -- `self.entries[index]`
    | some e =>
      match es[i + 1]? with
      | none => .miss                    -- `self.entries.get(index + 1)?`
      | some nxt =>
        match e.kind.name e.addr with    -- `EndAddress => return None`, `entry.name(..)?`
        | none => .miss
        | some n => .hit (e.addr, nxt.addr, n)

/-- `SvmaFileRange` (lines 281-285) -/
structure Range where
  svma : Nat
  fileOffset : Nat
  size : Nat
deriving DecidableEq, Repr

/-- `SvmaFileRanges::file_offset_to_svma` (lines 329-340); `file_offset + size` is an unchecked `u64`
addition, evaluated only when `file_offset <= offset` (short-circuit `&&`) -/
def fileOffsetToSvma : List Range → Nat → Out Nat
  | [], _ => .miss
  | r :: rs, o =>
    if r.fileOffset ≤ o then
      if U64 ≤ r.fileOffset + r.size then .panic
      else if o < r.fileOffset + r.size then
        (if r.svma + (o - r.fileOffset) < U64 then .hit (r.svma + (o - r.fileOffset)) else .miss)
      else fileOffsetToSvma rs o
    else fileOffsetToSvma rs o

/-- the object symbol map as far as the symbol part of a lookup reads it -/
structure ObjMap where
  entries : List Entry
  base : Nat
  ranges : List Range
deriving Repr

/-- `u32::try_from(svma.checked_sub(self.image_base_address)?).ok()?` -/
def svmaToRel (base s : Nat) : Out (Nat × Nat) :=
  match relU32 base s with
  | some r => .hit (s, r)
  | none => .miss

/-- lines 518-535: the (svma, relative address) pair a lookup address stands for -/
def toSvmaRel (m : ObjMap) : Addr → Out (Nat × Nat)
  | .rel r => if m.base + r < U64 then .hit (m.base + r, r) else .miss
  | .svma s => svmaToRel m.base s
  | .fileOffset o =>
    match fileOffsetToSvma m.ranges o with
    | .panic => .panic
    | .miss => .miss
    | .hit s => svmaToRel m.base s

/-- lines 536-543: `demangle` is `demangle::demangle_any`, an oracle -/
def lookupRelInfo (demangle : Name → Name) (es : List Entry) (r : Nat) : Out SymInfo :=
  match lookupRel es r with
  | .panic => .panic
  | .miss => .miss
  | .hit (s, e, n) =>
    if e < s then .panic                 -- `end_addr - start_addr`
    else .hit ⟨s, some (e - s), demangle n⟩

/-- `lookup_sync`, symbol part. After the symbol has been found the code asks the DWARF context for the
frames at `svma` (lines 545-587, not modelled); `framesPanic svma` is the oracle "that third-party call
panics" (addr2line 0.24.2 computes `probe + 1` for `svma = 2^64 - 1`, an overflow panic in a build with
overflow checks). -/
def lookupSync (demangle : Name → Name) (framesPanic : Nat → Bool) (m : ObjMap) (a : Addr) : Out SymInfo :=
  match toSvmaRel m a with
  | .panic => .panic
  | .miss => .miss
  | .hit (svma, r) =>
    match lookupRelInfo demangle m.entries r with
    | .panic => .panic
    | .miss => .miss
    | .hit info => if framesPanic svma then .panic else .hit info

/-- `iter_symbols` (lines 592-610): entries without a name are skipped -/
def iterSymbols (es : List Entry) : List (Nat × Name) :=
  es.filterMap fun e => (e.kind.name e.addr).map fun n => (e.addr, n)

/-- `symbol_count` (lines 505-509) -/
def symbolCount (es : List Entry) : Nat := (es.filter fun e => e.kind.proper).length

end SymList
