import SamplyModel.Model.ProfileTables
/-!
Model of the profile-building API of `fxprof-processed-profile/src/profile.rs` (C03):
`step : P → Op → P × Out`, one constructor of `Op` per public method that can influence an index, a
table length, the thread order or a pid/tid string.

Outcomes (`Out`):
* `ok` / `h vals` / `noStack` — the call returned (`h` carries the numbers inside the returned handle);
* `rejected` — an `assert_eq!` on the owning thread of a handle fails (profile.rs:742, 829, 838, 865,
  909, 982, 1123). State changes made *before* the assertion are kept, as in the Rust code;
* `panic` — a panic the caller can provoke through the public API (`MarkerHandle` carries no thread:
  marker_table.rs:105 indexes out of bounds; `add_lib_mapping` with an inverted range; `u32` overflow
  in `convert_address`; 65536 subcategories);
* `bug` — an `unwrap` / index inside the table code fails. Proved unreachable from states satisfying
  the invariant (`Lemmas/ProfileInv.lean`); the state is left unchanged;
* `invalid` — the op mentions a handle that no earlier call returned (impossible through the Rust API:
  handle types have private fields). State unchanged.

Not modelled: sample columns other than `stack` (C04),
timestamps of samples and markers, marker schema display fields, colours.
Core Lean only.
-/
namespace PT

/-- a pid / tid string: the number and the `.N` suffix (`0` = no suffix), profile.rs:308-320 -/
abbrev IdStr := Nat × Nat

structure Cat where
  name : Str
  color : Nat
  subs : List Str
deriving Repr

structure Process where
  pid : IdStr
  name : Str
  threads : List Nat := []
  start : Nat
  maps : List Mapping := []
deriving Repr

structure Thread where
  process : Nat
  tid : IdStr
  name : Option Str := none
  start : Nat
  isMain : Bool
  strings : ThreadStrings := {}
  stacks : StackTable := {}
  frames : FrameTable := {}
  nsyms : NativeSymbols := {}
  /-- `samples.sample_stack_indexes` -/
  samples : List (Option Nat) := []
  lastStack : Option Nat := none
  lastZeroCpu : Bool := false
  /-- `native_allocations.stack` -/
  allocs : Option (List (Option Nat)) := none
  markers : MarkerTable := {}
deriving Repr

structure Counter where
  process : Nat
  pid : IdStr
  samples : Nat := 0
deriving Repr

structure P where
  libs : GlobalLibs := {}
  cats : List Cat := [⟨"Other", 12, ["Other"]⟩]
  processes : List Process := []
  counters : List Counter := []
  threads : List Thread := []
  visible : List Nat := []
  selected : List Nat := []
  gstrings : StringTable := {}
  schemas : List Schema := []
  /-- `static_schema_marker_types`, keyed by the number of the harness's static marker type -/
  staticTypes : List (Nat × Nat) := []
  usedPids : List (Nat × Nat) := []
  usedTids : List (Nat × Nat) := []
  /-- `kernel_libs` (profile.rs:448-465): kernel library mappings, global across processes -/
  kmaps : List Mapping := []
deriving Repr

def P.init : P := {}

/-! ### operations -/

inductive AKind
  | ip | ra | ara
deriving Repr, DecidableEq

inductive AddrSpec
  | abs (k : AKind) (a : Nat)
  | rel (k : AKind) (lib : Nat) (a : Nat)
deriving Repr

/-- the `IntoSubcategoryHandle` argument of the frame methods (category.rs:11-14) -/
inductive SubSpec
  | other
  | cat (c : Nat)
  | sub (c s : Nat)
  | catVal (name : Str) (color : Nat)
  | subVal (name : Str) (color : Nat) (sub : Str)
deriving Repr

inductive MType
  | static (k : Nat)
  | runtime (h : Nat)
deriving Repr

/-- a thread-specific handle: (thread, index) -/
abbrev TH := Nat × Nat

inductive Op
  | addProcess (pid start : Nat) (name : Str)
  | addThread (proc tid start : Nat) (main : Bool)
  | setTid (t tid : Nat)
  | setName (t : Nat) (name : Str)
  | setPName (p : Nat) (name : Str)
  | setStart (t start : Nat)
  | setPStart (p start : Nat)
  | addLib (name : Str)
  | libSyms (lib : Nat) (syms : List Sym)
  | addMapping (p lib start end_ rel : Nat)
  | removeMapping (p start : Nat)
  | addKernelMapping (lib start end_ rel : Nat)
  | removeKernelMapping (start : Nat)
  | clearMappings (p : Nat)
  | string (s : Str)
  | category (name : Str) (color : Nat)
  | subcategory (c : Nat) (name : Str)
  | frameLabel (t str : Nat) (src : Option (Option Nat × Option Nat × Option Nat)) (sc : SubSpec) (flags : Nat)
  | frameAddr (t : Nat) (a : AddrSpec) (sc : SubSpec) (flags : Nat)
  | nativeSymbol (t lib : Nat) (sym : Sym)
  | frameSym (t : Nat) (a : AddrSpec) (name : Option Nat) (nsym : TH) (file line col : Option Nat)
      (depth : Nat) (sc : SubSpec) (flags : Nat)
  | stack (t : Nat) (frame : TH) (parent : Option TH)
  | stackFrames (t : Nat) (frames : List TH)
  | sample (t : Nat) (stack : Option TH) (zeroCpu : Bool)
  | sameSample (t : Nat)
  | allocSample (t : Nat) (stack : Option TH)
  | markerType (name : Str) (cat : Nat) (fields : List Fmt)
  | marker (t : Nat) (ty : MType) (name : Nat) (strs : List Nat) (tm : MTiming)
  | markerStack (t m : Nat) (stack : Option TH)
  | counter (p : Nat)
  | counterSample (c : Nat)
  | visible (t : Nat)
  | selected (t : Nat)
deriving Repr

inductive Out
  | ok
  | h (vals : List Nat)
  | noStack
  | rejected
  | panic
  | bug
  | invalid
deriving Repr, DecidableEq

/-- the harness's static-schema marker types (`harness/src/bin/c03.rs`: St0, St1, St2):
type name, category (name, colour), field formats -/
def staticSchema : Nat → Option (Str × Str × Nat × List Fmt)
  | 0 => some ("St0", "Other", 12, [.u])
  | 1 => some ("St1", "Regular", 5, [.u, .n, .s, .n, .u])
  | 2 => some ("St2", "StCat", 6, [])
  -- St3: FilePath, String, Seconds, SanitizedString, Decimal
  | 3 => some ("St3", "Other", 12, [.s, .u, .n, .s, .n])
  | _ => none

/-- `make_unique_pid_or_tid` (profile.rs:308-320) -/
def makeUnique (m : List (Nat × Nat)) (id : Nat) : List (Nat × Nat) × IdStr :=
  match alookup m id with
  | some k => ((id, k + 1) :: m, (id, k))
  | none => ((id, 1) :: m, (id, 0))

/-- `format!("{a:#x}")` (string_table.rs:60-68) -/
def hexStr (a : Nat) : Str := "0x" ++ String.ofList (Nat.toDigits 16 a)

/-- write a thread's tables back. `Thread::process` has no setter in the Rust code and `Thread::tid` is
written only by `set_tid` (thread.rs:24-25, 80-90): the stored thread keeps the process and the tid of
the thread it replaces (every caller passes an update of the thread it read from slot `i`, so these
are the same values). -/
def P.setThread (p : P) (i : Nat) (t : Thread) : P :=
  { p with threads := p.threads.modify i (fun old => { t with process := old.process, tid := old.tid }) }

/-- `handle_for_category` (profile.rs:262-270) -/
def P.handleForCategory (p : P) (name : Str) (color : Nat) : P × Nat :=
  let keys := p.cats.map (fun c => (c.name, c.color))
  let i := keys.idxOf (name, color)
  if i < keys.length then (p, i % 65536)
  else ({ p with cats := p.cats ++ [⟨name, color, ["Other"]⟩] }, p.cats.length % 65536)

/-- `handle_for_subcategory` (profile.rs:276-285) with `index_for_subcategory` (category.rs:157-167).
`none` in the second component = panic (`get_index_mut2(..).unwrap()` or `u16::try_from(..).unwrap()`;
the latter after the insertion). -/
def P.handleForSubcategory (p : P) (c : Nat) (name : Str) : P × Option Nat :=
  match p.cats[c]? with
  | none => (p, none)
  | some cat =>
    let i := cat.subs.idxOf name
    if i < cat.subs.length then (p, if i < 65536 then some i else none)
    else
      let p' := { p with cats := p.cats.set c { cat with subs := cat.subs ++ [name] } }
      (p', if cat.subs.length < 65536 then some cat.subs.length else none)

inductive SubRes
  | ok (c s : Nat)
  | panic
  | invalid

/-- `IntoSubcategoryHandle::into_subcategory_handle` (category.rs:28-34, 54-58, 73-79, 109-119) -/
def P.resolveSub (p : P) : SubSpec → P × SubRes
  | .other => (p, .ok 0 0)
  | .cat c => if c < p.cats.length then (p, .ok c 0) else (p, .invalid)
  | .sub c s =>
    match p.cats[c]? with
    | some cat => if s < cat.subs.length then (p, .ok c s) else (p, .invalid)
    | none => (p, .invalid)
  | .catVal name color => let r := p.handleForCategory name color; (r.1, .ok r.2 0)
  | .subVal name color sub =>
    let r := p.handleForCategory name color
    match r.1.handleForSubcategory r.2 sub with
    | (p', some s) => (p', .ok r.2 s)
    | (p', none) => (p', .panic)

/-- return addresses are looked up one byte earlier (`saturating_sub(1)`, profile.rs:1174, 1185) -/
def AKind.adjust : AKind → Nat → Nat
  | .ra, a => a - 1
  | _, a => a

inductive AddrRes
  | unknown (a : Nat)
  | inLib (rel lib : Nat)
  | panic
  | invalid

/-- `resolve_frame_address` (profile.rs:1163-1196) with `Process::convert_address`
(process.rs:80-97; the caller passes `effMaps`, the table that decides the address). Only `libs` changes. -/
def resolveAddr (libs : GlobalLibs) (maps : List Mapping) : AddrSpec → GlobalLibs × AddrRes
  | .abs k a =>
    match mappingConvert maps (k.adjust a) with
    | none => (libs, .panic)
    | some none => (libs, .unknown (k.adjust a))
    | some (some (rel, lib)) => ((libs.indexForUsed lib).1, .inLib rel (libs.indexForUsed lib).2)
  | .rel k lib a =>
    if lib < libs.all.length then ((libs.indexForUsed lib).1, .inLib (k.adjust a) (libs.indexForUsed lib).2)
    else (libs, .invalid)

/-- `Process::convert_address` (process.rs:80-97) tries the kernel libs first and then the process libs
(`kernel_libs.convert_address(address).or_else(|| self.libs.convert_address(address))`): the mapping table
that decides an absolute address is the kernel table if a kernel mapping covers the address (then
`convert_address` returns `Some` or overflows there), otherwise the process table. -/
def effMaps (kmaps maps : List Mapping) : AddrSpec → List Mapping
  | .abs k a => if (mappingLookup kmaps (k.adjust a)).isSome then kmaps else maps
  | .rel _ _ _ => maps

/-- the global string behind a `StringHandle` -/
def P.gstr (p : P) (g : Nat) : Option Str := p.gstrings.strings[g]?

/-- `index_for_hex_address_string` (string_table.rs:57-70). The `hex_address_strings` map is a cache in
front of `index_for_string` on an append-only table; it is not represented. -/
def P.hexString (p : P) (a : Nat) : P × Nat × Str :=
  let r := p.gstrings.indexFor (hexStr a)
  ({ p with gstrings := r.1 }, r.2, hexStr a)

/-- convert an optional global string handle on a thread string table (`Option::map` of
`convert_string_index`); `none` = invalid handle -/
def convertOpt (p : P) (st : ThreadStrings) : Option Nat → Option (ThreadStrings × Option Nat)
  | none => some (st, none)
  | some g =>
    match p.gstr g with
    | none => none
    | some s => let r := st.forGlobal g s; some (r.1, some r.2)

/-- `thread.frame_index_for_frame` + write back (profile.rs:643-644, 700-701, 790-791) -/
def P.internFrame (p : P) (t : Nat) (th : Thread) (st : ThreadStrings) (f : Frame) : P × Out :=
  match th.frames.indexFor f p.libs st with
  | none => (p, .bug)
  | some (ft, st', i) => (p.setThread t { th with frames := ft, strings := st' }, .h [t, i])

/-- `handle_for_frame_with_label_internal` (profile.rs:668-702), after the subcategory has been
resolved -/
def P.frameLabel (p : P) (t str : Nat) (src : Option (Option Nat × Option Nat × Option Nat))
    (c s flags : Nat) : P × Out :=
  match p.threads[t]?, p.gstr str with
  | some th, some label =>
    let r := th.strings.forGlobal str label
    match src with
    | none => p.internFrame t th r.1 ⟨r.2, none, c, s, none, none, none, flags⟩
    | some (file, line, col) =>
      match convertOpt p r.1 file with
      | none => (p, .invalid)
      | some (st, file') => p.internFrame t th st ⟨r.2, none, c, s, file', line, col, flags⟩
  | _, _ => (p, .invalid)

/-- `handle_for_frame_with_address_internal` (profile.rs:586-645) -/
def P.frameAddr (p : P) (t : Nat) (a : AddrSpec) (c s flags : Nat) : P × Out :=
  match p.threads[t]? with
  | none => (p, .invalid)
  | some th =>
    match p.processes[th.process]? with
    | none => (p, .bug)
    | some pr =>
      match resolveAddr p.libs (effMaps p.kmaps pr.maps a) a with
      | (_, .invalid) => (p, .invalid)
      | (_, .panic) => (p, .panic)
      | (libs, .unknown addr) =>
        let p1 := { p with libs := libs }
        let (p2, g, str) := p1.hexString addr
        let r := th.strings.forGlobal g str
        p2.internFrame t th r.1 ⟨r.2, none, c, s, none, none, none, flags⟩
      | (libs, .inLib rel lib) =>
        let p1 := { p with libs := libs }
        match (libs.getSymtab lib).bind (fun tab => symLookup tab rel) with
        | some sym =>
          match th.nsyms.indexFor lib sym th.strings with
          | none => (p, .bug)
          | some (ns, st, i, name) =>
            p1.internFrame t { th with nsyms := ns } st ⟨name, some ⟨lib, some i, rel, 0⟩, c, s, none, none, none, flags⟩
        | none =>
          let (p2, g, str) := p1.hexString rel
          let r := th.strings.forGlobal g str
          p2.internFrame t th r.1 ⟨r.2, some ⟨lib, none, rel, 0⟩, c, s, none, none, none, flags⟩

/-- `(variant, name)` of `handle_for_frame_with_address_and_symbol_internal` (profile.rs:753-774):
`name'` is the converted explicit name if the caller gave one; otherwise the hex string of an unknown
address or the name of the native symbol. `none` = `names[native_symbol_index]` out of range. -/
def P.symVariant (p : P) (th : Thread) (st : ThreadStrings) (res : AddrRes) (name' : Option Nat)
    (nsymIdx depth : Nat) : Option (P × ThreadStrings × Option NativeData × Nat) :=
  match res with
  | .unknown addr =>
    match name' with
    | some n => some (p, st, none, n)
    | none =>
      let r := st.forGlobal (p.hexString addr).2.1 (p.hexString addr).2.2
      some ((p.hexString addr).1, r.1, none, r.2)
  | .inLib rel lib =>
    match name' with
    | some n => some (p, st, some ⟨lib, some nsymIdx, rel, depth⟩, n)
    | none =>
      match th.nsyms.names[nsymIdx]? with
      | some n => some (p, st, some ⟨lib, some nsymIdx, rel, depth⟩, n)
      | none => none
  | _ => none

/-- `handle_for_frame_with_address_and_symbol_internal` (profile.rs:727-792) -/
def P.frameSym (p : P) (t : Nat) (a : AddrSpec) (name : Option Nat) (nsym : TH)
    (file line col : Option Nat) (depth c s flags : Nat) : P × Out :=
  if nsym.1 ≠ t then (p, .rejected) else
  match p.threads[t]? with
  | none => (p, .invalid)
  | some th =>
    match p.processes[th.process]? with
    | none => (p, .bug)
    | some pr =>
      match resolveAddr p.libs (effMaps p.kmaps pr.maps a) a with
      | (_, .invalid) => (p, .invalid)
      | (_, .panic) => (p, .panic)
      | (libs, res) =>
        match convertOpt { p with libs := libs } th.strings name with
        | none => (p, .invalid)
        | some (st1, name') =>
          match P.symVariant { p with libs := libs } th st1 res name' nsym.2 depth with
          | none => (p, .invalid)
          | some (p2, st2, variant, n) =>
            match convertOpt p2 st2 file with
            | none => (p, .invalid)
            | some (st3, file') => p2.internFrame t th st3 ⟨n, variant, c, s, file', line, col, flags⟩

/-- `handle_for_native_symbol` (profile.rs:797-809) -/
def P.nativeSymbol (p : P) (t lib : Nat) (sym : Sym) : P × Out :=
  match p.threads[t]? with
  | none => (p, .invalid)
  | some th =>
    if lib < p.libs.all.length then
      let r := p.libs.indexForUsed lib
      match th.nsyms.indexFor r.2 sym th.strings with
      | none => (p, .bug)
      | some (ns, st, i, _) =>
        ({ p with libs := r.1 }.setThread t { th with nsyms := ns, strings := st }, .h [t, i])
    else (p, .invalid)

/-- `handle_for_stack` (profile.rs:820-845) -/
def P.stack (p : P) (t : Nat) (frame : TH) (parent : Option TH) : P × Out :=
  match p.threads[t]? with
  | none => (p, .invalid)
  | some th =>
    match parent with
    | some (pt, pi) =>
      if pt ≠ t then (p, .rejected) else
      if frame.1 ≠ t then (p, .rejected) else
      let r := th.stacks.indexFor (some pi) frame.2
      (p.setThread t { th with stacks := r.1 }, .h [t, r.2])
    | none =>
      if frame.1 ≠ t then (p, .rejected) else
      let r := th.stacks.indexFor none frame.2
      (p.setThread t { th with stacks := r.1 }, .h [t, r.2])

/-- the loop of `handle_for_stack_frames` (profile.rs:863-871) on the thread's stack table;
`none` = a frame of another thread was met (the rows interned before it stay) -/
def stackFramesLoop (t : Nat) : StackTable → Option Nat → List TH → StackTable × Option (Option Nat)
  | st, pre, [] => (st, some pre)
  | st, pre, f :: fs =>
    if f.1 ≠ t then (st, none) else
    let r := st.indexFor pre f.2
    stackFramesLoop t r.1 (some r.2) fs

/-- `handle_for_stack_frames` (profile.rs:854-874) -/
def P.stackFrames (p : P) (t : Nat) (frames : List TH) : P × Out :=
  match p.threads[t]? with
  | none => (p, .invalid)
  | some th =>
    match stackFramesLoop t th.stacks none frames with
    | (st, none) => (p.setThread t { th with stacks := st }, .rejected)
    | (st, some none) => (p.setThread t { th with stacks := st }, .noStack)
    | (st, some (some i)) => (p.setThread t { th with stacks := st }, .h [t, i])

/-- the `match stack { … assert_eq!(stack_thread_handle, thread) … }` prologue of `add_sample`,
`add_allocation_sample`, `set_marker_stack`; `none` = rejected -/
def stackArg (t : Nat) : Option TH → Option (Option Nat)
  | none => some none
  | some (st, i) => if st ≠ t then none else some (some i)

/-- `add_sample` (profile.rs:899-918), `Thread::add_sample` (thread.rs:137-149) -/
def P.sample (p : P) (t : Nat) (stack : Option TH) (zeroCpu : Bool) : P × Out :=
  match stackArg t stack with
  | none => (p, .rejected)
  | some si =>
    match p.threads[t]? with
    | none => (p, .invalid)
    | some th =>
      (p.setThread t { th with samples := th.samples ++ [si], lastStack := si, lastZeroCpu := zeroCpu }, .ok)

/-- `add_sample_same_stack_zero_cpu` (profile.rs:923-930, thread.rs:164-173) -/
def P.sameSample (p : P) (t : Nat) : P × Out :=
  match p.threads[t]? with
  | none => (p, .invalid)
  | some th =>
    if th.lastZeroCpu then
      -- `modify_last_sample`: weight and timestamp of the last row change, no row is added;
      -- `last_mut().unwrap()` needs a row
      if th.samples.isEmpty then (p, .bug) else (p, .ok)
    else
      (p.setThread t { th with samples := th.samples ++ [th.lastStack], lastZeroCpu := true }, .ok)

/-- `add_allocation_sample` (profile.rs:957-996): the sample goes to the *first thread of the process*,
but the stack index is the calling thread's (the known defect when the two differ). -/
def P.allocSample (p : P) (t : Nat) (stack : Option TH) : P × Out :=
  match p.threads[t]? with
  | none => (p, .invalid)
  | some th =>
    match p.processes[th.process]? with
    | none => (p, .bug)
    | some pr =>
      match pr.threads.head? with
      | none => (p, .bug)
      | some first =>
        match stackArg t stack with
        | none => (p, .rejected)
        | some si =>
          match p.threads[first]? with
          | none => (p, .bug)
          | some ft =>
            (p.setThread first { ft with allocs := some (ft.allocs.getD [] ++ [si]) }, .ok)

/-- `marker.marker_type(self)`: `static_schema_marker_type` (profile.rs:1017-1031) for static types,
the stored handle for runtime types -/
def P.markerTypeOf (p : P) : MType → Option (P × Nat)
  | .runtime h => if h < p.schemas.length then some (p, h) else none
  | .static k =>
    match alookup p.staticTypes k with
    | some h => some (p, h)
    | none =>
      match staticSchema k with
      | none => none
      | some (tn, cn, cc, fields) =>
        let r := p.handleForCategory cn cc
        let h := r.1.schemas.length
        some ({ r.1 with schemas := r.1.schemas ++ [⟨tn, r.2, fields⟩], staticTypes := (k, h) :: r.1.staticTypes }, h)

def resolveStrs (p : P) : List Nat → Option (List (Nat × Str))
  | [] => some []
  | g :: gs =>
    match p.gstr g, resolveStrs p gs with
    | some s, some r => some ((g, s) :: r)
    | _, _ => none

/-- `add_marker` (profile.rs:1086-1105, thread.rs:179-199) -/
def P.marker (p : P) (t : Nat) (ty : MType) (name : Nat) (strs : List Nat) (tm : MTiming) : P × Out :=
  match p.markerTypeOf ty with
  | none => (p, .invalid)
  | some (p1, h) =>
    match p1.threads[t]?, p1.gstr name, resolveStrs p1 strs, p1.schemas[h]? with
    | some th, some nameStr, some vals, some schema =>
      let r := th.strings.forGlobal name nameStr
      if vals.length ≠ schema.stringCount then (p, .invalid) else
      match th.markers.add r.2 h schema vals r.1 tm with
      | none => (p, .bug)
      | some (mt, st, i) => (p1.setThread t { th with markers := mt, strings := st }, .h [i])
    | _, _, _, _ => (p, .invalid)

/-- `set_marker_stack` (profile.rs:1115-1132) -/
def P.markerStack (p : P) (t m : Nat) (stack : Option TH) : P × Out :=
  match stackArg t stack with
  | none => (p, .rejected)
  | some si =>
    match p.threads[t]? with
    | none => (p, .invalid)
    | some th =>
      match th.markers.setStack m si with
      | none => (p, .panic)
      | some mt => (p.setThread t { th with markers := mt }, .ok)

/-- frame ops resolve their `IntoSubcategoryHandle` argument first (profile.rs:568, 582, 658, 716) -/
def P.withSub (p : P) (sc : SubSpec) (k : P → Nat → Nat → P × Out) : P × Out :=
  match p.resolveSub sc with
  | (_, .invalid) => (p, .invalid)
  | (p', .panic) => (p', .panic)
  | (p', .ok c s) =>
    match k p' c s with
    -- an invalid handle is detected before anything happens (it cannot occur through the Rust API)
    | (_, .invalid) => (p, .invalid)
    | r => r

def step (p : P) : Op → P × Out
  | .addProcess pid start name =>
    -- profile.rs:289-294
    let r := makeUnique p.usedPids pid
    ({ p with usedPids := r.1, processes := p.processes ++ [{ pid := r.2, name := name, start := start }] },
      .h [p.processes.length])
  | .addThread proc tid start main =>
    -- profile.rs:467-480
    match p.processes[proc]? with
    | none => (p, .invalid)
    | some pr =>
      let r := makeUnique p.usedTids tid
      let h := p.threads.length
      ({ p with usedTids := r.1,
                threads := p.threads ++ [{ process := proc, tid := r.2, start := start, isMain := main }],
                processes := p.processes.set proc { pr with threads := pr.threads ++ [h] } }, .h [h])
  | .setTid t tid =>
    -- profile.rs:498-501
    match p.threads[t]? with
    | none => (p, .invalid)
    | some _ =>
      let r := makeUnique p.usedTids tid
      ({ p with usedTids := r.1, threads := p.threads.modify t (fun old => { old with tid := r.2 }) }, .ok)
  | .setName t name =>
    match p.threads[t]? with
    | none => (p, .invalid)
    | some th => (p.setThread t { th with name := some name }, .ok)
  | .setPName pi name =>
    match p.processes[pi]? with
    | none => (p, .invalid)
    | some pr => ({ p with processes := p.processes.set pi { pr with name := name } }, .ok)
  | .setStart t start =>
    match p.threads[t]? with
    | none => (p, .invalid)
    | some th => (p.setThread t { th with start := start }, .ok)
  | .setPStart pi start =>
    match p.processes[pi]? with
    | none => (p, .invalid)
    | some pr => ({ p with processes := p.processes.set pi { pr with start := start } }, .ok)
  | .addLib name =>
    let r := p.libs.handleFor name
    ({ p with libs := r.1 }, .h [r.2])
  | .libSyms lib syms =>
    if lib < p.libs.all.length then ({ p with libs := p.libs.setSymtab lib syms }, .ok) else (p, .invalid)
  | .addMapping pi lib start end_ rel =>
    -- profile.rs:415-429, process.rs:99-108
    match p.processes[pi]? with
    | none => (p, .invalid)
    | some pr =>
      if lib < p.libs.all.length then
        match mappingAdd pr.maps ⟨start, end_, rel, lib⟩ with
        | none => (p, .panic)
        | some maps => ({ p with processes := p.processes.set pi { pr with maps := maps } }, .ok)
      else (p, .invalid)
  | .addKernelMapping lib start end_ rel =>
    -- profile.rs:448-458
    if lib < p.libs.all.length then
      match mappingAdd p.kmaps ⟨start, end_, rel, lib⟩ with
      | none => (p, .panic)
      | some maps => ({ p with kmaps := maps }, .ok)
    else (p, .invalid)
  | .removeKernelMapping start =>
    -- profile.rs:462-464
    ({ p with kmaps := p.kmaps.filter (fun m => m.start ≠ start) }, .ok)
  | .removeMapping pi start =>
    -- profile.rs:433-435, process.rs:110-112, lib_mappings.rs:96-100: `BTreeMap::remove(&start_avma)`
    match p.processes[pi]? with
    | none => (p, .invalid)
    | some pr =>
      ({ p with processes := p.processes.set pi { pr with maps := pr.maps.filter (fun m => m.start ≠ start) } }, .ok)
  | .clearMappings pi =>
    -- profile.rs:438-440, process.rs:114-116, lib_mappings.rs:103-105
    match p.processes[pi]? with
    | none => (p, .invalid)
    | some pr => ({ p with processes := p.processes.set pi { pr with maps := [] } }, .ok)
  | .string s =>
    let r := p.gstrings.indexFor s
    ({ p with gstrings := r.1 }, .h [r.2])
  | .category name color =>
    let r := p.handleForCategory name color
    (r.1, .h [r.2])
  | .subcategory c name =>
    if c < p.cats.length then
      match p.handleForSubcategory c name with
      | (p', some s) => (p', .h [c, s])
      | (p', none) => (p', .panic)
    else (p, .invalid)
  | .frameLabel t str src sc flags => p.withSub sc (fun p' c s => p'.frameLabel t str src c s flags)
  | .frameAddr t a sc flags => p.withSub sc (fun p' c s => p'.frameAddr t a c s flags)
  | .nativeSymbol t lib sym => p.nativeSymbol t lib sym
  | .frameSym t a name nsym file line col depth sc flags =>
    p.withSub sc (fun p' c s => p'.frameSym t a name nsym file line col depth c s flags)
  | .stack t frame parent => p.stack t frame parent
  | .stackFrames t frames => p.stackFrames t frames
  | .sample t stack z => p.sample t stack z
  | .sameSample t => p.sameSample t
  | .allocSample t stack => p.allocSample t stack
  | .markerType name cat fields =>
    -- profile.rs:1007-1011
    if cat < p.cats.length then
      ({ p with schemas := p.schemas ++ [⟨name, cat, fields⟩] }, .h [p.schemas.length])
    else (p, .invalid)
  | .marker t ty name strs tm => p.marker t ty name strs tm
  | .markerStack t m stack => p.markerStack t m stack
  | .counter pi =>
    -- profile.rs:338-354
    match p.processes[pi]? with
    | none => (p, .invalid)
    | some pr => ({ p with counters := p.counters ++ [{ process := pi, pid := pr.pid }] }, .h [p.counters.length])
  | .counterSample c =>
    match p.counters[c]? with
    | none => (p, .invalid)
    | some ct => ({ p with counters := p.counters.set c { ct with samples := ct.samples + 1 } }, .ok)
  | .visible t =>
    if t < p.threads.length then ({ p with visible := p.visible ++ [t] }, .ok) else (p, .invalid)
  | .selected t =>
    if t < p.threads.length then ({ p with selected := p.selected ++ [t] }, .ok) else (p, .invalid)

def run (ops : List Op) : P := ops.foldl (fun p op => (step p op).1) P.init

end PT
