import SamplyModel.Model.LibMappings
/-!
Model of the handle layer of `fxprof-processed-profile/src/profile.rs` around the library-mapping tables (C11,
improvement round): processes and threads are created dynamically, a frame is created *for a thread*, and the code
hops `thread handle → self.threads[..].process() → self.processes[..]` before it resolves the address
(profile.rs:594-595 in `handle_for_frame_with_address_internal`, :744-745 in
`handle_for_frame_with_address_and_symbol_internal`). All six arms of `Profile::resolve_frame_address`
(profile.rs:1163-1197) are modelled (`resolveFrameX`); the three absolute ones are `LM.resolveFrame`.

Implementation side:

* `TState`         `self.kernel_libs`, `self.processes` (only `Process::libs`), `self.threads` (only `Thread::process()`).
* `tstep`          one public call: `add_process` (:289-294), `add_thread` (:467-480), the five mapping calls
                   (:415-464), `handle_for_frame_with_address` (:575-646), `handle_for_native_symbol` +
                   `handle_for_frame_with_address_and_symbol` (:707-809). Every `Vec` index (`self.processes[h.0]`,
                   `self.threads[h.0]`) and the `assert_eq!` on the native symbol's thread is an explicit `panic` outcome.
* `trun`           a history of such calls from `Profile::new`.

Specification side (bare history only):

* `owners` / `threadOwner`   thread handle `t` belongs to the process passed to the `t`-th `add_thread` call.
* `procCount`, `handlesOk`, `HandlesValid`   every handle passed to a call was returned by an earlier call
                   (handles are opaque in the public API, so this always holds for one `Profile`; handles of *another*
                   `Profile` are the excluded point).
* `mappingOps`     projection to the mapping calls (`LM.POp`), on which `LM.kernelOps` / `LM.procOps` / `LM.frameSpec` work.
* `frameFits`      the pointwise 32-bit guard at the address a frame looks up.

Core Lean only: linked into the model driver.
-/
namespace LM

/-- `FrameAddress` (frame.rs:18-46), all six variants; `v` stands for the `LibraryHandle` -/
inductive FrameAddrX
  | abs (fa : FrameAddr)
  | relIp (v rel : Nat)
  | relRa (v rel : Nat)
  | relAra (v rel : Nat)
deriving Repr, DecidableEq

/-- `Profile::resolve_frame_address` (profile.rs:1163-1197). The relative variants never look at a mapping table;
`RelativeAddressFromReturnAddress` uses `relative_address.saturating_sub(1)`. -/
def resolveFrameX (kernel proc : Map) : FrameAddrX → Resolved
  | .abs fa => resolveFrame kernel proc fa
  | .relIp v rel => .inLib rel v
  | .relRa v rel => .inLib (if rel = 0 then 0 else rel - 1) v
  | .relAra v rel => .inLib rel v

/-- public calls of `Profile` that touch the mapping tables or the handle tables -/
inductive TOp
  | newProc                                   -- `add_process`
  | newThread (p : Nat)                       -- `add_thread(ProcessHandle(p), ..)`
  | kadd (x : M)
  | kremove (s : Nat)
  | padd (p : Nat) (x : M)
  | premove (p : Nat) (s : Nat)
  | pclear (p : Nat)
  | frame (t : Nat) (fa : FrameAddrX)         -- `handle_for_frame_with_address(ThreadHandle(t), fa, ..)`
  /-- `handle_for_native_symbol(ThreadHandle(nt), ..)` and then
  `handle_for_frame_with_address_and_symbol(ThreadHandle(t), fa, FrameSymbolInfo{native_symbol, ..}, ..)` -/
  | frameSym (t : Nat) (nt : Nat) (fa : FrameAddrX)
deriving Repr, DecidableEq

/-- what one call answers -/
inductive TOut
  | ok
  | panic
  | handle (n : Nat)
  | res (r : Resolved)
deriving Repr, DecidableEq

structure TState where
  kernel : Table
  /-- `self.processes[i].libs` -/
  procs : List Table
  /-- `self.threads[i].process().0` -/
  threads : List Nat
deriving Repr

def TState.init : TState := ⟨Table.empty, [], []⟩

/-- a call on `self.processes[p].libs` (profile.rs:423, 434, 439): indexing panics for a handle that is out of range -/
def onProc (st : TState) (p : Nat) (op : Op) : TState × TOut :=
  match st.procs[p]? with
  | none => (st, .panic)
  | some tb => ({ st with procs := st.procs.set p (step tb op) }, if stepSafe tb op then .ok else .panic)

/-- the shared middle of both frame functions: `&mut self.threads[thread_handle.0]` (profile.rs:594 / :744),
`&mut self.processes[thread.process().0]` (:595 / :745), `Self::resolve_frame_address(process, ..)` (:596 / :746) -/
def frameOut (st : TState) (t : Nat) (fa : FrameAddrX) : TOut :=
  match st.threads[t]? with
  | none => .panic
  | some p =>
    match st.procs[p]? with
    | none => .panic
    | some tb => .res (resolveFrameX st.kernel.map tb.map fa)

def tstep (st : TState) : TOp → TState × TOut
  | .newProc => ({ st with procs := st.procs ++ [Table.empty] }, .handle st.procs.length)
  | .newThread p =>
    -- profile.rs:475-478: the thread is pushed first, then `self.processes[process.0].add_thread(handle)` indexes
    ({ st with threads := st.threads ++ [p] }, if p < st.procs.length then .handle st.threads.length else .panic)
  | .kadd x => ({ st with kernel := step st.kernel (.add x) }, if stepSafe st.kernel (.add x) then .ok else .panic)
  | .kremove s => ({ st with kernel := step st.kernel (.remove s) }, .ok)
  | .padd p x => onProc st p (.add x)
  | .premove p s => onProc st p (.remove s)
  | .pclear p => onProc st p .clear
  | .frame t fa => (st, frameOut st t fa)
  | .frameSym t nt fa =>
    -- `handle_for_native_symbol`: `&mut self.threads[thread_handle.0]` (profile.rs:804);
    -- then `assert_eq!(native_symbol.0, thread_handle, ..)` (:742)
    (st, if st.threads.length ≤ nt then .panic else if nt ≠ t then .panic else frameOut st t fa)

def trun (ops : List TOp) : TState := ops.foldl (fun s o => (tstep s o).1) TState.init

/-! ### Specification side -/

/-- the mapping call behind a `TOp`, if it is one -/
def TOp.toPOp : TOp → Option POp
  | .kadd x => some (.kadd x)
  | .kremove s => some (.kremove s)
  | .padd p x => some (.padd p x)
  | .premove p s => some (.premove p s)
  | .pclear p => some (.pclear p)
  | _ => none

/-- the mapping calls of a history, in order -/
def mappingOps (ops : List TOp) : List POp := ops.filterMap TOp.toPOp

/-- the process arguments of the `add_thread` calls, in order: entry `t` is the owner of thread handle `t` -/
def owners (ops : List TOp) : List Nat :=
  ops.filterMap (fun o => match o with | .newThread p => some p | _ => none)

def threadOwner (ops : List TOp) (t : Nat) : Option Nat := (owners ops)[t]?

/-- number of `add_process` calls = number of process handles handed out -/
def procCount (ops : List TOp) : Nat :=
  (ops.filter (fun o => match o with | .newProc => true | _ => false)).length

/-- every handle passed by `op` was returned by one of the calls in `before`; the native symbol handed to the
symbol-carrying frame function belongs to the same thread -/
def handlesOk (before : List TOp) : TOp → Bool
  | .newProc => true
  | .newThread p => p < procCount before
  | .kadd _ => true
  | .kremove _ => true
  | .padd p _ => p < procCount before
  | .premove p _ => p < procCount before
  | .pclear p => p < procCount before
  | .frame t _ => t < (owners before).length
  | .frameSym t nt _ => nt = t && t < (owners before).length

def HandlesValid (ops : List TOp) : Prop :=
  ∀ pre op post, ops = pre ++ op :: post → handlesOk pre op = true

/-- non-empty range (the statement's hypothesis), profile level -/
def POpNonEmpty : POp → Prop
  | .kadd x => x.s < x.e
  | .padd _ x => x.s < x.e
  | _ => True

instance : DecidablePred POpNonEmpty := fun o => by cases o <;> unfold POpNonEmpty <;> infer_instance

/-- pointwise 32-bit guard: the relative address of the *looked-up* address in the mapping the history resolves it
to fits in 32 bits (exactly the set of frames the judge evaluates) -/
def frameFits (ops : List POp) (p : Nat) (fa : FrameAddr) : Prop :=
  match resolveSpec (kernelOps ops) fa.specAddr with
  | some m => relSpec m fa.specAddr < u32Lim
  | none =>
    match resolveSpec (procOps p ops) fa.specAddr with
    | some m => relSpec m fa.specAddr < u32Lim
    | none => True

/-- expected result for any frame address: absolute ones by `frameSpec`, relative ones are the given library and
relative address, a return address one byte earlier (there is no byte before 0) -/
def frameSpecX (ops : List POp) (p : Nat) : FrameAddrX → Resolved
  | .abs fa => frameSpec ops p fa
  | .relIp v rel => .inLib rel v
  | .relRa v rel => .inLib (rel - 1) v
  | .relAra v rel => .inLib rel v

def frameFitsX (ops : List POp) (p : Nat) : FrameAddrX → Prop
  | .abs fa => frameFits ops p fa
  | _ => True

end LM
