/-!
Segment-based attribution (C02, files present on disk): `add_module_to_process` case 2
(`samply/src/linux_shared/converter.rs:1426-1490`), `MappingInfo::compute_base_avma` (`:1900-1925`) and
`compute_vma_bias_impl` (`samply/src/linux_shared/svma_file_range.rs:155-185`).

`u64` arithmetic: `wrapping_sub` / `wrapping_add` are modelled modulo 2^64; the plain `+` / `-` of the
code are explicit `panic` outcomes when they would overflow / underflow (debug build).
Core Lean only.
-/
namespace SvmaBias

/-- `SvmaFileRange`: a segment (or text section) with its stated address and file range -/
structure Contribution where
  svma : Nat
  fileOff : Nat
  size : Nat
deriving Repr, DecidableEq

/-- what the converter reads from the object file: `relative_address_base` (vaddr of the first LOAD
segment) and the contributions in program-header order -/
structure FileInfo where
  baseSvma : Nat
  contribs : List Contribution
deriving Repr, DecidableEq

def encompasses (c : Contribution) (off size : Nat) : Bool :=
  decide (c.fileOff ≤ off) && decide (off + size ≤ c.fileOff + c.size)

def encompassedBy (c : Contribution) (off size : Nat) : Bool :=
  decide (off ≤ c.fileOff) && decide (c.fileOff + c.size ≤ off + size)

def refContribution (cs : List Contribution) (off size : Nat) : Option Contribution :=
  cs.find? (fun c => encompasses c off size || encompassedBy c off size)

inductive Out
  /-- no contribution overlaps the mapping the required way: the mapping is not added -/
  | notFound
  | panic
  | ok (v : Nat)
deriving Repr, DecidableEq

def U64 : Nat := 2 ^ 64

/-- `encompasses_file_range` / `is_encompassed_by_file_range` (svma_file_range.rs:36-37, 46-47) add
`other_file_offset + other_file_size` and `self.file_offset + self.size` in `u64` without check: the first
contribution looked at panics when the mapping's file range wraps (a page offset close to 2^64); a
contribution's own range wraps only for a program header claiming a file range beyond 2^64 -/
def rangesWrap (cs : List Contribution) (off size : Nat) : Bool :=
  !cs.isEmpty && (decide (off + size ≥ U64) || cs.any (fun c => decide (c.fileOff + c.size ≥ U64)))

/-- `compute_vma_bias_impl`: bias (mod 2^64) between stated and actual addresses -/
def computeBias (cs : List Contribution) (off avma size : Nat) : Out :=
  if rangesWrap cs off size then .panic else
  match refContribution cs off size with
  | none => .notFound
  | some c =>
    if c.fileOff > off then
      let refAvma := avma + (c.fileOff - off)
      if refAvma ≥ U64 then .panic else .ok ((refAvma + U64 - c.svma) % U64)
    else
      if avma < off - c.fileOff then .panic
      else .ok ((avma - (off - c.fileOff) + U64 - c.svma) % U64)

/-- `relative_address_at_start = (mapping_start_avma - base_avma) as u32` with
`base_avma = base_svma.wrapping_add(bias)` -/
def relStart (fi : FileInfo) (off avma size : Nat) : Out :=
  match computeBias fi.contribs off avma size with
  | .ok bias =>
    let baseAvma := (fi.baseSvma + bias) % U64
    if baseAvma > avma then .panic else .ok ((avma - baseAvma) % 2 ^ 32)
  | o => o

end SvmaBias
