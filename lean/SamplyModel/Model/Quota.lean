/-!
Model of `samply-quota-manager` (C15): `file_inventory.rs` (the SQLite inventory) and
`quota_manager.rs:197-256` (`perform_eviction_if_needed`, `delete_files`), after the repairs
9223a525 (no eviction when total == max), f5f79157 (missing file no longer panics) and 0ea8d7c2
(no `..` rows; the parent directory is resolved when a recorded file no longer resolves).

* Paths are lists of components relative to a base directory `B` (the harness's temporary directory,
  canonical); `".."` is the parent component. The file system is an association list
  `physical path ↦ file | dir | link target`; `canonicalize` is `realpath` (every component resolved,
  the path must exist), `unlink` is `unlink(2)` (parent resolved, last component not followed).
* The inventory is the `files` table as a list of rows in **rowid order** (upsert keeps the rowid,
  delete + insert appends). `ORDER BY LastAccessTime ASC` is a parameter `ord` of `evictCore`: the
  theorems hold for every permutation of the table that is sorted by access time; the executable model
  uses the stable sort of the rowid order (what the index `idx_files_LastAccessTime` yields).
* Every `unwrap` / `assert!` that can fire is an explicit outcome: `Outcome.panicPoison` (the panic
  happens while the inventory mutex is held ⇒ the mutex is poisoned and every later call that locks it
  panics until the manager is re-created) or `Outcome.panicClean`.
* `…Legacy` definitions keep the pre-9223a525 selection loop; `…LegacyPath` the pre-0ea8d7c2 path handling.

Core Lean only (linked into the driver executable).
-/
namespace Quota

abbrev Path := List String

inductive Node where
  | file
  | dir
  | link (target : Path)
deriving DecidableEq, Repr

/-- association list; keys are physical paths below the base directory (the base itself, `[]`, is a
directory and has no entry) -/
abbrev FS := List (Path × Node)

def isDir (fs : FS) (p : Path) : Bool :=
  match p with
  | [] => true
  | _ => match fs.lookup p with
    | some .dir => true
    | _ => false

def eraseKey (fs : FS) (k : Path) : FS := fs.filter (fun e => !(e.1 == k))

def setKey (fs : FS) (k : Path) (n : Node) : FS := (k, n) :: eraseKey fs k

inductive ResErr where
  | noent | notdir | loop | escape
deriving DecidableEq, Repr

/-- resolve one component `c` below the already resolved physical directory `cur`;
`follow` resolves a symlink target (one nesting level less of fuel) -/
def stepC (follow : Path → Except ResErr Path) (fs : FS) (cur : Path) (c : String) :
    Except ResErr Path :=
  if !isDir fs cur then .error .notdir
  else if c = ".." then (if cur = [] then .error .escape else .ok cur.dropLast)
  else match fs.lookup (cur ++ [c]) with
    | none => .error .noent
    | some (.link t) => follow t
    | some _ => .ok (cur ++ [c])

def walkWith (follow : Path → Except ResErr Path) (fs : FS) : Path → Path → Except ResErr Path
  | cur, [] => .ok cur
  | cur, c :: rest =>
    match stepC follow fs cur c with
    | .error e => .error e
    | .ok cur' => walkWith follow fs cur' rest

/-- `realpath` with symlinks nested at most `fuel - 1` deep (ELOOP beyond) -/
def walkF (fs : FS) : Nat → Path → Except ResErr Path
  | 0, _ => .error .loop
  | f + 1, p => walkWith (walkF fs f) fs [] p

def canonFuel : Nat := 8

/-- `Path::canonicalize` -/
def canonicalize (fs : FS) (p : Path) : Except ResErr Path := walkF fs canonFuel p

/-- `Path::strip_prefix` (component-wise, lexical) -/
def stripPrefix : Path → Path → Option Path
  | [], q => some q
  | _ :: _, [] => none
  | a :: as, b :: bs => if a = b then stripPrefix as bs else none

/-- `canonicalize().unwrap_or_else(|_| path.to_path_buf())` -/
def canonOrKeep (fs : FS) (p : Path) : Path :=
  match canonicalize fs p with
  | .ok q => q
  | .error _ => p

/-- pre-0ea8d7c2 `relative_path_under_managed_directory`: lexical `strip_prefix` only -/
def relUnderLegacy (fs : FS) (root p : Path) : Option Path := stripPrefix root (canonOrKeep fs p)

/-- `relative_path_under_managed_directory` (file_inventory.rs:154-166): canonicalize-or-keep,
`strip_prefix`, and (0ea8d7c2) every remaining component must be `Component::Normal` — a path that could
not be canonicalized may still contain `..` and is then not known to be under the root -/
def relUnder (fs : FS) (root p : Path) : Option Path :=
  match stripPrefix root (canonOrKeep fs p) with
  | none => none
  | some rel => if rel.all (fun c => c != "..") then some rel else none

inductive DelRes where
  | ok | notFound | err
deriving DecidableEq, Repr

/-- `tokio::fs::remove_file` = `unlink(2)`: ENOENT ⇒ `notFound`; EISDIR / ENOTDIR / ELOOP ⇒ `err` -/
def unlink (fs : FS) (p : Path) : DelRes × FS :=
  match p.getLast? with
  | none => (.err, fs)
  | some last =>
    match canonicalize fs p.dropLast with
    | .error .noent => (.notFound, fs)
    | .error _ => (.err, fs)
    | .ok par =>
      if !isDir fs par then (.err, fs)
      else if last = ".." then (.err, fs)
      else match fs.lookup (par ++ [last]) with
        | none => (.notFound, fs)
        | some .dir => (.err, fs)
        | some _ => (.ok, eraseKey fs (par ++ [last]))

/-! ### The inventory (`files` table) -/

structure Row where
  rel : Path
  /-- stored `INT` (`size_in_bytes as i64`) -/
  size : Int
  ctime : Nat
  atime : Nat
deriving DecidableEq, Repr

/-- `u64 as i64` -/
def toI64 (n : Nat) : Int := if n < 2 ^ 63 then (n : Int) else (n : Int) - 2 ^ 64

/-- `i64 as u64` -/
def toU64 (i : Int) : Nat := (i % 2 ^ 64).toNat

/-- `INSERT … ON CONFLICT(Path) DO UPDATE` : an existing row keeps its rowid -/
def upsert (r : Row) : List Row → List Row
  | [] => [r]
  | x :: xs => if x.rel = r.rel then r :: xs else x :: upsert r xs

/-- `UPDATE files SET LastAccessTime = ?1 WHERE Path = ?2` -/
def setAtime (rel : Path) (t : Nat) (inv : List Row) : List Row :=
  inv.map fun x => if x.rel = rel then { x with atime := t } else x

/-- `DELETE FROM files WHERE Path = ?1` -/
def invDelete (rel : Path) (inv : List Row) : List Row := inv.filter fun x => !(x.rel == rel)

def sumSizes : List Row → Int
  | [] => 0
  | r :: rs => r.size + sumSizes rs

/-- `total_size_in_bytes` (file_inventory.rs:245-251): `SELECT SUM(Size)` read as `i64`
(NULL for an empty table and SQLite's "integer overflow" error both ⇒ `unwrap_or(0)`), then `as u64` -/
def totalSize (inv : List Row) : Nat :=
  let s := sumSizes inv
  if s < -(2 ^ 63) ∨ 2 ^ 63 ≤ s then 0 else toU64 s

/-- `on_file_created` (file_inventory.rs:172-200); `none` = panic (`duration_since(UNIX_EPOCH).unwrap()`
on a time before the epoch — only reached for a path under the root) -/
def onCreated (fs : FS) (root : Path) (inv : List Row) (p : Path) (size : Nat) (t : Int) :
    Option (List Row) :=
  match relUnder fs root p with
  | none => some inv
  | some rel => if t < 0 then none else some (upsert ⟨rel, toI64 size, t.toNat, t.toNat⟩ inv)

/-- `on_file_accessed` (file_inventory.rs:205-218) -/
def onAccessed (fs : FS) (root : Path) (inv : List Row) (p : Path) (t : Int) : Option (List Row) :=
  match relUnder fs root p with
  | none => some inv
  | some rel => if t < 0 then none else some (setAtime rel t.toNat inv)

/-- `on_file_deleted` / `on_file_found_to_be_absent` (file_inventory.rs:223-241) -/
def onDeleted (fs : FS) (root : Path) (inv : List Row) (p : Path) : List Row :=
  match relUnder fs root p with
  | none => inv
  | some rel => invDelete rel inv

/-! ### Eviction -/

/-- pre-0ea8d7c2 `to_absolute_path`: when `canonicalize` fails the joined path is used unresolved -/
def toAbsoluteLegacy (fs : FS) (root rel : Path) : Option Path :=
  let abs := canonOrKeep fs (root ++ rel)
  if (stripPrefix root abs).isSome then some abs else none

/-- the path `to_absolute_path` works with (file_inventory.rs:168-182): the canonical path; when the
file does not resolve, the canonicalized *parent* joined with the file name; the joined path only when
the parent does not resolve either (or there is no file name: the path ends in `..` or is empty) -/
def resolveOrParent (fs : FS) (joined : Path) : Path :=
  match canonicalize fs joined with
  | .ok q => q
  | .error _ =>
    match joined.getLast? with
    | none => joined
    | some last =>
      if last = ".." then joined
      else match canonicalize fs joined.dropLast with
        | .ok par => par ++ [last]
        | .error _ => joined

/-- `to_absolute_path`; `none` = `assert!(abs_path.starts_with(root))` fails -/
def toAbsolute (fs : FS) (root rel : Path) : Option Path :=
  let abs := resolveOrParent fs (root ++ rel)
  if (stripPrefix root abs).isSome then some abs else none

/-- `file_info_from_row` (file_inventory.rs:253-265); `none` = panic (the assert, or
`size.try_into().unwrap()` on a negative stored size) -/
def convert (fs : FS) (root : Path) (r : Row) : Option (Row × Path) :=
  match toAbsolute fs root r.rel with
  | none => none
  | some p => if r.size < 0 then none else some (r, p)

/-- the selection loop of `get_files_to_delete_to_enforce_max_size` (file_inventory.rs:289-298): the
row iterator converts a row (may panic) *before* the loop body tests `excess_bytes == 0` -/
def selectLoop (conv : Row → Option (Row × Path)) : Nat → List Row → Option (List (Row × Path))
  | _, [] => some []
  | excess, r :: rs =>
    match conv r with
    | none => none
    | some c =>
      if excess = 0 then some []
      else match selectLoop conv (excess - r.size.toNat) rs with
        | none => none
        | some l => some (c :: l)

/-- pre-9223a525 loop: push first, test afterwards -/
def selectLoopLegacy (conv : Row → Option (Row × Path)) : Nat → List Row → Option (List (Row × Path))
  | _, [] => some []
  | excess, r :: rs =>
    match conv r with
    | none => none
    | some c =>
      if excess - r.size.toNat = 0 then some [c]
      else match selectLoopLegacy conv (excess - r.size.toNat) rs with
        | none => none
        | some l => some (c :: l)

/-- `get_files_to_delete_to_enforce_max_size`; `ord` = the rows in `ORDER BY LastAccessTime ASC` order -/
def sizeCandidates (fs : FS) (root : Path) (ord inv : List Row) (max : Nat) :
    Option (List (Row × Path)) :=
  let total := totalSize inv
  if total < max then some [] else selectLoop (convert fs root) (total - max) ord

def sizeCandidatesLegacy (fs : FS) (root : Path) (ord inv : List Row) (max : Nat) :
    Option (List (Row × Path)) :=
  let total := totalSize inv
  if total < max then some [] else selectLoopLegacy (convert fs root) (total - max) ord

/-- insert a row that has a smaller rowid than every row of the (sorted) list: it goes before the
first row that is not strictly older -/
def insertLRU (r : Row) : List Row → List Row
  | [] => [r]
  | x :: xs => if x.atime < r.atime then x :: insertLRU r xs else r :: x :: xs

/-- the order SQLite produces: index on `(LastAccessTime, rowid)` = stable sort of the rowid order
(insertion sort, so that the kernel can evaluate it) -/
def sortLRU : List Row → List Row
  | [] => []
  | r :: rs => insertLRU r (sortLRU rs)

def mapConv (conv : Row → Option (Row × Path)) : List Row → Option (List (Row × Path))
  | [] => some []
  | r :: rs =>
    match conv r with
    | none => none
    | some c => match mapConv conv rs with
      | none => none
      | some l => some (c :: l)

/-- `get_files_last_accessed_before` (file_inventory.rs:323-338): every matching row is converted
(`collect`). The statement has no `ORDER BY`; SQLite answers `WHERE LastAccessTime < ?1` with a range
scan of `idx_files_LastAccessTime`, so the rows arrive in `(LastAccessTime, rowid)` order — the same
order as in the size pass (observable when one candidate lies below another one that is a regular file:
`f/zz` before `f` ⇒ ENOTDIR, kept; found by the correspondence in the improvement round). -/
def ageCandidates (fs : FS) (root : Path) (inv : List Row) (cutoff : Nat) :
    Option (List (Row × Path)) :=
  mapConv (convert fs root) ((sortLRU inv).filter fun r => decide (r.atime < cutoff))

structure Attempt where
  row : Row
  path : Path
  res : DelRes
deriving DecidableEq, Repr

/-- `delete_files` (quota_manager.rs:234-256) -/
def deleteFiles (root : Path) : FS → List Row → List (Row × Path) → FS × List Row × List Attempt
  | fs, inv, [] => (fs, inv, [])
  | fs, inv, (r, p) :: rest =>
    let u := unlink fs p
    let inv' := match u.1 with
      | .ok => onDeleted u.2 root inv p
      | .notFound => onDeleted u.2 root inv p
      | .err => inv
    let t := deleteFiles root u.2 inv' rest
    (t.1, t.2.1, ⟨r, p, u.1⟩ :: t.2.2)

inductive Outcome where
  | ok | panicPoison | panicClean
deriving DecidableEq, Repr

structure Cfg where
  /-- `FileInventory.root_path` -/
  root : Path
  maxSize : Option Nat
  maxAge : Option Nat
deriving DecidableEq, Repr

structure EvictRes where
  fs : FS
  inv : List Row
  out : Outcome
  /-- ghost: every `remove_file` call of the pass, in order -/
  attempts : List Attempt
deriving Repr

/-- the age half of `perform_eviction_if_needed` (quota_manager.rs:217-231) -/
def agePass (now : Nat) (c : Cfg) (fs : FS) (inv : List Row) (log : List Attempt) : EvictRes :=
  match c.maxAge with
  | none => ⟨fs, inv, .ok, log⟩
  | some a =>
    -- `SystemTime::now() - Duration::from_secs(a)` (i64 seconds): panics outside the lock
    if now + 2 ^ 63 < a then ⟨fs, inv, .panicClean, log⟩
    -- `SqliteTime::from(cutoff)`: `duration_since(UNIX_EPOCH).unwrap()` with the lock held
    else if now < a then ⟨fs, inv, .panicPoison, log⟩
    else match ageCandidates fs c.root inv (now - a) with
      | none => ⟨fs, inv, .panicPoison, log⟩
      | some cs =>
        let t := deleteFiles c.root fs inv cs
        ⟨t.1, t.2.1, .ok, log ++ t.2.2⟩

/-- the size half (quota_manager.rs:202-208): no maximum ⇒ nothing to delete -/
def sizeCands (fs : FS) (root : Path) (ord inv : List Row) : Option Nat → Option (List (Row × Path))
  | none => some []
  | some m => sizeCandidates fs root ord inv m

def sizeCandsLegacy (fs : FS) (root : Path) (ord inv : List Row) : Option Nat → Option (List (Row × Path))
  | none => some []
  | some m => sizeCandidatesLegacy fs root ord inv m

/-- `perform_eviction_if_needed` on an un-poisoned manager -/
def evictCore (ord : List Row) (now : Nat) (c : Cfg) (fs : FS) (inv : List Row) : EvictRes :=
  match sizeCands fs c.root ord inv c.maxSize with
  | none => ⟨fs, inv, .panicPoison, []⟩
  | some cs =>
    let t := deleteFiles c.root fs inv cs
    agePass now c t.1 t.2.1 t.2.2

def evictCoreLegacy (ord : List Row) (now : Nat) (c : Cfg) (fs : FS) (inv : List Row) : EvictRes :=
  match sizeCandsLegacy fs c.root ord inv c.maxSize with
  | none => ⟨fs, inv, .panicPoison, []⟩
  | some cs =>
    let t := deleteFiles c.root fs inv cs
    agePass now c t.1 t.2.1 t.2.2

/-! #### pre-0ea8d7c2 pass (lexical fallback), kept for the witness theorem -/

def convertLegacyPath (fs : FS) (root : Path) (r : Row) : Option (Row × Path) :=
  match toAbsoluteLegacy fs root r.rel with
  | none => none
  | some p => if r.size < 0 then none else some (r, p)

def onCreatedLegacyPath (fs : FS) (root : Path) (inv : List Row) (p : Path) (size : Nat) (t : Int) :
    Option (List Row) :=
  match relUnderLegacy fs root p with
  | none => some inv
  | some rel => if t < 0 then none else some (upsert ⟨rel, toI64 size, t.toNat, t.toNat⟩ inv)

def onDeletedLegacyPath (fs : FS) (root : Path) (inv : List Row) (p : Path) : List Row :=
  match relUnderLegacy fs root p with
  | none => inv
  | some rel => invDelete rel inv

def deleteFilesLegacyPath (root : Path) : FS → List Row → List (Row × Path) → FS × List Row × List Attempt
  | fs, inv, [] => (fs, inv, [])
  | fs, inv, (r, p) :: rest =>
    let u := unlink fs p
    let inv' := match u.1 with
      | .ok => onDeletedLegacyPath u.2 root inv p
      | .notFound => onDeletedLegacyPath u.2 root inv p
      | .err => inv
    let t := deleteFilesLegacyPath root u.2 inv' rest
    (t.1, t.2.1, ⟨r, p, u.1⟩ :: t.2.2)

/-- size pass of the pre-0ea8d7c2 code (the age pass is not needed for the witness) -/
def sizePassLegacyPath (ord : List Row) (c : Cfg) (fs : FS) (inv : List Row) : EvictRes :=
  match c.maxSize with
  | none => ⟨fs, inv, .ok, []⟩
  | some m =>
    let total := totalSize inv
    let cands := if total < m then some [] else selectLoop (convertLegacyPath fs c.root) (total - m) ord
    match cands with
    | none => ⟨fs, inv, .panicPoison, []⟩
    | some cs =>
      let t := deleteFilesLegacyPath c.root fs inv cs
      ⟨t.1, t.2.1, .ok, t.2.2⟩

def evict (now : Nat) (c : Cfg) (fs : FS) (inv : List Row) : EvictRes :=
  evictCore (sortLRU inv) now c fs inv

def evictLegacy (now : Nat) (c : Cfg) (fs : FS) (inv : List Row) : EvictRes :=
  evictCoreLegacy (sortLRU inv) now c fs inv

/-! ### Specification side (used in the statements of the C15 theorems and by the judge) -/

/-- total recorded size when every stored size is a valid non-negative number -/
def sumNat : List Row → Nat
  | [] => 0
  | r :: rs => r.size.toNat + sumNat rs

/-- the shortest prefix of `l` whose sizes cover `excess` (empty when `excess = 0`) -/
def selectPrefix : Nat → List Row → List Row
  | _, [] => []
  | e, r :: rs => if e = 0 then [] else r :: selectPrefix (e - r.size.toNat) rs

/-! ### The whole manager as a state machine (what the driver runs) -/

structure Mgr where
  cfg : Cfg
  poisoned : Bool
deriving DecidableEq, Repr

structure World where
  fs : FS
  /-- the database file: `none` = not created yet -/
  db : Option (List Row)
  mgr : Option Mgr
deriving Repr

def World.init : World := ⟨[], none, none⟩

inductive Op where
  /-- `QuotaManager::new(root, db)`; `pre` = (path, size, atime) of files that exist on disk, used
  only to pre-populate a fresh database (creation time = now) -/
  | open_ (root : Path) (pre : List (Path × Nat × Nat))
  /-- `finish()` / drop -/
  | close
  | restart
  | created (p : Path) (size : Nat) (t : Int)
  | accessed (p : Path) (t : Int)
  | deleted (p : Path)
  | setMaxSize (m : Option Nat)
  | setMaxAge (a : Option Nat)
  | evict
  /-- `trigger_eviction_if_needed`, wait, `finish()` -/
  | evictAsync
  | mkfile (p : Path)
  | mkdir (p : Path)
  | symlink (p : Path) (target : Path)
  /-- external deletion (file, link, or whole directory) -/
  | rm (p : Path)
deriving Repr

inductive Status where
  | ok | panic | nomgr | bad
deriving DecidableEq, Repr

/-- all proper non-empty prefixes of `p` become directories unless present -/
def mkParents (fs : FS) : Path → Path → FS
  | _, [] => fs
  | _, [_] => fs
  | pre, c :: rest =>
    let d := pre ++ [c]
    let fs' := match fs.lookup d with
      | none => (d, Node.dir) :: fs
      | some _ => fs
    mkParents fs' d rest

def isPrefix : Path → Path → Bool
  | [], _ => true
  | _ :: _, [] => false
  | a :: as, b :: bs => a == b && isPrefix as bs

/-- initial population of a fresh database (`insert_existing_files`, file_inventory.rs:112-152) from
the files listed with their on-disk size and access time -/
def prepopulate (fs : FS) (root : Path) (now : Nat) : List (Path × Nat × Nat) → List Row → List Row
  | [], inv => inv
  | (p, size, at_) :: rest, inv =>
    let inv' := match fs.lookup p with
      | some .file =>
        match relUnder fs root p with
        | some rel => upsert ⟨rel, toI64 size, now, at_⟩ inv
        | none => inv
      | _ => inv
    prepopulate fs root now rest inv'

/-- files that exist under the root but were not listed: the harness's `mkfile` writes one byte, now -/
def prepopulateRest (fs : FS) (root : Path) (now : Nat) : FS → List Row → List Row
  | [], inv => inv
  | (p, n) :: rest, inv =>
    let inv' := match n with
      | .file =>
        match relUnder fs root p with
        | some rel => if inv.any (fun r => r.rel == rel) then inv else inv ++ [⟨rel, 1, now, now⟩]
        | none => inv
      | _ => inv
    prepopulateRest fs root now rest inv'

def openMgr (w : World) (now : Nat) (root : Path) (pre : List (Path × Nat × Nat)) : World :=
  let root' := canonOrKeep w.fs root
  let db := match w.db with
    | some inv => inv
    | none => prepopulateRest w.fs root' now w.fs (prepopulate w.fs root' now pre [])
  { w with db := some db, mgr := some ⟨⟨root', none, none⟩, false⟩ }

def step (now : Nat) (w : World) : Op → World × Status
  | .open_ root pre =>
    match w.mgr with
    | some _ => (w, .bad)
    | none => (openMgr w now root pre, .ok)
  | .close =>
    match w.mgr with
    | none => (w, .nomgr)
    | some _ => ({ w with mgr := none }, .ok)
  | .restart =>
    match w.mgr with
    | none => (w, .nomgr)
    | some m => (openMgr { w with mgr := none } now m.cfg.root [], .ok)
  | .created p size t =>
    match w.mgr, w.db with
    | some m, some inv =>
      if m.poisoned then (w, .panic) else
      match onCreated w.fs m.cfg.root inv p size t with
      | none => ({ w with mgr := some { m with poisoned := true } }, .panic)
      | some inv' => ({ w with db := some inv' }, .ok)
    | _, _ => (w, .nomgr)
  | .accessed p t =>
    match w.mgr, w.db with
    | some m, some inv =>
      if m.poisoned then (w, .panic) else
      match onAccessed w.fs m.cfg.root inv p t with
      | none => ({ w with mgr := some { m with poisoned := true } }, .panic)
      | some inv' => ({ w with db := some inv' }, .ok)
    | _, _ => (w, .nomgr)
  | .deleted p =>
    match w.mgr, w.db with
    | some m, some inv =>
      if m.poisoned then (w, .panic) else
      ({ w with db := some (onDeleted w.fs m.cfg.root inv p) }, .ok)
    | _, _ => (w, .nomgr)
  | .setMaxSize v =>
    match w.mgr with
    | none => (w, .nomgr)
    | some m => ({ w with mgr := some { m with cfg := { m.cfg with maxSize := v } } }, .ok)
  | .setMaxAge v =>
    match w.mgr with
    | none => (w, .nomgr)
    | some m => ({ w with mgr := some { m with cfg := { m.cfg with maxAge := v } } }, .ok)
  | .evict =>
    match w.mgr, w.db with
    | some m, some inv =>
      if m.poisoned then (w, .panic) else
      let r := evict now m.cfg w.fs inv
      let st := if r.out = .ok then Status.ok else Status.panic
      ({ fs := r.fs, db := some r.inv, mgr := some { m with poisoned := r.out = .panicPoison } }, st)
    | _, _ => (w, .nomgr)
  | .evictAsync =>
    match w.mgr, w.db with
    | some m, some inv =>
      if m.poisoned then ({ w with mgr := none }, .panic) else
      let r := evict now m.cfg w.fs inv
      let st := if r.out = .ok then Status.ok else Status.panic
      ({ fs := r.fs, db := some r.inv, mgr := none }, st)
    | _, _ => (w, .nomgr)
  | .mkfile p => ({ w with fs := setKey (mkParents w.fs [] p) p .file }, .ok)
  | .mkdir p => ({ w with fs := setKey (mkParents w.fs [] p) p .dir }, .ok)
  | .symlink p t => ({ w with fs := setKey (mkParents w.fs [] p) p (.link t) }, .ok)
  | .rm p => ({ w with fs := w.fs.filter fun e => !(isPrefix p e.1) }, .ok)

end Quota
