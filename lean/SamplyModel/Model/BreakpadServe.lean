import SamplyModel.Model.BreakpadIndex
/-!
Model of a Breakpad symbol map that is **served a stored `.symindex`** and then answers a *sequence* of
lookups (C08, clause "arbitrary `.sym` / `.symindex` bytes incl. stale indexes → lookups return a result or
nothing").

It re-uses the byte-exact parsers of `Model/BreakpadIndex.lean` (C10's model: `parseSymindex`, `parsePublic`,
`parseFunc`, `getString`, `inlineeAt`, `sourceLoc`, `bsearchLE`) and adds what that model leaves out because it
is not observable with an index the creator built, but *is* with a stale or corrupted one:

* the four memo tables of `BreakpadSymbolMapCache` (`samply-symbols/src/breakpad/symbol_map.rs:124-233`):
  `public_symbols` / `func_symbols` are keyed by **file offset only** (`:153`, `:173`), `item_strings` by the
  FILE / INLINE_ORIGIN index (`:210`). Only successes are memoised (`?` leaves before `vacant.insert`). With
  an index in which two symbol entries share an offset but differ in length, the second lookup is answered
  from the first one's parse — the model reproduces that (`lookupSeq` threads the `Cache`);
* `self.index.symbol_addresses[index]` (`:295`) as an explicit `panic` outcome (`BP.lookup` returns `none`
  there), next to `self.index.symbol_entries[index]` (`:303`).

`serve` is the whole path of the harness operation `bpmap`: `make_index_storage` (`:62-107`, after fix 3f61c23c)
as modelled by C10's `BP.mapStored` — the stored index is used iff it parses and its MODULE line is the
beginning of the text, otherwise the text is indexed itself —, `is_breakpad_file` wants the text to start with
`MODULE `, then `lookup_sync` per address on one map.

Not modelled: `cache.lock().unwrap()` (`:247`, `:297`; poisoned only after a panic under the lock),
`SourceFilePath::from_breakpad_path` (C08 kernel `specialPath`, compared separately).
Core Lean only (linked into the driver executable).
-/
namespace BPC
open BP
open LB (Byte)

abbrev Memo := List (Nat × List Byte)

/-- `BreakpadSymbolMapCache` (symbol_map.rs:124-134) -/
structure Cache where
  pubs : Memo
  funcs : List (Nat × FuncInfo)
  files : Memo
  origins : Memo

def Cache.empty : Cache := ⟨[], [], [], []⟩

/-- `ItemCache::get_string(index).ok()` (symbol_map.rs:209-232) with its memo table -/
def getStringC (lineParser : List Byte → Option (Nat × List Byte)) (text : List Byte)
    (items : List FEntry) (memo : Memo) (idx : Nat) : Option (List Byte) × Memo :=
  match memo.lookup idx with
  | some s => (some s, memo)                                   -- Entry::Occupied
  | none =>
    match getString lineParser text items idx with
    | some s => (some s, (idx, s) :: memo)                     -- vacant.insert
    | none => (none, memo)                                     -- `?` before the insert

/-- `get_public_info(offset, len).ok()` (symbol_map.rs:147-165): memo keyed by `file_offset` -/
def publicInfoC (text : List Byte) (memo : Memo) (off len : Nat) : Option (List Byte) × Memo :=
  match memo.lookup off with
  | some n => (some n, memo)
  | none =>
    match (readAt text off len).bind parsePublic with
    | some n => (some n, (off, n) :: memo)
    | none => (none, memo)

/-- `get_func_info(offset, len).ok()` (symbol_map.rs:167-185): memo keyed by `file_offset` -/
def funcInfoC (text : List Byte) (memo : List (Nat × FuncInfo)) (off len : Nat) :
    Option FuncInfo × List (Nat × FuncInfo) :=
  match memo.lookup off with
  | some i => (some i, memo)
  | none =>
    match (readAt text off len).bind parseFunc with
    | some i => (some i, (off, i) :: memo)
    | none => (none, memo)

/-- the `while let Some(inlinee) = info.get_inlinee_at_depth(depth, address)` loop (symbol_map.rs:335-345)
with the two string memo tables threaded; fuel = number of inlinees + 1 (every round finds an inlinee of a
new depth, so there are at most `inlinees.length` rounds) -/
def inlineFramesC (text : List Byte) (ix : Index) (info : FuncInfo) (addr : Nat) :
    Nat → Nat → Option (List Byte) → List Frame → Memo → Memo →
    List Frame × Option (List Byte) × Memo × Memo
  | 0, _, name, acc, fm, om => (acc, name, fm, om)
  | fuel + 1, depth, name, acc, fm, om =>
    match inlineeAt info.inlinees depth addr with
    | none => (acc, name, fm, om)
    | some i =>
      let f := getStringC fileLine text ix.files fm i.callFile                 -- :336
      let o := getStringC inlineOriginLine text ix.origins om i.originId       -- :342
      inlineFramesC text ix info addr fuel (depth + 1) o.1 (acc ++ [⟨name, f.1, some i.callLine⟩]) f.2 o.2

/-- the `match kind { … }` of `lookup_sync` (symbol_map.rs:307-370) for the entry `e` of the symbol at
`symAddr`; `next` = the following symbol address -/
def resolveC (text : List Byte) (ix : Index) (c : Cache) (a symAddr : Nat) (next : Option Nat)
    (e : SymEntry) : Option LookupResult × Cache :=
  if e.kind = 0 then
    let r := publicInfoC text c.pubs e.offset e.len
    let c' : Cache := { c with pubs := r.2 }
    match r.1 with
    | none => (none, c')
    | some name =>
      (some ⟨symAddr, next.bind (fun nx => if symAddr ≤ nx then some (nx - symAddr) else none), name, none⟩, c')
  else if e.kind = 1 then
    let r := funcInfoC text c.funcs e.offset e.len
    let c' : Cache := { c with funcs := r.2 }
    match r.1 with
    | none => (none, c')
    | some info =>
      if symAddr + info.size ≤ a then (none, c')                               -- :327-330 (in u64)
      else
        let fr := inlineFramesC text ix info a (info.inlinees.length + 1) 0 (some info.name) [] c'.files c'.origins
        let last : Option (List Byte) × Option Nat × Memo :=
          match sourceLoc info.lines a with                                    -- :346-352
          | some sl =>
            let f := getStringC fileLine text ix.files fr.2.2.1 sl.file
            (f.1, some sl.line, f.2)
          | none => (none, none, fr.2.2.1)
        (some ⟨symAddr, some info.size, info.name,
               some ((fr.1 ++ [(⟨fr.2.1, last.1, last.2.1⟩ : Frame)]).reverse)⟩,
         { c' with files := last.2.2, origins := fr.2.2.2 })
  else (none, c)

/-- `lookup_sync(Relative(a))` (symbol_map.rs:274-371) on a map with memo tables `c` -/
def lookupC (text : List Byte) (ix : Index) (c : Cache) (a : Nat) : Look × Cache :=
  match bsearchLE (fun x => a < x) ix.addrs with                               -- :286-294
  | none => (.none, c)
  | some i =>
    match ix.addrs[i]? with
    | none => (.panic, c)                                                      -- :295 `symbol_addresses[index]`
    | some symAddr =>
      match ix.entries[i]? with
      | none => (.panic, c)                                                    -- :303 `symbol_entries[index]`
      | some e =>
        let r := resolveC text ix c a symAddr ix.addrs[i + 1]? e
        match r.1 with
        | none => (.none, r.2)
        | some res => (.found res, r.2)

/-- several lookups on one map, oldest first; the memo tables are handed on -/
def lookupSeqC (text : List Byte) (ix : Index) : Cache → List Nat → List Look × Cache
  | c, [] => ([], c)
  | c, a :: rest =>
    let r := lookupC text ix c a
    let q := lookupSeqC text ix r.2 rest
    (r.1 :: q.1, q.2)

def lookupSeq (text : List Byte) (ix : Index) (c : Cache) (addrs : List Nat) : List Look :=
  (lookupSeqC text ix c addrs).1

/-- `iter_symbols()` collected (symbol_map.rs:244-272): for `i = start, start+1, …` paired with the symbol
addresses `addrs`: the name of every PUBLIC / FUNC symbol whose record reads and parses, through the same memo
tables as the lookups (`kind` other than 0 / 1 is skipped); `none` = `symbol_entries[i]` out of range (`:248`) -/
def iterSymbolsC (text : List Byte) (ix : Index) : Cache → List Nat → Nat → Option (List (Nat × List Byte) × Cache)
  | c, [], _ => some ([], c)
  | c, addr :: rest, i =>
    match ix.entries[i]? with
    | none => none
    | some e =>
      if e.kind = 0 then
        let r := publicInfoC text c.pubs e.offset e.len
        match iterSymbolsC text ix { c with pubs := r.2 } rest (i + 1) with
        | none => none
        | some q => some ((match r.1 with | some n => [(addr, n)] | none => []) ++ q.1, q.2)
      else if e.kind = 1 then
        let r := funcInfoC text c.funcs e.offset e.len
        match iterSymbolsC text ix { c with funcs := r.2 } rest (i + 1) with
        | none => none
        | some q => some ((match r.1 with | some info => [(addr, info.name)] | none => []) ++ q.1, q.2)
      else iterSymbolsC text ix c rest (i + 1)

inductive Served
  /-- the text does not start with `MODULE `: not a Breakpad file, the load fails -/
  | notBreakpad
  /-- the file had to be indexed from its text (no usable stored index) and has no MODULE record -/
  | noModule
  /-- building the map panics (only the excluded ≥ 4 GiB self-built index, see `C08_breakpad_map_total`) -/
  | mapPanic
  | looks (ls : List Look)
  /-- lookups, then `iter_symbols()` (`none` = panic), then more lookups, all on one map -/
  | session (pre : List Look) (names : Option (List (Nat × List Byte))) (post : List Look)
deriving Repr, DecidableEq

/-- A `.sym` text served together with a stored `.symindex` (valid, of another file, corrupted), then lookups.
Which index the map works with is decided by C10's model of `make_index_storage` (`BP.mapStored`, after fix
3f61c23c: the stored index is used iff it parses AND its MODULE line is non-empty and is the beginning of the
text — `BP.storedMatches`; otherwise the text is indexed as if nothing had been offered). `pick` is C10's
tie-break oracle for `sort_unstable + dedup` of the self-built index (supplied by the harness from the
implementation's own index; irrelevant when the stored index is used). -/
def serve (pick : Pick) (text idx : List Byte) (addrs : List Nat) : Served :=
  match mapStored pick text (some idx) with
  | .notBreakpad => .notBreakpad
  | .noModule => .noModule
  | .panic => .mapPanic
  | .ok ix => .looks (lookupSeq text ix Cache.empty addrs)

/-- the id token (hex digits of a MODULE record) of the debug id that the served map reports
(`SymbolMapTrait::debug_id` = `index.debug_id`, symbol_map.rs:236-238): `parse_symindex_file` takes it from the
LAST line of the index's module info that parses as a MODULE record (index.rs:57-95, `BP.deriveModule`) — for
a sidecar that `make_index_storage` accepts, from the sidecar's module info, NOT from the `.sym` text -/
def servedId (pick : Pick) (text idx : List Byte) : Option (List Byte) :=
  match mapStored pick text (some idx) with
  | .ok ix => (deriveModule ix.moduleInfo).map (·.id)
  | _ => none

/-- the same with an `iter_symbols()` pass between two runs of lookups -/
def serveSession (pick : Pick) (text idx : List Byte) (pre post : List Nat) : Served :=
  match mapStored pick text (some idx) with
  | .notBreakpad => .notBreakpad
  | .noModule => .noModule
  | .panic => .mapPanic
  | .ok ix =>
    let p := lookupSeqC text ix Cache.empty pre
    match iterSymbolsC text ix p.2 ix.addrs 0 with
    | none => .session p.1 none []        -- (the mutex is poisoned; nothing after it is compared)
    | some it => .session p.1 (some it.1) (lookupSeq text ix it.2 post)

end BPC
