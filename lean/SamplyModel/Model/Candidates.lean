/-!
Model of the candidate-selection logic of `samply-symbols` (C06).

Followed code (pinned tree):

* `samply-symbols/src/lib.rs:306-369`   `SymbolManager::load_symbol_map`   → `loadSymbolMap`
* `samply-symbols/src/lib.rs:405-470`   `SymbolManager::load_binary`       → `loadBinary`
* `samply-symbols/src/macho.rs:64-96`   `get_fat_archive_member`           → `fatMember`
* `samply-symbols/src/macho.rs:135-185` `match_score_for_disambiguator`    → `Member.score`
* `samply-symbols/src/elf.rs:76-154`    debuglink candidates + CRC check   → `debugLink`
* `samply-symbols/src/elf.rs:202-238`   `try_to_load_supplementary_file`   → `supplementary`
* `samply-symbols/src/windows.rs:31-64` PDB named by a PE binary           → `pdbCompanion`

What a *file* is, is abstract: a candidate is described by what the real parsers (`object`, `pdb`,
the Breakpad / jitdump readers — all outside the model) report when that file is loaded on its own:
`Load.ok info | unreadable | unparsable`, and for a fat archive the list of its members with their
architecture name, `LC_UUID` and the member's own load result. The harness determines these
descriptions by doing exactly that with the real code, and prints them into the ops.

Identifier atoms (UUIDs, code ids, architecture names) are of an arbitrary type `ι` with decidable
equality; the driver instantiates `ι := String`.
Core Lean only (linked into the driver executable).
-/
namespace Cand

/-- `debugid::DebugId`: a UUID and an age. -/
structure DebugId (ι : Type) where
  uuid : ι
  age : Nat
deriving DecidableEq, Repr

/-- `DebugId::from_uuid` (age 0) -/
def DebugId.ofUuid {ι : Type} (u : ι) : DebugId ι := ⟨u, 0⟩

/-- what loading one file on its own yields -/
inductive Load (α : Type) where
  | ok (a : α)
  /-- `helper.load_file` failed (`Error::HelperErrorDuringOpenFile`) -/
  | unreadable
  /-- any error of the format detection / the parsers -/
  | unparsable
deriving DecidableEq, Repr

/-- error classes the loops can record for one candidate -/
inductive Err (ι : Type) where
  | open_
  | parse
  /-- `UnmatchedDebugId(actual, _)` / `UnmatchedDebugIdOptional(_, actual)` -/
  | unmatched (actual : Option (DebugId ι))
  /-- `UnmatchedCodeId(_, actual)` -/
  | unmatchedCode (actual : Option ι)
  | fatEmpty
  | fatNoDisamb
  | fatNoMatch
deriving DecidableEq, Repr

/-- `FatArchiveMember` (macho.rs:123-130) plus what loading the member yields -/
structure Member (ι α : Type) where
  arch : Option ι
  uuid : Option ι
  load : Load α
deriving Repr

inductive Candidate (ι α : Type) where
  | single (l : Load α)
  | fat (ms : List (Member ι α))
deriving Repr

/-- `MultiArchDisambiguator` (shared.rs:117-147) -/
inductive Disamb (ι : Type) where
  | arch (a : ι)
  | bestMatch (as : List ι)
  /-- `BestMatchForNative`; `native` is the preference list compiled in for the target (x86_64: `["x86_64h","x86_64"]`) -/
  | native
  | debugId (d : DebugId ι)
deriving Repr

section
variable {ι : Type} [DecidableEq ι] {α : Type}

/-- `Iterator::position` -/
def position (a : ι) : List ι → Option Nat
  | [] => none
  | x :: xs => if x = a then some 0 else (position a xs).map (· + 1)

/-- `FatArchiveMember::match_score_for_disambiguator` (macho.rs:135-185); `none` = no match, lower is better -/
def Member.score (native : List ι) (m : Member ι α) : Disamb ι → Option Nat
  | .arch a => if m.arch = some a then some 0 else none
  | .bestMatch as => match m.arch with
    | some a => position a as
    | none => none
  | .native => match m.arch with
    | some a => position a native
    | none => none
  | .debugId d => if m.uuid.map DebugId.ofUuid = some d then some 0 else none

/-- `Iterator::min_by_key`: the *first* element with the least key -/
def minByKey {β : Type} : List (β × Nat) → Option (β × Nat)
  | [] => none
  | x :: xs => match minByKey xs with
    | none => some x
    | some y => if y.2 < x.2 then some y else some x

/-- `get_fat_archive_member` (macho.rs:64-96) -/
def fatMember (native : List ι) (d : Option (Disamb ι)) (ms : List (Member ι α)) :
    Except (Err ι) (Member ι α) :=
  match ms with
  | [] => .error .fatEmpty                                   -- :71
  | m :: rest =>
    match d with
    | none => if rest.isEmpty then .ok m else .error .fatNoDisamb   -- :75, :81
    | some d =>
      match minByKey ((m :: rest).filterMap fun x => (x.score native d).map fun s => (x, s)) with  -- :84-91
      | some (x, _) => .ok x
      | none => .error .fatNoMatch

def Load.toExcept : Load α → Except (Err ι) α
  | .ok a => .ok a
  | .unreadable => .error .open_
  | .unparsable => .error .parse

/-- `load_symbol_map_from_location` / `load_binary_at_location` (lib.rs:547-687) as far as the identity of
the result goes: a plain file yields what its parser reports; for a fat archive a member is selected first. -/
def Candidate.load (native : List ι) (d : Option (Disamb ι)) : Candidate ι α → Except (Err ι) α
  | .single l => l.toExcept
  | .fat ms =>
    match fatMember native d ms with
    | .error e => .error e
    | .ok m =>
      match m.load with
      | .ok a => .ok a
      | _ => .error .parse
end

/-! ### Symbol maps: `SymbolManager::load_symbol_map` -/

structure SymInfo (ι : Type) where
  debugId : DebugId ι
deriving DecidableEq, Repr

inductive SymOut (ι : Type) where
  /-- the symbol map of candidate number `idx` -/
  | ok (idx : Nat) (m : SymInfo ι)
  | notEnoughInfo
  | noCandidates
  | single (e : Err ι)
  | noneOk (es : List (Err ι))
deriving DecidableEq, Repr

section
variable {ι : Type} [DecidableEq ι]

/-- the candidate loop, lib.rs:330-362: the first candidate whose load succeeds *and* whose debug id equals the
requested one is returned; every other candidate contributes one error, in order -/
def symLoop (native : List ι) (req : DebugId ι) (idx : Nat) :
    List (Candidate ι (SymInfo ι)) → (Nat × SymInfo ι) ⊕ List (Err ι)
  | [] => .inr []
  | c :: cs =>
    match c.load native (some (.debugId req)) with                -- :334-337
    | .ok m =>
      if m.debugId = req then .inl (idx, m)                        -- :354
      else match symLoop native req (idx + 1) cs with
        | .inl r => .inl r
        | .inr es => .inr (.unmatched (some m.debugId) :: es)      -- :356
    | .error e =>
      match symLoop native req (idx + 1) cs with
      | .inl r => .inl r
      | .inr es => .inr (e :: es)                                   -- :359

/-- `load_symbol_map` (the helper's `get_symbol_map_for_library` shortcut answers `None`) -/
def loadSymbolMap (native : List ι) (req : Option (DebugId ι)) (cs : List (Candidate ι (SymInfo ι))) : SymOut ι :=
  match req with
  | none => .notEnoughInfo                                          -- :317
  | some req =>
    match symLoop native req 0 cs with
    | .inl (i, m) => .ok i m
    | .inr [] => .noCandidates                                      -- :364
    | .inr [e] => .single e                                         -- :365
    | .inr es => .noneOk es                                         -- :366
end

/-! ### Binaries: `SymbolManager::load_binary` -/

structure BinInfo (ι : Type) where
  debugId : Option (DebugId ι)
  codeId : Option ι
deriving DecidableEq, Repr

/-- the identifying part of a `LibraryInfo` -/
structure BinReq (ι : Type) where
  hasDebugName : Bool
  debugId : Option (DebugId ι)
  codeId : Option ι
  arch : Option ι
deriving Repr

inductive BinOut (ι : Type) where
  | ok (m : BinInfo ι)
  | notEnoughInfo
  | noCandidates
  | lastErr (e : Err ι)
  /-- the `panic!` at lib.rs:456 -/
  | panic
deriving DecidableEq, Repr

section
variable {ι : Type} [DecidableEq ι]

/-- lib.rs:416-420 -/
def BinReq.disamb (r : BinReq ι) : Option (Disamb ι) :=
  match r.debugId, r.arch with
  | some d, _ => some (.debugId d)
  | none, some a => some (.arch a)
  | none, none => none

/-- lib.rs:422-469: compare the debug id if one was requested, else the code id; remember only the last error -/
def binLoop (native : List ι) (r : BinReq ι) : List (Candidate ι (BinInfo ι)) → Option (Err ι) → BinOut ι
  | [], none => .noCandidates                                       -- :468
  | [], some e => .lastErr e
  | c :: cs, _last =>
    match c.load native r.disamb with
    | .ok m =>
      match r.debugId with
      | some exp =>
        if m.debugId = some exp then .ok m                           -- :446
        else binLoop native r cs (some (.unmatched m.debugId))       -- :449
      | none =>
        match r.codeId with
        | some expc =>
          if m.codeId = some expc then .ok m                         -- :451
          else binLoop native r cs (some (.unmatchedCode m.codeId))  -- :454
        | none => .panic                                             -- :456
    | .error e => binLoop native r cs (some e)                       -- :463

def loadBinary (native : List ι) (r : BinReq ι) (cs : List (Candidate ι (BinInfo ι))) : BinOut ι :=
  if r.codeId.isNone && (!r.hasDebugName || r.debugId.isNone) then .notEnoughInfo   -- :407
  else binLoop native r cs none
end

/-! ### Companion files -/

/-- a candidate for the target of `.gnu_debuglink`; `payload` is whatever loading it makes visible -/
structure DlCand (β : Type) where
  readable : Bool
  /-- CRC-32 of the whole file (`compute_debug_link_crc_of_file_contents`) -/
  crc : Nat
  /-- the file parses as an object file (`ElfSymbolMapDataAndObjects::new`, `ObjectSymbolMap::new` succeed) -/
  parses : Bool
  payload : β
deriving Repr

/-- elf.rs:93-108 with 111-154: first candidate that can be read, whose CRC equals the one in the section, and that parses -/
def debugLinkLoop {β : Type} (wanted : Nat) : List (DlCand β) → Option β
  | [] => none
  | c :: cs =>
    if c.readable && c.crc == wanted && c.parses then some c.payload   -- :122-131, :142-149
    else debugLinkLoop wanted cs

/-- elf.rs:76-92: `link` = the CRC of a well-formed `.gnu_debuglink` section with a UTF-8 name (else `none`);
`hasId` = the main file has a debug id -/
def debugLink {β : Type} (link : Option Nat) (hasId : Bool) (cs : List (DlCand β)) : Option β :=
  match link, hasId with
  | some wanted, true => debugLinkLoop wanted cs
  | _, _ => none

/-- a candidate for the supplementary (`.gnu_debugaltlink`, dwz) file -/
structure SupCand (ι β : Type) where
  readable : Bool
  /-- `object::File::parse` succeeds -/
  isObject : Bool
  /-- its GNU build id -/
  buildId : Option ι
  payload : β
deriving Repr

/-- elf.rs:226-235 -/
def supplementaryLoop {ι β : Type} [DecidableEq ι] (wanted : ι) : List (SupCand ι β) → Option β
  | [] => none
  | c :: cs =>
    if c.readable && c.isObject && decide (c.buildId = some wanted) then some c.payload   -- :227-231
    else supplementaryLoop wanted cs

/-- elf.rs:202-238; `link` = build id stated in a well-formed `.gnu_debugaltlink` section with a UTF-8 path -/
def supplementary {ι β : Type} [DecidableEq ι] (link : Option ι) (cs : List (SupCand ι β)) : Option β :=
  match link with
  | some wanted => supplementaryLoop wanted cs
  | none => none

/-- windows.rs:31-64: the PDB named by a PE binary is used only if it loads and reports the binary's debug id;
otherwise (lib.rs:596-603) the PE file's own symbol map is used -/
def pdbCompanion {ι β : Type} [DecidableEq ι] (binId : DebugId ι) (pdb : Load (SymInfo ι)) (payload : β) : Option β :=
  match pdb with
  | .ok m => if m.debugId = binId then some payload else none   -- :57
  | _ => none

end Cand
