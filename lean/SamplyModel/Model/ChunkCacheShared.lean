import SamplyModel.Model.ChunkCache
/-!
Model of the layer of `samply-symbols/src/shared.rs` through which parsers (`object`, `gimli`, the Mach-O /
dyld-cache code, `external_file.rs`) reach the chunk cache — property C13, third anchored file:

* `FileContentsWrapper::read_entire_data` (:980-982);
* `impl ReadRef for &FileContentsWrapper` (:1006-1025): `read_bytes_at` / `read_bytes_at_until` with the
  error of the `FileContents` method discarded (`Err(())`);
* `RangeReadRef` (:1038-1101): `full_range` (:984), `range` (:988), nested `make_subrange` (:1056) and its
  `ReadRef` impl — offsets shifted by `range_start` with `checked_add`; **`range_size` is never consulted by
  the read methods** (a view can read past its own end as long as the file has the bytes);
  `make_subrange` adds `self.range_start.saturating_add(start)` (repaired by 989a9c95: before, the addition was
  unchecked — a panic with overflow checks, a wrapped offset in release; kept as `View.makeSubrangeLegacy` for
  `C13_legacy_counterexample_subrange_overflow`): a chain of sub-ranges whose starts reach `2^64` yields a
  view that starts at `u64::MAX`, whose non-empty reads fail cleanly in `checked_add` / the overflow check.

`FileContentsWrapper::len` is `file_contents.len()` taken once in `new` (:912); for
`FileContentsWithChunkedCaching` that is the immutable `file_len`, i.e. `St.fileLen`.
`FileContentsWrapper::{read_bytes_at, read_bytes_at_until, read_bytes_into}` (:932-978) are pass-throughs
(feature `partial_read_stats` off) and are what `CC.step` already models.

Not reachable through the crate's public API and therefore neither driven nor modelled: `FileContentsCursor`
(:1103-1166, used by the jitdump reader only).
Core Lean only.
-/
namespace CC

/-- `RangeReadRef` (shared.rs:1039-1044) over `&FileContentsWrapper` -/
structure View where
  start : Nat
  size : Nat
deriving Repr, DecidableEq

/-- `make_subrange` (:1056-1064, repaired by 989a9c95):
`Self::new(self.original_readref, self.range_start.saturating_add(start), size)` -/
def View.makeSubrange (v : View) (start size : Nat) : View :=
  ⟨min (v.start + start) (U64 - 1), size⟩

/-- a chain of nested `make_subrange` calls -/
def View.build (v : View) : List (Nat × Nat) → View
  | [] => v
  | (s, z) :: rest => (v.makeSubrange s z).build rest

/-- The code before 989a9c95: `self.range_start + start` unchecked; `none` = the `u64` addition overflows (a
panic with overflow checks; a release build wraps and reads at the wrapped offset). Kept only for
`C13_legacy_counterexample_subrange_overflow`. -/
def View.makeSubrangeLegacy (v : View) (start size : Nat) : Option View :=
  if U64 ≤ v.start + start then none else some ⟨v.start + start, size⟩

def View.buildLegacy (v : View) : List (Nat × Nat) → Option View
  | [] => some v
  | (s, z) :: rest =>
    match v.makeSubrangeLegacy s z with
    | none => none
    | some v' => v'.buildLegacy rest

/-- `.map_err(|_| ())` (:1014, :1021) -/
def discardErr {α : Type} : Out α → Out α
  | .err _ => .err .discarded
  | o => o

/-- calls of the shared.rs layer. `base = none` is `full_range()`, `some (start, size)` is `range(start, size)`;
`subs` are the arguments of the nested `make_subrange` calls -/
inductive VOp
  | entire
  | wread (o n : Nat)
  | wuntil (r : Range) (d : UInt8)
  | vread (base : Option (Nat × Nat)) (subs : List (Nat × Nat)) (o n : Nat)
  | vuntil (base : Option (Nat × Nat)) (subs : List (Nat × Nat)) (r : Range) (d : UInt8)
deriving Repr, DecidableEq

/-- `full_range` (:984-986) / `range` (:988-990) -/
def viewBase (fileLen : Nat) : Option (Nat × Nat) → View
  | none => ⟨0, fileLen⟩
  | some (s, z) => ⟨s, z⟩

def vstep (c : Cfg) (st : St) : VOp → St × Out (List UInt8)
  | .entire => readBytesAt c st 0 st.fileLen                         -- :981 `self.read_bytes_at(0, self.len())`
  | .wread o n => let r := readBytesAt c st o n; (r.1, discardErr r.2)  -- :1013-1017
  | .wuntil r d => let x := readBytesAtUntil c st r d; (x.1, discardErr x.2)   -- :1020-1024
  | .vread base subs o n =>
    let v := (viewBase st.fileLen base).build subs
    if U64 ≤ v.start + o then (st, .err .discarded)                  -- checked_add :1087
    else let r := readBytesAt c st (v.start + o) n; (r.1, discardErr r.2)      -- :1088 → :1013
  | .vuntil base subs r d =>
    let v := (viewBase st.fileLen base).build subs
    if r.hi < r.lo then (st, .err .discarded)                        -- :1093
    else if U64 ≤ v.start + r.lo then (st, .err .discarded)          -- :1096
    else if U64 ≤ v.start + r.hi then (st, .err .discarded)          -- :1097
    else let x := readBytesAtUntil c st ⟨v.start + r.lo, v.start + r.hi⟩ d; (x.1, discardErr x.2)  -- :1099

/-- the pre-fix `RangeReadRef::read_bytes_at` through a `make_subrange` chain (only for the legacy
counterexample) -/
def vreadLegacy (c : Cfg) (st : St) (base : Option (Nat × Nat)) (subs : List (Nat × Nat)) (o n : Nat) :
    St × Out (List UInt8) :=
  match (viewBase st.fileLen base).buildLegacy subs with
  | none => (st, .panic)
  | some v =>
    if U64 ≤ v.start + o then (st, .err .discarded)
    else let r := readBytesAt c st (v.start + o) n; (r.1, discardErr r.2)

/-- calls of either layer -/
inductive XOp
  | base (op : Op)
  | view (v : VOp)
deriving Repr, DecidableEq

def xstep (c : Cfg) (st : St) : XOp → St × Out (List UInt8)
  | .base op => step c st op
  | .view v => vstep c st v

/-- the state after a history of calls of both layers -/
def xrun (c : Cfg) (fileLen : Nat) (ops : List XOp) : St :=
  ops.foldl (fun st op => (xstep c st op).1) (St.init fileLen)

/-! ### Specification side -/

/-- where a view starts in the file: the sum of all the starts, capped at `u64::MAX` by `make_subrange` -/
def viewStart (base : Option (Nat × Nat)) (subs : List (Nat × Nat)) : Nat :=
  let b := match base with | none => 0 | some (s, _) => s
  if subs.isEmpty then b else min (b + (subs.map (·.1)).sum) (U64 - 1)

/-- what a call of the shared.rs layer must return, from the file alone: the cache-level answer at the shifted
offset, with errors reduced to `Err(())`; shifted offsets that overflow `u64` fail cleanly -/
def vspec (F : List UInt8) : VOp → Out (List UInt8)
  | .entire => .ok F
  | .wread o n => discardErr (specRead F o n)
  | .wuntil r d => discardErr (specUntil F r d)
  | .vread base subs o n =>
    if U64 ≤ viewStart base subs + o then .err .discarded
    else discardErr (specRead F (viewStart base subs + o) n)
  | .vuntil base subs r d => discardErr (specUntil F ⟨viewStart base subs + r.lo, viewStart base subs + r.hi⟩ d)

/-- the cache-level call behind a view call -/
def VOp.under (fileLen : Nat) : VOp → Op
  | .entire => .read 0 fileLen
  | .wread o n => .read o n
  | .wuntil r d => .until_ r d
  | .vread base subs o n => .read (viewStart base subs + o) n
  | .vuntil base subs r d => .until_ ⟨viewStart base subs + r.lo, viewStart base subs + r.hi⟩ d

/-- the wrapper refuses the call before it reaches the cache (shifted offset overflows `u64`, :1087 / :1096 /
:1097; inverted range, :1093) -/
def VOp.refused : VOp → Bool
  | .vread base subs o _ => decide (U64 ≤ viewStart base subs + o)
  | .vuntil base subs r _ =>
    decide (r.hi < r.lo) || decide (U64 ≤ viewStart base subs + r.lo) || decide (U64 ≤ viewStart base subs + r.hi)
  | _ => false

/-- what the wrapper does with the outcome of the cache-level call -/
def VOp.post : VOp → Out (List UInt8) → Out (List UInt8)
  | .entire, o => o
  | _, o => discardErr o

/-- the error a view call reports when the byte source fails -/
def VOp.srcErr : VOp → Err
  | .entire => .source
  | _ => .discarded

def XOp.under (fileLen : Nat) : XOp → Op
  | .base op => op
  | .view v => v.under fileLen

def XOp.srcErr : XOp → Err
  | .base _ => .source
  | .view v => v.srcErr

def xspec (F : List UInt8) (src : Nat → Nat → Option (List UInt8)) : XOp → Out (List UInt8)
  | .base op => spec F src op
  | .view v => vspec F v

end CC
