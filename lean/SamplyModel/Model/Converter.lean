import SamplyModel.Model.ContextSwitch
import SamplyModel.Model.SvmaBias
/-!
Executable model of samply's perf.data converter (C01, C17, C02, C14, C19), following

* `samply/src/import/perf.rs`            (record dispatch, `last_timestamp`)
* `samply/src/linux_shared/converter.rs` (`handle_main_event_sample`, `handle_fork`, `handle_exit`,
  `handle_comm` → `handle_exec` / `handle_thread_rename`, `handle_mmap2`, `add_mmap_marker`,
  `add_module_to_process` case 4, `get_sample_stack`)
* `samply/src/linux_shared/processes.rs` (`get_by_pid`, `recycle_or_get_new`, `remove`, `rename_process`, `finish`)
* `samply/src/linux_shared/process.rs`, `process_threads.rs`, `thread.rs`
* `samply/src/shared/recycling.rs`       (`RecyclerByName`: name ↦ min-heap of handles)
* `samply/src/shared/{unresolved_samples,process_sample_data,lib_mappings,stack_converter,
  stack_depth_limiting_frame_iter,timestamp_converter}.rs`
* the slice of `fxprof_processed_profile::Profile` the converter uses: `add_process`, `add_thread`,
  `set_{process,thread}_{name,start_time,end_time}`, pid/tid suffixing (`make_unique_pid_or_tid`).

Perf-map files (`/tmp/perf-<pid>.map`, `shared/perf_map.rs`) are part of the configuration (`Config.perfMaps`:
the lines of the file of each pid, as they are on disk while the recording is converted); the loader, the JIT
symbol classification and the JS label frames are in `Model/ConvFlush.lean`. `--per-cpu-threads` is
`Config.ncpu` (number of CPUs, 0 = off); the per-CPU thread entries and their samples are derived at flush
time (`ConvFlush.cpuViews`).

Not modelled: unwinding from user stacks (no `user_regs` in generated records), jitdump / marker files,
kernel modules, simpleperf tables, markers other than those of `handle_other_event_sample` (rss_stat,
sched_switch markers of `--per-cpu-threads`, mmap markers), counters, the per-CPU side of context switches (`Cpu::context_switch_data`,
idle samples, cpu deltas of the per-CPU copies: `--per-cpu-threads` is modelled only for recordings without
switch records),
frame categories, the JIT function recycler of `--reuse-threads` (perf maps and per-CPU threads are modelled
for `reuse = false` only), files present on disk (`add_module_to_process` case 2 is modelled separately in
`Model/SvmaBias.lean`).

Core Lean only (linked into the driver executables).
-/
namespace Conv

/-! ## Records (in the order the reader's sorter emits them) -/

inductive Rec
  /-- SAMPLE of the main event; `kernelMode` = `cpu_mode` is kernel; `chain = none` ⇔ no callchain -/
  | sample (pid tid t : Nat) (kernelMode : Bool) (period : Nat) (ip : Nat) (chain : List Nat)
  | fork (pid tid ppid ptid t : Nat)
  | exit (pid tid t : Nat)
  /-- COMM; `t` is the record's timestamp (`0` = "no timestamp") -/
  | comm (pid tid : Nat) (name : String) (isExec : Bool) (t : Nat)
  /-- MMAP2; `t` = `last_timestamp` at dispatch (the record's own timestamp with sample_id_all) -/
  | mmap2 (pid tid addr len pgoff : Nat) (exec : Bool) (path : String) (t : Nat)
  /-- PERF_RECORD_SWITCH / SWITCH_CPU_WIDE without the SWITCH_OUT misc bit (pid, tid, time from the
  `sample_id_all` trailer) -/
  | switchIn (pid tid t : Nat)
  /-- PERF_RECORD_SWITCH / SWITCH_CPU_WIDE with PERF_RECORD_MISC_SWITCH_OUT (`preempted` only feeds markers) -/
  | switchOut (pid tid t : Nat)
  /-- SAMPLE of the event named `sched:sched_switch` (`handle_sched_switch_sample`) -/
  | sched (pid tid t : Nat) (kernelMode : Bool) (ip : Nat) (chain : List Nat)
  /-- SAMPLE of an event that is neither the main event nor `sched:sched_switch` nor `kmem:rss_stat`
  (import/perf.rs:209-228 ⇒ `handle_other_event_sample`, converter.rs:538-591): becomes a marker named after the
  event with the sample's stack attached -/
  | otherEvent (pid tid t : Nat) (kernelMode : Bool) (ip : Nat) (chain : List Nat)
deriving Repr, DecidableEq

/-- `OffCpuIndicator` (event_interpretation.rs:17) -/
inductive OffCpu
  | contextSwitches
  | schedSwitchAndSamples
deriving Repr, DecidableEq

structure Config where
  /-- `--reuse-threads` -/
  reuse : Bool := false
  /-- `--fold-recursive-prefix` -/
  fold : Bool := false
  /-- `first_sample_time` from the SAMPLE_TIME feature section (0 when absent) -/
  ref : Nat := 0
  /-- the perf map files present while the recording is converted: pid ↦ lines of `/tmp/perf-<pid>.map` in
  file order (a pid without entry has no file) -/
  perfMaps : List (Nat × List (List Char)) := []
  /-- `--per-cpu-threads`: number of CPUs of the recording (0 = option off); the CPU of a sample is a fixed
  function of its timestamp (`cpuOf`), the same in the harness's perf.data writer -/
  ncpu : Nat := 0
  /-- `interpretation.off_cpu_indicator` (event_interpretation.rs:65-73): `contextSwitches` when the main
  event's attr has the `context_switch` bit, else `schedSwitchAndSamples` when an event is named
  `sched:sched_switch`, else none -/
  offCpu : Option OffCpu := none
  /-- `off_cpu_sampling_interval_ns` (converter.rs:155-159): the main event's sampling interval in ns when
  sampling is time based (`1_000_000_000 / freq`, or the period of a cpu-clock / task-clock event), else
  1 000 000. The attr of recordings without context-switch settings is cpu-clock with period 1 000 000. -/
  interval : Nat := 1000000
  /-- `off_cpu_weight_per_sample`: 1 when sampling is time based, else 0 -/
  offWeight : Nat := 1
  /-- ELF files that exist on disk while the recording is converted (path ↦ image base and LOAD segments as
  the converter reads them): MMAP2 records naming one of them are attributed segment-based
  (`add_module_to_process` case 2), all others offset-based (case 4) -/
  files : List (String × SvmaBias.FileInfo) := []
deriving Repr

/-! ## Profile entry tables (the part of `Profile` the converter drives) -/

structure PEntry where
  pid : Nat
  /-- 0 = plain "pid", k = "pid.k" -/
  suffix : Nat
  name : String
  start : Nat
  end_ : Option Nat := none
deriving Repr, DecidableEq

structure TEntry where
  /-- index into the process entry table -/
  proc : Nat
  tid : Nat
  suffix : Nat
  name : Option String := none
  start : Nat
  end_ : Option Nat := none
  isMain : Bool
deriving Repr, DecidableEq

/-! ## Library mappings (abstract live list; `Model/LibMappings.lean` + C11 show that the real
`LibMappings` BTreeMap refines exactly this) -/

/-- `JsName` of jit_category_manager.rs (the string handle is the string) -/
inductive JsName
  | selfHosted (s : String)
  | nonSelfHosted (s : String)
deriving Repr, DecidableEq

/-- `JsFrame` of jit_category_manager.rs; `NativeFrameIsJs` is never constructed (dead code) -/
inductive JsFrame
  /-- `RegularInAdditionToNativeFrame` -/
  | regular (n : JsName)
  /-- `BaselineInterpreterStub` -/
  | stub (n : JsName)
  /-- `BaselineInterpreter` -/
  | baselineInterp
deriving Repr, DecidableEq

/-- one mapping: address range, relative address at its start, library path, and `LibMappingInfo::js_frame`
(`none` for regular libraries, `classify name` for a perf-map function) -/
structure MapAdd where
  start : Nat
  end_ : Nat
  rel : Nat
  lib : String
  js : Option JsFrame := none
deriving Repr, DecidableEq

/-- `LibMappings::add_mapping` on the live list. Displaced = every mapping whose range intersects the new
range (`range(removal_start..end)` over the non-overlapping map) and the mapping stored under the same start
key (`insert` replaces it; this matters only for empty ranges, which intersect nothing). -/
def applyAdd (maps : List MapAdd) (x : MapAdd) : List MapAdd :=
  maps.filter (fun m => !((decide (m.start < x.end_) && decide (x.start < m.end_)) || m.start == x.start)) ++ [x]

def lookupMap (maps : List MapAdd) (a : Nat) : Option MapAdd :=
  maps.find? (fun m => decide (m.start ≤ a) && decide (a < m.end_))

/-! ## Converter state -/

/-- `StackFrame` of shared/types.rs without the truncated marker -/
inductive SFrame
  | ip (a : Nat) (kernel : Bool)
  | ret (a : Nat) (kernel : Bool)
deriving Repr, DecidableEq

/-- `SampleOrMarker` of shared/unresolved_samples.rs:161 — the kind of a buffered item
(`UnresolvedSampleOrMarker`). The code's `Sample` arm is split in two by a ghost distinction the flush never
reads (it only asks `isMarker`): `recorded` = the item made from a main-event SAMPLE record itself,
`offCpu` = a sample synthesized from an off-CPU group (`process_off_cpu_sample_group`);
`marker` = `MarkerHandle(mh)`: a stack to be attached to an already added marker (`attach_stack_to_marker`). -/
inductive ItemKind
  | recorded
  | offCpu
  | marker
deriving Repr, DecidableEq

/-- `UnresolvedSampleOrMarker`: the fields common to both arms (`thread_handle`, `timestamp`, `timestamp_mono`,
`stack`, `extra_label_frame` — the latter as `tlabel`, read only with `--per-cpu-threads`), the `SampleData` of
the `Sample` arm (`cpu`, `weight`; 0 and unread for a marker item) and the arm itself (`kind`). -/
structure USample where
  /-- thread entry (ThreadHandle) -/
  th : Nat
  /-- profile timestamp (ns since reference) -/
  t : Nat
  /-- raw timestamp -/
  tmono : Nat
  /-- argument of `CpuDelta::from_nanos` (the profile stores `cpu / 1000` µs) -/
  cpu : Nat
  /-- `SampleData::weight` (an `i32`; never negative here) -/
  weight : Nat := 1
  /-- `sample_or_marker`; the flush reads only `kind = .marker` (which arm), the split recorded / offCpu is ghost -/
  kind : ItemKind := .recorded
  /-- callee-most first, as `get_sample_stack` builds it -/
  stack : List SFrame
  /-- `thread.thread_label` at the time of the sample: the label frame of the per-CPU copies of this sample
  (converter.rs:346-376; only read when `Config.ncpu ≠ 0`) -/
  tlabel : String := ""
  /-- ghost (not part of the code's state, never read by the model's outputs): the pid / tid of the SAMPLE
  record this entry was created from; used to state the tagging invariant of C01 -/
  gpid : Nat := 0
  gtid : Nat := 0
deriving Repr, DecidableEq

/-- ghost: the item is **not** the sample made from a main-event SAMPLE record itself, i.e. it is a sample
synthesized from an off-CPU group or a marker item. Not read by the flush. -/
def USample.synth (u : USample) : Bool := u.kind != .recorded

/-- `SampleOrMarker::MarkerHandle` -/
def USample.marker (u : USample) : Bool := u.kind == .marker

@[simp] theorem USample.synth_mk (th t tmono cpu weight : Nat) (kind : ItemKind) (stack : List SFrame)
    (tlabel : String) (gpid gtid : Nat) :
    (USample.mk th t tmono cpu weight kind stack tlabel gpid gtid).synth = (kind != .recorded) := rfl
@[simp] theorem USample.marker_mk (th t tmono cpu weight : Nat) (kind : ItemKind) (stack : List SFrame)
    (tlabel : String) (gpid gtid : Nat) :
    (USample.mk th t tmono cpu weight kind stack tlabel gpid gtid).marker = (kind == .marker) := rfl
@[simp] theorem ItemKind.recorded_bne : (ItemKind.recorded != ItemKind.recorded) = false := rfl
@[simp] theorem ItemKind.offCpu_bne : (ItemKind.offCpu != ItemKind.recorded) = true := rfl
@[simp] theorem ItemKind.marker_bne : (ItemKind.marker != ItemKind.recorded) = true := rfl
@[simp] theorem ItemKind.recorded_beq : (ItemKind.recorded == ItemKind.marker) = false := rfl
@[simp] theorem ItemKind.offCpu_beq : (ItemKind.offCpu == ItemKind.marker) = false := rfl
@[simp] theorem ItemKind.marker_beq : (ItemKind.marker == ItemKind.marker) = true := rfl
/-- a recorded sample is not a marker item -/
theorem USample.marker_of_not_synth (u : USample) (h : u.synth = false) : u.marker = false := by
  unfold USample.synth at h; unfold USample.marker; cases hk : u.kind <;> simp_all

structure ThreadC where
  h : Nat
  lastTs : Option Nat := none
  name : Option String := none
  /-- `Thread::context_switch_data` (a new `Thread` starts with `Default::default()`) -/
  cs : CS.St := CS.St.init
  /-- `Thread::off_cpu_stack`: the stack of the last `sched:sched_switch` sample (kernel frames removed),
  callee-most first; cleared by every on-CPU sample and every switch-in -/
  offStack : Option (List SFrame) := none
deriving Repr, DecidableEq

/-- `RecyclerByName<ThreadHandle>`: name ↦ handles (the min-heap is modelled by taking the minimum) -/
abbrev Pool := List (String × List Nat)

structure ProcRecycle where
  ph : Nat
  mainTh : Nat
  pool : Pool
deriving Repr

structure ProcC where
  pid : Nat
  h : Nat
  name : Option String
  main : ThreadC
  threads : List (Nat × ThreadC) := []
  samples : List USample := []
  mapq : List (Nat × MapAdd) := []
  /-- `thread_recycler` (present iff reuse is on) -/
  pool : Pool := []
deriving Repr

structure St where
  cfg : Config
  procs : List (Nat × ProcC) := []
  pents : List PEntry := []
  tents : List TEntry := []
  usedPids : List (Nat × Nat) := []
  usedTids : List (Nat × Nat) := []
  /-- `process_sample_datas`: buffers of removed processes, in removal order: samples, regular mapping
  queue, and the pid (`try_load_perf_map(self.pid)` in `Process::finish`) -/
  parked : List (List USample × List (Nat × MapAdd) × Nat) := []
  /-- `process_recycler` pools: name ↦ recycling data -/
  procPool : List (String × List ProcRecycle) := []
  /-- `current_sample_time` -/
  cur : Nat
  /-- a `u64` subtraction / division / debug assertion inside `ContextSwitchHandler` failed
  (`CS.stepSafe` false): the import has panicked, the state is meaningless from here on -/
  bad : Bool := false
deriving Repr

def St.init (cfg : Config) : St := { cfg, cur := cfg.ref }

/-- `TimestampConverter::convert_time` (saturating) -/
def conv (s : St) (t : Nat) : Nat := t - s.cfg.ref

/-! ### association-list helpers -/

def alGet {β} (l : List (Nat × β)) (k : Nat) : Option β := (l.find? (fun p => p.1 == k)).map (·.2)
def alDel {β} (l : List (Nat × β)) (k : Nat) : List (Nat × β) := l.filter (fun p => !(p.1 == k))
def alPut {β} (l : List (Nat × β)) (k : Nat) (v : β) : List (Nat × β) := (k, v) :: alDel l k

def modifyNth {α} (l : List α) (i : Nat) (f : α → α) : List α :=
  match l, i with
  | [], _ => []
  | x :: xs, 0 => f x :: xs
  | x :: xs, i + 1 => x :: modifyNth xs i f

/-! ### pools (`RecyclerByName`) -/

def poolAdd (p : Pool) (name : String) (h : Nat) : Pool :=
  match p.find? (fun e => e.1 == name) with
  | some e => (name, h :: e.2) :: p.filter (fun e => !(e.1 == name))
  | none => (name, [h]) :: p

def listMin : List Nat → Option Nat
  | [] => none
  | x :: xs => some (xs.foldl min x)

/-- pop the smallest handle stored under `name` -/
def poolTake (p : Pool) (name : String) : Option (Nat × Pool) :=
  match p.find? (fun e => e.1 == name) with
  | none => none
  | some e =>
    match listMin e.2 with
    | none => none
    | some m =>
      let rest := e.2.erase m
      let p' := p.filter (fun e => !(e.1 == name))
      some (m, if rest.isEmpty then p' else (name, rest) :: p')

def procPoolAdd (p : List (String × List ProcRecycle)) (name : String) (r : ProcRecycle) :
    List (String × List ProcRecycle) :=
  match p.find? (fun e => e.1 == name) with
  | some e => (name, r :: e.2) :: p.filter (fun e => !(e.1 == name))
  | none => (name, [r]) :: p

def procPoolTake (p : List (String × List ProcRecycle)) (name : String) :
    Option (ProcRecycle × List (String × List ProcRecycle)) :=
  match p.find? (fun e => e.1 == name) with
  | none => none
  | some e =>
    match listMin (e.2.map (·.ph)) with
    | none => none
    | some m =>
      match e.2.find? (fun r => r.ph == m) with
      | none => none
      | some r =>
        let rest := e.2.filter (fun r => !(r.ph == m))
        let p' := p.filter (fun e => !(e.1 == name))
        some (r, if rest.isEmpty then p' else (name, rest) :: p')

/-! ### Profile API slice -/

/-- `make_unique_pid_or_tid`: returns the suffix to use and bumps the counter -/
def uniq (m : List (Nat × Nat)) (id : Nat) : List (Nat × Nat) × Nat :=
  match alGet m id with
  | some k => (alPut m id (k + 1), k)
  | none => (alPut m id 1, 0)

def addProcess (s : St) (name : String) (pid start : Nat) : St × Nat :=
  let (m, suf) := uniq s.usedPids pid
  ({ s with usedPids := m, pents := s.pents ++ [{ pid, suffix := suf, name, start }] }, s.pents.length)

def addThread (s : St) (ph tid start : Nat) (isMain : Bool) : St × Nat :=
  let (m, suf) := uniq s.usedTids tid
  ({ s with usedTids := m, tents := s.tents ++ [{ proc := ph, tid, suffix := suf, start, isMain }] },
    s.tents.length)

def setT (s : St) (h : Nat) (f : TEntry → TEntry) : St := { s with tents := modifyNth s.tents h f }
def setP (s : St) (h : Nat) (f : PEntry → PEntry) : St := { s with pents := modifyNth s.pents h f }

def setTName (s : St) (h : Nat) (n : String) : St := setT s h (fun e => { e with name := some n })
def setTStart (s : St) (h : Nat) (t : Nat) : St := setT s h (fun e => { e with start := t })
def setTEnd (s : St) (h : Nat) (t : Nat) : St := setT s h (fun e => { e with end_ := some t })
def setPName (s : St) (h : Nat) (n : String) : St := setP s h (fun e => { e with name := n })
def setPStart (s : St) (h : Nat) (t : Nat) : St := setP s h (fun e => { e with start := t })
def setPEnd (s : St) (h : Nat) (t : Nat) : St := setP s h (fun e => { e with end_ := some t })

def putProc (s : St) (p : ProcC) : St := { s with procs := alPut s.procs p.pid p }
def delProc (s : St) (pid : Nat) : St := { s with procs := alDel s.procs pid }

def pidLabel (pid : Nat) : String := "<" ++ toString pid ++ ">"

/-! ### Processes / ProcessThreads -/

/-- `Processes::get_by_pid` -/
def getByPid (s : St) (pid : Nat) : St × ProcC :=
  match alGet s.procs pid with
  | some p => (s, p)
  | none =>
    let (s, ph) := addProcess s (pidLabel pid) pid 0
    let (s, th) := addThread s ph pid 0 true
    let p : ProcC := { pid, h := ph, name := none, main := { h := th } }
    (putProc s p, p)

/-- `Processes::recycle_or_get_new` -/
def getNewProc (s : St) (pid : Nat) (name : Option String) (start : Nat) : St × ProcC :=
  match alGet s.procs pid with
  | none =>
    let recycled : Option (ProcRecycle × List (String × List ProcRecycle)) :=
      if s.cfg.reuse then (match name with | some n => procPoolTake s.procPool n | none => none) else none
    match recycled with
    | some (r, pool') =>
      let p : ProcC := { pid, h := r.ph, name, main := { h := r.mainTh, name }, pool := r.pool }
      (putProc { s with procPool := pool' } p, p)
    | none =>
      let (s, ph) := addProcess s (name.getD (pidLabel pid)) pid start
      let (s, th) := addThread s ph pid start true
      let s := match name with | some n => setTName s th n | none => s
      let p : ProcC := { pid, h := ph, name, main := { h := th, name } }
      (putProc s p, p)
  | some p =>
    let s := if p.main.lastTs.isNone then setTStart (setPStart s p.h start) p.main.h start else s
    (s, p)

/-- `ProcessThreads::get_thread_by_tid`; returns the (possibly extended) process too -/
def getThread (s : St) (p : ProcC) (tid : Nat) : St × ProcC × ThreadC :=
  if tid = p.pid then (s, p, p.main) else
  match alGet p.threads tid with
  | some t => (s, p, t)
  | none =>
    let (s, th) := addThread s p.h tid 0 false
    let t : ThreadC := { h := th }
    let p := { p with threads := alPut p.threads tid t }
    (putProc s p, p, t)

def putThread (p : ProcC) (tid : Nat) (t : ThreadC) : ProcC :=
  if tid = p.pid then { p with main := t } else { p with threads := alPut p.threads tid t }

/-- `ProcessThreads::recycle_or_get_new_thread` -/
def getNewThread (s : St) (p : ProcC) (tid : Nat) (name : Option String) (start : Nat) : St × ProcC :=
  if tid = p.pid then (s, p) else
  match alGet p.threads tid with
  | none =>
    let recycled : Option (Nat × Pool) :=
      if s.cfg.reuse then (match name with | some n => poolTake p.pool n | none => none) else none
    match recycled with
    | some (h, pool') =>
      let p := { p with threads := alPut p.threads tid { h, name }, pool := pool' }
      (putProc s p, p)
    | none =>
      let (s, th) := addThread s p.h tid start false
      let s := match name with | some n => setTName s th n | none => s
      let p := { p with threads := alPut p.threads tid { h := th, name } }
      (putProc s p, p)
  | some t =>
    let s := if t.lastTs.isNone then setTStart s t.h start else s
    (s, p)

/-- `ProcessThreads::remove_non_main_thread` -/
def removeThread (s : St) (p : ProcC) (tid time : Nat) : St × ProcC :=
  match alGet p.threads tid with
  | none => (s, p)
  | some t =>
    let s := setTEnd s t.h time
    let pool := match t.name with
      | some n => if s.cfg.reuse then poolAdd p.pool n t.h else p.pool
      | none => p.pool
    let p := { p with threads := alDel p.threads tid, pool }
    (putProc s p, p)

/-- `Processes::remove` (= `notify_dead` + `Process::finish` + parking the buffer + recycling) -/
def removeProc (s : St) (pid time : Nat) : St :=
  match alGet s.procs pid with
  | none => s
  | some p =>
    let s := p.threads.foldl (fun s e => setTEnd s e.2.h time) s
    let pool := if s.cfg.reuse then
        p.threads.foldl (fun pool e => match e.2.name with | some n => poolAdd pool n e.2.h | none => pool) p.pool
      else p.pool
    let s := setTEnd s p.main.h time
    let s := setPEnd s p.h time
    let s := if p.samples.isEmpty then s else { s with parked := s.parked ++ [(p.samples, p.mapq, p.pid)] }
    let s := match p.name with
      | some n => if s.cfg.reuse then
          { s with procPool := procPoolAdd s.procPool n { ph := p.h, mainTh := p.main.h, pool } } else s
      | none => s
    delProc s pid

/-- `Processes::rename_process` -/
def renameProcess (s : St) (pid time : Nat) (name : String) : St :=
  match alGet s.procs pid with
  | none => (getNewProc s pid (some name) time).1
  | some p =>
    if p.name = some name then s else
    let recycled := if s.cfg.reuse then procPoolTake s.procPool name else none
    match recycled with
    | some (r, pool') =>
      -- `rename_with_recycling`: swap in the recycled handles, give the old ones to the pool
      let old : ProcRecycle := { ph := p.h, mainTh := p.main.h, pool := p.pool }
      let pool'' := match p.name with | some on => procPoolAdd pool' on old | none => pool'
      let p' := { p with h := r.ph, name := some name, main := { p.main with h := r.mainTh, name := some name },
                          pool := r.pool }
      putProc { s with procPool := pool'' } p'
    | none =>
      let s := setPName s p.h name
      let s := setTName s p.main.h name
      putProc s { p with name := some name, main := { p.main with name := some name } }

/-- `ProcessThreads::rename_non_main_thread` -/
def renameThread (s : St) (p : ProcC) (tid time : Nat) (name : String) : St :=
  if tid = p.pid then s else
  match alGet p.threads tid with
  | none => (getNewThread s p tid (some name) time).1
  | some th =>
    if th.name = some name then s else
    if s.cfg.reuse then
      match poolTake p.pool name with
      | some (h, pool') =>
        let pool'' := match th.name with | some on => poolAdd pool' on th.h | none => pool'
        putProc s { p with threads := alPut p.threads tid { th with h, name := some name }, pool := pool'' }
      | none => s   -- process_threads.rs:125-137: with a recycler but no pool entry the rename is dropped
    else
      let s := setTName s th.h name
      putProc s (putThread p tid { th with name := some name })

/-! ### Sample stacks (`get_sample_stack`, callchain part) -/

def PERF_CONTEXT_MAX : Nat := 2^64 - 4095
def CTX_KERNEL : Nat := 2^64 - 128
def CTX_USER : Nat := 2^64 - 512
def CTX_GUEST : Nat := 2^64 - 2048
def CTX_GUEST_KERNEL : Nat := 2^64 - 2176
def CTX_GUEST_USER : Nat := 2^64 - 2560

def ctxMode (a : Nat) (cur : Bool) : Bool :=
  if a = CTX_KERNEL ∨ a = CTX_GUEST_KERNEL then true
  else if a = CTX_USER ∨ a = CTX_GUEST ∨ a = CTX_GUEST_USER then false
  else cur

def chainFrames : Bool → Bool → List Nat → List SFrame
  | _, _, [] => []
  | first, kernel, a :: as =>
    if a ≥ PERF_CONTEXT_MAX then chainFrames first (ctxMode a kernel) as
    else (if first then SFrame.ip a kernel else SFrame.ret a kernel) :: chainFrames false kernel as

/-- drop the trailing run of frames equal to the last one, keeping one (`fold_recursive_prefix`) -/
def foldPrefixRev : List SFrame → List SFrame
  | a :: b :: rest => if a = b then foldPrefixRev (a :: rest) else a :: b :: rest
  | l => l
termination_by l => l.length

def sampleStack (cfg : Config) (kernelMode : Bool) (ip : Nat) (chain : List Nat) : List SFrame :=
  let st := chainFrames true kernelMode chain
  if st.isEmpty then [SFrame.ip ip kernelMode]
  else if cfg.fold then (foldPrefixRev st.reverse).reverse else st

/-- `make_thread_label` (process_threads.rs:202): the label of the thread's samples on the per-CPU tracks.
Without `--reuse-threads` a thread's label is always the one made from its current name. -/
def threadLabel (name : Option String) (pid tid : Nat) : String :=
  match name with
  | some n => n ++ " (pid: " ++ toString pid ++ ", tid: " ++ toString tid ++ ")"
  | none => "Thread " ++ toString tid ++ " (pid: " ++ toString pid ++ ", tid: " ++ toString tid ++ ")"

/-! ### Context switches and off-CPU samples -/

/-- `i32::try_from(n).unwrap_or(0)` (converter.rs:1845) -/
def i32OrZero (n : Nat) : Nat := if n < 2^31 then n else 0

/-- `process_off_cpu_sample_group` (converter.rs:1811-1857): the sample at the beginning of the paused range
carries the cpu delta and one unit of weight; if the group stands for more than one sample, a "rest sample" at
the end carries the other `count - 1` units and cpu delta 0. Both get `begin_timestamp` as raw timestamp
(converter.rs:1835, 1850). -/
def offCpuGroup (s : St) (th : Nat) (g : CS.Group) (cpuNs : Nat) (stack : List SFrame) (tlabel : String)
    (pid tid : Nat) : List USample :=
  let first : USample := { th, t := conv s g.begin_, tmono := g.begin_, cpu := cpuNs, weight := s.cfg.offWeight,
                           kind := .offCpu, stack, tlabel, gpid := pid, gtid := tid }
  if g.count > 1 then
    [first, { th, t := conv s g.end_, tmono := g.begin_, cpu := 0,
              weight := i32OrZero (g.count - 1) * s.cfg.offWeight, kind := .offCpu, stack, tlabel,
              gpid := pid, gtid := tid }]
  else [first]

/-- converter.rs:283-301 (sample path, `e = .sample t`) and :854-872 (switch-in, `e = .switchIn t`): feed the
event to the thread's context-switch data; the tuple `(off_cpu_sample, thread.off_cpu_stack.take())` is built
first, so the stored off-CPU stack is cleared in every case; only when both are present the pending cpu delta
is consumed and the group is turned into samples — a group without a stored stack is dropped (its time has
already left the accumulator). Returns the thread, the emitted samples and whether all checked arithmetic
succeeded. -/
def wake (s : St) (th : ThreadC) (e : CS.Ev) (pid tid : Nat) : ThreadC × List USample × Bool :=
  let safe := CS.stepSafe s.cfg.interval th.cs e
  let r := CS.step s.cfg.interval th.cs e
  match r.2.1, th.offStack with
  | some g, some stk =>
    let c := CS.step s.cfg.interval r.1 .consume
    ({ th with cs := c.1, offStack := none },
      offCpuGroup s th.h g (c.2.2.getD 0) stk (threadLabel th.name pid tid) pid tid, safe)
  | _, _ => ({ th with cs := r.1, offStack := none }, [], safe)

/-- `UnresolvedStacks::convert_no_kernel`: the stack without its kernel-mode frames -/
def noKernel (st : List SFrame) : List SFrame :=
  st.filter (fun f => match f with | .ip _ k => !k | .ret _ k => !k)

/-- the thread-level part of `handle_main_event_sample` after the duplicate check (converter.rs:279-325):
returns the thread, the samples appended to the process's buffer (a possible off-CPU group, then the sample
itself) and whether all checked arithmetic succeeded -/
def sampleThread (s : St) (th : ThreadC) (pid tid t period : Nat) (stack : List SFrame) :
    ThreadC × List USample × Bool :=
  let th := { th with lastTs := some t }
  -- converter.rs:282-301: consume off-cpu time, clear the saved off-CPU stack, maybe emit the group
  let w := wake s th (.sample t) pid tid
  -- converter.rs:303-314
  let c := CS.step s.cfg.interval w.1.cs .consume
  let thc : ThreadC × Nat := if s.cfg.offCpu.isSome then ({ w.1 with cs := c.1 }, c.2.2.getD 0) else (w.1, period)
  let u : USample := { th := th.h, t := conv s t, tmono := t, cpu := thc.2, stack,
                       tlabel := threadLabel th.name pid tid, gpid := pid, gtid := tid }
  (thc.1, w.2.1 ++ [u], w.2.2)

/-- `ContextSwitchRecord::Out` (converter.rs:928-930) -/
def switchOutThread (s : St) (th : ThreadC) (t : Nat) : ThreadC × List USample × Bool :=
  ({ th with cs := (CS.step s.cfg.interval th.cs (.switchOut t)).1 }, [],
    CS.stepSafe s.cfg.interval th.cs (.switchOut t))

/-- `handle_sched_switch_sample` (converter.rs:403-418): store the stack (kernel frames removed); in
`SchedSwitchAndSamples` mode the sample also counts as a switch-out -/
def schedThread (s : St) (th : ThreadC) (t : Nat) (stack : List SFrame) : ThreadC × List USample × Bool :=
  let th := { th with offStack := some (noKernel stack) }
  if s.cfg.offCpu == some .schedSwitchAndSamples then switchOutThread s th t else (th, [], true)

/-- `UnresolvedSamples::attach_stack_to_marker` (unresolved_samples.rs:124-140): the pushed item -/
def markerItem (s : St) (h pid tid t : Nat) (stack : List SFrame) : USample :=
  { th := h, t := conv s t, tmono := t, cpu := 0, weight := 0, kind := .marker, stack, gpid := pid, gtid := tid }

/-- `handle_other_event_sample` (converter.rs:538-591) after the lookups: the thread object is not touched
(no `last_sample_timestamp`, no context-switch data, no off-CPU stack); `add_marker` on the thread's entry and
`attach_stack_to_marker` (unresolved_samples.rs:124-140) push one marker item with the **whole** stack
(`unresolved_stacks.convert`, kernel frames included), `extra_label_frame: None`, converted and raw timestamp.
Never fails. -/
def otherEventThread (s : St) (th : ThreadC) (pid tid t : Nat) (stack : List SFrame) :
    ThreadC × List USample × Bool :=
  (th, [markerItem s th.h pid tid t stack], true)

/-- store the thread back, append the emitted samples to the process's buffer, record a panic -/
def commitThread (s : St) (p : ProcC) (tid : Nat) (r : ThreadC × List USample × Bool) : St :=
  let p := putThread p tid r.1
  putProc { s with bad := s.bad || !r.2.2 } { p with samples := p.samples ++ r.2.1 }

/-! ### MMAP2 records that are not queued -/

/-- `DsoKey::detect(path, cpu_mode) == None` (linux-perf-data dso_key.rs:41-43): for these paths `handle_mmap2`
returns before `add_module_to_process` (converter.rs:775-786) — nothing is queued, no process entry is
created, and **whatever was mapped there before stays live** -/
def specialPath (path : String) : Bool :=
  path == "//anon" || path == "[stack]" || path == "[heap]" || path == "[vvar]"

/-- `relative_address_at_start` of an executable mapping. File absent (case 4, converter.rs:1544-1545):
`(start − (start − pgoff)) as u32`. File present (case 2, :1452-1463): segment-based, `SvmaBias.relStart`;
`.notFound` = `compute_base_avma` returns `None`, the function returns without queueing. -/
def mapRel (cfg : Config) (path : String) (pgoff addr len : Nat) : SvmaBias.Out :=
  match cfg.files.find? (fun f => f.1 == path) with
  | none => .ok (pgoff % 2 ^ 32)
  | some f => SvmaBias.relStart f.2 pgoff addr len

/-- the operations an executable, non-special MMAP2 record appends to its process's queue: one, or none when
`add_module_to_process` returns early (`compute_base_avma = None`) -/
def mapOps (cfg : Config) (addr len pgoff : Nat) (path : String) (t : Nat) : List (Nat × MapAdd) :=
  match mapRel cfg path pgoff addr len with
  | .ok rel => [(t, { start := addr, end_ := addr + len, rel := rel, lib := path })]
  | _ => []

/-! ### One record -/

def step (s : St) : Rec → St
  | .sample pid tid t km period ip chain =>
    if tid = 0 then s else
    let s := { s with cur := t }
    let (s, p) := getByPid s pid
    let (s, p, th) := getThread s p tid
    if th.lastTs = some t then s else
    commitThread s p tid (sampleThread s th pid tid t period (sampleStack s.cfg km ip chain))
  | .switchIn pid tid t =>
    -- handle_context_switch, `ContextSwitchRecord::In` (converter.rs:838-872)
    if tid = 0 then s else
    let (s, p) := getByPid s pid
    let (s, p, th) := getThread s p tid
    commitThread s p tid (wake s th (.switchIn t) pid tid)
  | .switchOut pid tid t =>
    if tid = 0 then s else
    let (s, p) := getByPid s pid
    let (s, p, th) := getThread s p tid
    commitThread s p tid (switchOutThread s th t)
  | .sched pid tid t km ip chain =>
    -- tid 0 is not special in `handle_sched_switch_sample`
    let (s, p) := getByPid s pid
    let (s, p, th) := getThread s p tid
    commitThread s p tid (schedThread s th t (sampleStack s.cfg km ip chain))
  | .otherEvent pid tid t km ip chain =>
    -- converter.rs:548 `get_by_pid`, :565-574 `get_thread_by_tid` (tid 0 is not special; the record always
    -- carries a tid: the `None => main_thread` arm needs a sample type without PERF_SAMPLE_TID), :576-590 marker +
    -- attached stack; `current_sample_time` is not updated (only `handle_main_event_sample` does, :251)
    let (s, p) := getByPid s pid
    let (s, p, th) := getThread s p tid
    commitThread s p tid (otherEventThread s th pid tid t (sampleStack s.cfg km ip chain))
  | .fork pid tid ppid ptid t =>
    let start := conv s t
    let (s, parent) := getByPid s ppid
    if pid ≠ ppid then
      let (s, child) := getNewProc s pid parent.name start
      putProc s { child with mapq := parent.mapq }
    else
      let (s, parent, pt) := getThread s parent ptid
      (getNewThread s parent tid pt.name start).1
  | .exit pid tid t =>
    let time := conv s t
    if pid = tid then removeProc s pid time
    else
      -- `Processes::get_existing_by_pid` (fix 8ede2c85): the EXIT record of a thread whose process is not
      -- known (already gone, or never seen) is ignored — no process entry is created for it
      match alGet s.procs pid with
      | none => s
      | some p => (removeThread s p tid time).1
  | .comm pid tid name isExec t =>
    let tm := if t = 0 then s.cur else t
    let time := conv s tm
    if isExec then
      if pid = tid then
        let s := removeProc s pid time
        (getNewProc s pid (some name) time).1
      else
        let (s, p) := getByPid s pid
        let (s, p) := removeThread s p tid time
        (getNewThread s p tid (some name) time).1
    else if pid = tid then renameProcess s pid time name
    else
      let (s, p) := getByPid s pid
      renameThread s p tid time name
  | .mmap2 pid tid addr len pgoff exec path t =>
    -- add_mmap_marker: creates process and thread entries on demand
    let s := if s.cur = s.cfg.ref || path.isEmpty then s else
      let (s, p) := getByPid s pid
      (getThread s p tid).1
    if !exec then s else
    -- `//anon`, `[heap]`, `[stack]`, `[vvar]`: `handle_mmap2` returns, the record is ignored
    if specialPath path then s else
    -- add_module_to_process: `get_by_pid` (converter.rs:1353), then case 2 (file present: segment-based, or an
    -- early return that queues nothing) / case 4 (file absent: relative start = page offset as u32)
    let (s, p) := getByPid s pid
    putProc s { p with mapq := p.mapq ++ mapOps s.cfg addr len pgoff path t }

def run (cfg : Config) (rs : List Rec) : St := rs.foldl step (St.init cfg)

/-- `handle_exit` before fix 8ede2c85 (finding C17-phantom-process-on-thread-exit): the non-main branch called
the *creating* `Processes::get_by_pid`, so the EXIT of a thread whose pid had no live process made a process
entry `<pid>` with its main thread, start 0, never ended. Only used by `C17_legacy_counterexample_phantom_process`. -/
def stepLegacy (s : St) : Rec → St
  | .exit pid tid t =>
    if pid = tid then step s (.exit pid tid t)
    else
      let (s', p) := getByPid s pid
      (removeThread s' p tid (conv s t)).1
  | r => step s r

def runLegacy (cfg : Config) (rs : List Rec) : St := rs.foldl stepLegacy (St.init cfg)

/-- all `u64`/`u32` operations of the modelled path that would panic in a debug build -/
def recSafe (cfg : Config) : Rec → Bool
  | .mmap2 _ _ addr len pgoff exec path _ =>
    !exec || specialPath path ||
      -- `AvmaRange::with_start_size`: `start + size` (avma_range.rs:11)
      (decide (addr + len < 2^64) &&
        (match cfg.files.find? (fun f => f.1 == path) with
         -- case 4: `mapping_start_avma - mapping_start_file_offset` (converter.rs:1544)
         | none => decide (pgoff ≤ addr)
         -- case 2: the checked `+` / `-` of `encompasses_file_range` and `compute_vma_bias_impl`,
         -- `mapping_start_avma - module.base_avma()`
         | some f => SvmaBias.relStart f.2 pgoff addr len != .panic))
  | _ => true

end Conv
