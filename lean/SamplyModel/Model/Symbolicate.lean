/-!
Model of `/symbolicate/v5` (C07; reused by C09 for the file paths a response reports).

Follows, branch by branch,

* `samply-api/src/symbolicate/request_json.rs`   (`Request`, `Job`, `Lib`, `StackFrame`, `jobs()`),
* `samply-api/src/symbolicate/mod.rs`            (`gather_requested_addresses` 132-157,
  `symbolicate_requested_addresses{,_for_lib}` 54-129, `create_response` 159-267),
* `samply-api/src/symbolicate/looked_up_addresses.rs` (`for_addresses`, `add_address_symbol`,
  `add_address_debug_info`),
* `samply-api/src/symbolicate/response_json.rs`  (the response structures; the serde `skip_serializing_if`
  rules are applied by the line protocol, not here),
* `samply-api/src/api_file_path.rs`              (`to_api_file_path`).

Everything samply-symbols does (`to_debug_id`, `SymbolManager::load_symbol_map`, `SymbolMap::lookup_sync`,
`SymbolMap::lookup_external`) is the **oracle** `look : Lib → Except Err (Nat → Option AddrInfo)`; the
theorems are parametric in it, the harness supplies its actual values per case.

Arithmetic is on `Nat`. Every `unwrap` / `expect` / slice index / `u32` subtraction of the Rust code is an
explicit `Fail.panic` outcome, so that "no panic" is a theorem (`C07_no_unwrap_panic`) and the driver prints
`panic` exactly where the real code would panic.

Hash maps are association lists (`alookup` / `hinsert`), the `BTreeMap<u32, _>` of `LookedUpAddresses` is a
key-sorted association list (`btInsert`), its sortedness is a separate invariant theorem.

Core Lean only (this file is linked into the `model_c07` executable).
-/
namespace Sym

/-! ### Request (request_json.rs) -/

/-- `request_json::Lib` (request_json.rs:26-30): a memory-map entry `[debugName, breakpadId]`. The derived
`Eq + Hash` on both strings is what keys every per-library table — a malformed id is just another string. -/
structure Lib where
  debugName : String
  breakpadId : String
deriving DecidableEq, Repr

/-- `request_json::StackFrame` (request_json.rs:35-41), after serde's `u32` range checks -/
structure ReqFrame where
  moduleIndex : Nat
  address : Nat
deriving DecidableEq, Repr

/-- `request_json::Job` (request_json.rs:19-24) -/
structure Job where
  memoryMap : List Lib
  stacks : List (List ReqFrame)
deriving DecidableEq, Repr

/-- `request_json::Request` (request_json.rs:3-8): with or without the `jobs` wrapper -/
inductive Request
  | withJobsList (jobs : List Job)
  | justOneJob (job : Job)
deriving Repr

/-- `Request::jobs()` (request_json.rs:10-17) -/
def Request.jobs : Request → List Job
  | .withJobsList jobs => jobs
  | .justOneJob job => [job]

/-! #### What serde does with the numbers of a frame

A frame arrives as a JSON pair of integers; `u32` fields reject negative numbers and anything `≥ 2^32`
(the whole request then fails to parse: `Error::ParseRequestErrorSerde`). -/

structure RawJob where
  memoryMap : List Lib
  stacks : List (List (Int × Int))
deriving Repr

inductive RawRequest
  | withJobsList (jobs : List RawJob)
  | justOneJob (job : RawJob)
deriving Repr

def RawRequest.jobs : RawRequest → List RawJob
  | .withJobsList jobs => jobs
  | .justOneJob job => [job]

def u32Ok (n : Int) : Bool := decide (0 ≤ n) && decide (n < 4294967296)

def decodeFrame (p : Int × Int) : Option ReqFrame :=
  if u32Ok p.1 && u32Ok p.2 then some ⟨p.1.toNat, p.2.toNat⟩ else none

def decodeStack : List (Int × Int) → Option (List ReqFrame)
  | [] => some []
  | p :: rest =>
    match decodeFrame p, decodeStack rest with
    | some f, some fs => some (f :: fs)
    | _, _ => none

def decodeStacks : List (List (Int × Int)) → Option (List (List ReqFrame))
  | [] => some []
  | s :: rest =>
    match decodeStack s, decodeStacks rest with
    | some f, some fs => some (f :: fs)
    | _, _ => none

def decodeJob (j : RawJob) : Option Job :=
  match decodeStacks j.stacks with
  | some st => some ⟨j.memoryMap, st⟩
  | none => none

def decodeJobs : List RawJob → Option (List Job)
  | [] => some []
  | j :: rest =>
    match decodeJob j, decodeJobs rest with
    | some f, some fs => some (f :: fs)
    | _, _ => none

def decode : RawRequest → Option Request
  | .withJobsList jobs => (decodeJobs jobs).map Request.withJobsList
  | .justOneJob job => (decodeJob job).map Request.justOneJob

/-! ### What a direct lookup yields (samply-symbols; the oracle's value type) -/

/-- `samply_symbols::SourceFilePath`: the raw path of the debug info and, when the path mapper knows one,
the "special path" string of the mapped path (`mapped_path().map(to_special_path_str)`) -/
structure FilePath where
  raw : String
  mapped : Option String
deriving DecidableEq, Repr

/-- `api_file_path.rs:3-8` -/
def apiFilePath (fp : FilePath) : String :=
  match fp.mapped with
  | some m => m
  | none => fp.raw

/-- `samply_symbols::FrameDebugInfo` -/
structure Frame where
  function : Option String
  filePath : Option FilePath
  line : Option Nat
deriving DecidableEq, Repr

/-- `Option<FramesLookupResult>` of `lookup_sync`, with — for the `External` case — what the later
`lookup_external(&ext_address)` answers (mod.rs:122-126). Frame lists are innermost first, the last
element is the outer function. -/
inductive FramesResult
  | none
  | available (frames : List Frame)
  | external (resolved : Option (List Frame))
deriving DecidableEq, Repr

/-- the frames a direct `SymbolMap::lookup` reports (symbol_map.rs:124-176) -/
def FramesResult.resolved : FramesResult → Option (List Frame)
  | .none => Option.none
  | .available fs => some fs
  | .external r => r

/-- `samply_symbols::SyncAddressInfo` (symbol start / size / name + frames) -/
structure AddrInfo where
  symAddr : Nat
  symSize : Option Nat
  symName : String
  frames : FramesResult
deriving DecidableEq, Repr

/-- a `samply_symbols::Error` as the response reports it (`enum_as_string()`, `to_string()`) -/
structure Err where
  name : String
  message : String
deriving DecidableEq, Repr

/-- The oracle: `to_debug_id(&lib.breakpad_id)?` followed by `load_symbol_map(..).await?` (mod.rs:78,92)
either fails with an error or gives a symbol map, which `lookup_sync(Relative a)` (mod.rs:97) turns into an
optional `AddrInfo` per address. -/
abbrev Look := Lib → Except Err (Nat → Option AddrInfo)

/-! ### Outcomes -/

inductive Fail
  /-- the Rust code would panic at this site -/
  | panic (site : String)
  /-- serde rejected the request: `{"error": "Couldn't parse request: …"}` -/
  | parse
  /-- mod.rs:147-149: `{"error": "Malformed request JSON: Stack frame module index beyond the memoryMap"}` -/
  | badModuleIndex
deriving DecidableEq, Repr

/-! ### Association lists standing in for `HashMap` -/

def alookup {κ α : Type} [DecidableEq κ] : List (κ × α) → κ → Option α
  | [], _ => none
  | (k, v) :: rest, x => if k = x then some v else alookup rest x

/-- `HashMap::insert`: replace the value of an existing key, else add the key -/
def hinsert {κ α : Type} [DecidableEq κ] : List (κ × α) → κ → α → List (κ × α)
  | [], x, v => [(x, v)]
  | (k, w) :: rest, x, v => if k = x then (k, v) :: rest else (k, w) :: hinsert rest x v

/-- `map.entry(k).or_default().extend(vs)` / `.push(v)` on a `HashMap<_, Vec<u32>>` -/
def extendAt {κ : Type} [DecidableEq κ] : List (κ × List Nat) → κ → List Nat → List (κ × List Nat)
  | [], x, vs => [(x, vs)]
  | (k, w) :: rest, x, vs => if k = x then (k, w ++ vs) :: rest else (k, w) :: extendAt rest x vs

/-! ### `gather_requested_addresses` (mod.rs:132-157) -/

/-- mod.rs:138-145, one stack -/
def groupStack (m : List (Nat × List Nat)) : List ReqFrame → List (Nat × List Nat)
  | [] => m
  | fr :: rest => groupStack (extendAt m fr.moduleIndex [fr.address]) rest

/-- mod.rs:137-145: `requested_addresses_by_module_index` of one job -/
def groupStacks (m : List (Nat × List Nat)) : List (List ReqFrame) → List (Nat × List Nat)
  | [] => m
  | st :: rest => groupStacks (groupStack m st) rest

/-- mod.rs:146-154: validate each used module index, merge into the per-`Lib` table.
(The `HashMap` iteration order of the real code is arbitrary; the model uses first-use order. Whether the
result is an error, and — after the per-lib sort — everything downstream, does not depend on it.) -/
def mergeGroups (mm : List Lib) : List (Nat × List Nat) → List (Lib × List Nat) →
    Except Fail (List (Lib × List Nat))
  | [], acc => .ok acc
  | (idx, addrs) :: rest, acc =>
    match mm[idx]? with
    | none => .error .badModuleIndex
    | some lib => mergeGroups mm rest (extendAt acc lib addrs)

def gatherJobs : List Job → List (Lib × List Nat) → Except Fail (List (Lib × List Nat))
  | [], acc => .ok acc
  | job :: rest, acc =>
    match mergeGroups job.memoryMap (groupStacks [] job.stacks) acc with
    | .error e => .error e
    | .ok acc' => gatherJobs rest acc'

def gather (req : Request) : Except Fail (List (Lib × List Nat)) := gatherJobs req.jobs []

/-! ### `LookedUpAddresses` (looked_up_addresses.rs) -/

/-- looked_up_addresses.rs:5-10 -/
structure AddressResult where
  symbolAddress : Nat
  symbolName : String
  functionSize : Option Nat
  inlineFrames : Option (List Frame)
deriving DecidableEq, Repr

/-- `AddressResults = BTreeMap<u32, Option<AddressResult>>`: association list kept sorted by key -/
abbrev AddressResults := List (Nat × Option AddressResult)

/-- `BTreeMap::insert` -/
def btInsert : AddressResults → Nat → Option AddressResult → AddressResults
  | [], k, v => [(k, v)]
  | (k', v') :: rest, k, v =>
    if k < k' then (k, v) :: (k', v') :: rest
    else if k = k' then (k, v) :: rest
    else (k', v') :: btInsert rest k v

/-- `BTreeMap::get` -/
def btGet (m : AddressResults) (k : Nat) : Option (Option AddressResult) := alookup m k

/-- `*map.get_mut(&k).unwrap() = f(old)`; `none` = the key is missing = the `unwrap` panics -/
def btModify : AddressResults → Nat → (Option AddressResult → Option AddressResult) → Option AddressResults
  | [], _, _ => none
  | (k', v') :: rest, k, f =>
    if k' = k then some ((k', f v') :: rest)
    else match btModify rest k f with
      | none => none
      | some rest' => some ((k', v') :: rest')

/-- looked_up_addresses.rs:20-25 `for_addresses`: collect `(addr, None)` pairs into the map -/
def forAddresses (addrs : List Nat) : AddressResults :=
  addrs.foldl (fun m a => btInsert m a none) []

/-- looked_up_addresses.rs:27-40 -/
def addAddressSymbol (m : AddressResults) (address symAddr : Nat) (name : String) (size : Option Nat) :
    Except Fail AddressResults :=
  match btModify m address (fun _ => some ⟨symAddr, name, size, none⟩) with
  | none => .error (.panic "looked_up_addresses.rs:34 get_mut(&address).unwrap()")
  | some m' => .ok m'

/-- `frames.last().and_then(|f| f.function.as_deref())` (looked_up_addresses.rs:43) -/
def outerFunctionName (frames : List Frame) : Option String :=
  match frames.getLast? with
  | none => none
  | some f => f.function

/-- `name.map_or_else(|| default, str::to_string)` -/
def nameOr (o : Option String) (d : String) : String :=
  match o with
  | some n => n
  | none => d

/-- `format!("0x{address:x}")` -/
def hexName (n : Nat) : String := "0x" ++ String.ofList ((Nat.toDigits 16 n))

/-- looked_up_addresses.rs:42-68 -/
def addDebugInfoEntry (address : Nat) (frames : List Frame) : Option AddressResult → Option AddressResult
  | some r =>
    -- 47-54: overwrite the symbol name with the outer function's name when it has one; attach the frames
    some { r with
      symbolName := nameOr (outerFunctionName frames) r.symbolName
      inlineFrames := some frames }
  | none =>
    -- 55-66: no symbol was recorded for this address ("debug info only")
    some { symbolAddress := address
           symbolName := nameOr (outerFunctionName frames) (hexName address)
           functionSize := none
           inlineFrames := some frames }

def addAddressDebugInfo (m : AddressResults) (address : Nat) (frames : List Frame) :
    Except Fail AddressResults :=
  match btModify m address (addDebugInfoEntry address frames) with
  | none => .error (.panic "looked_up_addresses.rs:44 get_mut(&address).unwrap()")
  | some m' => .ok m'

/-! ### `symbolicate_requested_addresses_for_lib` (mod.rs:68-129) -/

/-- `Vec::dedup` -/
def dedupAdj : List Nat → List Nat
  | [] => []
  | [a] => [a]
  | a :: b :: rest => if a = b then dedupAdj (b :: rest) else a :: dedupAdj (b :: rest)

/-- `addresses.sort_unstable()` (mod.rs:75). On `u32` keys every sorting algorithm gives the same list; the
model uses insertion sort (structural recursion, so that concrete examples evaluate in the kernel). -/
def insertNat (x : Nat) : List Nat → List Nat
  | [] => [x]
  | y :: rest => if x ≤ y then x :: y :: rest else y :: insertNat x rest

def sortNat : List Nat → List Nat
  | [] => []
  | x :: rest => insertNat x (sortNat rest)

/-- mod.rs:96-114: the synchronous pass; `ext` accumulates `(address, what lookup_external will say)` -/
def firstPass (f : Nat → Option AddrInfo) :
    List Nat → AddressResults → List (Nat × Option (List Frame)) →
    Except Fail (AddressResults × List (Nat × Option (List Frame)))
  | [], tbl, ext => .ok (tbl, ext)
  | a :: rest, tbl, ext =>
    match f a with
    | none => firstPass f rest tbl ext
    | some info =>
      match addAddressSymbol tbl a info.symAddr info.symName info.symSize with
      | .error e => .error e
      | .ok tbl1 =>
        match info.frames with
        | .available frames =>
          match addAddressDebugInfo tbl1 a frames with
          | .error e => .error e
          | .ok tbl2 => firstPass f rest tbl2 ext
        | .external r => firstPass f rest tbl1 (ext ++ [(a, r)])
        | .none => firstPass f rest tbl1 ext

/-- mod.rs:122-126: the external pass -/
def secondPass : List (Nat × Option (List Frame)) → AddressResults → Except Fail AddressResults
  | [], tbl => .ok tbl
  | (_, none) :: rest, tbl => secondPass rest tbl
  | (a, some frames) :: rest, tbl =>
    match addAddressDebugInfo tbl a frames with
    | .error e => .error e
    | .ok tbl1 => secondPass rest tbl1

/-- mod.rs:78-128: everything `symbolicate_requested_addresses_for_lib` does after the sort / dedup, for the
address list it is given. `extOrder` is the `sort_unstable_by` of the external addresses by their
`ExternalFileAddressRef` (mod.rs:120), which the model does not look into: any rearrangement. -/
def lookupAddresses (look : Look) (extOrder : List (Nat × Option (List Frame)) → List (Nat × Option (List Frame)))
    (lib : Lib) (addrs : List Nat) : Except Fail (Except Err AddressResults) :=
  -- 80
  let tbl0 := forAddresses addrs
  -- 78, 92
  match look lib with
  | .error e => .ok (.error e)
  | .ok f =>
    match firstPass f addrs tbl0 [] with
    | .error e => .error e
    | .ok (tbl1, ext) =>
      match secondPass (extOrder ext) tbl1 with
      | .error e => .error e
      | .ok tbl2 => .ok (.ok tbl2)

/-- mod.rs:68-129 -/
def symbolicateLib (look : Look) (extOrder : List (Nat × Option (List Frame)) → List (Nat × Option (List Frame)))
    (lib : Lib) (addresses : List Nat) : Except Fail (Except Err AddressResults) :=
  -- 75-76: `addresses.sort_unstable(); addresses.dedup();`
  lookupAddresses look extOrder lib (dedupAdj (sortNat addresses))

/-- mod.rs:54-66 -/
def symbolicateAll (look : Look) (extOrder : List (Nat × Option (List Frame)) → List (Nat × Option (List Frame))) :
    List (Lib × List Nat) → Except Fail (List (Lib × Except Err AddressResults))
  | [] => .ok []
  | (lib, addrs) :: rest =>
    match symbolicateLib look extOrder lib addrs with
    | .error e => .error e
    | .ok r =>
      match symbolicateAll look extOrder rest with
      | .error e => .error e
      | .ok rs => .ok ((lib, r) :: rs)

/-! ### Response (response_json.rs) and `create_response` (mod.rs:159-267) -/

/-- `response_json::FrameDebugInfo` -/
structure InlineFrame where
  function : Option String
  file : Option String
  line : Option Nat
deriving DecidableEq, Repr

/-- `response_json::DebugInfo` -/
structure DebugInfo where
  file : Option String
  line : Option Nat
  inlines : List InlineFrame
deriving DecidableEq, Repr

/-- `response_json::Symbol` -/
structure Symbol where
  function : String
  functionOffset : Nat
  functionSize : Option Nat
  debugInfo : Option DebugInfo
deriving DecidableEq, Repr

/-- `response_json::StackFrame` -/
structure RespFrame where
  frame : Nat
  moduleOffset : Nat
  module : String
  symbol : Option Symbol
deriving DecidableEq, Repr

/-- `response_json::Result` -/
structure JobResult where
  stacks : List (List RespFrame)
  foundModules : List (String × Bool)
  moduleErrors : List (String × List Err)
deriving Repr

/-- `response_json::Response` -/
structure Response where
  results : List JobResult
deriving Repr

/-- `line_number.and_then(NonZeroU32::new)` (mod.rs:240, 246) -/
def nonZero : Option Nat → Option Nat
  | none => none
  | some n => if n = 0 then none else some n

/-- mod.rs:243-247 -/
def inlineOf (f : Frame) : InlineFrame :=
  ⟨f.function, f.filePath.map apiFilePath, nonZero f.line⟩

/-- mod.rs:238-249 given the result of `split_last` -/
def debugInfoFrom (outer : Frame) (inlines : List Frame) : DebugInfo :=
  ⟨outer.filePath.map apiFilePath, nonZero outer.line, inlines.map inlineOf⟩

/-- `format!("{}/{}", lib.debug_name, lib.breakpad_id)` (mod.rs:174) -/
def moduleKey (lib : Lib) : String := lib.debugName ++ "/" ++ lib.breakpadId

/-- the three maps `result_for_job` fills while walking the memory map (mod.rs:169-171) -/
structure JobTables where
  found : List (String × Bool)
  errors : List (String × List Err)
  byIndex : List (Nat × AddressResults)
deriving Repr

def JobTables.empty : JobTables := ⟨[], [], []⟩

/-- mod.rs:172-186; `i` is the `enumerate()` counter -/
def scanMemoryMap (table : List (Lib × Except Err AddressResults)) : List Lib → Nat → JobTables → JobTables
  | [], _, t => t
  | lib :: rest, i, t =>
    match alookup table lib with
    | none => scanMemoryMap table rest (i + 1) t
    | some (.ok syms) =>
      scanMemoryMap table rest (i + 1)
        { t with byIndex := hinsert t.byIndex i syms, found := hinsert t.found (moduleKey lib) true }
    | some (.error e) =>
      scanMemoryMap table rest (i + 1)
        { t with errors := hinsert t.errors (moduleKey lib) [e], found := hinsert t.found (moduleKey lib) false }

/-- mod.rs:230-251: the closure that turns an `AddressResult` into a `Symbol` -/
def symbolOfResult (address : Nat) (r : AddressResult) : Except Fail Symbol :=
  -- 232: `frame.address - address_result.symbol_address` on u32
  if address < r.symbolAddress then .error (.panic "mod.rs:232 attempt to subtract with overflow") else
  match r.inlineFrames with
  | none => .ok ⟨r.symbolName, address - r.symbolAddress, r.functionSize, none⟩
  | some frames =>
    -- 235-237: `frames.split_last().expect(..)`
    match frames.getLast?, frames.dropLast with
    | none, _ => .error (.panic "mod.rs:237 inline_frames should always have at least one element")
    | some outer, inlines =>
      .ok ⟨r.symbolName, address - r.symbolAddress, r.functionSize, some (debugInfoFrom outer inlines)⟩

/-- mod.rs:215-259 `response_frame_for_request_frame` -/
def responseFrame (mm : List Lib) (byIndex : List (Nat × AddressResults)) (frameIndex : Nat) (fr : ReqFrame) :
    Except Fail RespFrame :=
  let symbol : Except Fail (Option Symbol) :=
    match alookup byIndex fr.moduleIndex with
    | none => .ok none
    | some syms =>
      match btGet syms fr.address with
      | none => .error (.panic "mod.rs:228 symbol_map.get(&frame.address).unwrap()")
      | some none => .ok none
      | some (some r) =>
        match symbolOfResult fr.address r with
        | .error e => .error e
        | .ok s => .ok (some s)
  match symbol with
  | .error e => .error e
  | .ok sym =>
    -- 256: `memory_map[frame.module_index as usize]`
    match mm[fr.moduleIndex]? with
    | none => .error (.panic "mod.rs:256 memory_map[frame.module_index] index out of bounds")
    | some lib => .ok ⟨frameIndex, fr.address, lib.debugName, sym⟩

/-- mod.rs:199-213; `i` is the `enumerate()` counter -/
def responseStack (mm : List Lib) (byIndex : List (Nat × AddressResults)) : Nat → List ReqFrame →
    Except Fail (List RespFrame)
  | _, [] => .ok []
  | i, fr :: rest =>
    match responseFrame mm byIndex i fr with
    | .error e => .error e
    | .ok rf =>
      match responseStack mm byIndex (i + 1) rest with
      | .error e => .error e
      | .ok rfs => .ok (rf :: rfs)

def responseStacks (mm : List Lib) (byIndex : List (Nat × AddressResults)) : List (List ReqFrame) →
    Except Fail (List (List RespFrame))
  | [] => .ok []
  | st :: rest =>
    match responseStack mm byIndex 0 st with
    | .error e => .error e
    | .ok r =>
      match responseStacks mm byIndex rest with
      | .error e => .error e
      | .ok rs => .ok (r :: rs)

/-- mod.rs:165-197 `result_for_job` -/
def resultForJob (table : List (Lib × Except Err AddressResults)) (job : Job) : Except Fail JobResult :=
  let t := scanMemoryMap table job.memoryMap 0 JobTables.empty
  match responseStacks job.memoryMap t.byIndex job.stacks with
  | .error e => .error e
  | .ok stacks => .ok ⟨stacks, t.found, t.errors⟩

def resultsForJobs (table : List (Lib × Except Err AddressResults)) : List Job → Except Fail (List JobResult)
  | [] => .ok []
  | job :: rest =>
    match resultForJob table job with
    | .error e => .error e
    | .ok r =>
      match resultsForJobs table rest with
      | .error e => .error e
      | .ok rs => .ok (r :: rs)

/-- mod.rs:159-267 -/
def createResponse (req : Request) (table : List (Lib × Except Err AddressResults)) : Except Fail Response :=
  match resultsForJobs table req.jobs with
  | .error e => .error e
  | .ok rs => .ok ⟨rs⟩

/-- `SymbolicateApi::query_api` (mod.rs:43-52) -/
def queryApi (look : Look) (extOrder : List (Nat × Option (List Frame)) → List (Nat × Option (List Frame)))
    (req : Request) : Except Fail Response :=
  match gather req with
  | .error e => .error e
  | .ok requested =>
    match symbolicateAll look extOrder requested with
    | .error e => .error e
    | .ok table => createResponse req table

/-- `query_api_fallible_json` (mod.rs:37-41) from the parsed JSON numbers on -/
def handle (look : Look) (extOrder : List (Nat × Option (List Frame)) → List (Nat × Option (List Frame)))
    (raw : RawRequest) : Except Fail Response :=
  match decode raw with
  | none => .error .parse
  | some req => queryApi look extOrder req

/-! ### Specification side: what the property statement talks about

Nothing below refers to the mechanism (tables, sorting, merging); only to the request, the oracle and the
response. -/

/-- every frame's module index is inside its job's memory map -/
def AllIndicesValid (req : Request) : Prop :=
  ∀ job ∈ req.jobs, ∀ st ∈ job.stacks, ∀ fr ∈ st, fr.moduleIndex < job.memoryMap.length

instance (req : Request) : Decidable (AllIndicesValid req) := by
  unfold AllIndicesValid; infer_instance

/-- some frame of some job of the request asks for address `a` of library `lib` -/
def RequestedAddr (req : Request) (lib : Lib) (a : Nat) : Prop :=
  ∃ job ∈ req.jobs, ∃ st ∈ job.stacks, ∃ fr ∈ st,
    job.memoryMap[fr.moduleIndex]? = some lib ∧ fr.address = a

/-- some frame of some job of the request refers to library `lib` -/
def Requested (req : Request) (lib : Lib) : Prop := ∃ a, RequestedAddr req lib a

def requestedAddrB (req : Request) (lib : Lib) (a : Nat) : Bool :=
  req.jobs.any fun job => job.stacks.any fun st => st.any fun fr =>
    decide (job.memoryMap[fr.moduleIndex]? = some lib) && decide (fr.address = a)

def requestedB (req : Request) (lib : Lib) : Bool :=
  req.jobs.any fun job => job.stacks.any fun st => st.any fun fr =>
    decide (job.memoryMap[fr.moduleIndex]? = some lib)

/-- What the oracle must satisfy **on the requested (library, address) pairs** for the Rust code not to
panic: the symbol start is not above the address (C05 `contains`), and a reported frame list is not empty
(the documented contract of `FramesLookupResult::Available` / `lookup_external`). -/
def OracleOk (look : Look) (req : Request) : Prop :=
  ∀ lib a f info, RequestedAddr req lib a → look lib = .ok f → f a = some info →
    info.symAddr ≤ a ∧ info.frames.resolved ≠ some []

/-- the `debug_info` part of a response frame for a non-empty resolved frame list -/
def debugInfoOfFrames (fs : List Frame) : Option DebugInfo :=
  match fs.getLast? with
  | none => none
  | some outer => some (debugInfoFrom outer fs.dropLast)

/-- the function name the response reports: the outermost debug-info frame's name when there is one,
else the symbol-table name -/
def reportedFunction (info : AddrInfo) : String :=
  match info.frames.resolved with
  | none => info.symName
  | some fs => nameOr (outerFunctionName fs) info.symName

/-- the `Symbol` part of a response frame that a direct lookup of `(lib, a)` determines -/
def directSymbol (look : Look) (lib : Lib) (a : Nat) : Option Symbol :=
  match look lib with
  | .error _ => none
  | .ok f =>
    match f a with
    | none => none
    | some info =>
      some { function := reportedFunction info
             functionOffset := a - info.symAddr
             functionSize := info.symSize
             debugInfo := match info.frames.resolved with
               | none => none
               | some fs => debugInfoOfFrames fs }

/-- the file paths a response symbol reports: its `file` and every `inlines[].file` (what `/source/v1`,
property C09, has to accept for the same module offset) -/
def Symbol.reportedFiles (s : Symbol) : List String :=
  match s.debugInfo with
  | none => []
  | some d => d.file.toList ++ d.inlines.filterMap (·.file)

/-- the source files the debug info of a direct lookup names (before `to_api_file_path`) -/
def AddrInfo.filePaths (info : AddrInfo) : List FilePath :=
  match info.frames.resolved with
  | none => []
  | some fs => fs.filterMap (·.filePath)

/-- the request frame at job `j`, stack `s`, position `i`, with its job -/
def Request.frameAt (req : Request) (j s i : Nat) : Option (Job × ReqFrame) :=
  match req.jobs[j]? with
  | none => none
  | some job =>
    match job.stacks[s]? with
    | none => none
    | some st =>
      match st[i]? with
      | none => none
      | some fr => some (job, fr)

/-- the response frame at result `j`, stack `s`, position `i` -/
def Response.frameAt (resp : Response) (j s i : Nat) : Option RespFrame :=
  match resp.results[j]? with
  | none => none
  | some res =>
    match res.stacks[s]? with
    | none => none
    | some st => st[i]?

/-- results / stacks / frames of the response are as many as jobs / stacks / frames of the request -/
def SameShape (req : Request) (resp : Response) : Prop :=
  resp.results.length = req.jobs.length ∧
  ∀ (j : Nat) (job : Job) (res : JobResult), req.jobs[j]? = some job → resp.results[j]? = some res →
    res.stacks.length = job.stacks.length ∧
    ∀ (s : Nat) (st : List ReqFrame) (rst : List RespFrame),
      job.stacks[s]? = some st → res.stacks[s]? = some rst → rst.length = st.length

/-- distinct memory-map entries of the job have distinct `found_modules` keys (`"{name}/{id}"`) -/
def KeysInjective (job : Job) : Prop :=
  ∀ l1 ∈ job.memoryMap, ∀ l2 ∈ job.memoryMap, moduleKey l1 = moduleKey l2 → l1 = l2

def isOk {ε α : Type} : Except ε α → Bool
  | .ok _ => true
  | .error _ => false

def failOf {α : Type} : Except Fail α → Option Fail
  | .ok _ => none
  | .error e => some e

end Sym
