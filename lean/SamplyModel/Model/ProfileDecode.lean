import SamplyModel.Model.ProfileSer
import SamplyModel.Model.ProfileCanon
/-!
Canonical interning (C03), specification side, below the frame-index level: *decoding* a row of the
serialized frame table back into what the caller passed.

Two layers:

* `SerThread.rowFrame t i` — the interned frame key (`PT.Frame`, index level) reconstructed from the
  serialized columns of frame row `i`: `func → funcTable.{name, fileName, flags, resource} →
  resourceTable.lib`, and the frame columns. Strict: a row must either be a label row (no resource, no
  address, no native symbol, inline depth 0) or a native row (resource and address present).
* `descOfFrame s t k` — the index-free description (`FrameDesc`) of a key: strings resolved through the
  thread's `stringArray`, libraries through `libs` (identity string), category / subcategory names through
  `meta.categories`, the native symbol through `nativeSymbols`.

`decodeFrame s t i = (t.rowFrame i).bind (descOfFrame s t)` is what the judge compares with the caller's
description; it is also the vocabulary of the theorems `C03_frame_rows` / `C03_canonical_*`.
Core Lean only.
-/
namespace PT

structure FrameDesc where
  name : String
  cat : String × Nat
  sub : String
  lib : Option String
  addr : Option Nat
  /-- lib, address, size, name of the native symbol -/
  nsym : Option (String × Nat × Option Nat × String)
  depth : Nat
  file : Option String
  line : Option Nat
  col : Option Nat
  flags : Nat
deriving DecidableEq, Repr

/-- the frame key behind row `i`, from the columns -/
def rowOfCols (func cat sub : List Nat) (line col addr nsym : List (Option Nat)) (depth : List Nat)
    (fnName fnFlags : List Nat) (fnRes fnFile : List (Option Nat)) (rtLib : List Nat) (i : Nat) :
    Option Frame :=
  match func[i]?, cat[i]?, sub[i]?, line[i]?, col[i]?, addr[i]?, nsym[i]?, depth[i]? with
  | some f, some c, some s, some li, some co, some a, some ns, some d =>
    match fnName[f]?, fnFlags[f]?, fnRes[f]?, fnFile[f]? with
    | some n, some fl, some res, some file =>
      match res, a with
      | none, none => if ns = none ∧ d = 0 then some ⟨n, none, c, s, file, li, co, fl⟩ else none
      | some r, some a' =>
        match rtLib[r]? with
        | some l => some ⟨n, some ⟨l, ns, a', d⟩, c, s, file, li, co, fl⟩
        | none => none
      | _, _ => none
    | _, _, _, _ => none
  | _, _, _, _, _, _, _, _ => none

def SerThread.rowFrame (t : SerThread) (i : Nat) : Option Frame :=
  rowOfCols t.ftFunc t.ftCat t.ftSub t.ftLine t.ftCol t.ftAddr t.ftNsym t.ftDepth
    t.fnName t.fnFlags t.fnRes t.fnFile t.rtLib i

def FrameTable.rowFrame (t : FrameTable) (i : Nat) : Option Frame :=
  rowOfCols t.func t.cat t.sub t.line t.col t.addr t.nsym t.depth
    t.funcs.names t.funcs.flags t.funcs.resources t.funcs.files t.resources.libs i

/-- an optional string index resolved in a string list -/
def optStr (strings : List Str) : Option Nat → Option (Option Str)
  | none => some none
  | some i => (strings[i]?).map some

/-- index-free description of a frame key: `strings` = the thread's string array, `libAt l` = identity
string of used library `l`, `cats` = (name, colour, subcategory names), native symbol columns -/
def descOfCols (strings : List Str) (libAt : Nat → Option Str) (cats : List (Str × Nat × List Str))
    (nsAddr : List Nat) (nsSize : List (Option Nat)) (nsLib nsName : List Nat) (k : Frame) : Option FrameDesc :=
  match strings[k.name]?, optStr strings k.file, cats[k.cat]? with
  | some name, some file, some c =>
    match c.2.2[k.sub]? with
    | none => none
    | some sub =>
      match k.native with
      | none => some ⟨name, (c.1, c.2.1), sub, none, none, none, 0, file, k.line, k.col, k.flags⟩
      | some n =>
        match libAt n.lib with
        | none => none
        | some lib =>
          match n.nsym with
          | none => some ⟨name, (c.1, c.2.1), sub, some lib, some n.addr, none, n.depth, file, k.line, k.col, k.flags⟩
          | some j =>
            match (nsLib[j]?).bind libAt, nsAddr[j]?, nsSize[j]?, (nsName[j]?).bind (strings[·]?) with
            | some nl, some na, some nsz, some nn =>
              some ⟨name, (c.1, c.2.1), sub, some lib, some n.addr, some (nl, na, nsz, nn), n.depth, file,
                k.line, k.col, k.flags⟩
            | _, _, _, _ => none
  | _, _, _ => none

def descOfFrame (s : SerProfile) (t : SerThread) (k : Frame) : Option FrameDesc :=
  descOfCols t.strings (fun l => s.libs[l]?) s.cats t.nsAddr t.nsSize t.nsLib t.nsName k

/-- what native symbol row `j` says, index-free: library identity, address, size, name -/
def nsymOfCols (strings : List Str) (libAt : Nat → Option Str) (nsAddr : List Nat) (nsSize : List (Option Nat))
    (nsLib nsName : List Nat) (j : Nat) : Option (Str × Nat × Option Nat × Str) :=
  match (nsLib[j]?).bind libAt, nsAddr[j]?, nsSize[j]?, (nsName[j]?).bind (strings[·]?) with
  | some nl, some na, some nsz, some nn => some (nl, na, nsz, nn)
  | _, _, _, _ => none

/-- row `j` of the serialized `nativeSymbols` table -/
def decodeNsym (s : SerProfile) (t : SerThread) (j : Nat) : Option (Str × Nat × Option Nat × Str) :=
  nsymOfCols t.strings (fun l => s.libs[l]?) t.nsAddr t.nsSize t.nsLib t.nsName j

/-- every resource row is named after its library: `stringArray[resourceTable.name[r]]` is the display
name (`LibraryInfo::name`) of `libs[resourceTable.lib[r]]` -/
def resNamesOk (s : SerProfile) (t : SerThread) : Bool :=
  decide (t.rtLib.length = t.rtName.length) &&
  (t.rtLib.zip t.rtName).all (fun ln =>
    match s.libs[ln.1]?, t.strings[ln.2]? with
    | some l, some n => n == libDisplayName l
    | _, _ => false)

/-- what frame row `i` of thread `t` says, index-free -/
def decodeFrame (s : SerProfile) (t : SerThread) (i : Nat) : Option FrameDesc :=
  (t.rowFrame i).bind (descOfFrame s t)

/-- the same description on a model state: the identity of used library `l` is `get_lib(l)` -/
def P.descOf (p : P) (th : Thread) (k : Frame) : Option FrameDesc :=
  descOfCols th.strings.table.strings p.libs.getLibName (p.cats.map (fun c => (c.name, c.color, c.subs)))
    th.nsyms.addrs th.nsyms.sizes th.nsyms.libs th.nsyms.names k

/-- native symbol row `j` of a thread in a model state -/
def P.nsymDescOf (p : P) (th : Thread) (j : Nat) : Option (Str × Nat × Option Nat × Str) :=
  nsymOfCols th.strings.table.strings p.libs.getLibName th.nsyms.addrs th.nsyms.sizes th.nsyms.libs th.nsyms.names j

/-! ### what the caller of a frame method supplies (specification side) -/

/-- names behind a subcategory handle `(c, s)`: category (name, colour), subcategory name -/
def subNames (cats : List Cat) (c s : Nat) : Option ((Str × Nat) × Str) :=
  match cats[c]? with
  | none => none
  | some cat =>
    match cat.subs[s]? with
    | none => none
    | some sub => some ((cat.name, cat.color), sub)

/-- an optional global string handle, resolved -/
def P.optGstr (p : P) : Option Nat → Option (Option Str)
  | none => some none
  | some g => (p.gstr g).map some

/-- the frame `handle_for_frame_with_label(_and_source_location)` is asked to intern, in state `p`: the
label string; the category / subcategory names behind the `SubcategoryHandle` its `IntoSubcategoryHandle`
argument converts to; no library, address, native symbol; the file string, line, column; the flags -/
def P.labelDesc (p : P) (str : Nat) (src : Option (Option Nat × Option Nat × Option Nat)) (sc : SubSpec)
    (flags : Nat) : Option FrameDesc :=
  match p.resolveSub sc with
  | (p1, .ok c s) =>
    match p.gstr str, subNames p1.cats c s, p.optGstr (src.bind (·.1)) with
    | some label, some cs, some file =>
      some ⟨label, cs.1, cs.2, none, none, none, 0, file, src.bind (·.2.1), src.bind (·.2.2), flags⟩
    | _, _, _ => none
  | _ => none

/-- a frame address resolved to (relative address, `LibraryHandle`), or not covered by any mapping -/
inductive LibAddr
  | unknown (a : Nat)
  | inLib (rel lib : Nat)

/-- `resolve_frame_address` (profile.rs:1163-1196) at the level of library *handles*, before the library is
marked used; `none` = the `u32` addition in `convert_address` overflows -/
def resolveLib (maps : List Mapping) : AddrSpec → Option LibAddr
  | .abs k a =>
    match mappingConvert maps (k.adjust a) with
    | none => none
    | some none => some (.unknown (k.adjust a))
    | some (some (rel, lib)) => some (.inLib rel lib)
  | .rel k lib a => some (.inLib (k.adjust a) lib)

/-- the library / address / name / native-symbol part of the description of an address frame on thread `th`
(global library table `libs`) whose address resolved to `la`: an address no mapping covers has the hex
string as name and no library, address or native symbol; an address inside library `lib` has the library's
identity, the relative address, and — if the library's symbol table has a symbol covering it — the native
symbol (library, symbol address, size, name) with the name as frame name, where size and name are the
symbol's if (library, address) is not yet registered on the thread and those of the registered row
otherwise; else the hex string of the relative address as name and no native symbol -/
def addrTail (libs : GlobalLibs) (th : Thread) (la : LibAddr) (d : FrameDesc) : Prop :=
  match la with
  | .unknown addr => d.name = hexStr addr ∧ d.lib = none ∧ d.addr = none ∧ d.nsym = none
  | .inLib rel lib => ∃ id, libs.all[lib]? = some id ∧ d.lib = some id ∧ d.addr = some rel ∧
    match (alookup libs.symtabs lib).bind (fun tab => symLookup tab rel) with
    | none => d.name = hexStr rel ∧ d.nsym = none
    | some sym => ∃ sz nm, d.nsym = some (id, sym.addr, sz, nm) ∧ d.name = nm ∧
        ((∀ u : Nat, libs.used[u]? = some lib →
            ¬ ∃ j' : Nat, th.nsyms.libs[j']? = some u ∧ th.nsyms.addrs[j']? = some sym.addr) →
          sz = sym.size ∧ nm = sym.name) ∧
        (∀ (u j' : Nat) (d0 : Str × Nat × Option Nat × Str), libs.used[u]? = some lib →
          th.nsyms.libs[j']? = some u → th.nsyms.addrs[j']? = some sym.addr →
          nsymOfCols th.strings.table.strings libs.getLibName th.nsyms.addrs th.nsyms.sizes th.nsyms.libs
            th.nsyms.names j' = some d0 → d0 = (id, sym.addr, sz, nm))

/-- what `handle_for_frame_with_address(thread t, address a, subcategory sc, flags)` is asked to intern in
state `p`, as a predicate on the description `d`: category / subcategory names behind the subcategory
handle, no file / line / column, inline depth 0, the flags, and `addrTail` for the resolved address -/
def P.AddrFrameSpec (p : P) (t : Nat) (a : AddrSpec) (sc : SubSpec) (flags : Nat) (d : FrameDesc) : Prop :=
  ∃ p1 c s cs th pr la, p.resolveSub sc = (p1, .ok c s) ∧ subNames p1.cats c s = some cs ∧
    p.threads[t]? = some th ∧ p.processes[th.process]? = some pr ∧ resolveLib (effMaps p.kmaps pr.maps a) a = some la ∧
    d.cat = cs.1 ∧ d.sub = cs.2 ∧ d.depth = 0 ∧ d.file = none ∧ d.line = none ∧ d.col = none ∧ d.flags = flags ∧
    addrTail p.libs th la d

/-- what `handle_for_frame_with_address_and_symbol(thread t, address a, FrameSymbolInfo { name, native_symbol,
source_location { file, line, col } }, inline depth, subcategory sc, flags)` is asked to intern in state `p`,
as a predicate on the description `d`: category / subcategory names behind the subcategory handle, the file
string, line, column, flags; for an address no mapping covers: the given name (or the hex string of the
address), no library / address / native symbol, inline depth 0 (the frame degrades to a label frame); for an
address inside a library: the library's identity, the relative address, the native symbol *the handle
denotes* (its row's description in the state before the call), the inline depth, and the given name or —
without one — the native symbol's name -/
def P.SymFrameSpec (p : P) (t : Nat) (a : AddrSpec) (name : Option Nat) (nsym : TH) (file line col : Option Nat)
    (depth : Nat) (sc : SubSpec) (flags : Nat) (d : FrameDesc) : Prop :=
  ∃ p1 c s cs th pr la nm fs, p.resolveSub sc = (p1, .ok c s) ∧ subNames p1.cats c s = some cs ∧
    p.threads[t]? = some th ∧ p.processes[th.process]? = some pr ∧ resolveLib (effMaps p.kmaps pr.maps a) a = some la ∧
    p.optGstr name = some nm ∧ p.optGstr file = some fs ∧
    d.cat = cs.1 ∧ d.sub = cs.2 ∧ d.file = fs ∧ d.line = line ∧ d.col = col ∧ d.flags = flags ∧
    match la with
    | .unknown addr => d.name = nm.getD (hexStr addr) ∧ d.lib = none ∧ d.addr = none ∧ d.nsym = none ∧ d.depth = 0
    | .inLib rel lib => ∃ id q, p.libs.all[lib]? = some id ∧ p.nsymDescOf th nsym.2 = some q ∧
        d.lib = some id ∧ d.addr = some rel ∧ d.nsym = some q ∧ d.depth = depth ∧ d.name = nm.getD q.2.2.2

/-- what stack row `i` of a serialized thread says: the descriptions of its frames, root first
(`stackTable.prefix` / `stackTable.frame` walked from `i`, every frame decoded) -/
def decodeStack (s : SerProfile) (t : SerThread) (i : Nat) : Option (List FrameDesc) :=
  (walk t.stPrefix t.stFrame (i + 1) i).bind (mapM' (decodeFrame s t))

/-- the caller-side rule for pid / tid strings (profile.rs:308-320 as the caller sees it): the `k`-th reuse
(`k ≥ 1`) of a numeric pid / tid carries the suffix `.k`; a thread's tid is the one assigned last
(`add_thread`, then every `set_thread_tid`). State: the numeric ids used so far, the `(id, suffix)` of every
process handle and of every thread handle. -/
structure IdSpec where
  pidUses : List Nat := []
  tidUses : List Nat := []
  pids : List IdStr := []
  tids : List IdStr := []
deriving Repr

def IdSpec.step (s : IdSpec) : Op → IdSpec
  | .addProcess pid _ _ => { s with pidUses := pid :: s.pidUses, pids := s.pids ++ [(pid, s.pidUses.count pid)] }
  | .addThread proc tid _ _ =>
    if proc < s.pids.length then
      { s with tidUses := tid :: s.tidUses, tids := s.tids ++ [(tid, s.tidUses.count tid)] }
    else s
  | .setTid t tid =>
    if t < s.tids.length then
      { s with tidUses := tid :: s.tidUses, tids := s.tids.modify t (fun _ => (tid, s.tidUses.count tid)) }
    else s
  | _ => s

def idSpec (ops : List Op) : IdSpec := ops.foldl IdSpec.step {}

end PT
