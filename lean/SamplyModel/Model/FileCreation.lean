/-!
Model of `wholesym/src/file_creation.rs` (C16): the lock-file + temp-file + rename protocol of
`create_file_cleanly`, as a transition system over an arbitrary number of concurrent creators
(processes or tasks; ids are `Nat`) and one shared directory.

Shared state (`State`): three *names* in the directory — `dest`, `dest.part`, `dest.lock` — each either
absent or bound to an inode; inode contents; the `flock` owner per inode (`flock` is a property of the
open file description, every creator opens its own description, so "owner = creator"); a fresh-inode
counter. `unlink` removes a name, never an inode; `open(O_CREAT)` of a missing name makes a new inode;
`rename` atomically rebinds `dest` to the inode of `dest.part` and removes the name `dest.part`; writes go
to the inode the descriptor was opened on (not to whatever the name means later).

Per-creator program counter (`PC`): exactly the statement sequence of `create_file_cleanly`
(file:line in the constructor comments). Environment actions: an operation fails (`Act.fail`: open of the
lock file, flock, open of the temp file, the write callback, rename, an ignored `remove_file`), the
creator's process is killed (`Act.crash`: the kernel closes its descriptors, which releases its flock;
files stay as they are) or its future is dropped at an await point (`Act.cancel`; the only difference to a
crash is the detached `flock` thread of `lock_file_exclusive_with_blocking_thread`, which still acquires
and then immediately drops the lock: `zombieWait`/`zombieHeld`; and, since the repair of finding
C16-cancel-inflight-write, that a future dropped inside the write callback unlinks `dest.part` before the
lock file is closed). A dropped future leaves `dest.lock` behind.

Assumptions built into the transition system (stated in checks/C16.json): nobody but the modelled
creators touches the three names (in particular nobody deletes `dest`); `metadata(dest)` answers
truthfully (the code treats an error as "absent"); POSIX semantics of flock / rename / unlink.

`winners` and `trace` are ghost fields: the creators that executed the rename, and the system calls
issued so far (used by the driver for the syscall-trace correspondence; no theorem mentions `trace`).
Core Lean only (linked into the driver executable).
-/
namespace FC

abbrev Pid := Nat
abbrev Inode := Nat
/-- file contents: the list of chunks written so far -/
abbrev Content := List Nat

/-- `CleanFileCreationError` (file_creation.rs:8-26) without `InvalidPath` -/
inductive ErrKind
  | lockCreate   -- LockFileCreation
  | lockLock     -- LockFileLocking
  | tempCreate   -- TempFileCreation
  | callback     -- CallbackIndicatedError
  | rename       -- RenameError
deriving DecidableEq, Repr

inductive PC
  | idle                                  -- create_file_cleanly not called yet
  | opened (i : Inode)                    -- :88-93 lock file open on inode i; before try_lock_exclusive (:190)
  | waiting (i : Inode)                   -- :192 try_lock said WouldBlock; flock thread blocks in lock_exclusive (:234); rx.await (:222)
  | locked (i : Inode)                    -- :95-97 flock held; before metadata(dest) (:116-117)
  | sawExists (i : Inode)                 -- :118 destination exists; before drop(locked_file) (:123)
  | exClosed                              -- lock closed; before remove_file(lock) (:124)
  | exUnlinked                            -- before / inside handle_existing_fn().await (:125)
  | doneExisting                          -- returned Ok via the existing-file handler (:128)
  | absent (i : Inode)                    -- destination absent; before open(.part, create+truncate) (:133-138)
  | writing (i : Inode) (j : Inode) (k : Nat)  -- inside write_fn(temp_file).await (:143): fd on inode j, k chunks written
  | wroteOk (i : Inode)                   -- write_fn returned Ok (temp fd closed); before rename (:160)
  | failed (i : Inode) (e : ErrKind)      -- write_fn returned Err (:150) or rename failed (:162); before remove_file(.part) (:152/:164)
  | failDrop (i : Inode) (e : ErrKind)    -- before drop(locked_file) on a failure path (:153/:165, or `?` at :138)
  | renamed (i : Inode)                   -- rename done (:160); before drop(locked_file) (:177)
  | crClosed                              -- lock closed; before remove_file(lock) (:178)
  | doneCreated                           -- returned Ok(v) (:180)
  | doneErr (e : ErrKind)                 -- returned Err
  | dead                                  -- killed, or future dropped: all descriptors closed
  | zombieWait (i : Inode)                -- future dropped while waiting: the detached flock thread still blocks (:216-219)
  | zombieHeld (i : Inode)                -- that thread got the lock; tx.send fails and the File is dropped next
  | lockFailed (i : Inode)                -- flock returned an error (:194/:238): the File is dropped next, LockFileLocking (:97)
deriving DecidableEq, Repr

/-- system calls on the three paths, as the canonicalised strace output prints them -/
inductive Sys
  | openLock               -- openat(lock, O_CREAT) = fd
  | openLockErr            -- openat(lock, O_CREAT) = error
  | tryLock (ok : Bool)    -- flock(fdL, LOCK_EX|LOCK_NB) = 0 | EAGAIN
  | lockWait               -- flock(fdL, LOCK_EX) = 0 (blocking, on the flock thread)
  | lockErr                -- flock(...) = error
  | statDest (ex : Bool)   -- statx(dest) = 0 | ENOENT
  | closeLock              -- close(fdL)
  | unlinkLock             -- unlink(lock)
  | openPart               -- openat(part, O_CREAT|O_TRUNC) = fd
  | openPartErr            -- openat(part, O_CREAT|O_TRUNC) = error
  | write                  -- write(fdP, …)
  | closePart              -- close(fdP)
  | rename (ok : Bool)     -- rename(part, dest) = 0 | error
  | unlinkPart             -- unlink(part)
deriving DecidableEq, Repr

structure State where
  pc : Pid → PC
  lockName : Option Inode
  holder : Inode → Option Pid
  dest : Option Inode
  part : Option Inode
  content : Inode → Content
  nextInode : Inode
  winners : List Pid
  trace : List (Pid × Sys)
  /-- ghost: the creators whose write callback returned `Ok`, most recent first -/
  okWrites : List Pid := []
  /-- ghost: those of them whose attempt was lost afterwards: killed before the rename, or the rename failed -/
  lost : List Pid := []
  /-- ghost: the creator whose callback has returned `Ok` and that has not renamed yet -/
  okAt : Option Pid := none

def State.init : State :=
  { pc := fun _ => .idle, lockName := none, holder := fun _ => none, dest := none, part := none,
    content := fun _ => [], nextInode := 0, winners := [], trace := [] }

/-- point update of a function on `Nat` -/
def upd {α : Type} (f : Nat → α) (k : Nat) (v : α) : Nat → α := fun x => if x = k then v else f x

/-- closing creator `p`'s descriptor of inode `i` releases the flock iff that descriptor holds it -/
def release (h : Inode → Option Pid) (i : Inode) (p : Pid) : Inode → Option Pid :=
  fun x => if x = i ∧ h x = some p then none else h x

inductive Act
  | step (p : Pid)    -- p's next operation succeeds (a blocking flock is enabled only when the inode is free)
  | fail (p : Pid)    -- p's next operation fails
  | crash (p : Pid)   -- p's process is killed
  | cancel (p : Pid)  -- p's future is dropped (only at await points)
deriving DecidableEq, Repr

def Act.pid : Act → Pid
  | .step p | .fail p | .crash p | .cancel p => p

/-- the inode of the lock-file descriptor a creator has open, if any -/
def lockFd : PC → Option Inode
  | .opened i | .waiting i | .locked i | .sawExists i | .absent i | .writing i _ _ | .wroteOk i
  | .failed i _ | .failDrop i _ | .renamed i | .zombieWait i | .zombieHeld i | .lockFailed i => some i
  | _ => none

/-- the inode a creator holds the flock on, if any -/
def holdsLock : PC → Option Inode
  | .locked i | .sawExists i | .absent i | .writing i _ _ | .wroteOk i
  | .failed i _ | .failDrop i _ | .renamed i | .zombieHeld i => some i
  | _ => none

/-- critical section: from "saw the destination absent" up to the rename / the removal of the temp file -/
def inCS : PC → Bool
  | .absent _ | .writing _ _ _ | .wroteOk _ | .failed _ _ => true
  | _ => false

/-- finished, killed or not started: does not take any further step -/
def quiet : PC → Bool
  | .idle | .doneExisting | .doneCreated | .doneErr _ | .dead => true
  | _ => false

/-- successful progress of creator `p` (`pl p` = the chunks its write callback produces) -/
def stepP (pl : Pid → Content) (s : State) (p : Pid) : Option State :=
  match s.pc p with
  | .idle =>                                           -- :88-93 OpenOptions::write.create.open(lock)
    match s.lockName with
    | some i => some { s with pc := upd s.pc p (.opened i), trace := (p, .openLock) :: s.trace }
    | none => some { s with pc := upd s.pc p (.opened s.nextInode), lockName := some s.nextInode,
                            nextInode := s.nextInode + 1, trace := (p, .openLock) :: s.trace }
  | .opened i =>                                       -- :190 try_lock_exclusive
    match s.holder i with
    | none => some { s with pc := upd s.pc p (.locked i), holder := upd s.holder i (some p),
                            trace := (p, .tryLock true) :: s.trace }
    | some _ => some { s with pc := upd s.pc p (.waiting i), trace := (p, .tryLock false) :: s.trace }
  | .waiting i =>                                      -- :234 lock_exclusive (blocks while held)
    match s.holder i with
    | none => some { s with pc := upd s.pc p (.locked i), holder := upd s.holder i (some p),
                            trace := (p, .lockWait) :: s.trace }
    | some _ => none
  | .locked i =>                                       -- :116-118 metadata(dest)
    match s.dest with
    | some _ => some { s with pc := upd s.pc p (.sawExists i), trace := (p, .statDest true) :: s.trace }
    | none => some { s with pc := upd s.pc p (.absent i), trace := (p, .statDest false) :: s.trace }
  | .sawExists i =>                                    -- :123 drop(locked_file)
    some { s with pc := upd s.pc p .exClosed, holder := release s.holder i p,
                  trace := (p, .closeLock) :: s.trace }
  | .exClosed =>                                       -- :124 remove_file(lock)
    some { s with pc := upd s.pc p .exUnlinked, lockName := none, trace := (p, .unlinkLock) :: s.trace }
  | .exUnlinked =>                                     -- :125-128 handle_existing_fn().await = Ok
    some { s with pc := upd s.pc p .doneExisting }
  | .absent i =>                                       -- :133-138 OpenOptions::write.create.truncate.open(part)
    match s.part with
    | some j => some { s with pc := upd s.pc p (.writing i j 0), content := upd s.content j [],
                              trace := (p, .openPart) :: s.trace }
    | none => some { s with pc := upd s.pc p (.writing i s.nextInode 0), part := some s.nextInode,
                            content := upd s.content s.nextInode [], nextInode := s.nextInode + 1,
                            trace := (p, .openPart) :: s.trace }
  | .writing i j k =>                                  -- :143 write_fn(temp_file).await
    match (pl p)[k]? with
    | some c => some { s with pc := upd s.pc p (.writing i j (k + 1)),
                              content := upd s.content j (s.content j ++ [c]),
                              trace := (p, .write) :: s.trace }
    | none => some { s with pc := upd s.pc p (.wroteOk i), trace := (p, .closePart) :: s.trace,
                            okWrites := p :: s.okWrites, okAt := some p }
  | .wroteOk i =>                                      -- :160 rename(part, dest)
    match s.part with
    | some j => some { s with pc := upd s.pc p (.renamed i), dest := some j, part := none,
                              winners := p :: s.winners, trace := (p, .rename true) :: s.trace, okAt := none }
    | none => some { s with pc := upd s.pc p (.failed i .rename), trace := (p, .rename false) :: s.trace,
                            lost := p :: s.lost, okAt := none }
  | .failed i e =>                                     -- :152 / :164 remove_file(part)
    some { s with pc := upd s.pc p (.failDrop i e), part := none, trace := (p, .unlinkPart) :: s.trace }
  | .failDrop i e =>                                   -- :153 / :165 drop(locked_file); the lock file stays
    some { s with pc := upd s.pc p (.doneErr e), holder := release s.holder i p,
                  trace := (p, .closeLock) :: s.trace }
  | .renamed i =>                                      -- :177 drop(locked_file)
    some { s with pc := upd s.pc p .crClosed, holder := release s.holder i p,
                  trace := (p, .closeLock) :: s.trace }
  | .crClosed =>                                       -- :178 remove_file(lock)
    some { s with pc := upd s.pc p .doneCreated, lockName := none, trace := (p, .unlinkLock) :: s.trace }
  | .zombieWait i =>                                   -- :217 detached thread: lock_exclusive
    match s.holder i with
    | none => some { s with pc := upd s.pc p (.zombieHeld i), holder := upd s.holder i (some p),
                            trace := (p, .lockWait) :: s.trace }
    | some _ => none
  | .zombieHeld i =>                                   -- :218 tx.send fails, the File is dropped
    some { s with pc := upd s.pc p .dead, holder := release s.holder i p,
                  trace := (p, .closeLock) :: s.trace }
  | .lockFailed i =>                                   -- the File is dropped; Err(LockFileLocking) (:97)
    some { s with pc := upd s.pc p (.doneErr .lockLock), holder := release s.holder i p,
                  trace := (p, .closeLock) :: s.trace }
  | .doneExisting | .doneCreated | .doneErr _ | .dead => none

/-- creator `p`'s next operation fails -/
def failP (s : State) (p : Pid) : Option State :=
  match s.pc p with
  | .idle =>                                           -- :93 LockFileCreation
    some { s with pc := upd s.pc p (.doneErr .lockCreate), trace := (p, .openLockErr) :: s.trace }
  | .opened i =>                                       -- :194 flock error
    some { s with pc := upd s.pc p (.lockFailed i), trace := (p, .lockErr) :: s.trace }
  | .waiting i =>                                      -- :238
    some { s with pc := upd s.pc p (.lockFailed i), trace := (p, .lockErr) :: s.trace }
  | .absent i =>                                       -- :138 TempFileCreation; `?` drops locked_file
    some { s with pc := upd s.pc p (.failDrop i .tempCreate), trace := (p, .openPartErr) :: s.trace }
  | .writing i _ _ =>                                  -- :150 the callback returns Err (it has dropped the file)
    some { s with pc := upd s.pc p (.failed i .callback), trace := (p, .closePart) :: s.trace }
  | .wroteOk i =>                                      -- :162 rename fails, nothing changed
    some { s with pc := upd s.pc p (.failed i .rename), trace := (p, .rename false) :: s.trace,
                  lost := p :: s.lost, okAt := none }
  | .failed i e =>                                     -- :152 / :164 `let _ =` ignores a failed remove_file(part)
    some { s with pc := upd s.pc p (.failDrop i e), trace := (p, .unlinkPart) :: s.trace }
  | .exClosed =>                                       -- :124 ignored failure of remove_file(lock)
    some { s with pc := upd s.pc p .exUnlinked, trace := (p, .unlinkLock) :: s.trace }
  | .crClosed =>                                       -- :178 ignored failure of remove_file(lock)
    some { s with pc := upd s.pc p .doneCreated, trace := (p, .unlinkLock) :: s.trace }
  | .exUnlinked =>                                     -- :127 handle_existing_fn fails
    some { s with pc := upd s.pc p (.doneErr .callback) }
  | _ => none

/-- the callback has returned `Ok`, the rename has not happened yet -/
def isWroteOk : PC → Bool
  | .wroteOk _ => true
  | _ => false

/-- ghost bookkeeping of a kill: a creator killed between `Ok` of its callback and the rename loses its write -/
def lostAfterCrash (s : State) (p : Pid) : List Pid := if isWroteOk (s.pc p) then p :: s.lost else s.lost
def okAtAfterCrash (s : State) (p : Pid) : Option Pid := if isWroteOk (s.pc p) then none else s.okAt

/-- creator `p`'s process is killed: the kernel closes its descriptors -/
def crashP (s : State) (p : Pid) : Option State :=
  if quiet (s.pc p) then none else
  match lockFd (s.pc p) with
  | some i => some { s with pc := upd s.pc p .dead, holder := release s.holder i p,
                            lost := lostAfterCrash s p, okAt := okAtAfterCrash s p }
  | none => some { s with pc := upd s.pc p .dead, lost := lostAfterCrash s p, okAt := okAtAfterCrash s p }

/-- creator `p`'s future is dropped at one of its await points (:96 → :222, :126, :143).
Inside `write_fn` (repaired code, fix "remove the temp file when the future is dropped"): the callback's
file is dropped, then the drop guard `RemoveTempFileOnDrop` unlinks `dest.part`, then `locked_file` is
closed (locals are dropped in reverse order of declaration; the guard is declared after `locked_file`). -/
def cancelP (s : State) (p : Pid) : Option State :=
  match s.pc p with
  | .waiting i => some { s with pc := upd s.pc p (.zombieWait i) }
  | .writing i _ _ =>
    some { s with pc := upd s.pc p .dead, part := none, holder := release s.holder i p,
                  trace := (p, .closeLock) :: (p, .unlinkPart) :: (p, .closePart) :: s.trace }
  | .exUnlinked => some { s with pc := upd s.pc p .dead }
  | _ => none

/-- the code before that repair: no drop guard, a future dropped inside `write_fn` leaves `dest.part` -/
def cancelPLegacy (s : State) (p : Pid) : Option State :=
  match s.pc p with
  | .writing i _ _ =>
    some { s with pc := upd s.pc p .dead, holder := release s.holder i p,
                  trace := (p, .closeLock) :: (p, .closePart) :: s.trace }
  | _ => cancelP s p

def next (pl : Pid → Content) (s : State) : Act → Option State
  | .step p => stepP pl s p
  | .fail p => failP s p
  | .crash p => crashP s p
  | .cancel p => cancelP s p

/-- the transition function of the code before the repair (used only for `C16_legacy_counterexample_*`) -/
def nextLegacy (pl : Pid → Content) (s : State) : Act → Option State
  | .cancel p => cancelPLegacy s p
  | a => next pl s a

/-- every state the system can be in: any number of creators, any schedule, any faults -/
inductive Reachable (pl : Pid → Content) : State → Prop
  | init : Reachable pl State.init
  | step {s s' : State} (a : Act) : Reachable pl s → next pl s a = some s' → Reachable pl s'

/-- run a schedule; `none` if some action is not enabled -/
def run (pl : Pid → Content) (s : State) : List Act → Option State
  | [] => some s
  | a :: as =>
    match next pl s a with
    | some s' => run pl s' as
    | none => none

/-- contents visible at the final path -/
def State.destContent (s : State) : Option Content := s.dest.map s.content

/-! ### A deliberately wrong variant (used only for a sensitivity witness in `Props/C16.lean`)
`nextUnlinkOnFail` also removes the lock file on the failure paths — what the doc comment at
file_creation.rs:67-69 says the code must *not* do. -/
def nextUnlinkOnFail (pl : Pid → Content) (s : State) (a : Act) : Option State :=
  match a, s.pc a.pid with
  | .step _, .failDrop _ _ => (next pl s a).map fun s' => { s' with lockName := none }
  | _, _ => next pl s a

def runUnlinkOnFail (pl : Pid → Content) (s : State) : List Act → Option State
  | [] => some s
  | a :: as =>
    match nextUnlinkOnFail pl s a with
    | some s' => runUnlinkOnFail pl s' as
    | none => none

end FC
