/-!
Model of `samply/src/shared/context_switch.rs` (C12).

`step` follows `ContextSwitchHandler::{handle_switch_out, handle_switch_in, handle_on_cpu_sample,
consume_cpu_delta, maybe_consume_off_cpu}` on `ThreadContextSwitchData`. Arithmetic is on `Nat`;
`stepSafe` lists every `u64` subtraction / division / `debug_assert` the Rust code performs, so that
"no underflow, no division by zero, no failed debug assertion" is a theorem (`C12_no_underflow`)
instead of a side effect of truncating subtraction. The driver prints `panic` when `stepSafe` is false.

`H`/`hstep` is the specification side: it looks at the bare event history only.
Core Lean only (linked into the driver executable).
-/
namespace CS

inductive TState
  | unknown
  | off (t : Nat)
  | on (t : Nat)
deriving Repr, DecidableEq

structure Group where
  begin_ : Nat
  end_ : Nat
  count : Nat
deriving Repr, DecidableEq

/-- `maybe_consume_off_cpu`: returns (new offAcc, group) -/
def maybeConsume (interval ts offAcc : Nat) : Nat × Option Group :=
  if offAcc < interval then (offAcc, none) else
    let count := offAcc / interval
    let remaining := offAcc - count * interval
    (remaining, some ⟨ts - (offAcc - interval), ts - remaining, count⟩)

/-- every checked operation inside `maybe_consume_off_cpu` succeeds -/
def maybeConsumeSafe (interval ts offAcc : Nat) : Bool :=
  if offAcc < interval then true else
    let count := offAcc / interval
    let remaining := offAcc - count * interval
    decide (0 < interval) && decide (1 ≤ count) && decide (count * interval ≤ offAcc)
      && decide (interval ≤ offAcc) && decide (offAcc - interval ≤ ts) && decide (remaining ≤ ts)
      && decide (ts - (offAcc - interval) ≤ ts - remaining)
      && decide ((ts - remaining) - (ts - (offAcc - interval)) = (count - 1) * interval)

inductive Ev
  | switchIn (t : Nat)
  | switchOut (t : Nat)
  | sample (t : Nat)
  | consume
deriving Repr, DecidableEq

structure St where
  state : TState
  onAcc : Nat
  offAcc : Nat
deriving Repr, DecidableEq

def St.init : St := ⟨.unknown, 0, 0⟩

/-- one call into the real module; outputs: optional off-cpu group, optional handed-out cpu delta -/
def step (interval : Nat) : St → Ev → St × Option Group × Option Nat
  | ⟨.unknown, on, off⟩, .switchOut t => (⟨.off t, on, off⟩, none, none)
  | ⟨.on t0, on, off⟩, .switchOut t => (⟨.off t, on + (t - t0), off⟩, none, none)
  | ⟨.off t0, on, off⟩, .switchOut _ => (⟨.off t0, on, off⟩, none, none)
  | ⟨.unknown, on, off⟩, .switchIn t => (⟨.on t, on, off⟩, none, none)
  | ⟨.on t0, on, off⟩, .switchIn t => (⟨.on t, on + (t - t0), off⟩, none, none)
  | ⟨.off t0, on, off⟩, .switchIn t =>
      let r := maybeConsume interval t (off + (t - t0)); (⟨.on t, on, r.1⟩, r.2, none)
  | ⟨.unknown, on, off⟩, .sample t => (⟨.on t, on, off⟩, none, none)
  | ⟨.on t0, on, off⟩, .sample t => (⟨.on t, on + (t - t0), off⟩, none, none)
  | ⟨.off t0, on, off⟩, .sample t =>
      let r := maybeConsume interval t (off + (t - t0)); (⟨.on t, on, r.1⟩, r.2, none)
  | ⟨s, on, off⟩, .consume => (⟨s, 0, off⟩, none, some on)

/-- all `u64` subtractions / divisions / debug assertions of the call succeed -/
def stepSafe (interval : Nat) : St → Ev → Bool
  | ⟨.on t0, _, _⟩, .switchOut t => decide (t0 ≤ t)
  | ⟨.on t0, _, _⟩, .switchIn t => decide (t0 ≤ t)
  | ⟨.on t0, _, _⟩, .sample t => decide (t0 ≤ t)
  | ⟨.off t0, _, off⟩, .switchIn t => decide (t0 ≤ t) && maybeConsumeSafe interval t (off + (t - t0))
  | ⟨.off t0, _, off⟩, .sample t => decide (t0 ≤ t) && maybeConsumeSafe interval t (off + (t - t0))
  | _, _ => true

/-! ### Specification side: the bare history -/

/-- what the bare history says: last event (time, running afterwards?), the start of the current sleep,
total observed running time, total observed sleeping time -/
structure H where
  last : Option (Nat × Bool)
  sleepStart : Option Nat
  running : Nat
  sleeping : Nat
deriving Repr, DecidableEq

def H.init : H := ⟨none, none, 0, 0⟩

/-- a gap counts as running when its left event is a switch-in or a sample, as sleeping when its left
event is a switch-out; nothing is known before the first event -/
def gap (h : H) (t : Nat) (runAfter : Bool) : H :=
  let ss := if runAfter then none else (match h.sleepStart with | some s => some s | none => some t)
  match h.last with
  | none => ⟨some (t, runAfter), ss, h.running, h.sleeping⟩
  | some (t0, true) => ⟨some (t, runAfter), ss, h.running + (t - t0), h.sleeping⟩
  | some (t0, false) => ⟨some (t, runAfter), ss, h.running, h.sleeping + (t - t0)⟩

def hstep (h : H) : Ev → H
  | .consume => h
  | .switchIn t | .sample t => gap h t true
  | .switchOut t => gap h t false

def Ev.time? : Ev → Option Nat
  | .switchIn t | .switchOut t | .sample t => some t
  | .consume => none

/-- the event is not earlier than the last timed event -/
def timeOk (h : H) (e : Ev) : Prop :=
  match e.time?, h.last with
  | some t, some (t0, _) => t0 ≤ t
  | _, _ => True

instance (h : H) (e : Ev) : Decidable (timeOk h e) := by
  unfold timeOk; split <;> infer_instance

/-! ### Running a history -/

structure Acc where
  st : St
  h : H
  /-- Σ of handed-out cpu deltas -/
  handed : Nat
  /-- off-cpu groups, oldest first -/
  groups : List Group
deriving Repr

def Acc.init : Acc := ⟨St.init, H.init, 0, []⟩

def accStep (interval : Nat) (a : Acc) (e : Ev) : Acc :=
  let r := step interval a.st e
  ⟨r.1, hstep a.h e, a.handed + r.2.2.getD 0, a.groups ++ r.2.1.toList⟩

def run (interval : Nat) (evs : List Ev) : Acc := evs.foldl (accStep interval) Acc.init

/-- timestamps nondecreasing along the history (relative to the spec state `h`) -/
def Nondecr : H → List Ev → Prop
  | _, [] => True
  | h, e :: es => timeOk h e ∧ Nondecr (hstep h e) es

instance decNondecr : (h : H) → (evs : List Ev) → Decidable (Nondecr h evs)
  | _, [] => isTrue trivial
  | h, e :: es =>
    have : Decidable (Nondecr (hstep h e) es) := decNondecr (hstep h e) es
    by unfold Nondecr; exact inferInstance

def groupCount (gs : List Group) : Nat := (gs.map (·.count)).sum

end CS
