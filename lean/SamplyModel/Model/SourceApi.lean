/-!
# Model of `/source/v1` (C09)

Follows `samply-api/src/source/mod.rs:53-101` (`SourceApi::query_api`), branch by branch, together with

* `samply-api/src/api_file_path.rs:3-8`          (`to_api_file_path`)
* `samply-symbols/src/mapped_path.rs:80-97`      (`MappedPath::to_special_path_str`)
* `samply-symbols/src/lib.rs:283-302`            (`SymbolManager::load_source_file`)
* `samply-api/src/symbolicate/mod.rs:229-251`    (the `file` / `inlines[].file` part of `create_response`;
                                                   the full `/symbolicate/v5` model is C07's)

What `SymbolManager::load_symbol_map` + `SymbolMap::lookup` yield for the request's
`(debugName, debugId, moduleOffset)` is an oracle (`Lookup`); the helper's
`FileLocation::location_for_source_file` and `FileAndPathHelper::load_file` are parameters
(`Env.locationFor`, `Env.fileLen`); the spelling function `apiPath : SourceFilePath → String` is a
parameter of every definition, so the theorems hold whatever `to_special_path_str` does — the concrete
transcription `toApiFilePath` is what the driver runs and is compared with the real function.

Core Lean only (this file is linked into `model_c09`).
-/
namespace SourceApi

/-- `samply-symbols/src/mapped_path.rs:16-57` -/
inductive MappedPath where
  | git (repo path rev : String)
  | hg (repo path rev : String)
  | s3 (bucket digest path : String)
  | cargo (registry crateName version path : String)
  deriving DecidableEq, Repr

/-- `MappedPath::to_special_path_str`, `mapped_path.rs:80-97` -/
def MappedPath.toSpecialPathStr : MappedPath → String
  | .git repo path rev => "git:" ++ repo ++ ":" ++ path ++ ":" ++ rev
  | .hg repo path rev => "hg:" ++ repo ++ ":" ++ path ++ ":" ++ rev
  | .s3 bucket digest path => "s3:" ++ bucket ++ ":" ++ digest ++ "/" ++ path ++ ":"
  | .cargo registry crateName version path =>
    "cargo:" ++ registry ++ ":" ++ crateName ++ "-" ++ version ++ ":" ++ path

/-- `SourceFilePath`, `samply-symbols/src/shared.rs:521-530` -/
structure SourceFilePath where
  rawPath : String
  mappedPath : Option MappedPath
  deriving DecidableEq, Repr

/-- `to_api_file_path`, `samply-api/src/api_file_path.rs:3-8` -/
def toApiFilePath (fp : SourceFilePath) : String :=
  match fp.mappedPath with
  | some m => m.toSpecialPathStr
  | none => fp.rawPath

/-- `FrameDebugInfo`, `shared.rs:458-467`; function name and line number play no role in `/source/v1` -/
structure Frame where
  filePath : Option SourceFilePath
  deriving DecidableEq, Repr

/-- Outcome of `load_symbol_map(&info)` (mod.rs:72) followed by `symbol_map.lookup(Relative(offset))`
(mod.rs:74-76) and `.and_then(|ai| ai.frames)` (mod.rs:77-79). Frames are in the order the symbol map
returns them: innermost inlinee first, the outer function last. -/
inductive Lookup where
  | noSymbols                     -- `load_symbol_map` returned `Err` (mod.rs:72 `?`)
  | notFound                      -- `lookup` returned `None`
  | noFrames                      -- `AddressInfo { frames: None, .. }`
  | frames (fs : List Frame)
  deriving Repr

inductive Err where
  | parse              -- `SourceError::ParseRequestErrorSerde` (mod.rs:49)
  | noSymbols          -- `SourceError::NoSymbols`: bad debug id (mod.rs:63), `load_symbol_map` error (mod.rs:72)
  | noDebugInfo        -- `SourceError::NoDebugInfo` (mod.rs:79)
  | invalidPath        -- `SourceError::InvalidPath` (mod.rs:86)
  | refusedLocation    -- `Error::FileLocationRefusedSourceFileLocation` (lib.rs:290), wrapped in `NoSymbols`
  | openFile           -- `Error::HelperErrorDuringOpenFile` / `…FileReading` (lib.rs:294-300), wrapped in `NoSymbols`
  deriving DecidableEq, Repr

inductive Outcome where
  | ok (len : Nat)
  | err (e : Err)
  deriving DecidableEq, Repr

/-- The request after `serde_json::from_str` (mod.rs:49) and `to_debug_id` (mod.rs:63). -/
structure Request where
  parsed : Bool       -- the body deserialised into `request_json::Request`
  debugIdOk : Bool    -- `to_debug_id(debug_id)` returned `Ok`
  file : String       -- `requested_file`

/-- The helper, as far as `/source/v1` uses it for source files. `Loc` is the helper's `FileLocation`. -/
structure Env (Loc : Type) where
  lookup : Lookup
  /-- `debug_file_location.location_for_source_file(raw_path)` (lib.rs:288-290) -/
  locationFor : String → Option Loc
  /-- `helper.load_file(loc)` then `read_bytes_at(0, len)`: `some len` on success (lib.rs:291-300) -/
  fileLen : Loc → Option Nat

/-- What one request does: the ordered list of locations made by `location_for_source_file` that were
passed to `load_file`, and the response class. -/
structure Result (Loc : Type) where
  loads : List Loc
  outcome : Outcome

/-- mod.rs:82-84: `frames.into_iter().filter_map(|frame| frame.file_path)` -/
def filePaths (fs : List Frame) : List SourceFilePath := fs.filterMap (·.filePath)

/-- mod.rs:82-86: `.find(|file_path| to_api_file_path(file_path) == *requested_file)` -/
def findPermitted (apiPath : SourceFilePath → String) (fs : List Frame) (requested : String) :
    Option SourceFilePath :=
  (filePaths fs).find? (fun fp => apiPath fp == requested)

/-- `SymbolManager::load_source_file(&debug_file_location, &source_file_path)`, lib.rs:283-302.
The location is computed from `source_file_path.raw_path()` only. -/
def loadSourceFile {Loc : Type} (env : Env Loc) (fp : SourceFilePath) : Result Loc :=
  match env.locationFor fp.rawPath with
  | none => ⟨[], .err .refusedLocation⟩
  | some loc =>
    match env.fileLen loc with
    | none => ⟨[loc], .err .openFile⟩
    | some n => ⟨[loc], .ok n⟩

/-- `SourceApi::query_api_fallible_json` + `query_api`, mod.rs:48-101 -/
def sourceApi {Loc : Type} (apiPath : SourceFilePath → String) (env : Env Loc) (req : Request) :
    Result Loc :=
  if !req.parsed then ⟨[], .err .parse⟩                       -- mod.rs:49
  else if !req.debugIdOk then ⟨[], .err .noSymbols⟩           -- mod.rs:63
  else
    match env.lookup with
    | .noSymbols => ⟨[], .err .noSymbols⟩                     -- mod.rs:72
    | .notFound => ⟨[], .err .noDebugInfo⟩                    -- mod.rs:77-79
    | .noFrames => ⟨[], .err .noDebugInfo⟩
    | .frames fs =>
      match findPermitted apiPath fs req.file with
      | none => ⟨[], .err .invalidPath⟩                       -- mod.rs:86
      | some fp => loadSourceFile env fp                      -- mod.rs:89-92

/-! ## The file-reporting part of `/symbolicate/v5` -/

/-- `DebugInfo { file, inlines[].file }` as built by `response_frame_for_request_frame`,
symbolicate/mod.rs:229-251. -/
structure ReportedDebugInfo where
  file : Option String
  inlines : List (Option String)
  deriving DecidableEq, Repr

/-- symbolicate/mod.rs:233-235 `frames.split_last().expect(..)`: `none` is the `expect` panic on an empty
frame list; the outer frame is the last one, `inlines` are the others in order (mod.rs:239-247). -/
def reportDebugInfo (apiPath : SourceFilePath → String) (fs : List Frame) : Option ReportedDebugInfo :=
  match fs.getLast? with
  | none => none
  | some outer =>
    some ⟨outer.filePath.map apiPath, fs.dropLast.map (fun f => f.filePath.map apiPath)⟩

/-- every file string present in the response for this address -/
def ReportedDebugInfo.files (r : ReportedDebugInfo) : List String :=
  (r.file :: r.inlines).filterMap id

/-! ## Specification side: the property statement as a decidable predicate on one observed request

`pairs` = (raw path, API spelling) of every frame of the queried address that has a file;
`reported` = the file strings `/symbolicate/v5` reports for that address;
`wellFormed` = the request parsed and carried a valid debug id. -/

def Outcome.accepted : Outcome → Bool
  | .ok _ => true
  | .err .openFile => true
  | .err .refusedLocation => true
  | .err _ => false

def specOk {Loc : Type} [DecidableEq Loc] (pairs : List (String × String)) (reported : List String)
    (locationFor : String → Option Loc) (wellFormed : Bool) (requested : String) (res : Result Loc) :
    Bool :=
  -- at most one source file is read
  decide (res.loads.length ≤ 1)
  -- a read happens only for a well-formed request whose path is exactly a reported one, and what is read is
  -- the location of the raw path of a frame of this address spelled that way
  && (res.loads.isEmpty ||
      (wellFormed && reported.contains requested &&
        res.loads.all (fun l => pairs.any (fun p => p.2 == requested && locationFor p.1 == some l))))
  -- a refusal reads nothing
  && (res.outcome.accepted || res.loads.isEmpty)
  -- every reported path is accepted
  && (!(wellFormed && reported.contains requested) ||
      (res.outcome.accepted && (!res.loads.isEmpty || res.outcome == .err .refusedLocation)))

def pairsOf (apiPath : SourceFilePath → String) (fs : List Frame) : List (String × String) :=
  (filePaths fs).map (fun fp => (fp.rawPath, apiPath fp))

end SourceApi
