/-!
# Model of `/source/v1` (C09)

Follows `samply-api/src/source/mod.rs:53-101` (`SourceApi::query_api`), branch by branch, together with

* `samply-api/src/api_file_path.rs:3-8`          (`to_api_file_path`)
* `samply-symbols/src/mapped_path.rs:80-97`      (`MappedPath::to_special_path_str`)
* `samply-symbols/src/lib.rs:283-302`            (`SymbolManager::load_source_file`)
* `samply-api/src/symbolicate/mod.rs:229-251`    (the `file` / `inlines[].file` part of `create_response`;
                                                   the full `/symbolicate/v5` model is C07's)
* `samply-symbols/src/lib.rs:304-362`            (`SymbolManager::load_symbol_map`: helper-supplied map, candidate loop)
* `samply-api/src/symbolicate/mod.rs:69-130`     (one symbol map for a batch of addresses)
* `samply-api/src/hex.rs:23-37`                  (`from_prefixed_hex_str`: the `moduleOffset` string)
* `samply-symbols/src/symbol_map.rs:122-229`     (`SymbolMap::lookup` and `lookup_external`: the two external-file loops)
* `wholesym/src/helper.rs:92-125`                (`WholesymFileLocation::location_for_source_file`)

What `SymbolManager::load_symbol_map` + `SymbolMap::lookup` yield for the request's
`(debugName, debugId, moduleOffset)` is an oracle (`Lookup`); the helper's
`FileLocation::location_for_source_file` and `FileAndPathHelper::load_file` are parameters
(`Env.locationFor`, `Env.fileLen`); the spelling function `apiPath : SourceFilePath → String` is a
parameter of every definition, so the theorems hold whatever `to_special_path_str` does — the concrete
transcription `toApiFilePath` is what the driver runs and is compared with the real function.

Core Lean only (this file is linked into `model_c09`).
-/
namespace SourceApi

/-- `samply-symbols/src/mapped_path.rs:16-57` -/
inductive MappedPath where
  | git (repo path rev : String)
  | hg (repo path rev : String)
  | s3 (bucket digest path : String)
  | cargo (registry crateName version path : String)
  deriving DecidableEq, Repr

/-- `MappedPath::to_special_path_str`, `mapped_path.rs:80-97` -/
def MappedPath.toSpecialPathStr : MappedPath → String
  | .git repo path rev => "git:" ++ repo ++ ":" ++ path ++ ":" ++ rev
  | .hg repo path rev => "hg:" ++ repo ++ ":" ++ path ++ ":" ++ rev
  | .s3 bucket digest path => "s3:" ++ bucket ++ ":" ++ digest ++ "/" ++ path ++ ":"
  | .cargo registry crateName version path =>
    "cargo:" ++ registry ++ ":" ++ crateName ++ "-" ++ version ++ ":" ++ path

/-- `SourceFilePath`, `samply-symbols/src/shared.rs:521-530` -/
structure SourceFilePath where
  rawPath : String
  mappedPath : Option MappedPath
  deriving DecidableEq, Repr

/-- `to_api_file_path`, `samply-api/src/api_file_path.rs:3-8` -/
def toApiFilePath (fp : SourceFilePath) : String :=
  match fp.mappedPath with
  | some m => m.toSpecialPathStr
  | none => fp.rawPath

/-- `FrameDebugInfo`, `shared.rs:458-467`; function name and line number play no role in `/source/v1` -/
structure Frame where
  filePath : Option SourceFilePath
  deriving DecidableEq, Repr

/-- Outcome of `load_symbol_map(&info)` (mod.rs:72) followed by `symbol_map.lookup(Relative(offset))`
(mod.rs:74-76) and `.and_then(|ai| ai.frames)` (mod.rs:77-79). Frames are in the order the symbol map
returns them: innermost inlinee first, the outer function last. -/
inductive Lookup where
  | noSymbols                     -- `load_symbol_map` returned `Err` (mod.rs:72 `?`)
  | notFound                      -- `lookup` returned `None`
  | noFrames                      -- `AddressInfo { frames: None, .. }`
  | frames (fs : List Frame)
  deriving Repr

inductive Err where
  | parse              -- `SourceError::ParseRequestErrorSerde` (mod.rs:49)
  | noSymbols          -- `SourceError::NoSymbols`: bad debug id (mod.rs:63), `load_symbol_map` error (mod.rs:72)
  | noDebugInfo        -- `SourceError::NoDebugInfo` (mod.rs:79)
  | invalidPath        -- `SourceError::InvalidPath` (mod.rs:86)
  | refusedLocation    -- `Error::FileLocationRefusedSourceFileLocation` (lib.rs:290), wrapped in `NoSymbols`
  | openFile           -- `Error::HelperErrorDuringOpenFile` / `…FileReading` (lib.rs:294-300), wrapped in `NoSymbols`
  deriving DecidableEq, Repr

inductive Outcome where
  | ok (len : Nat)
  | err (e : Err)
  deriving DecidableEq, Repr

/-- The request after `serde_json::from_str` (mod.rs:49) and `to_debug_id` (mod.rs:63). -/
structure Request where
  parsed : Bool       -- the body deserialised into `request_json::Request`
  debugIdOk : Bool    -- `to_debug_id(debug_id)` returned `Ok`
  file : String       -- `requested_file`

/-- The helper, as far as `/source/v1` uses it for source files. `Loc` is the helper's `FileLocation`. -/
structure Env (Loc : Type) where
  lookup : Lookup
  /-- `debug_file_location.location_for_source_file(raw_path)` (lib.rs:288-290) -/
  locationFor : String → Option Loc
  /-- `helper.load_file(loc)` then `read_bytes_at(0, len)`: `some len` on success (lib.rs:291-300) -/
  fileLen : Loc → Option Nat

/-- What one request does: the ordered list of locations made by `location_for_source_file` that were
passed to `load_file`, and the response class. -/
structure Result (Loc : Type) where
  loads : List Loc
  outcome : Outcome

/-- mod.rs:82-84: `frames.into_iter().filter_map(|frame| frame.file_path)` -/
def filePaths (fs : List Frame) : List SourceFilePath := fs.filterMap (·.filePath)

/-- mod.rs:82-86: `.find(|file_path| to_api_file_path(file_path) == *requested_file)` -/
def findPermitted (apiPath : SourceFilePath → String) (fs : List Frame) (requested : String) :
    Option SourceFilePath :=
  (filePaths fs).find? (fun fp => apiPath fp == requested)

/-- `SymbolManager::load_source_file(&debug_file_location, &source_file_path)`, lib.rs:283-302.
The location is computed from `source_file_path.raw_path()` only. -/
def loadSourceFile {Loc : Type} (env : Env Loc) (fp : SourceFilePath) : Result Loc :=
  match env.locationFor fp.rawPath with
  | none => ⟨[], .err .refusedLocation⟩
  | some loc =>
    match env.fileLen loc with
    | none => ⟨[loc], .err .openFile⟩
    | some n => ⟨[loc], .ok n⟩

/-- `SourceApi::query_api_fallible_json` + `query_api`, mod.rs:48-101 -/
def sourceApi {Loc : Type} (apiPath : SourceFilePath → String) (env : Env Loc) (req : Request) :
    Result Loc :=
  if !req.parsed then ⟨[], .err .parse⟩                       -- mod.rs:49
  else if !req.debugIdOk then ⟨[], .err .noSymbols⟩           -- mod.rs:63
  else
    match env.lookup with
    | .noSymbols => ⟨[], .err .noSymbols⟩                     -- mod.rs:72
    | .notFound => ⟨[], .err .noDebugInfo⟩                    -- mod.rs:77-79
    | .noFrames => ⟨[], .err .noDebugInfo⟩
    | .frames fs =>
      match findPermitted apiPath fs req.file with
      | none => ⟨[], .err .invalidPath⟩                       -- mod.rs:86
      | some fp => loadSourceFile env fp                      -- mod.rs:89-92

/-! ## The file-reporting part of `/symbolicate/v5` -/

/-- `DebugInfo { file, inlines[].file }` as built by `response_frame_for_request_frame`,
symbolicate/mod.rs:229-251. -/
structure ReportedDebugInfo where
  file : Option String
  inlines : List (Option String)
  deriving DecidableEq, Repr

/-- symbolicate/mod.rs:233-235 `frames.split_last().expect(..)`: `none` is the `expect` panic on an empty
frame list; the outer frame is the last one, `inlines` are the others in order (mod.rs:239-247). -/
def reportDebugInfo (apiPath : SourceFilePath → String) (fs : List Frame) : Option ReportedDebugInfo :=
  match fs.getLast? with
  | none => none
  | some outer =>
    some ⟨outer.filePath.map apiPath, fs.dropLast.map (fun f => f.filePath.map apiPath)⟩

/-- every file string present in the response for this address -/
def ReportedDebugInfo.files (r : ReportedDebugInfo) : List String :=
  (r.file :: r.inlines).filterMap id

/-! ## Specification side: the property statement as a decidable predicate on one observed request

`pairs` = (raw path, API spelling) of every frame of the queried address that has a file;
`reported` = the file strings `/symbolicate/v5` reports for that address;
`wellFormed` = the request parsed and carried a valid debug id. -/

def Outcome.accepted : Outcome → Bool
  | .ok _ => true
  | .err .openFile => true
  | .err .refusedLocation => true
  | .err _ => false

def specOk {Loc : Type} [DecidableEq Loc] (pairs : List (String × String)) (reported : List String)
    (locationFor : String → Option Loc) (fileLen : Loc → Option Nat) (wellFormed : Bool)
    (requested : String) (res : Result Loc) : Bool :=
  -- at most one source file is read
  decide (res.loads.length ≤ 1)
  -- a read happens only for a well-formed request whose path is exactly a reported one, and what is read is
  -- the location of the raw path of a frame of this address spelled that way
  && (res.loads.isEmpty ||
      (wellFormed && reported.contains requested &&
        res.loads.all (fun l => pairs.any (fun p => p.2 == requested && locationFor p.1 == some l))))
  -- a refusal reads nothing
  && (res.outcome.accepted || res.loads.isEmpty)
  -- every reported path is accepted
  && (!(wellFormed && reported.contains requested) || res.outcome.accepted)
  -- the response class of an acceptance is justified by the helper: `ok n` returns the content of the one
  -- location read; an open-file error only if that location cannot be read; a refused location only if the
  -- helper makes no location for the raw path of a frame with the requested spelling (and nothing is read)
  && (match res.outcome with
      | .ok n => (match res.loads with
                  | [l] => fileLen l == some n
                  | _ => false)
      | .err .openFile => (match res.loads with
                  | [l] => fileLen l == none
                  | _ => false)
      | .err .refusedLocation =>
          res.loads.isEmpty && pairs.any (fun p => p.2 == requested && (locationFor p.1).isNone)
      | .err _ => true)

/-- The same statement when the loads themselves cannot be observed (the helper is wholesym's own, the files
are real files): judged on the response class and the returned content alone. `fileLen` = what the operating
system reads for exactly the path string of a location. `ok n`: the request is well formed, its path is a
reported one, and `n` is the content of the location of the raw path — as it stands — of a frame of this
address spelled that way; an open error / a refused location only if that is what the helper and the file
system say about such a frame's raw path; every reported path is accepted; nothing else is. -/
def specOkContent {Loc : Type} (pairs : List (String × String)) (reported : List String)
    (locationFor : String → Option Loc) (fileLen : Loc → Option Nat) (wellFormed : Bool)
    (requested : String) (o : Outcome) : Bool :=
  let cands := pairs.filter (fun p => p.2 == requested)
  match o with
  | .ok n => wellFormed && reported.contains requested &&
      cands.any (fun p => match locationFor p.1 with
        | some l => fileLen l == some n
        | none => false)
  | .err .openFile => wellFormed && reported.contains requested &&
      cands.any (fun p => match locationFor p.1 with
        | some l => fileLen l == none
        | none => false)
  | .err .refusedLocation => wellFormed && reported.contains requested &&
      cands.any (fun p => (locationFor p.1).isNone)
  | .err _ => !(wellFormed && reported.contains requested)

def pairsOf (apiPath : SourceFilePath → String) (fs : List Frame) : List (String × String) :=
  (filePaths fs).map (fun fp => (fp.rawPath, apiPath fp))

/-! ## Which symbol map a request sees: `SymbolManager::load_symbol_map`, `samply-symbols/src/lib.rs:304-362`

`DL` is the helper's `FileLocation` type as far as debug files are concerned. The receiver of
`location_for_source_file` (lib.rs:288-290) is `symbol_map.debug_file_location()` (source/mod.rs:73) of the
symbol map `load_symbol_map` returned. -/

/-- A symbol map obtained from one candidate (`load_symbol_map_from_location`, lib.rs:334-339) or supplied by
the helper: its `debug_id()`, its `debug_file_location()` and what `lookup(Relative(offset))` followed by
`.and_then(|ai| ai.frames)` gives for every offset. -/
structure Loaded (DL : Type) where
  id : String
  dfl : DL
  lookup : Nat → Lookup

/-- Result of loading one candidate of `get_candidate_paths_for_debug_file`. -/
inductive CandResult (DL : Type) where
  | err                      -- lib.rs:357-359 `Err(e) => all_errors.push(e)`
  | ok (l : Loaded DL)       -- lib.rs:352-356: compared with the requested debug id

/-- The symbol manager with its helper. `SymbolManager` holds nothing but the helper (lib.rs:262-264):
there is no state that survives a request. -/
structure Manager (DL Loc : Type) where
  /-- `helper.get_symbol_map_for_library(info)` (lib.rs:306-312): used as is, no id comparison by samply -/
  direct : Option (Loaded DL)
  /-- the candidates in the helper's order (lib.rs:319-327), each loaded (lib.rs:331-349) -/
  cands : List (CandResult DL)
  /-- `debug_file_location.location_for_source_file(raw_path)` -/
  locationFor : DL → String → Option Loc
  fileLen : Loc → Option Nat

/-- lib.rs:351-360: a candidate is returned iff it loaded and `symbol_map.debug_id() == debug_id`. -/
def candMatch {DL : Type} (id : String) : CandResult DL → Option (Loaded DL)
  | .ok l => if l.id == id then some l else none
  | .err => none

/-- `SymbolManager::load_symbol_map`, lib.rs:304-368; `none` = `Err(..)`. -/
def loadSymbolMap {DL Loc : Type} (m : Manager DL Loc) (id : String) : Option (Loaded DL) :=
  match m.direct with
  | some l => some l                        -- lib.rs:306-312
  | none => m.cands.findSome? (candMatch id)  -- lib.rs:331-361: the first matching candidate wins

/-- A `/source/v1` request with its library and offset. -/
structure OffsetRequest where
  parsed : Bool
  /-- `to_debug_id(debug_id)` (mod.rs:63): `none` = `Err` -/
  debugId : Option String
  offset : Nat
  file : String

/-- What the request flow sees of the manager: mod.rs:72 (`load_symbol_map`), :73 (`debug_file_location`),
:74-79 (`lookup` of the request's offset). -/
def envOf {DL Loc : Type} (m : Manager DL Loc) (id : Option String) (offset : Nat) : Env Loc :=
  match id.bind (loadSymbolMap m) with
  | none => ⟨.noSymbols, fun _ => none, m.fileLen⟩
  | some l => ⟨l.lookup offset, m.locationFor l.dfl, m.fileLen⟩

/-! ### The request body: `moduleOffset` is a `0x`-prefixed hex string (`samply-api/src/hex.rs:23-37`) -/

/-- one digit of `u32::from_str_radix(_, 16)` -/
def hexDigitVal (c : Char) : Option Nat :=
  if '0' ≤ c ∧ c ≤ '9' then some (c.toNat - '0'.toNat)
  else if 'a' ≤ c ∧ c ≤ 'f' then some (c.toNat - 'a'.toNat + 10)
  else if 'A' ≤ c ∧ c ≤ 'F' then some (c.toNat - 'A'.toNat + 10)
  else none

/-- the digits of `u32::from_str_radix(_, 16)`: at least one, hex digits of either case, value below `2^32` -/
def hexDigitsU32 (ds : List Char) : Option Nat :=
  match ds with
  | [] => none
  | _ =>
    match ds.mapM hexDigitVal with
    | none => none
    | some vs =>
      let n := vs.foldl (fun a d => a * 16 + d) 0
      if n < 4294967296 then some n else none

/-- `u32::from_str_radix(s, 16)`: one optional leading `+` (not alone; no `-` for an unsigned type) -/
def fromStrRadix16U32 (s : List Char) : Option Nat :=
  match s with
  | '+' :: d :: more => hexDigitsU32 (d :: more)
  | _ => hexDigitsU32 s

/-- `from_prefixed_hex_str`: `strip_prefix("0x")` (hex.rs:29-35), then `u32::from_str_radix(s, 16)` (hex.rs:36).
`none` = the deserialisation error that makes the whole body fail to parse (mod.rs:49). -/
def parseModuleOffset (cs : List Char) : Option Nat :=
  match cs with
  | '0' :: 'x' :: rest => fromStrRadix16U32 rest
  | _ => none

/-- A request body field by field. -/
structure RawRequest where
  /-- the body is a JSON object with string members `debugName`, `debugId`, `moduleOffset`, `file` -/
  wellFormedJson : Bool
  offsetStr : List Char
  /-- `to_debug_id(debug_id)` (lib.rs:161-169): `none` = not a breakpad id, or the nil id -/
  debugId : Option String
  file : String

def RawRequest.toOffsetRequest (r : RawRequest) : OffsetRequest :=
  match parseModuleOffset r.offsetStr with
  | none => ⟨false, r.debugId, 0, r.file⟩
  | some o => ⟨r.wellFormedJson, r.debugId, o, r.file⟩

/-- `/source/v1` for `(library, offset, file)` on a manager. -/
def sourceApiAt {DL Loc : Type} (apiPath : SourceFilePath → String) (m : Manager DL Loc)
    (rq : OffsetRequest) : Result Loc :=
  sourceApi apiPath (envOf m rq.debugId rq.offset) ⟨rq.parsed, rq.debugId.isSome, rq.file⟩

/-- A sequence of requests served by one manager: every request starts from `load_symbol_map` again
(mod.rs:72) and the manager keeps no state (lib.rs:262-264). -/
def serve {DL Loc : Type} (apiPath : SourceFilePath → String) (m : Manager DL Loc)
    (rqs : List OffsetRequest) : List (Result Loc) :=
  rqs.map (sourceApiAt apiPath m)

/-! ## `/symbolicate/v5` for a batch of addresses of one library

`symbolicate_requested_addresses_for_lib`, symbolicate/mod.rs:69-130 (one `load_symbol_map` for the whole
batch, addresses sorted and de-duplicated, `lookup_sync` + `lookup_external` per address) and
`response_frame_for_request_frame`, :215-259. The per-address frames are the same oracle `Loaded.lookup`
the `/source/v1` side uses: that `lookup_sync` + `lookup_external` on a symbol map shared by the batch and
`SymbolMap::lookup` on a fresh one agree is an assumption of the model, compared in every generated case
(the driver prints what this definition reports, the harness what a real batched request reports). -/

inductive SymEntry where
  | noDebugInfo                       -- no symbol map, no symbol, or no frames: no `debug_info` member
  | panic                             -- the `expect` at symbolicate/mod.rs:235-237 on an empty frame list
  | info (r : ReportedDebugInfo)
  deriving DecidableEq, Repr

def symEntry (apiPath : SourceFilePath → String) : Lookup → SymEntry
  | .frames fs =>
    match reportDebugInfo apiPath fs with
    | none => .panic
    | some r => .info r
  | _ => .noDebugInfo

def symbolicateAt {DL Loc : Type} (apiPath : SourceFilePath → String) (m : Manager DL Loc)
    (id : Option String) (addr : Nat) : SymEntry :=
  match id.bind (loadSymbolMap m) with
  | none => .noDebugInfo
  | some l => symEntry apiPath (l.lookup addr)

/-- the response entries for the requested addresses, in request order -/
def symbolicate {DL Loc : Type} (apiPath : SourceFilePath → String) (m : Manager DL Loc)
    (id : Option String) (addrs : List Nat) : List (Nat × SymEntry) :=
  addrs.map (fun a => (a, symbolicateAt apiPath m id a))

def SymEntry.files : SymEntry → List String
  | .info r => r.files
  | _ => []

/-! ## The location policy of wholesym's helper, `wholesym/src/helper.rs:92-125`

`WholesymFileLocation::location_for_source_file`. The path operations of `std::path` are parameters. -/

inductive WLoc where
  | localFile (path : String)          -- `LocalFile`
  | url (u : String)                   -- `UrlForSourceFile`
  | remote                             -- every other variant (symbol server, debuginfod, breakpad server, vdso)
  deriving DecidableEq, Repr

structure PathOps where
  isAbsolute : String → Bool           -- `Path::is_absolute`
  parent : String → Option String      -- `Path::parent`
  join : String → String → String      -- `Path::join`

def wholesymLocationFor (ops : PathOps) : WLoc → String → Option WLoc
  | .localFile dbg, p =>
    if p.startsWith "https://" || p.startsWith "http://" then some (.url p)       -- helper.rs:95-108
    else if ops.isAbsolute p then some (.localFile p)                              -- helper.rs:110-111
    else (ops.parent dbg).map (fun b => .localFile (ops.join b p))                 -- helper.rs:112-117
  | _, _ => none                                                                   -- helper.rs:119-127

/-! ## The two ways to the frames of an address

`/source/v1` uses `SymbolMap::lookup` (`samply-symbols/src/symbol_map.rs:122-182`) on a fresh symbol map;
`/symbolicate/v5` uses `lookup_sync` and, for frames that live in an external file (dwo, Mach-O object),
`SymbolMap::lookup_external` (`symbol_map.rs:190-229`) on a symbol map shared by the whole batch, whose inner map
caches the most recently used external file (`try_lookup_external`). `X` = `ExternalFileAddressRef`,
`C` = the contents of an auxiliary file. -/

/-- `FramesLookupResult` -/
inductive FLR (X : Type) where
  | available (fs : List Frame)
  | external (x : X)

/-- The inner symbol map and the helper as far as the two loops use them. -/
structure InnerMap (X C : Type) where
  /-- `lookup_sync(address)`: `none` = no symbol, `some none` = a symbol without debug info -/
  lookupSync : Nat → Option (Option (FLR X))
  /-- `InnerSymbolMap::WithAddFile` (external files can be added) -/
  withAddFile : Bool
  /-- `self.helper` is present -/
  hasHelper : Bool
  /-- `location_for_external_object_file` / `location_for_dwo` of the debug file's location, then
  `helper.load_file(location).await.ok()` (symbol_map.rs:146-160 and :211-223): `none` = no location or load error -/
  loadAux : X → Option C
  /-- `try_lookup_external_with_file_contents(&external, file_contents)` -/
  tryWithFile : X → Option C → Option (FLR X)
  /-- `try_lookup_external(external)` (symbol_map.rs:199): answered from the cached external file -/
  tryCached : X → Option (FLR X)

/-- The body shared by both `loop`s: as long as the result refers to a further external file, load it and ask
again. The code's `loop` has no bound; `fuel` bounds the number of external files loaded, `none` = not finished
within `fuel` loads. `some none` = no debug info. -/
def resolveExternal {X C : Type} (im : InnerMap X C) : Nat → Option (FLR X) → Option (Option (List Frame))
  | _, some (.available fs) => some (some fs)
  | _, none => some none
  | 0, some (.external _) => none
  | n + 1, some (.external x) => resolveExternal im n (im.tryWithFile x (im.loadAux x))

/-- `SymbolMap::lookup(address).and_then(|ai| ai.frames)`, symbol_map.rs:122-182 -/
def lookupFresh {X C : Type} (im : InnerMap X C) (fuel : Nat) (a : Nat) : Option (Option (List Frame)) :=
  match im.lookupSync a with
  | none => some none                                       -- :123 `?`
  | some none => some none                                  -- :132-137
  | some (some (.available fs)) => some (some fs)           -- :126-131
  | some (some (.external x)) =>
    if !im.withAddFile then some none                       -- :132-137
    else if !im.hasHelper then some none                    -- :142 `?`
    else resolveExternal im fuel (some (.external x))       -- :143-181

/-- What `/symbolicate/v5` records for an address: `lookup_sync` (symbolicate/mod.rs:97-116), then
`lookup_external` for external references (symbolicate/mod.rs:124-128, symbol_map.rs:190-229) -/
def lookupBatch {X C : Type} (im : InnerMap X C) (fuel : Nat) (a : Nat) : Option (Option (List Frame)) :=
  match im.lookupSync a with
  | none => some none
  | some none => some none
  | some (some (.available fs)) => some (some fs)
  | some (some (.external x)) =>
    if !im.hasHelper then some none                         -- symbol_map.rs:194 `?`
    else if !im.withAddFile then some none                  -- :195-198
    else resolveExternal im fuel (im.tryCached x)           -- :199-228

end SourceApi
