import SamplyModel.Model.ProfileApi
/-!
The decidable precondition of the C03 theorems.

`handlesValid p op`: every handle mentioned by `op` has been returned by an earlier call on `p` —
with the Rust API this is automatic (handle types have private fields and are only produced by the
profile), so it restricts nothing; in the model handles are numbers and the condition has to be said.
A handle of *another thread* is valid (the call is then `rejected`, as the code asserts).

`allocFirst p op`: an allocation sample that carries a stack is added through the first thread of its
process. This excludes exactly the call shape of the known defect (DESIGN §8 #10).
-/
namespace PT

def P.strOk (p : P) (g : Nat) : Bool := decide (g < p.gstrings.strings.length)

def P.optStrOk (p : P) : Option Nat → Bool
  | none => true
  | some g => p.strOk g

def P.frameOk (p : P) (h : TH) : Bool :=
  match p.threads[h.1]? with
  | some th => decide (h.2 < th.frames.keys.length)
  | none => false

def P.stackOk (p : P) (h : TH) : Bool :=
  match p.threads[h.1]? with
  | some th => decide (h.2 < th.stacks.prefixes.length)
  | none => false

def P.optStackOk (p : P) : Option TH → Bool
  | none => true
  | some h => p.stackOk h

def P.nsymOk (p : P) (h : TH) : Bool :=
  match p.threads[h.1]? with
  | some th => decide (h.2 < th.nsyms.names.length)
  | none => false

def P.subSpecOk (p : P) : SubSpec → Bool
  | .other => true
  | .cat c => decide (c < p.cats.length)
  | .sub c s =>
    match p.cats[c]? with
    | some cat => decide (s < cat.subs.length)
    | none => false
  | .catVal _ _ => true
  | .subVal _ _ _ => true

def P.addrOk (p : P) : AddrSpec → Bool
  | .abs _ _ => true
  | .rel _ lib _ => decide (lib < p.libs.all.length)

/-- the schema a marker of type `ty` will be stored with -/
def P.schemaOf (p : P) : MType → Option (List Fmt)
  | .static k => (staticSchema k).map (·.2.2.2)
  | .runtime h => (p.schemas[h]?).map (·.fields)

def handlesValid (p : P) : Op → Bool
  | .addProcess _ _ _ => true
  | .addThread proc _ _ _ => decide (proc < p.processes.length)
  | .setTid t _ => decide (t < p.threads.length)
  | .setName t _ => decide (t < p.threads.length)
  | .setPName pi _ => decide (pi < p.processes.length)
  | .setStart t _ => decide (t < p.threads.length)
  | .setPStart pi _ => decide (pi < p.processes.length)
  | .addLib _ => true
  | .libSyms lib _ => decide (lib < p.libs.all.length)
  | .addMapping pi lib _ _ _ => decide (pi < p.processes.length) && decide (lib < p.libs.all.length)
  | .removeMapping pi _ => decide (pi < p.processes.length)
  | .addKernelMapping lib _ _ _ => decide (lib < p.libs.all.length)
  | .removeKernelMapping _ => true
  | .clearMappings pi => decide (pi < p.processes.length)
  | .string _ => true
  | .category _ _ => true
  | .subcategory c _ => decide (c < p.cats.length)
  | .frameLabel t str src sc _ =>
    decide (t < p.threads.length) && p.strOk str && (match src with
      | none => true
      | some (file, _, _) => p.optStrOk file) && p.subSpecOk sc
  | .frameAddr t a sc _ => decide (t < p.threads.length) && p.addrOk a && p.subSpecOk sc
  | .nativeSymbol t lib _ => decide (t < p.threads.length) && decide (lib < p.libs.all.length)
  | .frameSym t a name nsym file _ _ _ sc _ =>
    decide (t < p.threads.length) && p.addrOk a && p.optStrOk name && p.nsymOk nsym && p.optStrOk file
      && p.subSpecOk sc
  | .stack t frame parent => decide (t < p.threads.length) && p.frameOk frame && p.optStackOk parent
  | .stackFrames t frames => decide (t < p.threads.length) && frames.all p.frameOk
  | .sample t stack _ => decide (t < p.threads.length) && p.optStackOk stack
  | .sameSample t => decide (t < p.threads.length)
  | .allocSample t stack => decide (t < p.threads.length) && p.optStackOk stack
  | .markerType _ cat _ => decide (cat < p.cats.length)
  | .marker t ty name strs _ =>
    decide (t < p.threads.length) && p.strOk name && strs.all p.strOk &&
      (match p.schemaOf ty with
       | some fields => decide (strs.length = (fields.filter (· ≠ .n)).length)
       | none => false)
  | .markerStack t _ stack => decide (t < p.threads.length) && p.optStackOk stack
  | .counter pi => decide (pi < p.processes.length)
  | .counterSample c => decide (c < p.counters.length)
  | .visible t => decide (t < p.threads.length)
  | .selected t => decide (t < p.threads.length)

def allocFirst (p : P) : Op → Bool
  | .allocSample t (some _) =>
    match p.threads[t]? with
    | some th => ((p.processes[th.process]?).bind (·.threads.head?)) == some t
    | none => false
  | _ => true

/-- the hypothesis of the theorems, from state `p` on -/
def AcceptedFrom : P → List Op → Bool
  | _, [] => true
  | p, op :: ops => handlesValid p op && allocFirst p op && AcceptedFrom (step p op).1 ops

def Accepted (ops : List Op) : Bool := AcceptedFrom P.init ops

end PT
