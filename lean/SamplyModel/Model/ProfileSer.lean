import SamplyModel.Model.ProfileApi
/-!
`serialize : P → Option SerProfile` follows `impl Serialize for Profile` (profile.rs:1240-1467) and the
table serializers (`thread.rs:226-277`, `frame_table.rs:105-127`, `func_table.rs:79-102`,
`resource_table.rs:35-50`, `native_symbols.rs:96-109`, `stack_table.rs:70-79`, `sample_table.rs:118-160,
234-252`, `marker_table.rs:128-235`, `counters.rs:75-89`, `global_lib_table.rs:78-82`), restricted to the
observables of C03: table lengths, column lengths, index columns, pid/tid strings and positional thread
references. `none` = the serializer panics (an index / `split_at` / `unwrap` fails).

`wf : SerProfile → Bool` is the specification: a literal transcription of the "no dangling index" part
of the property statement. It is evaluated by the judge on the tables printed from the implementation's
JSON and it is the conclusion of the theorems about `serialize (run ops)`.
Core Lean only.
-/
namespace PT

/-! ### serialized form -/

structure SerThread where
  pid : Str
  tid : Str
  isMain : Bool
  processName : Str
  name : Str
  strings : List Str
  -- frameTable: declared length, lengths of all columns, index / key columns
  ftLen : Nat
  ftCols : List Nat
  ftFunc : List Nat
  ftCat : List Nat
  ftSub : List Nat
  ftLine : List (Option Nat)
  ftCol : List (Option Nat)
  ftAddr : List (Option Nat)
  ftNsym : List (Option Nat)
  ftDepth : List Nat
  -- funcTable
  fnLen : Nat
  fnCols : List Nat
  fnName : List Nat
  fnFlags : List Nat
  fnRes : List (Option Nat)
  fnFile : List (Option Nat)
  -- resourceTable
  rtLen : Nat
  rtCols : List Nat
  rtLib : List Nat
  rtName : List Nat
  -- nativeSymbols
  nsLen : Nat
  nsCols : List Nat
  nsAddr : List Nat
  nsSize : List (Option Nat)
  nsLib : List Nat
  nsName : List Nat
  -- stackTable
  stLen : Nat
  stCols : List Nat
  stPrefix : List (Option Nat)
  stFrame : List Nat
  -- samples (row order belongs to C04; the stack column is compared as a multiset)
  saLen : Nat
  saCols : List Nat
  saStack : List (Option Nat)
  -- nativeAllocations (absent until the first allocation sample)
  na : Option (Nat × List Nat × List (Option Nat))
  -- markers
  mkLen : Nat
  mkCols : List Nat
  mkCat : List Nat
  mkName : List Nat
  /-- `data[i].cause.stack` -/
  mkStack : List (Option Nat)
  /-- `(i, v)`: marker `i` has a field of format "unique-string" with value `v` -/
  mkUstr : List (Nat × Nat)
  /-- `startTime[i]` / `endTime[i]` is a number (not null); `phase[i]` -/
  mkStart : List Bool := []
  mkEnd : List Bool := []
  mkPhase : List Nat := []
deriving Repr

structure SerCounter where
  pid : Str
  mainThreadIndex : Nat
  samples : Nat
deriving Repr

structure SerProfile where
  libs : List Str
  /-- name, colour, subcategory names -/
  cats : List (Str × Nat × List Str)
  visible : List Nat
  selected : List Nat
  counters : List SerCounter
  threads : List SerThread
deriving Repr

/-! ### the specification -/

def optBelow (n : Nat) : Option Nat → Bool
  | none => true
  | some i => decide (i < n)

/-- `prefix[i] < i` for every row -/
def prefixOk : Nat → List (Option Nat) → Bool
  | _, [] => true
  | i, p :: ps => optBelow i p && prefixOk (i + 1) ps

/-- every `(category, subcategory)` pair of the two columns denotes an existing subcategory -/
def subOk (cats : List (Str × Nat × List Str)) : List Nat → List Nat → Bool
  | c :: cs, s :: ss =>
    (match cats[c]? with
     | some cat => decide (s < cat.2.2.length)
     | none => false) && subOk cats cs ss
  | [], [] => true
  | _, _ => false

def wfThread (nLibs : Nat) (cats : List (Str × Nat × List Str)) (t : SerThread) : Bool :=
  let nStr := t.strings.length
  -- all columns of a table have the table's declared length
  t.ftCols.all (· = t.ftLen) && t.fnCols.all (· = t.fnLen) && t.rtCols.all (· = t.rtLen)
  && t.nsCols.all (· = t.nsLen) && t.stCols.all (· = t.stLen) && t.saCols.all (· = t.saLen)
  && t.mkCols.all (· = t.mkLen)
  && decide (t.ftFunc.length = t.ftLen) && decide (t.ftCat.length = t.ftLen)
  && decide (t.ftSub.length = t.ftLen) && decide (t.ftNsym.length = t.ftLen)
  && decide (t.fnName.length = t.fnLen) && decide (t.fnRes.length = t.fnLen)
  && decide (t.fnFile.length = t.fnLen)
  && decide (t.rtLib.length = t.rtLen) && decide (t.rtName.length = t.rtLen)
  && decide (t.nsLib.length = t.nsLen) && decide (t.nsName.length = t.nsLen)
  && decide (t.stPrefix.length = t.stLen) && decide (t.stFrame.length = t.stLen)
  && decide (t.saStack.length = t.saLen)
  && decide (t.mkCat.length = t.mkLen) && decide (t.mkName.length = t.mkLen)
  && decide (t.mkStack.length = t.mkLen)
  -- frameTable: func, category / subcategory, nativeSymbol
  && t.ftFunc.all (· < t.fnLen) && t.ftCat.all (· < cats.length) && subOk cats t.ftCat t.ftSub
  && t.ftNsym.all (optBelow t.nsLen)
  -- funcTable: name, fileName (strings), resource
  && t.fnName.all (· < nStr) && t.fnFile.all (optBelow nStr) && t.fnRes.all (optBelow t.rtLen)
  -- resourceTable: lib (into the list of *used* libs), name
  && t.rtLib.all (· < nLibs) && t.rtName.all (· < nStr)
  -- nativeSymbols: libIndex, name
  && t.nsLib.all (· < nLibs) && t.nsName.all (· < nStr)
  -- stackTable: frame, prefix points to an earlier row
  && t.stFrame.all (· < t.ftLen) && prefixOk 0 t.stPrefix
  -- samples.stack, nativeAllocations.stack, marker cause.stack
  && t.saStack.all (optBelow t.stLen)
  && (match t.na with
      | none => true
      | some (len, cols, stack) =>
        cols.all (· = len) && decide (stack.length = len) && stack.all (optBelow t.stLen))
  && t.mkStack.all (optBelow t.stLen)
  -- markers: category, name, unique-string fields
  && t.mkCat.all (· < cats.length) && t.mkName.all (· < nStr)
  && t.mkUstr.all (fun iv => decide (iv.1 < t.mkLen) && decide (iv.2 < nStr))

/-- the threads of a process are adjacent: once a pid has been left it does not come back -/
def contiguous : List Str → Bool
  | [] => true
  | a :: rest => !((rest.dropWhile (· = a)).contains a) && contiguous rest

/-- within each run of equal pids, main threads come first -/
def mainFirst : List (Str × Bool) → Bool
  | (p1, m1) :: (p2, m2) :: rest => (!(p1 = p2) || m1 || !m2) && mainFirst ((p2, m2) :: rest)
  | _ => true

def distinct : List Str → Bool
  | [] => true
  | a :: rest => !rest.contains a && distinct rest

def wf (s : SerProfile) : Bool :=
  s.threads.all (wfThread s.libs.length s.cats)
  -- tid strings pairwise distinct
  && distinct (s.threads.map (·.tid))
  -- threads of a process adjacent, main threads first
  && contiguous (s.threads.map (·.pid))
  && mainFirst (s.threads.map (fun t => (t.pid, t.isMain)))
  -- positional thread references exist
  && s.visible.all (· < s.threads.length) && s.selected.all (· < s.threads.length)

/-! ### the identity part of the specification

What the *caller* knows, with handles as positions and nothing else: for every process handle its pid
string, for every thread handle its process handle, tid string and main flag, for every counter handle the
process handle and the pid string it was created with, and the thread handles passed to
`add_initial_visible_thread` / `add_initial_selected_thread`.
`identOk v s` is evaluated by the judge on the implementation's tables with a view computed from the op
lines alone (`C03.Spec.view`), and it is the conclusion of `C03_identity` with the view of the model state
(`P.view`). -/

structure CallerView where
  procs : List Str
  threads : List (Nat × Str × Bool)
  counters : List (Nat × Str)
  visible : List Nat
  selected : List Nat
deriving Repr

/-- position of the first occurrence -/
def posOf (l : List Str) (x : Str) : Option Nat :=
  if l.idxOf x < l.length then some (l.idxOf x) else none

def identOk (v : CallerView) (s : SerProfile) : Bool :=
  let tids := s.threads.map (·.tid)
  let pids := s.threads.map (·.pid)
  let posT (h : Nat) : Option Nat := (v.threads[h]?).bind (fun th => posOf tids th.2.1)
  -- every created thread is serialized, nothing else is
  decide (s.threads.length = v.threads.length)
  -- pid strings of different processes differ
  && distinct v.procs
  -- thread `h` is found under its tid string, carries its process's pid string and its main flag
  && v.threads.all (fun th =>
      match (posOf tids th.2.1).bind (s.threads[·]?) with
      | none => false
      | some st => (some st.pid == v.procs[th.1]?) && (st.isMain == th.2.2))
  -- positional references denote the threads the caller named
  && (s.visible.map some == v.visible.map posT) && (s.selected.map some == v.selected.map posT)
  -- counters: pid of the process the caller named; `mainThreadIndex` is the position of the first thread
  -- of that process (the clause is empty for a process without threads: the format needs a thread)
  && decide (s.counters.length = v.counters.length)
  && (v.counters.zip s.counters).all (fun (c, sc) =>
      (v.procs[c.1]? == some c.2) && (sc.pid == c.2)
      && (!(v.threads.any (·.1 == c.1))
          || ((sc.mainThreadIndex == pids.idxOf c.2) && decide (pids.idxOf c.2 < s.threads.length))))

/-! ### serialization -/

def idString (i : IdStr) : Str :=
  if i.2 = 0 then toString i.1 else toString i.1 ++ "." ++ toString i.2

/-- sort key of `Process::cmp_for_json_order` (process.rs:71-78): start time, then the pid string -/
def procKey (p : P) (h : Nat) : Nat × Str :=
  match p.processes[h]? with
  | some pr => (pr.start, idString pr.pid)
  | none => (0, "")

def procCmp (p : P) : Nat → Nat → Ordering :=
  compareLex (compareOn fun h => (procKey p h).1) (compareOn fun h => (procKey p h).2)

/-- sort key of `Thread::cmp_for_json_order` (thread.rs:208-224): `!is_main`, start time, name, tid -/
def threadKey (p : P) (h : Nat) : Bool × Nat × Option Str × Str :=
  match p.threads[h]? with
  | some t => (!t.isMain, t.start, t.name, idString t.tid)
  | none => (false, 0, none, "")

def threadCmp (p : P) : Nat → Nat → Ordering :=
  compareLex (compareOn fun h => (threadKey p h).1)
    (compareLex (compareOn fun h => (threadKey p h).2.1)
      (compareLex (compareOn fun h => (threadKey p h).2.2.1) (compareOn fun h => (threadKey p h).2.2.2)))

/-- `sorted_processes` (profile.rs:1245-1250); `sort_by` is a stable sort -/
def sortedProcs (p : P) : List Nat :=
  (List.range p.processes.length).mergeSort (fun a b => (procCmp p a b).isLE)

/-- the threads of one process in serialization order (profile.rs:1255-1262) -/
def procBlock (p : P) (pi : Nat) : List Nat :=
  match p.processes[pi]? with
  | some pr => pr.threads.mergeSort (fun a b => (threadCmp p a b).isLE)
  | none => []

/-- `sorted_threads` (first component of profile.rs:1240-1274) -/
def sortedThreads (p : P) : List Nat := (sortedProcs p).flatMap (procBlock p)

/-- `first_thread_index_per_process[pi]` (profile.rs:1242, 1253-1254): the number of threads of the
processes sorted before `pi`; `0` (the initial value of the vector) if `pi` is not a process -/
def firstIndexAux (p : P) (pi : Nat) : List Nat → Nat → Nat
  | [], _ => 0
  | q :: qs, acc => if q = pi then acc else firstIndexAux p pi qs (acc + (procBlock p q).length)

def firstThreadIndex (p : P) (pi : Nat) : Nat := firstIndexAux p pi (sortedProcs p) 0

/-- `new_thread_indices[t]` (profile.rs:1243, 1264-1266): the position of `t` in `sorted_threads`
(`0`, the initial value, if `t` is in no process's thread list) -/
def newThreadIndex (p : P) (t : Nat) : Nat :=
  let i := (sortedThreads p).idxOf t
  if i < (sortedThreads p).length then i else 0

/-- the data column of the marker table (marker_table.rs:149-186, 196-235): per marker the schema's
string-field count is split off the flat value vector (`split_at` panics if it is too short), number
values likewise; of the string values only those of "unique-string" fields are indices. -/
def markerUstr (schemas : List Schema) (gstrings : Nat) :
    Nat → List Nat → List Nat → Nat → Option (List (Nat × Nat))
  | _, [], _, _ => some []
  | i, ty :: tys, strs, nums =>
    match schemas[ty]? with
    | none => none
    | some sc =>
      if strs.length < sc.stringCount then none else
      if nums < sc.numberCount then none else
      let mine := strs.take sc.stringCount
      let fmts := sc.fields.filter (· ≠ .n)
      -- `.s` values are global string indices resolved with `get_string(..).unwrap()`
      if (fmts.zip mine).any (fun fv => fv.1 = .s && !decide (fv.2 < gstrings)) then none else
      match markerUstr schemas gstrings (i + 1) tys (strs.drop sc.stringCount) (nums - sc.numberCount) with
      | none => none
      | some rest => some (((fmts.zip mine).filter (·.1 = .u)).map (fun fv => (i, fv.2)) ++ rest)

def serThread (p : P) (t : Thread) : Option SerThread :=
  match p.processes[t.process]?, markerUstr p.schemas p.gstrings.strings.length 0 t.markers.types
      t.markers.strVals t.markers.numVals with
  | some pr, some ustr =>
    let ft := t.frames
    let fn := ft.funcs
    let rt := ft.resources
    let ns := t.nsyms
    let mk := t.markers
    let nf := ft.func.length
    let nfn := fn.names.length
    let nrt := rt.libs.length
    let nns := ns.names.length
    let nst := t.stacks.prefixes.length
    let nsa := t.samples.length
    let nmk := mk.names.length
    some {
      pid := idString pr.pid, tid := idString t.tid, isMain := t.isMain, processName := pr.name,
      -- thread.rs:236-240
      name := if t.isMain then pr.name else match t.name with
        | some n => n
        | none => "Thread <" ++ idString t.tid ++ ">",
      strings := t.strings.table.strings,
      ftLen := nf,
      ftCols := [ft.func.length, ft.cat.length, ft.sub.length, ft.line.length, ft.col.length,
                 ft.addr.length, ft.nsym.length, ft.depth.length, nf],
      ftFunc := ft.func, ftCat := ft.cat, ftSub := ft.sub, ftLine := ft.line, ftCol := ft.col,
      ftAddr := ft.addr, ftNsym := ft.nsym, ftDepth := ft.depth,
      fnLen := nfn,
      fnCols := [fn.names.length, fn.flags.length, fn.flags.length, fn.resources.length,
                 fn.files.length, nfn, nfn],
      fnName := fn.names, fnFlags := fn.flags, fnRes := fn.resources, fnFile := fn.files,
      rtLen := nrt, rtCols := [rt.libs.length, rt.names.length, nrt, nrt],
      rtLib := rt.libs, rtName := rt.names,
      nsLen := nns, nsCols := [ns.addrs.length, ns.sizes.length, ns.libs.length, ns.names.length],
      nsAddr := ns.addrs, nsSize := ns.sizes, nsLib := ns.libs, nsName := ns.names,
      stLen := nst, stCols := [t.stacks.prefixes.length, t.stacks.frames.length],
      stPrefix := t.stacks.prefixes, stFrame := t.stacks.frames,
      saLen := nsa, saCols := [nsa, nsa, nsa, nsa], saStack := t.samples,
      na := t.allocs.map (fun st => (st.length, [st.length, st.length, st.length, st.length, st.length], st)),
      mkLen := nmk,
      mkCols := [mk.cats.length, nmk, mk.ends.length, mk.names.length, mk.phases.length, mk.starts.length],
      mkCat := mk.cats, mkName := mk.names,
      -- the data column has `len` entries: `marker_stacks[i]` is indexed for `i < len`
      mkStack := mk.stacks, mkUstr := ustr, mkStart := mk.starts, mkEnd := mk.ends, mkPhase := mk.phases }
  | _, _ => none

def mapM' {α β : Type} (f : α → Option β) : List α → Option (List β)
  | [] => some []
  | a :: as =>
    match f a, mapM' f as with
    | some b, some bs => some (b :: bs)
    | _, _ => none

def serialize (p : P) : Option SerProfile :=
  let sorted := sortedThreads p
  match mapM' (fun h => p.libs.all[h]?) p.libs.used,
        mapM' (fun h => (p.threads[h]?).bind (serThread p)) sorted,
        mapM' (fun (c : Counter) => if c.process < p.processes.length then
                 some (⟨idString c.pid, firstThreadIndex p c.process, c.samples⟩ : SerCounter) else none) p.counters with
  | some libs, some threads, some counters =>
    if (p.visible ++ p.selected).all (· < p.threads.length) then
      some { libs := libs,
             cats := p.cats.map (fun c => (c.name, c.color, c.subs)),
             visible := p.visible.map (newThreadIndex p),
             selected := p.selected.map (newThreadIndex p),
             counters := counters, threads := threads }
    else none
  | _, _, _ => none

/-- the caller's view of a model state (see `CallerView`) -/
def P.view (p : P) : CallerView where
  procs := p.processes.map (fun pr => idString pr.pid)
  threads := p.threads.map (fun t => (t.process, idString t.tid, t.isMain))
  counters := p.counters.map (fun c => (c.process, idString c.pid))
  visible := p.visible
  selected := p.selected

end PT
