/-!
Model of `LineBuffer` (`samply-symbols/src/breakpad/index.rs:699-750`), byte exact (C10, C08).

`consume` follows the `memchr` loop of `LineBuffer::consume` (index.rs:711-741): the chunk is cut at the
first `\n`; the line handed to the callback is `leftover ++ piece` and starts at
`current_offset - leftover.len()`; without a `\n` the rest of the chunk is appended to `leftover`.
The callback cannot influence the buffer, so instead of threading a closure the model returns the **log**
of callback invocations `(line_start_offset, line_bytes)`; the caller folds over it.

Panics of the Rust code that are explicit here:
* index.rs:712 `assert!(leftover_bytes.len() <= current_offset)` and the `u64` subtraction at
  index.rs:731 / 745 (`current_offset - leftover_bytes.len()`): both are `consumeSafe` / `finish = none`.
  `LB.inv_*` (Lemmas/LineBuffer.lean) shows that they never fire for a buffer that started empty.
* `current_offset += …` (index.rs:720, 735) overflowing `u64`: assumed away (a file of 2^64 bytes).

`bytewise` is the specification side: one byte at a time, no `memchr`, no chunks.
Core Lean only (linked into the driver executable).
-/
namespace LB

abbrev Byte := UInt8
/-- the callback log: `(line_start_offset, line)` per invocation, oldest first -/
abbrev Log := List (Nat × List Byte)

/-- `leftover_bytes`, `current_offset` -/
structure St where
  leftover : List Byte
  off : Nat
deriving Repr, DecidableEq

def St.init : St := ⟨[], 0⟩

/-- `memchr(b'\n', chunk)`: split at the first newline into (before, after-without-newline) -/
def splitNl : List Byte → Option (List Byte × List Byte)
  | [] => none
  | b :: bs => if b = 10 then some ([], bs) else
      match splitNl bs with
      | none => none
      | some (l, r) => some (b :: l, r)

theorem splitNl_len {bs l r} (h : splitNl bs = some (l, r)) : bs.length = l.length + 1 + r.length := by
  induction bs generalizing l r with
  | nil => simp [splitNl] at h
  | cons b bs ih =>
    simp only [splitNl] at h
    split at h
    · cases h; simp; omega
    · split at h
      · cases h
      · rename_i l' r' heq
        cases h
        have := ih heq
        simp; omega

/-- `LineBuffer::consume` (index.rs:711-741), callback invocations returned as a log -/
def consume (st : St) (chunk : List Byte) : St × Log :=
  match h : splitNl chunk with
  | none => ({ leftover := st.leftover ++ chunk, off := st.off + chunk.length }, [])
  | some (l, r) =>
    let (line, start) :=
      if st.leftover.isEmpty then (l, st.off) else (st.leftover ++ l, st.off - st.leftover.length)
    let st' : St := { leftover := [], off := st.off + l.length + 1 }
    let (st'', log) := consume st' r
    (st'', (start, line) :: log)
termination_by chunk.length
decreasing_by have := splitNl_len h; omega

/-- the `assert!` at index.rs:712 holds and the subtraction at index.rs:731 cannot underflow -/
def consumeSafe (st : St) : Bool := decide (st.leftover.length ≤ st.off)

/-- `LineBuffer::finish` (index.rs:743-750): the unterminated tail line, if any, and the final offset;
`none` = the `u64` subtraction at index.rs:745 underflows (panic) -/
def finish (st : St) : Option (Log × Nat) :=
  if st.leftover.isEmpty then some ([], st.off)
  else if st.leftover.length ≤ st.off then some ([(st.off - st.leftover.length, st.leftover)], st.off)
  else none

/-- consuming a list of chunks, threading the state and concatenating the logs -/
def consumeAll (st : St) : List (List Byte) → St × Log
  | [] => (st, [])
  | c :: cs =>
    let (st', log) := consume st c
    let (st'', log') := consumeAll st' cs
    (st'', log ++ log')

/-! ### Specification side -/

/-- one byte: a newline emits the collected line, any other byte is collected -/
def pushByte (acc : St × Log) (b : Byte) : St × Log :=
  let (st, log) := acc
  if b = 10 then
    ({ leftover := [], off := st.off + 1 }, log ++ [(st.off - st.leftover.length, st.leftover)])
  else ({ leftover := st.leftover ++ [b], off := st.off + 1 }, log)

def bytewise (st : St) (bs : List Byte) : St × Log := bs.foldl pushByte (st, [])

/-- `first \n l₁ \n l₂ … \n lₙ` -/
def joinNl : List Byte → List (List Byte) → List Byte
  | first, [] => first
  | first, l :: ls => first ++ 10 :: joinNl l ls

/-- the buffer never holds more bytes than it has been given -/
def Inv (st : St) : Prop := st.leftover.length ≤ st.off

end LB
