/-!
Model of the text that `samply_api::Api::query_api` returns (C08, clauses "a syntactically valid JSON
document" that is "a result or an object with an error message"), and an independent JSON recogniser.

Code followed
* `samply-api/src/lib.rs:197-210` — dispatch on the request path, `json!({ "error": format!("Unrecognized URL
  {request_url}") }).to_string()` for every other path                                  → `dispatch`, `queryApiText`;
* `symbolicate/mod.rs:30-41`, `source/mod.rs:40-51`, `asm/mod.rs:52-63` — the three `query_api_json` wrappers:
  the serialized response, or `json!({ "error": err.to_string() }).to_string()`         → `queryApiText`;
* serde_json's string escaping (`ser.rs`, `ESCAPE` table, `format_escaped_str_contents`) for the one value
  samply builds by hand — third-party, modelled as `escape` and compared byte for byte by the harness
  operation `errjson`.

The outcome of an endpoint's fallible part (`query_api_fallible_json`) is a parameter: `Except message text`.

Specification side: `topObject` recognises RFC 8259 JSON (objects, arrays, strings with escapes, numbers,
literals, whitespace) by recursive descent and returns the top-level object's keys with the kind of their
values; `acceptable` is clause (b). It shares nothing with `escape` / `errorJson`, and nothing with serde_json.
Text is `List UInt8` (UTF-8). Core Lean only (linked into the driver executable).
-/
namespace JT

abbrev Byte := UInt8

/-- ASCII string literal as bytes -/
def asc (s : String) : List Byte := s.toList.map fun c => UInt8.ofNat c.toNat

/-! ### the text the code produces -/

/-- serde_json `HEX_DIGITS` (lower case) -/
def hexLower (n : Nat) : Byte := if n < 10 then UInt8.ofNat (48 + n) else UInt8.ofNat (87 + n)

/-- serde_json `ESCAPE[byte]` + `write_char_escape` -/
def escapeByte (b : Byte) : List Byte :=
  let n := b.toNat
  if n = 34 then [92, 34]                 -- \"
  else if n = 92 then [92, 92]            -- \\
  else if n = 8 then [92, 98]             -- \b
  else if n = 9 then [92, 116]            -- \t
  else if n = 10 then [92, 110]           -- \n
  else if n = 12 then [92, 102]           -- \f
  else if n = 13 then [92, 114]           -- \r
  else if n < 32 then [92, 117, 48, 48, hexLower (n / 16), hexLower (n % 16)]   -- \u00XX
  else [b]

def escape : List Byte → List Byte
  | [] => []
  | b :: rest => escapeByte b ++ escape rest

/-- `json!({ "error": msg }).to_string()` = `{"error":"<escaped msg>"}` -/
def errorJson (msg : List Byte) : List Byte :=
  [123, 34, 101, 114, 114, 111, 114, 34, 58, 34] ++ (escape msg ++ [34, 125])

inductive Endpoint
  | symbolicate | source | asm
deriving Repr, DecidableEq

def pathSymbolicate : List Byte := [47, 115, 121, 109, 98, 111, 108, 105, 99, 97, 116, 101, 47, 118, 53]
def pathSource : List Byte := [47, 115, 111, 117, 114, 99, 101, 47, 118, 49]
def pathAsm : List Byte := [47, 97, 115, 109, 47, 118, 49]
/-- `"Unrecognized URL "` -/
def unrecognized : List Byte := [85, 110, 114, 101, 99, 111, 103, 110, 105, 122, 101, 100, 32, 85, 82, 76, 32]

/-- lib.rs:198-206 -/
def dispatch (path : List Byte) : Option Endpoint :=
  if path = pathSymbolicate then some .symbolicate
  else if path = pathSource then some .source
  else if path = pathAsm then some .asm
  else none

/-- `Api::query_api(path, body)`; `inner e` = what `query_api_fallible_json` of endpoint `e` gives for the
body: the serialized response, or the error whose `to_string()` is the message -/
def queryApiText (path : List Byte) (inner : Endpoint → Except (List Byte) (List Byte)) : List Byte :=
  match dispatch path with
  | some e =>
    match inner e with
    | .ok json => json
    | .error msg => errorJson msg
  | none => errorJson (unrecognized ++ path)

/-! ### specification side: a JSON recogniser -/

inductive Kind
  | null | bool | num | str | arr | obj
deriving Repr, DecidableEq

def isWs (b : Byte) : Bool := b.toNat = 32 || b.toNat = 9 || b.toNat = 10 || b.toNat = 13
def skipWs (l : List Byte) : List Byte := l.dropWhile isWs
def isDigit (b : Byte) : Bool := decide (48 ≤ b.toNat) && decide (b.toNat ≤ 57)
def isHex (b : Byte) : Bool :=
  isDigit b || (decide (97 ≤ b.toNat) && decide (b.toNat ≤ 102)) || (decide (65 ≤ b.toNat) && decide (b.toNat ≤ 70))
def isSimpleEscape (b : Byte) : Bool :=
  let n := b.toNat
  n = 34 || n = 92 || n = 47 || n = 98 || n = 102 || n = 110 || n = 114 || n = 116

/-- after an opening quote: the raw contents up to the closing quote and the rest behind it. Fuel = one unit
per byte looked at. -/
def strBody : Nat → List Byte → Option (List Byte × List Byte)
  | 0, _ => none
  | _ + 1, [] => none
  | f + 1, b :: rest =>
    if b.toNat = 34 then some ([], rest)
    else if b.toNat = 92 then
      match rest with
      | [] => none
      | e :: rest' =>
        if e.toNat = 117 then
          match rest' with
          | h1 :: h2 :: h3 :: h4 :: r =>
            if isHex h1 && isHex h2 && isHex h3 && isHex h4 then
              (strBody f r).map fun p => (b :: e :: h1 :: h2 :: h3 :: h4 :: p.1, p.2)
            else none
          | _ => none
        else if isSimpleEscape e then (strBody f rest').map fun p => (b :: e :: p.1, p.2)
        else none
    else if b.toNat < 32 then none
    else (strBody f rest).map fun p => (b :: p.1, p.2)

/-- one or more digits -/
def digits1 (l : List Byte) : Option (List Byte) :=
  if (l.takeWhile isDigit).isEmpty then none else some (l.dropWhile isDigit)

def fracExp (l : List Byte) : Option (List Byte) :=
  let afterFrac : Option (List Byte) :=
    match l with
    | b :: r => if b.toNat = 46 then digits1 r else some l
    | [] => some l
  match afterFrac with
  | none => none
  | some l =>
    match l with
    | b :: r =>
      if b.toNat = 69 ∨ b.toNat = 101 then
        match r with
        | s :: r' => if s.toNat = 43 ∨ s.toNat = 45 then digits1 r' else digits1 r
        | [] => none
      else some l
    | [] => some l

/-- `-? (0 | [1-9][0-9]*) frac? exp?` -/
def number (l : List Byte) : Option (List Byte) :=
  let l := match l with
    | b :: r => if b.toNat = 45 then r else l
    | [] => l
  match l with
  | b :: r =>
    if b.toNat = 48 then fracExp r
    else if 49 ≤ b.toNat ∧ b.toNat ≤ 57 then fracExp (r.dropWhile isDigit)
    else none
  | [] => none

def literal (lit l : List Byte) : Option (List Byte) :=
  if lit.isPrefixOf l then some (l.drop lit.length) else none

mutual
/-- a JSON value at the head of `l` (no leading whitespace): its kind and the rest. Fuel: one unit per call. -/
def value : Nat → List Byte → Option (Kind × List Byte)
  | 0, _ => none
  | f + 1, l =>
    match l with
    | [] => none
    | b :: r =>
      if b.toNat = 34 then (strBody (r.length + 1) r).map fun p => (Kind.str, p.2)
      else if b.toNat = 123 then
        match skipWs r with
        | c :: r' => if c.toNat = 125 then some (Kind.obj, r') else (members f (c :: r')).map fun p => (Kind.obj, p.2)
        | [] => none
      else if b.toNat = 91 then
        match skipWs r with
        | c :: r' => if c.toNat = 93 then some (Kind.arr, r') else (elements f (c :: r')).map fun r'' => (Kind.arr, r'')
        | [] => none
      else if b.toNat = 116 then (literal [116, 114, 117, 101] l).map fun r' => (Kind.bool, r')
      else if b.toNat = 102 then (literal [102, 97, 108, 115, 101] l).map fun r' => (Kind.bool, r')
      else if b.toNat = 110 then (literal [110, 117, 108, 108] l).map fun r' => (Kind.null, r')
      else (number l).map fun r' => (Kind.num, r')

/-- `member (ws , ws member)* ws }` → (key, kind of the value) list and the rest behind `}` -/
def members : Nat → List Byte → Option (List (List Byte × Kind) × List Byte)
  | 0, _ => none
  | f + 1, l =>
    match l with
    | [] => none
    | q :: r =>
      if q.toNat ≠ 34 then none else
      match strBody (r.length + 1) r with
      | none => none
      | some (key, r) =>
        match skipWs r with
        | [] => none
        | c :: r =>
          if c.toNat ≠ 58 then none else
          match value f (skipWs r) with
          | none => none
          | some (k, r) =>
            match skipWs r with
            | [] => none
            | d :: r =>
              if d.toNat = 44 then (members f (skipWs r)).map fun p => ((key, k) :: p.1, p.2)
              else if d.toNat = 125 then some ([(key, k)], r)
              else none

/-- `value (ws , ws value)* ws ]` → the rest behind `]` -/
def elements : Nat → List Byte → Option (List Byte)
  | 0, _ => none
  | f + 1, l =>
    match value f l with
    | none => none
    | some (_, r) =>
      match skipWs r with
      | [] => none
      | d :: r =>
        if d.toNat = 44 then elements f (skipWs r)
        else if d.toNat = 93 then some r
        else none
end

/-- the whole text is one JSON object (surrounded by optional whitespace): its keys with the kinds of their
values, in order -/
def topObject (l : List Byte) : Option (List (List Byte × Kind)) :=
  match skipWs l with
  | [] => none
  | b :: r =>
    if b.toNat ≠ 123 then none else
    match skipWs r with
    | [] => none
    | c :: r' =>
      if c.toNat = 125 then (if (skipWs r').isEmpty then some [] else none)
      else
        match members (l.length + 1) (c :: r') with
        | none => none
        | some (kv, rest) => if (skipWs rest).isEmpty then some kv else none

def kindOf (kv : List (List Byte × Kind)) (key : List Byte) : Option Kind :=
  (kv.find? fun p => p.1 = key).map (·.2)

def kError : List Byte := [101, 114, 114, 111, 114]
def kResults : List Byte := [114, 101, 115, 117, 108, 116, 115]
def kFile : List Byte := [102, 105, 108, 101]
def kSource : List Byte := [115, 111, 117, 114, 99, 101]
def kStartAddress : List Byte := [115, 116, 97, 114, 116, 65, 100, 100, 114, 101, 115, 115]
def kSize : List Byte := [115, 105, 122, 101]
def kArch : List Byte := [97, 114, 99, 104]
def kSyntax : List Byte := [115, 121, 110, 116, 97, 120]
def kInstructions : List Byte := [105, 110, 115, 116, 114, 117, 99, 116, 105, 111, 110, 115]

/-- the top-level keys of a *result* of the endpoint (response_json.rs of the three modules) -/
def isResult (e : Endpoint) (kv : List (List Byte × Kind)) : Bool :=
  match e with
  | .symbolicate => kindOf kv kResults == some .arr
  | .source => kindOf kv kFile == some .str && kindOf kv kSource == some .str
  | .asm =>
    kindOf kv kStartAddress == some .str && kindOf kv kSize == some .str && kindOf kv kArch == some .str
      && kindOf kv kSyntax == some .arr && kindOf kv kInstructions == some .arr

/-- clause (b): an object with an error message (a string under `error`), or a result of the endpoint the
path names (no result is acceptable on any other path) -/
def isResponse (e : Option Endpoint) (kv : List (List Byte × Kind)) : Bool :=
  match kindOf kv kError with
  | some k => k == .str
  | none =>
    match e with
    | some e => isResult e kv
    | none => false

/-- clauses (a) + (b) for the text returned for a request to `path` -/
def acceptable (path resp : List Byte) : Bool :=
  match topObject resp with
  | some kv => isResponse (dispatch path) kv
  | none => false

end JT
