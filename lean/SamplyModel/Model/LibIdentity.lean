/-!
Model of the library-identity round trip of a saved profile (C19).

Writer  : `fxprof-processed-profile/src/library_info.rs:43-57` (`impl Serialize for LibraryInfo`),
          `global_lib_table.rs:80-84` (the `libs` array = the *used* libraries, in order of first use),
          `profile.rs:1310` (`"libs"` is a top-level key; threads carry no `libs`, there is no `processes`).
Reader  : `samply/src/profile_json_preparse.rs:11-124` (serde structs `ProfileJsonProcess/Thread/Lib`,
          `libinfo_map_entry_for_lib`, `add_libs_to_libinfo_map`, `add_to_libinfo_map_recursive`).
Ids     : `debugid-0.8.0/src/lib.rs` (`BreakpadFormat::fmt`, `DebugId::parse_str` with the options of
          `from_breakpad`), `samply-symbols/src/shared.rs:184-283` (`CodeId::{from_str, fmt}`,
          `PeCodeId`, `ElfBuildId`), `samply-symbols/src/debugid_util.rs` / `debugid` (`from_identifier`).
Server  : `samply/src/main.rs:210-238` (every map value goes to `add_known_library`),
          `wholesym/src/helper.rs:311-335` (`add_known_lib`), `:444-470` (`fill_in_library_info_details`),
          `:476-692` (`get_candidate_paths_for_debug_file`), `:728-800` (`get_candidate_paths_for_binary`),
          `samply-symbols/src/shared.rs:308-337` (`LibraryInfo::absorb`).
Converter: `samply/src/linux_shared/converter.rs:1308-1570, 1572-1613` (`add_module_to_process` cases 2 and 4 with
          and without a build id in the recording, `code_id_matches`, `library_info_with_object`), `:775-786` (where
          the recording's build id comes from), `samply-symbols/src/debugid_util.rs:69-100`.
Lookup  : `samply-symbols/src/lib.rs:330-361` (the first candidate that loads and has the requested debug id).
Keys    : `library_info.rs:48-54` (writer literals), `profile_json_preparse.rs:32-42` + serde_derive's
          `RenameRule::CamelCase` (reader).

Text is modelled as lists of byte values (`Str = List Nat`, every element `< 256` for real strings): the
Rust code indexes strings by bytes (`s.len()`, `s.get(..8)`, `&string[32..]`), and every place where it looks
at `char`s (`is_uppercase_hex`, `is_ascii`) rejects all non-ASCII characters, which is the same as rejecting
bytes `≥ 128` (see the comments at each function). JSON text (serde_json printing and parsing, string
escaping, gzip) is *not* modelled: the model's document type is the reader's serde view of the JSON value.
`u32::from_str_radix` / `u8::from_str_radix` are modelled including the optional leading `+` and the
overflow check. Nothing here can panic in the real code (all slicing goes through `get` or is guarded by
`is_ascii`), so there is no `panic` outcome except the reader's "document does not deserialize"
(`preparse = none`, `samply load` then exits through `expect`).
Core Lean only (linked into the driver executable).
-/
namespace LI

/-- a byte string (UTF-8 bytes of a Rust `String`) -/
abbrev Str := List Nat

/-! ## hexadecimal text -/

/-- `{:X}` digit -/
def upperDigit (n : Nat) : Nat := if n < 10 then 48 + n else 55 + n
/-- `{:x}` digit -/
def lowerDigit (n : Nat) : Nat := if n < 10 then 48 + n else 87 + n

/-- `char::to_digit(16)`: both cases are accepted by `from_str_radix` and by `Uuid::from_str` -/
def hexVal? (c : Nat) : Option Nat :=
  if 48 ≤ c ∧ c ≤ 57 then some (c - 48)
  else if 97 ≤ c ∧ c ≤ 102 then some (c - 87)
  else if 65 ≤ c ∧ c ≤ 70 then some (c - 55)
  else none

/-- `{:x}` of an unsigned integer: no leading zeros, `0` prints as `"0"` -/
def toHexLower (n : Nat) : Str :=
  if n < 16 then [lowerDigit n] else toHexLower (n / 16) ++ [lowerDigit (n % 16)]
decreasing_by omega

/-- `{:X}` of an unsigned integer -/
def toHexUpper (n : Nat) : Str :=
  if n < 16 then [upperDigit n] else toHexUpper (n / 16) ++ [upperDigit (n % 16)]
decreasing_by omega

/-- `{:08X}`: zero-padded on the left to at least 8 characters -/
def pad8Upper (n : Nat) : Str :=
  List.replicate (8 - (toHexUpper n).length) 48 ++ toHexUpper n

/-- two digits per byte: `{byte:02x}` (`ElfBuildId::fmt`) -/
def hexLower (bs : List Nat) : Str := bs.flatMap fun b => [lowerDigit (b / 16), lowerDigit (b % 16)]
/-- two digits per byte, upper case: `{:X}` of `Uuid::simple()` -/
def hexUpper (bs : List Nat) : Str := bs.flatMap fun b => [upperDigit (b / 16), upperDigit (b % 16)]

/-- digit loop of `from_str_radix(_, 16)` without the overflow check -/
def digitsVal (acc : Nat) : Str → Option Nat
  | [] => some acc
  | c :: cs =>
    match hexVal? c with
    | some d => digitsVal (acc * 16 + d) cs
    | none => none

/-- the optional leading `+` -/
def stripPlus : Str → Str
  | 43 :: rest => rest
  | s => s

/-- `uN::from_str_radix(s, 16)` for an unsigned type with `bound = 2^N`: optional leading `+`, then at least
one digit, `PosOverflow` when the value does not fit (checking the final value is equivalent to the
incremental check because the accumulated value never decreases). -/
def fromStrRadix16 (bound : Nat) (s : Str) : Option Nat :=
  let body := stripPlus s
  if body.isEmpty then none else
  match digitsVal 0 body with
  | some v => if v < bound then some v else none
  | none => none

def u32Bound : Nat := 4294967296

/-- decode consecutive 2-character groups with `u8::from_str_radix(pair, 16)`; a trailing odd character is
never looked at (`byte_count = s.len() / 2`, `ElfBuildId::from_str`, shared.rs:270-283). A group that is not
on `char` boundaries contains a byte `≥ 128`, which is not a digit either, so `s.get(..)` returning `None`
and `from_str_radix` failing coincide. -/
def hexPairs : Str → Option (List Nat)
  | a :: b :: rest =>
    match fromStrRadix16 256 [a, b], hexPairs rest with
    | some v, some vs => some (v :: vs)
    | _, _ => none
  | _ => some []

/-- `Uuid::from_str` on a 32-byte string (the only length this code ever passes): the "simple" format, two
hex digits per byte, either case; no sign is accepted here (uuid-1.16 `parser.rs::parse_simple`). -/
def strictPairs : Str → Option (List Nat)
  | a :: b :: rest =>
    match hexVal? a, hexVal? b, strictPairs rest with
    | some x, some y, some vs => some ((x * 16 + y) :: vs)
    | _, _, _ => none
  | [] => some []
  | [_] => none

def parseUuid32 (s : Str) : Option (List Nat) :=
  if s.length = 32 then strictPairs s else none

/-! ## DebugId and its Breakpad form -/

/-- `debugid::DebugId`: a 16-byte uuid plus a 32-bit appendix ("age"), or the PDB 2.0 form (`typ = 1`) -/
inductive DebugId
  | uuid (bytes : List Nat) (age : Nat)
  | pdb20 (timestamp : Nat) (age : Nat)
deriving Repr, DecidableEq

def IsBytes (bs : List Nat) : Prop := ∀ b ∈ bs, b < 256

instance (bs : List Nat) : Decidable (IsBytes bs) := by unfold IsBytes; infer_instance

/-- representable values -/
def DebugId.WF : DebugId → Prop
  | .uuid bs age => bs.length = 16 ∧ IsBytes bs ∧ age < u32Bound
  | .pdb20 ts age => ts < u32Bound ∧ age < u32Bound

instance : (d : DebugId) → Decidable d.WF
  | .uuid _ _ => by unfold DebugId.WF; infer_instance
  | .pdb20 _ _ => by unfold DebugId.WF; infer_instance

def DebugId.nil : DebugId := .uuid (List.replicate 16 0) 0

/-- `BreakpadFormat::fmt` (debugid lib.rs:383-396): `{:X}` of the simple uuid then `{:x}` of the appendix -/
def DebugId.toBreakpad : DebugId → Str
  | .uuid bs age => hexUpper bs ++ toHexLower age
  | .pdb20 ts age => pad8Upper ts ++ toHexLower age

def isAscii (s : Str) : Bool := s.all (· < 128)

/-- `DebugId::from_breakpad` = `parse_str` with `allow_hyphens: false, require_appendix: true,
allow_tail: false` (debugid lib.rs:200-290) -/
def DebugId.fromBreakpad (s : Str) : Option DebugId :=
  let isHyphenated := s[8]? == some 45
  if isHyphenated || !isAscii s then none
  else if 9 ≤ s.length ∧ s.length ≤ 16 then
    -- the PDB 2.0 form
    match fromStrRadix16 u32Bound (s.take 8), fromStrRadix16 u32Bound (s.drop 8) with
    | some ts, some age => some (.pdb20 ts age)
    | _, _ => none
  else if s.length < 32 then none           -- `string.get(..32)?`
  else
    match parseUuid32 (s.take 32) with
    | none => none
    | some bytes =>
      let appendix := s.drop 32
      if appendix.head? == some 45 then none  -- "require a hyphen if and only if we're hyphenated"
      else
        match fromStrRadix16 u32Bound appendix with  -- fails on the empty string
        | some age => some (.uuid bytes age)
        | none => none

/-- `DebugId::from_identifier(id, little_endian = true)`: the first 16 bytes, zero-padded, with the three
leading fields byte-swapped (debugid_util.rs `from_identifier`) -/
def DebugId.fromIdentifierLE (id : List Nat) : DebugId :=
  let d := (id.take 16) ++ List.replicate (16 - (id.take 16).length) 0
  match d with
  | [a0, a1, a2, a3, a4, a5, a6, a7, a8, a9, a10, a11, a12, a13, a14, a15] =>
    .uuid [a3, a2, a1, a0, a5, a4, a7, a6, a8, a9, a10, a11, a12, a13, a14, a15] 0
  | _ => .nil -- unreachable: `d` has 16 elements

/-! ## CodeId -/

inductive CodeId
  | pe (timestamp imageSize : Nat)
  | macho (uuid : List Nat)
  | elf (buildId : List Nat)
deriving Repr, DecidableEq

/-- `impl Display for CodeId` (shared.rs:207-215), `PeCodeId::fmt` (`{:08X}{:x}`), `ElfBuildId::fmt` -/
def CodeId.toStr : CodeId → Str
  | .pe ts size => pad8Upper ts ++ toHexLower size
  | .macho u => hexUpper u
  | .elf b => hexLower b

/-- `PeCodeId::from_str` (shared.rs:236-250) -/
def peFromStr (s : Str) : Option CodeId :=
  if s.length < 9 ∨ s.length > 16 then none else
  match fromStrRadix16 u32Bound (s.take 8), fromStrRadix16 u32Bound (s.drop 8) with
  | some ts, some size => some (.pe ts size)
  | _, _ => none

/-- `is_uppercase_hex` (shared.rs:202-205): every `char` is an ASCII digit or `A`–`F` -/
def isUppercaseHex (s : Str) : Bool := s.all fun c => (48 ≤ c && c ≤ 57) || (65 ≤ c && c ≤ 70)

/-- `impl FromStr for CodeId` (shared.rs:184-200): the three-way dispatch on length and case -/
def CodeId.fromStr (s : Str) : Option CodeId :=
  if s.length ≤ 17 then peFromStr s
  else if s.length = 32 ∧ isUppercaseHex s then (parseUuid32 s).map .macho
  else (hexPairs s).map .elf

def DecimalOnly (bs : List Nat) : Prop := ∀ b ∈ bs, b / 16 < 10 ∧ b % 16 < 10

instance (bs : List Nat) : Decidable (DecimalOnly bs) := by unfold DecimalOnly; infer_instance

/-- The code ids that survive `to_string` → `from_str` (theorem `C19_codeid_roundtrip`; the ELF clause is
sharp, see `C19_codeid_short_elf_mistyped` and `C19_codeid_decimal16_elf_mistyped`). -/
def CodeIdRoundTrips : CodeId → Prop
  | .pe ts size => ts < u32Bound ∧ size < u32Bound
  | .macho u => u.length = 16 ∧ IsBytes u
  | .elf b => IsBytes b ∧ 9 ≤ b.length ∧ ¬ (b.length = 16 ∧ DecimalOnly b)

instance : (c : CodeId) → Decidable (CodeIdRoundTrips c)
  | .pe _ _ => by unfold CodeIdRoundTrips; infer_instance
  | .macho _ => by unfold CodeIdRoundTrips; infer_instance
  | .elf _ => by unfold CodeIdRoundTrips; infer_instance

/-! ## the writer -/

/-- `fxprof_processed_profile::LibraryInfo` (library_info.rs:12-41) -/
structure LibInfo where
  name : Str
  debugName : Str
  path : Str
  debugPath : Str
  debugId : DebugId
  codeId : Option Str
  arch : Option Str
deriving Repr, DecidableEq

/-- keys of a library object -/
inductive Key
  | name | path | debugName | debugPath | breakpadId | codeId | arch
deriving Repr, DecidableEq

/-- the exact key strings of the writer (library_info.rs:48-54); the reader derives the same strings from its
field names through `#[serde(rename_all = "camelCase")]` (profile_json_preparse.rs:32-42) -/
def Key.toString : Key → String
  | .name => "name" | .path => "path" | .debugName => "debugName" | .debugPath => "debugPath"
  | .breakpadId => "breakpadId" | .codeId => "codeId" | .arch => "arch"

/-- JSON value of a library field as far as the reader distinguishes: `null`, a string, anything else -/
inductive JVal
  | null
  | str (s : Str)
  | bad
deriving Repr, DecidableEq

abbrev JObj := List (Key × JVal)

def optVal : Option Str → JVal
  | none => .null
  | some s => .str s

/-- `impl Serialize for LibraryInfo` (library_info.rs:43-57): seven entries in this order; `Option`s are
written as `null` -/
def serializeLib (l : LibInfo) : JObj :=
  [ (.name, .str l.name), (.path, .str l.path), (.debugName, .str l.debugName),
    (.debugPath, .str l.debugPath), (.breakpadId, .str l.debugId.toBreakpad),
    (.codeId, optVal l.codeId), (.arch, optVal l.arch) ]

/-- The reader's view of a profile document: a process-shaped object with the three keys the reader looks
at (`libs`, `threads[].libs`, `processes[]`); an absent key and an empty array are the same to the reader
(`#[serde(default)]`). -/
inductive PDoc
  | mk (libs : List JObj) (threads : List (List JObj)) (processes : List PDoc)

/-- What the writer produces (profile.rs:1296-1330 + global_lib_table.rs:80-84): the used libraries at top
level, one object without `libs` per thread, no `processes` key. -/
structure Profile where
  usedLibs : List LibInfo
  threadCount : Nat

def serializeProfile (p : Profile) : PDoc :=
  .mk (p.usedLibs.map serializeLib) (List.replicate p.threadCount []) []

/-! ## the reader -/

/-- `wholesym::LibraryInfo` (shared.rs:298-306) -/
structure RLib where
  debugName : Option Str
  debugId : Option DebugId
  debugPath : Option Str
  name : Option Str
  codeId : Option CodeId
  path : Option Str
  arch : Option Str
deriving Repr, DecidableEq

def RLib.empty : RLib := ⟨none, none, none, none, none, none, none⟩

/-- serde-derived field access of `ProfileJsonLib` (all seven fields are `Option<String>`): absent or `null`
→ `None`; a string → `Some`; another JSON type or a repeated key → the whole document fails to deserialize -/
def field (o : JObj) (k : Key) : Option (Option Str) :=
  match o.filter (fun kv => kv.1 == k) with
  | [] => some none
  | [(_, .null)] => some none
  | [(_, .str s)] => some (some s)
  | _ => none

/-- `ProfileJsonLib` -/
structure JLib where
  debugName : Option Str
  debugPath : Option Str
  name : Option Str
  path : Option Str
  breakpadId : Option Str
  codeId : Option Str
  arch : Option Str
deriving Repr, DecidableEq

def parseLib (o : JObj) : Option JLib :=
  match field o .debugName, field o .debugPath, field o .name, field o .path,
        field o .breakpadId, field o .codeId, field o .arch with
  | some dn, some dp, some n, some p, some b, some c, some a => some ⟨dn, dp, n, p, b, c, a⟩
  | _, _, _, _, _, _, _ => none

/-- `libinfo_map_entry_for_lib` (profile_json_preparse.rs:84-110) -/
def libinfoMapEntryForLib (l : JLib) : Option RLib :=
  match l.debugName, l.breakpadId with
  | some debugName, some breakpadId =>
    match DebugId.fromBreakpad breakpadId with
    | none => none
    | some debugId =>
      some { debugId := some debugId, debugName := some debugName, debugPath := l.debugPath,
             name := l.name, codeId := l.codeId.bind CodeId.fromStr, path := l.path, arch := l.arch }
  | _, _ => none

abbrev MapKey := Str × DebugId
abbrev LibMap := List (MapKey × RLib)

/-- `HashMap::insert`: replaces the value of an existing key -/
def LibMap.insert (m : LibMap) (k : MapKey) (v : RLib) : LibMap :=
  match m with
  | [] => [(k, v)]
  | (k', v') :: rest => if k' = k then (k, v) :: rest else (k', v') :: LibMap.insert rest k v

def LibMap.find? (m : LibMap) (k : MapKey) : Option RLib :=
  match m with
  | [] => none
  | (k', v') :: rest => if k' = k then some v' else LibMap.find? rest k

/-- `add_libs_to_libinfo_map` (profile_json_preparse.rs:70-82) on already deserialized libs -/
def addLibs (m : LibMap) : List JLib → LibMap
  | [] => m
  | l :: ls =>
    match libinfoMapEntryForLib l with
    | some info =>
      match info.debugName, info.debugId with
      | some n, some d => addLibs (m.insert (n, d) info) ls
      | _, _ => addLibs m ls -- unreachable: `libinfo_map_entry_for_lib` sets both
    | none => addLibs m ls

/-- deserialization of a `Vec<ProfileJsonLib>` -/
def parseLibs : List JObj → Option (List JLib)
  | [] => some []
  | o :: os =>
    match parseLib o, parseLibs os with
    | some l, some ls => some (l :: ls)
    | _, _ => none

mutual
/-- the libs of a document in the order `add_to_libinfo_map_recursive` visits them
(profile_json_preparse.rs:112-122): own `libs`, then each thread's `libs`, then the sub-processes;
`none` when some library object does not deserialize -/
def collect : PDoc → Option (List JLib)
  | .mk libs threads procs =>
    match parseLibs libs, parseLibs threads.flatten, collectAll procs with
    | some a, some b, some c => some (a ++ b ++ c)
    | _, _, _ => none
def collectAll : List PDoc → Option (List JLib)
  | [] => some []
  | p :: ps =>
    match collect p, collectAll ps with
    | some a, some b => some (a ++ b)
    | _, _ => none
end

/-- `parse_libinfo_map_from_profile` (profile_json_preparse.rs:60-68); `none` = the `expect` in
`run_server_serving_profile` fires -/
def preparse (d : PDoc) : Option LibMap :=
  (collect d).map (addLibs [])

/-! ## the server's use of the map -/

/-- `LibraryInfo::absorb` (shared.rs:314-336): fill every `None` field from `other` -/
def RLib.absorb (self other : RLib) : RLib :=
  { debugName := self.debugName.orElse fun _ => other.debugName
    debugId := self.debugId.orElse fun _ => other.debugId
    debugPath := self.debugPath.orElse fun _ => other.debugPath
    name := self.name.orElse fun _ => other.name
    codeId := self.codeId.orElse fun _ => other.codeId
    path := self.path.orElse fun _ => other.path
    arch := self.arch.orElse fun _ => other.arch }

/-- `KnownLibs` (helper.rs:257-263) -/
structure KnownLibs where
  byDebug : LibMap
  byPe : List ((Str × Nat × Nat) × RLib)
  byElf : List (List Nat × RLib)
  byMacho : List (List Nat × RLib)

def KnownLibs.empty : KnownLibs := ⟨[], [], [], []⟩

def assocInsert {κ : Type} [DecidableEq κ] (m : List (κ × RLib)) (k : κ) (v : RLib) : List (κ × RLib) :=
  match m with
  | [] => [(k, v)]
  | (k', v') :: rest => if k' = k then (k, v) :: rest else (k', v') :: assocInsert rest k v

def assocFind? {κ : Type} [DecidableEq κ] (m : List (κ × RLib)) (k : κ) : Option RLib :=
  match m with
  | [] => none
  | (k', v') :: rest => if k' = k then some v' else assocFind? rest k

/-- `Helper::add_known_lib` (helper.rs:311-335), first half: the `by_debug` table -/
def KnownLibs.addDebug (k : KnownLibs) (l : RLib) : KnownLibs :=
  match l.debugName, l.debugId with
  | some n, some d => { k with byDebug := k.byDebug.insert (n, d) l }
  | _, _ => k

/-- second half: the table selected by the type of the code id -/
def KnownLibs.addCode (k : KnownLibs) (l : RLib) : KnownLibs :=
  match l.codeId, l.name with
  | some (.pe ts size), some name => { k with byPe := assocInsert k.byPe (name, ts, size) l }
  | some (.elf b), _ => { k with byElf := assocInsert k.byElf b l }
  | some (.macho u), _ => { k with byMacho := assocInsert k.byMacho u l }
  | _, _ => k

def KnownLibs.add (k : KnownLibs) (l : RLib) : KnownLibs := (k.addDebug l).addCode l

/-- `run_server_serving_profile` (main.rs:236-238): `for lib_info in libinfo_map.into_values()` calls
`add_known_library`. The iteration order of the hash map is unspecified, so the theorems are stated for
every permutation `vs` of the map's values. -/
def KnownLibs.ofValues (vs : List RLib) : KnownLibs := vs.foldl (fun k v => k.add v) .empty

def KnownLibs.ofMap (m : LibMap) : KnownLibs := .ofValues (m.map (·.2))

/-- `fill_in_library_info_details` (helper.rs:444-470), first half: "(debugName, breakpadId) in the known libs" -/
def fillDebug (k : KnownLibs) (info : RLib) : RLib :=
  match info.debugName, info.debugId with
  | some n, some d =>
    match k.byDebug.find? (n, d) with
    | some known => info.absorb known
    | none => info
  | _, _ => info

def absorbOpt (info : RLib) : Option RLib → RLib
  | some known => info.absorb known
  | none => info

/-- the known library with the same code id, from the table of the code id's type -/
def lookupCode (k : KnownLibs) (info : RLib) : Option RLib :=
  match info.codeId, info.name with
  | some (.pe ts size), some name => assocFind? k.byPe (name, ts, size)
  | some (.elf b), _ => assocFind? k.byElf b
  | some (.macho u), _ => assocFind? k.byMacho u
  | _, _ => none

/-- second half: look the (possibly just absorbed) code id up in the table of its type -/
def fillCode (k : KnownLibs) (info : RLib) : RLib := absorbOpt info (lookupCode k info)

def fillIn (k : KnownLibs) (info : RLib) : RLib := fillCode k (fillDebug k info)

/-- candidate locations, reduced to the kinds that matter on Linux without configured symbol directories,
symbol servers, debuginfod or a simpleperf cache (the `samply load` defaults used by the check) -/
inductive Cand
  | localFile (path : Str)
  | breakpad (debugName : Str) (breakpadId : Str)
  | vdso
deriving Repr, DecidableEq

def endsWith (s suffix : Str) : Bool := decide (suffix.length ≤ s.length) && s.drop (s.length - suffix.length) == suffix

def parentDir (p : Str) : Str := ((p.reverse.dropWhile (· != 47)).drop 1).reverse

/-- `get_candidate_paths_for_binary` (helper.rs:728-800) with the default configuration: the recorded
`path` first; the dyld-shared-cache candidates (paths under `/usr/` or `/System/`) only name macOS cache
files and are omitted; `[vdso]` special case kept. -/
def candidatesForBinary (k : KnownLibs) (request : RLib) : List Cand :=
  let info := fillIn k request
  (match info.path with | some p => [Cand.localFile p] | none => [])
  ++ (if info.name == some [91, 118, 100, 115, 111, 93] then [Cand.vdso] else [])

/-- `get_candidate_paths_for_debug_file` (helper.rs:476-692), default configuration, non-macOS (no dSYM
found by `locate_dsym_fastpath` / Spotlight): `<debug_path>.dbg` for `.so`, the debug file next to the
binary when `name ≠ debug_name`, `/usr/lib/debug/.build-id/xx/….debug` for an ELF build id, the local
Breakpad file, then the binary at the recorded `path`. -/
def earlierDebugCands (info : RLib) : List Cand :=
  (match info.debugPath, info.debugName with
    | some dp, some _ =>
      (if endsWith dp [46, 115, 111] then [Cand.localFile (dp ++ [46, 100, 98, 103])] else [])
      ++ (if endsWith dp [46, 112, 100, 98] then [Cand.localFile dp] else [])
    | _, _ => [])
  ++ (match info.path, info.debugName with
    | some p, some dn => if info.name != some dn then [Cand.localFile (parentDir p ++ [47] ++ dn)] else []
    | _, _ => [])
  ++ (match info.codeId with
    | some (.elf b) =>
      let s := hexLower b
      if s.length > 2 then
        [Cand.localFile ("/usr/lib/debug/.build-id/".toUTF8.toList.map (·.toNat) ++ s.take 2 ++ [47] ++ s.drop 2
          ++ ".debug".toUTF8.toList.map (·.toNat))]
      else []
    | _ => [])
  ++ (match info.debugName, info.debugId with
    | some dn, some d => [Cand.breakpad dn d.toBreakpad]
    | _, _ => [])

/-- the whole list for an already completed library info: the candidates tried *before* the binary itself
(`earlierDebugCands`), the binary at the recorded `path`, the vdso special case -/
def debugCandsOf (info : RLib) : List Cand :=
  earlierDebugCands info
  ++ (match info.path with | some p => [Cand.localFile p] | none => [])
  ++ (if info.name == some [91, 118, 100, 115, 111, 93] then [Cand.vdso] else [])

def candidatesForDebugFile (k : KnownLibs) (request : RLib) : List Cand :=
  debugCandsOf (fillIn k request)

/-- the request the symbolication API makes for a `memoryMap` entry `[debugName, breakpadId]`
(samply-api symbolicate: `LibraryInfo { debug_name, debug_id, ..Default }`) -/
def requestFor (debugName : Str) (d : DebugId) : RLib :=
  { RLib.empty with debugName := some debugName, debugId := some d }

/-! ## specification side -/

/-- what the reader should know about a library written by the writer: every field as recorded, the code id
as the typed id its text denotes -/
def LibInfo.view (l : LibInfo) : RLib :=
  { debugName := some l.debugName, debugId := some l.debugId, debugPath := some l.debugPath,
    name := some l.name, codeId := l.codeId.bind CodeId.fromStr, path := some l.path, arch := l.arch }

def LibInfo.key (l : LibInfo) : MapKey := (l.debugName, l.debugId)

/-- the converter's library info for a mapped ELF file (converter.rs:1597-1613 for case 2 with the debug id
of `debug_id_for_object`; :1547-1562 for case 4 without a build id in the MMAP2 record) -/
def basename (p : Str) : Str := (p.reverse.takeWhile (· != 47)).reverse

def convertLib (path : Str) (debugId : DebugId) (buildId : Option (List Nat)) : LibInfo :=
  { name := basename path, debugName := basename path, path := path, debugPath := path,
    debugId := debugId, codeId := buildId.map fun b => (CodeId.elf b).toStr, arch := none }

/-! ## the converter: identity of one mapping, with the build id the recording carries

`add_module_to_process` (converter.rs:1308-1570) for an ELF mapping outside the simpleperf / vdso / PE / jitted-`.so`
special cases. `recId` is the build id the recording has for the mapping: from the MMAP2 record itself
(`Mmap2FileId::BuildId`, converter.rs:775-776) or from the `HEADER_BUILD_ID` section entry of the same path
(:777-785). -/

/-- what `open_file_with_fallback` + `object::File::parse` found for the mapped path (converter.rs:1337, 1425):
nothing, or a little-endian ELF file with its `.note.gnu.build-id` (if any) and the XOR hash of its first text
page -/
inductive MappedFile
  | absent
  | elf (buildId : Option (List Nat)) (textHash : List Nat)
deriving Repr, DecidableEq

/-- `debug_id_for_object` (samply-symbols debugid_util.rs:69-100) for a little-endian ELF file: from the build
id, else from the hash of the first page of `.text` -/
def fileDebugId (buildId : Option (List Nat)) (textHash : List Nat) : DebugId :=
  match buildId with
  | some b => DebugId.fromIdentifierLE b
  | none => DebugId.fromIdentifierLE textHash

def elfCodeText (b : List Nat) : Str := (CodeId.elf b).toStr

/-- `code_id_matches` (converter.rs:1572-1595) applied as at :1438-1442: with a build id in the recording the
file must have a note and it must be *equal* (all bytes, `ElfBuildId: PartialEq` on the `Vec<u8>`) -/
def codeIdMatches (fileId : Option (List Nat)) (expected : List Nat) : Bool :=
  match fileId with
  | some f => f == expected
  | none => false

/-- The library info the converter adds to the profile for one mapping, `none` = the mapping is dropped
(`return` at converter.rs:1441).
* case 2 (file opened at `path`, :1416-1491): identity *of the file* — `library_info_with_object` with the
  file's own code id and `debug_id_for_object`; refused when the recording names another build id;
* case 4 (no file, :1538-1569): identity *of the recording* — `DebugId::from_identifier(id, true)` and the
  build id text, or the nil debug id and no code id without a build id. -/
def convertMapping (path : Str) (file : MappedFile) (recId : Option (List Nat)) : Option LibInfo :=
  match file with
  | .elf fileId textHash =>
    if (match recId with | some e => !codeIdMatches fileId e | none => false) then none
    else some { name := basename path, debugName := basename path, path := path, debugPath := path,
                debugId := fileDebugId fileId textHash, codeId := fileId.map elfCodeText, arch := none }
  | .absent =>
    some { name := basename path, debugName := basename path, path := path, debugPath := path,
           debugId := (match recId with | some b => DebugId.fromIdentifierLE b | none => DebugId.nil),
           codeId := recId.map elfCodeText, arch := none }

/-! ## key names as text

The writer spells the keys as string literals (library_info.rs:48-54); the reader derives them from its field
identifiers through `#[serde(rename_all = "camelCase")]` (profile_json_preparse.rs:32-42). Both spellings are
modelled separately so that their agreement is a theorem (`C19_keys_agree`) and the round trip can be stated
for documents whose keys are text (`C19_roundtrip_text`). -/

/-- the writer's literals -/
def Key.writerText : Key → Str
  | .name => [110, 97, 109, 101]                                      -- "name"
  | .path => [112, 97, 116, 104]                                      -- "path"
  | .debugName => [100, 101, 98, 117, 103, 78, 97, 109, 101]          -- "debugName"
  | .debugPath => [100, 101, 98, 117, 103, 80, 97, 116, 104]          -- "debugPath"
  | .breakpadId => [98, 114, 101, 97, 107, 112, 97, 100, 73, 100]     -- "breakpadId"
  | .codeId => [99, 111, 100, 101, 73, 100]                           -- "codeId"
  | .arch => [97, 114, 99, 104]                                       -- "arch"

/-- the reader's Rust field identifiers (`ProfileJsonLib`) -/
def Key.readerField : Key → Str
  | .name => [110, 97, 109, 101]                                          -- name
  | .path => [112, 97, 116, 104]                                          -- path
  | .debugName => [100, 101, 98, 117, 103, 95, 110, 97, 109, 101]         -- debug_name
  | .debugPath => [100, 101, 98, 117, 103, 95, 112, 97, 116, 104]         -- debug_path
  | .breakpadId => [98, 114, 101, 97, 107, 112, 97, 100, 95, 105, 100]    -- breakpad_id
  | .codeId => [99, 111, 100, 101, 95, 105, 100]                          -- code_id
  | .arch => [97, 114, 99, 104]                                           -- arch

def upperAscii (c : Nat) : Nat := if 97 ≤ c ∧ c ≤ 122 then c - 32 else c

def lowerAscii (c : Nat) : Nat := if 65 ≤ c ∧ c ≤ 90 then c + 32 else c

/-- serde_derive `RenameRule::PascalCase.apply_to_field` (serde_derive internals/case.rs): a `_` is dropped and
sets `capitalize`; the next other character is upper-cased when `capitalize` is set (initially true) -/
def pascalGo (capitalize : Bool) : Str → Str
  | [] => []
  | c :: rest =>
    if c = 95 then pascalGo true rest
    else (if capitalize then upperAscii c else c) :: pascalGo false rest

/-- `RenameRule::CamelCase.apply_to_field`: PascalCase with the first character lower-cased again -/
def camelCase (s : Str) : Str :=
  match pascalGo true s with
  | [] => []
  | c :: rest => lowerAscii c :: rest

def Key.all : List Key := [.name, .path, .debugName, .debugPath, .breakpadId, .codeId, .arch]

/-- the reader's matching of an object key: exact comparison with the renamed field names; any other key is
skipped (`ProfileJsonLib` has no `deny_unknown_fields`) -/
def Key.ofText (s : Str) : Option Key := Key.all.find? fun k => camelCase k.readerField == s

/-- a library object with textual keys -/
abbrev TObj := List (Str × JVal)

def resolveObj (o : TObj) : JObj := o.filterMap fun kv => (Key.ofText kv.1).map fun k => (k, kv.2)

def serializeLibText (l : LibInfo) : TObj := (serializeLib l).map fun kv => (kv.1.writerText, kv.2)

/-- documents whose library objects have textual keys -/
inductive TDoc
  | mk (libs : List TObj) (threads : List (List TObj)) (processes : List TDoc)

mutual
def TDoc.resolve : TDoc → PDoc
  | .mk libs threads procs => .mk (libs.map resolveObj) (threads.map (·.map resolveObj)) (TDoc.resolveAll procs)
def TDoc.resolveAll : List TDoc → List PDoc
  | [] => []
  | d :: ds => d.resolve :: TDoc.resolveAll ds
end

def serializeProfileText (p : Profile) : TDoc :=
  .mk (p.usedLibs.map serializeLibText) (List.replicate p.threadCount []) []

/-- the reader on a document with textual keys -/
def preparseText (d : TDoc) : Option LibMap := preparse d.resolve

/-! ## which candidate the symbolication uses

`samply-symbols` tries the candidates in order and uses the first one that can be opened and whose debug id is
the requested one (a candidate with another id is skipped: `SymbolsError::UnmatchedDebugId`). The file
system is an oracle: the debug id of whatever symbol source sits at a candidate location, `none` = nothing
there / unreadable. -/

abbrev FsView := Cand → Option DebugId

def firstAccepted (fs : FsView) (d : DebugId) (cands : List Cand) : Option Cand :=
  cands.find? fun c => fs c == some d

/-! ## `--unstable-presymbolicate`: the library infos the import registers for the sidecar

`presymbolicate` (samply/src/shared/symbol_precog.rs:334-456) turns every *used* library of the profile it has just
written into a `wholesym::LibraryInfo` (:346-359), registers it as a known library and loads its symbol map by
`(debugName, debugId)`. The recorded code id text is parsed with `CodeId::from_str`. Outcome `none` = the import
panics (after the profile file was written; no sidecar). -/

/-- repaired (`fix:` 4dd060e3, symbol_precog.rs:355-358): `.and_then(|id| CodeId::from_str(id).ok())` — a text that
does not parse is no code id -/
def presymCodeId (text : Option Str) : Option (Option CodeId) :=
  some (text.bind CodeId.fromStr)

/-- before the repair: `.map(|id| CodeId::from_str(id).expect("bad codeid"))` — a text that does not parse panics -/
def presymCodeIdLegacy (text : Option Str) : Option (Option CodeId) :=
  match text with
  | none => some none
  | some t =>
    match CodeId.fromStr t with
    | some c => some (some c)
    | none => none

/-- symbol_precog.rs:346-359 for one used library; note `name: Some(lib.debug_name)` -/
def presymLibWith (codeOf : Option Str → Option (Option CodeId)) (l : LibInfo) : Option RLib :=
  (codeOf l.codeId).map fun c =>
    { debugName := some l.debugName, debugId := some l.debugId, debugPath := some l.debugPath,
      name := some l.debugName, codeId := c, path := some l.path, arch := l.arch }

def presymLib : LibInfo → Option RLib := presymLibWith presymCodeId
def presymLibLegacy : LibInfo → Option RLib := presymLibWith presymCodeIdLegacy

/-- the `lib_stuff` vector of `presymbolicate`: all used libraries, in order; `none` = panic -/
def presymLibs (p : Profile) : Option (List RLib) := p.usedLibs.mapM presymLib
def presymLibsLegacy (p : Profile) : Option (List RLib) := p.usedLibs.mapM presymLibLegacy

end LI
