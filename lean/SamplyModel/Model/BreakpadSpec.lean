import SamplyModel.Model.BreakpadIndex
/-!
Specification side of C10's "agrees with a straightforward reading of the .sym text".

An abstract `.sym` file (`SymFile`) is a MODULE line followed by a list of records — INFO, FILE,
INLINE_ORIGIN, PUBLIC, FUNC, line records, INLINE records, STACK, in any order — each with its own
number of `\r`s before the `\n`, and an optional final newline. `render` writes it the way dump_syms
does (single spaces, lower-case hex, decimal line numbers / ids). `readDirectly` answers a lookup by
looking at the records only:

* the symbol is the FUNC / PUBLIC record with the greatest address ≤ a; a FUNC covers
  `[addr, addr + size)`, a PUBLIC reaches to the next symbol address;
* the lines of a FUNC are the records after it up to the next PUBLIC / FUNC / INFO / STACK record;
* inline chain: at depth 0, 1, 2, … the INLINE record of that depth with a range covering the address;
* file and line: the line record whose range covers the address.

Nothing here uses the index, the parsers, offsets, sorting or binary search of the implementation model.
`specIndex` additionally states, by plain arithmetic on the rendered line lengths, which offsets and
lengths the index has to contain. Core Lean only.
-/
namespace BPS
open BP
open LB (Byte)

/-! ### rendering numbers -/

/-- digits of `n`, most significant first; `fuel` digits at most (64 suffice below 2^64) -/
def natDigits (base : Nat) : Nat → Nat → List Nat
  | 0, _ => []
  | fuel + 1, n => if n < base then [n] else natDigits base fuel (n / base) ++ [n % base]

def digitByte (d : Nat) : Byte := if d < 10 then UInt8.ofNat (48 + d) else UInt8.ofNat (87 + d)

/-- lower-case hexadecimal without prefix, as dump_syms writes addresses and sizes -/
def toHex (n : Nat) : List Byte := (natDigits 16 64 n).map digitByte
def toDec (n : Nat) : List Byte := (natDigits 10 64 n).map digitByte

/-! ### abstract records -/

inductive Rec
  | info (rest : List Byte)
  | file (idx : Nat) (name : List Byte)
  | origin (idx : Nat) (name : List Byte)
  | pub (m : Bool) (addr psize : Nat) (name : List Byte)
  | func (m : Bool) (addr size psize : Nat) (name : List Byte)
  | line (addr size ln file : Nat)
  | inline (depth callLine callFile origin : Nat) (r0 : Nat × Nat) (ranges : List (Nat × Nat))
  | stack (rest : List Byte)
deriving Repr, DecidableEq

def mFlag (m : Bool) : List Byte := if m then [109, 32] else []

def renderRanges : List (Nat × Nat) → List Byte
  | [] => []
  | r :: rs => 32 :: (toHex r.1 ++ 32 :: (toHex r.2 ++ renderRanges rs))

/-- the text of a record, without line terminator -/
def Rec.content : Rec → List Byte
  | .info rest => tINFO_ ++ rest
  | .file idx name => tFILE ++ 32 :: (toDec idx ++ 32 :: name)
  | .origin idx name => tINLINE_ORIGIN ++ 32 :: (toDec idx ++ 32 :: name)
  | .pub m addr psize name => tPUBLIC ++ 32 :: (mFlag m ++ (toHex addr ++ 32 :: (toHex psize ++ 32 :: name)))
  | .func m addr size psize name =>
    tFUNC ++ 32 :: (mFlag m ++ (toHex addr ++ 32 :: (toHex size ++ 32 :: (toHex psize ++ 32 :: name))))
  | .line addr size ln fl => toHex addr ++ 32 :: (toHex size ++ 32 :: (toDec ln ++ 32 :: toDec fl))
  | .inline depth callLine callFile org r0 ranges =>
    tINLINE ++ 32 :: (toDec depth ++ 32 :: (toDec callLine ++ 32 :: (toDec callFile ++ 32 ::
      (toDec org ++ renderRanges (r0 :: ranges)))))
  | .stack rest => tSTACK_ ++ rest

/-! ### well-formedness of records -/

/-- the list does not start with a space or tab (so that `space1` stops right before it) -/
def NoLeadSp (l : List Byte) : Prop := ∀ b r, l = b :: r → isSpTab b = false

/-- names as they occur in well-formed files: no `\n`, not ending in `\r`, not starting with a blank
(the separator before a name is `space1`, which would swallow it), valid UTF-8 -/
structure NameOk (name : List Byte) : Prop where
  noNl : (10 : Byte) ∉ name
  noCrEnd : name.getLast? ≠ some 13
  noLead : NoLeadSp name
  utf8 : validUtf8 name = true

/-- field bounds and name conditions of a well-formed record -/
def Rec.ok : Rec → Prop
  | .info rest => (10 : Byte) ∉ rest ∧ (tINFO_ ++ rest).getLast? ≠ some 13
  | .file idx name => idx < pow32 ∧ NameOk name
  | .origin idx name => idx < pow32 ∧ NameOk name
  | .pub _ addr psize name => addr < pow64 ∧ psize < pow32 ∧ NameOk name
  | .func _ addr size psize name => addr < pow32 ∧ size < pow32 ∧ psize < pow32 ∧ NameOk name
  | .line addr size ln fl => addr < pow32 ∧ size < pow32 ∧ ln < pow32 ∧ fl < pow32
  | .inline depth callLine callFile org r0 ranges =>
    depth < pow32 ∧ callLine < pow32 ∧ callFile < pow32 ∧ org < pow32 ∧
      ∀ r ∈ r0 :: ranges, r.1 < pow32 ∧ r.2 < pow32
  | .stack rest => (10 : Byte) ∉ rest ∧ (tSTACK_ ++ rest).getLast? ≠ some 13

/-- PUBLIC / FUNC / INFO / STACK records end a FUNC block -/
def Rec.isCloser : Rec → Bool
  | .pub .. | .func .. | .info _ | .stack _ => true
  | _ => false

/-- a record and the number of `\r` before its `\n` -/
structure SLine where
  r : Rec
  crs : Nat
deriving Repr, DecidableEq

def SLine.bytes (l : SLine) : List Byte := l.r.content ++ List.replicate l.crs 13

structure SymFile where
  /-- the MODULE line, as bytes (required to be accepted by the MODULE grammar, see `WF`) -/
  moduleLine : List Byte
  moduleCrs : Nat
  lines : List SLine
  finalNl : Bool
deriving Repr, DecidableEq

def render (s : SymFile) : List Byte :=
  LB.joinNl (s.moduleLine ++ List.replicate s.moduleCrs 13) (s.lines.map SLine.bytes)
    ++ (if s.finalNl then [10] else [])

/-! ### layout by arithmetic -/

/-- every line paired with the offset of its first byte -/
def withOffsets (off : Nat) : List SLine → List (Nat × SLine)
  | [] => []
  | l :: ls => (off, l) :: withOffsets (off + l.bytes.length + 1) ls

def firstOff (s : SymFile) : Nat := s.moduleLine.length + s.moduleCrs + 1

def olines (s : SymFile) : List (Nat × SLine) := withOffsets (firstOff s) s.lines

/-- where the FUNC block that is open before `ls` ends: at the next closer, else at the end of the file -/
def blockEnd (endOff : Nat) : List (Nat × SLine) → Nat
  | [] => endOff
  | (off, l) :: rest => if l.r.isCloser then off else blockEnd endOff rest

/-- `(address, entry)` of every PUBLIC / FUNC record, in text order, with the extent the index records -/
def specSymbols (endOff : Nat) : List (Nat × SLine) → List (Nat × SymEntry)
  | [] => []
  | (off, l) :: rest =>
    match l.r with
    | .pub _ addr _ _ => (addr % pow32, ⟨0, l.r.content.length, off⟩) :: specSymbols endOff rest
    | .func _ addr _ _ _ => (addr, ⟨1, blockEnd endOff rest - off, off⟩) :: specSymbols endOff rest
    | _ => specSymbols endOff rest

def specFiles : List (Nat × SLine) → List FEntry
  | [] => []
  | (off, l) :: rest =>
    match l.r with
    | .file idx _ => ⟨idx, l.r.content.length, off⟩ :: specFiles rest
    | _ => specFiles rest

def specOrigins : List (Nat × SLine) → List FEntry
  | [] => []
  | (off, l) :: rest =>
    match l.r with
    | .origin idx _ => ⟨idx, l.r.content.length, off⟩ :: specOrigins rest
    | _ => specOrigins rest

def infoStep (acc : List Byte) (l : SLine) : List Byte :=
  match l.r with
  | .info _ => acc ++ 10 :: l.r.content
  | _ => acc

/-- the MODULE line followed by `\n` + line for every INFO record -/
def specModInfo (s : SymFile) : List Byte := s.lines.foldl infoStep s.moduleLine

/-- insertion sort by key (the specification of "sorted by address / index") -/
def insertBy {α : Type} (key : α → Nat) (x : α) : List α → List α
  | [] => [x]
  | y :: ys => if key x ≤ key y then x :: y :: ys else y :: insertBy key x ys

def sortBy {α : Type} (key : α → Nat) (l : List α) : List α := l.foldr (insertBy key) []

/-- the index a well-formed file must produce -/
def specIndex (s : SymFile) : Index :=
  let syms := sortBy (·.1) (specSymbols (render s).length (olines s))
  ⟨specModInfo s, sortBy (·.index) (specFiles (olines s)), sortBy (·.index) (specOrigins (olines s)),
   syms.map (·.1), syms.map (·.2)⟩

/-! ### well-formedness of a file, index part -/

def symAddrs : List SLine → List Nat
  | [] => []
  | l :: rest =>
    match l.r with
    | .pub _ addr _ _ => (addr % pow32) :: symAddrs rest
    | .func _ addr _ _ _ => addr :: symAddrs rest
    | _ => symAddrs rest

def fileIdxs : List SLine → List Nat
  | [] => []
  | l :: rest =>
    match l.r with
    | .file idx _ => idx :: fileIdxs rest
    | _ => fileIdxs rest

def originIdxs : List SLine → List Nat
  | [] => []
  | l :: rest =>
    match l.r with
    | .origin idx _ => idx :: originIdxs rest
    | _ => originIdxs rest

/-- what the index part of the reading theorem needs: a MODULE line the MODULE grammar accepts, records
with fields in range and sane names, distinct symbol addresses / FILE ids / INLINE_ORIGIN ids, and a file
shorter than 4 GiB (the index stores line and block lengths as `u32`) -/
structure WFIndex (s : SymFile) : Prop where
  moduleOk : (moduleLine s.moduleLine).isSome = true
  moduleNoNl : (10 : Byte) ∉ s.moduleLine
  moduleEnds : s.moduleLine.getLast? ≠ some 13
  recs : ∀ l ∈ s.lines, l.r.ok
  symDistinct : (symAddrs s.lines).Nodup
  fileDistinct : (fileIdxs s.lines).Nodup
  originDistinct : (originIdxs s.lines).Nodup
  small : (render s).length < pow32

/-! ### direct reading -/

/-- a FUNC / PUBLIC record as the reader sees it: address, FUNC size (`none` for PUBLIC), name, and for a
FUNC the records of its block -/
structure RSym where
  addr : Nat
  size : Option Nat
  name : List Byte
  body : List Rec
deriving Repr, DecidableEq

def readSyms : List SLine → List RSym
  | [] => []
  | l :: rest =>
    match l.r with
    | .pub _ addr _ name => ⟨addr % pow32, none, name, []⟩ :: readSyms rest
    | .func _ addr size _ name =>
      ⟨addr, some size, name, (rest.takeWhile (fun u => !u.r.isCloser)).map (·.r)⟩ :: readSyms rest
    | _ => readSyms rest

/-- `(id, name)` of the FILE records, in text order -/
def fileRecs : List SLine → List (Nat × List Byte)
  | [] => []
  | l :: rest =>
    match l.r with
    | .file idx name => (idx, name) :: fileRecs rest
    | _ => fileRecs rest

/-- `(id, name)` of the INLINE_ORIGIN records, in text order -/
def originRecs : List SLine → List (Nat × List Byte)
  | [] => []
  | l :: rest =>
    match l.r with
    | .origin idx name => (idx, name) :: originRecs rest
    | _ => originRecs rest

def nameOf (recs : List (Nat × List Byte)) (idx : Nat) : Option (List Byte) :=
  (recs.find? fun p => p.1 = idx).map (·.2)

def fileName (ls : List SLine) (idx : Nat) : Option (List Byte) := nameOf (fileRecs ls) idx
def originName (ls : List SLine) (idx : Nat) : Option (List Byte) := nameOf (originRecs ls) idx

def covers (r : Nat × Nat) (a : Nat) : Bool := r.1 ≤ a && a < r.1 + r.2

/-- the INLINE record of the given depth with a range covering `a` -/
def inlineAt (body : List Rec) (depth a : Nat) : Option (Nat × Nat × Nat) :=
  body.findSome? fun r => match r with
    | .inline d callLine callFile origin r0 ranges =>
      if decide (d = depth) && (r0 :: ranges).any (covers · a) then some (callLine, callFile, origin) else none
    | _ => none

/-- the line record covering `a` -/
def lineAt (body : List Rec) (a : Nat) : Option (Nat × Nat) :=
  body.findSome? fun r => match r with
    | .line addr size ln file => if covers (addr, size) a then some (ln, file) else none
    | _ => none

/-- number of address ranges of the INLINE records of a block: an upper bound for the inline depth -/
def rangeCount : List Rec → Nat
  | [] => 0
  | .inline _ _ _ _ _ ranges :: rest => 1 + ranges.length + rangeCount rest
  | _ :: rest => rangeCount rest

/-- the inlined calls covering `a`, outermost first, and the name of the innermost function.
`fuel` bounds the depth (every level uses another INLINE range, so `rangeCount body + 1` is enough). -/
def chain (ls : List SLine) (body : List Rec) (a : Nat) :
    Nat → Nat → Option (List Byte) → List Frame × Option (List Byte)
  | 0, _, name => ([], name)
  | fuel + 1, depth, name =>
    match inlineAt body depth a with
    | some (callLine, callFile, origin) =>
      let r := chain ls body a fuel (depth + 1) (originName ls origin)
      (⟨name, fileName ls callFile, some callLine⟩ :: r.1, r.2)
    | none => ([], name)

def bestStep (a : Nat) (best : Option RSym) (s : RSym) : Option RSym :=
  if s.addr ≤ a then
    match best with
    | none => some s
    | some b => if b.addr < s.addr then some s else some b
  else best

/-- the symbol with the greatest address ≤ a -/
def bestSym (syms : List RSym) (a : Nat) : Option RSym := syms.foldl (bestStep a) none

def nextStep (x : Nat) (best : Option Nat) (s : RSym) : Option Nat :=
  if x < s.addr then
    match best with
    | none => some s.addr
    | some b => if s.addr < b then some s.addr else some b
  else best

/-- the least symbol address above `x` -/
def nextAddr (syms : List RSym) (x : Nat) : Option Nat := syms.foldl (nextStep x) none

def linesOf : List Rec → List SourceLine
  | [] => []
  | .line addr size ln fl :: rest => ⟨addr, size, fl, ln⟩ :: linesOf rest
  | _ :: rest => linesOf rest

def inlineesOf : List Rec → List Inlinee
  | [] => []
  | .inline depth callLine callFile org r0 ranges :: rest =>
    (r0 :: ranges).map (fun p => ⟨depth, p.1, p.2, callFile, callLine, org⟩) ++ inlineesOf rest
  | _ :: rest => inlineesOf rest

/-- the inline ranges of one FUNC block: non-empty, ending below 2^32, and two ranges of the same depth
do not overlap -/
structure InlOK (L : List Inlinee) : Prop where
  pos : ∀ i ∈ L, 0 < i.size ∧ i.address + i.size < pow32
  disj : L.Pairwise (fun i j => i.depth = j.depth →
    i.address + i.size ≤ j.address ∨ j.address + j.size ≤ i.address)

/-- the line records of one FUNC block: ascending, each starting where the previous one ends, the last
one reaching the end of the function (no gaps — cf. the known finding C10-line-gap) -/
def LinesOK : List SourceLine → Nat → Prop
  | [], _ => True
  | [l], fend => fend ≤ l.address + l.size
  | l1 :: l2 :: rest, fend =>
    l1.address < l2.address ∧ l1.address + l1.size = l2.address ∧ LinesOK (l2 :: rest) fend

/-- well-formed file: `WFIndex` plus well-formed FUNC blocks -/
structure WF (s : SymFile) : Prop where
  index : WFIndex s
  bodies : ∀ r ∈ readSyms s.lines, ∀ size, r.size = some size →
    InlOK (inlineesOf r.body) ∧ LinesOK (linesOf r.body) (r.addr + size)

/-! ### well-formedness at one address (what the answer for the address `a` depends on) -/

/-- the line records of one FUNC block are ascending and do not overlap (zero-size records allowed) -/
def LinesAsc (L : List SourceLine) : Prop := L.Pairwise (fun l1 l2 => l1.address + l1.size ≤ l2.address)

/-- at the address `a`: some line record covers `a`, or no line record starts at or below `a`.
(The complement — a record starts at or below `a` but none covers it — is exactly the known finding
C10-line-gap.) -/
def LineAt (L : List SourceLine) (a : Nat) : Prop :=
  (∃ l ∈ L, l.address ≤ a ∧ a < l.address + l.size) ∨ (∀ l ∈ L, a < l.address)

/-- at the address `a`: every inline range `c` that covers `a` ends below 2^32, and every other range of
the same depth lies entirely behind it, or entirely before it and starts earlier. Nothing is demanded of
ranges that do not cover `a`, nor of pairs of ranges neither of which covers `a`. -/
structure InlAt (L : List Inlinee) (a : Nat) : Prop where
  top : ∀ c ∈ L, c.address ≤ a → a < c.address + c.size → c.address + c.size < pow32
  sep : ∀ c ∈ L, c.address ≤ a → a < c.address + c.size → ∀ e ∈ L, e.depth = c.depth → e ≠ c →
    c.address + c.size ≤ e.address ∨ (e.address + e.size ≤ c.address ∧ e.address < c.address)

/-- well-formed for the lookup of `a`: `WFIndex`, and — only for a FUNC record whose range contains `a` —
line records ascending and non-overlapping, `a` covered by one of them or lying before all of them, and the
inline ranges covering `a` separated from the other ranges of their depth. Gaps between line records,
overlapping inline ranges, anything at all in other functions: irrelevant unless `a` itself is affected. -/
structure WFAt (s : SymFile) (a : Nat) : Prop where
  index : WFIndex s
  body : ∀ r ∈ readSyms s.lines, ∀ size, r.size = some size → r.addr ≤ a → a < r.addr + size →
    InlAt (inlineesOf r.body) a ∧ LinesAsc (linesOf r.body) ∧ LineAt (linesOf r.body) a

def readDirectly (s : SymFile) (a : Nat) : Look :=
  let syms := readSyms s.lines
  match bestSym syms a with
  | none => .none
  | some sym =>
    match sym.size with
    | none => .found ⟨sym.addr, (nextAddr syms sym.addr).map (· - sym.addr), sym.name, none⟩
    | some size =>
      if sym.addr + size ≤ a then .none
      else
        let c := chain s.lines sym.body a (rangeCount sym.body + 1) 0 (some sym.name)
        let last : Frame := match lineAt sym.body a with
          | some (ln, file) => ⟨c.2, fileName s.lines file, some ln⟩
          | none => ⟨c.2, none, none⟩
        .found ⟨sym.addr, some size, sym.name, some (c.1 ++ [last]).reverse⟩

end BPS
