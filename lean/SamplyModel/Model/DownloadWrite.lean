/-!
The write callback that `wholesym/src/downloader.rs::PendingDownload::download_to_file` hands to
`create_file_cleanly` (downloader.rs:322-347), over `tokio::fs::File`:

    loop { let count = stream.read(&mut buf).await.map_err(StreamRead)?;  if count == 0 { break; }
           dest_file.write_all(&buf[..count]).await.map_err(DiskWrite)?;  chunk_consumer(..) }
    dest_file.flush().await.map_err(DiskWrite)?;
    Ok(DidCreateNewFile, size)

`tokio::fs::File` defers write errors: `write_all` copies the bytes into its buffer, starts the write on the
blocking pool and returns `Ok`; the result of that write is reported by the NEXT operation on the file
(`poll_write` / `poll_flush` first wait for the operation in flight and return its error). The trailing
`flush` is therefore the only place where the result of the last write is observed.

Model: the stream yields pieces (`some bytes`) or fails (`none`); `disk k` says whether the k-th write that is
started succeeds in full; a failing write leaves `short k` bytes of its piece in the file (a partial write,
e.g. up to RLIMIT_FSIZE). Core Lean only.
-/
namespace DL

structure Env where
  /-- does the k-th started write succeed? -/
  disk : Nat → Bool
  /-- bytes of its piece a failing k-th write still puts into the file -/
  short : Nat → Nat

inductive Res
  | ok (size : Nat)
  | streamRead
  | diskWrite
deriving Repr, DecidableEq

structure St where
  /-- contents of the `.part` file -/
  file : List UInt8 := []
  /-- result of the write in flight, not yet observed (`some false` = it failed) -/
  inflight : Option Bool := none
  /-- number of writes started -/
  started : Nat := 0
  size : Nat := 0
deriving Repr

/-- start the background write of `piece` (the previous one has been waited for) -/
def startWrite (env : Env) (st : St) (piece : List UInt8) : St :=
  let k := st.started
  if env.disk k then
    { st with file := st.file ++ piece, inflight := some true, started := k + 1 }
  else
    { st with file := st.file ++ piece.take (env.short k), inflight := some false, started := k + 1 }

/-- the callback; `withFlush = false` is the callback without its trailing `flush` (seeded change C16-2) -/
def callback (env : Env) (withFlush : Bool) : St → List (Option (List UInt8)) → Res × St
  | st, [] =>
    -- end of stream (`count == 0`): `flush` waits for the write in flight and reports its error
    if withFlush && st.inflight == some false then (.diskWrite, { st with inflight := none })
    else (.ok st.size, { st with inflight := none })
  | st, none :: _ => (.streamRead, st)
  | st, some piece :: rest =>
    -- `write_all`: first the result of the write in flight
    if st.inflight == some false then (.diskWrite, { st with inflight := none })
    else callback env withFlush { startWrite env st piece with size := st.size + piece.length } rest

def run (env : Env) (withFlush : Bool) (stream : List (Option (List UInt8))) : Res × St :=
  callback env withFlush {} stream

/-- the bytes of the pieces the stream delivered -/
def payload : List (Option (List UInt8)) → List UInt8
  | [] => []
  | none :: _ => []
  | some p :: rest => p ++ payload rest

def allRead (stream : List (Option (List UInt8))) : Bool := stream.all (·.isSome)

/-- non-empty pieces only (`count == 0` ends the loop) -/
def piecesNonEmpty (stream : List (Option (List UInt8))) : Bool :=
  stream.all fun p => match p with | some b => !b.isEmpty | none => true

end DL
