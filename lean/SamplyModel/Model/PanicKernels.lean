/-!
Model of the panic-prone arithmetic / slicing kernels behind the symbolication API (C08).

Every kernel is a small total function returning `ok v | err e | panic`. Arithmetic is on `Nat`; every
place where the Rust code (debug profile: overflow checks + debug assertions on, which is what the
harness build uses) can overflow, underflow, slice out of range or off a UTF-8 character boundary,
`unwrap` a `None` or fail an `assert!` is an explicit `panic` outcome, so that "no panic" is a theorem
(`Props/C08.lean`) and not a side effect of totalisation.

Strings are `List UInt8` (UTF-8 bytes); `isCharBoundary` is `str::is_char_boundary`.
`usize` is 64 bits (the harness build), so `u32 → usize` / `u64 → usize` casts are lossless.

The three repaired defects (KNOWN_FINDINGS: b11d9ebc, 75146a25, 5b75774e) are kept as `…Legacy`
definitions; `Props/C08.lean` has a `decide`-checked witness that each panics on the recorded input.

Core Lean only (linked into the driver executable).
-/
namespace PK

def u8Max : Nat := 255
def u32Max : Nat := 4294967295
def u64Max : Nat := 18446744073709551615
def two32 : Nat := 4294967296

/-- outcome of a kernel: value, clean error (the code returns `Err` / `None`), or panic -/
inductive Res (ε α : Type) where
  | ok (v : α)
  | err (e : ε)
  | panic
deriving Repr, DecidableEq

namespace Res
@[inline] def bind {ε α β : Type} (r : Res ε α) (f : α → Res ε β) : Res ε β :=
  match r with
  | .ok v => f v
  | .err e => .err e
  | .panic => .panic
instance {ε : Type} : Monad (Res ε) where
  pure := .ok
  bind := Res.bind
def isPanic {ε α : Type} : Res ε α → Bool
  | .panic => true
  | _ => false
end Res

abbrev R (α : Type) := Res Unit α

/-- `Option`-returning call (`.ok_or(())?`, `.ok()?`) -/
def ofOption {α : Type} : Option α → R α
  | some v => .ok v
  | none => .err ()

/-! ### checked machine arithmetic (debug build) -/

def addU32 (a b : Nat) : R Nat := if a + b ≤ u32Max then .ok (a + b) else .panic
def subU32 (a b : Nat) : R Nat := if b ≤ a then .ok (a - b) else .panic
def addU64 (a b : Nat) : R Nat := if a + b ≤ u64Max then .ok (a + b) else .panic
def subU64 (a b : Nat) : R Nat := if b ≤ a then .ok (a - b) else .panic
def mulU32 (a b : Nat) : R Nat := if a * b ≤ u32Max then .ok (a * b) else .panic
/-- `u32::checked_add` -/
def checkedAddU32 (a b : Nat) : Option Nat := if a + b ≤ u32Max then some (a + b) else none
/-- `u32::checked_mul` -/
def checkedMulU32 (a b : Nat) : Option Nat := if a * b ≤ u32Max then some (a * b) else none
/-- `u32::saturating_add` -/
def saturatingAddU32 (a b : Nat) : Nat := if a + b ≤ u32Max then a + b else u32Max

/-! ### UTF-8 strings as byte lists -/

/-- continuation byte `10xxxxxx`; Rust: `(b as i8) < -0x40` -/
def isCont (b : UInt8) : Bool := decide (128 ≤ b.toNat) && decide (b.toNat < 192)

/-- `str::is_char_boundary` -/
def isCharBoundary (s : List UInt8) (i : Nat) : Bool :=
  if i = 0 then true
  else if i = s.length then true
  else match s[i]? with
    | some b => !isCont b
    | none => false

/-- `str::get(a..b)` -/
def strGet (s : List UInt8) (a b : Nat) : Option (List UInt8) :=
  if a ≤ b ∧ b ≤ s.length ∧ isCharBoundary s a = true ∧ isCharBoundary s b = true then
    some ((s.drop a).take (b - a))
  else none

/-- `&s[a..b]` on a `str`: panics when out of range or not on a character boundary -/
def strIndex {ε : Type} (s : List UInt8) (a b : Nat) : Res ε (List UInt8) :=
  match strGet s a b with
  | some x => .ok x
  | none => .panic

/-- necessary shape of valid UTF-8 used by the slicing theorems: a continuation byte never directly
follows an ASCII byte (`&str` is valid UTF-8 by type invariant, which implies this) -/
def asciiFollow : List UInt8 → Bool
  | a :: b :: rest => !(decide (a.toNat < 128) && isCont b) && asciiFollow (b :: rest)
  | _ => true

def hexVal (b : UInt8) : Option Nat :=
  let n := b.toNat
  if 48 ≤ n ∧ n ≤ 57 then some (n - 48)
  else if 97 ≤ n ∧ n ≤ 102 then some (n - 87)
  else if 65 ≤ n ∧ n ≤ 70 then some (n - 55)
  else none

def decVal (b : UInt8) : Option Nat :=
  let n := b.toNat
  if 48 ≤ n ∧ n ≤ 57 then some (n - 48) else none

/-- digits part of `uN::from_str_radix(_, 16)` with overflow → `Err(PosOverflow)` -/
def radixDigits (maxV : Nat) : Nat → List UInt8 → Option Nat
  | acc, [] => some acc
  | acc, b :: rest =>
    match hexVal b with
    | none => none
    | some d => if acc * 16 + d ≤ maxV then radixDigits maxV (acc * 16 + d) rest else none

/-- `uN::from_str_radix(s, 16)` for an unsigned type with maximum `maxV`: empty → error, a lone sign →
error, one leading `+` accepted, `-` is an invalid digit -/
def fromStrRadix16 (maxV : Nat) (s : List UInt8) : Option Nat :=
  match s with
  | [] => none
  | [b] => if b.toNat = 43 ∨ b.toNat = 45 then none else radixDigits maxV 0 [b]
  | b :: rest => if b.toNat = 43 then radixDigits maxV 0 rest else radixDigits maxV 0 (b :: rest)

/-! ### Kernel A — `/asm/v1` length arithmetic (`samply-api/src/asm/mod.rs`) -/

/-- asm/mod.rs:167 `symbol.address.checked_add(symbol.size?)` -/
def functionEnd (symAddr : Nat) (symSize : Option Nat) : Option Nat :=
  match symSize with
  | none => none
  | some sz => checkedAddU32 symAddr sz

/-- asm/mod.rs:101-114: `disassembly_len` after the optional continuation to the function end -/
def asmDisassemblyLen (start size : Nat) (cont : Bool) (fe : Option Nat) : R Nat :=
  if cont then
    match fe with
    | some e =>
      if e ≥ start then do
        let d ← subU32 e start                       -- :109 `function_end_address - *start_address`
        if d > size then subU32 e start else pure size  -- :111 (computed again)
      else pure size
    | none => pure size
  else pure size

inductive Arch
  | arm64 | arm | other
deriving Repr, DecidableEq

/-- asm/mod.rs:124-128: `start & !0b11` / `start & !0b1` (bit masks cannot overflow) -/
def relAddress (arch : Arch) (start : Nat) : Nat :=
  match arch with
  | .arm64 => start - start % 4
  | .arm => start - start % 2
  | .other => start

structure AsmPlan where
  rel : Nat
  len : Nat
  readLen : Nat
deriving Repr, DecidableEq

/-- asm/mod.rs:101-146 (repaired): the padded read length saturates -/
def asmPlan (arch : Arch) (start size : Nat) (cont : Bool) (fe : Option Nat) : R AsmPlan := do
  let len ← asmDisassemblyLen start size cont fe
  pure ⟨relAddress arch start, len, saturatingAddU32 len 15⟩

/-- before b11d9ebc: `disassembly_len + MAX_INSTR_LEN` -/
def asmPlanLegacy (arch : Arch) (start size : Nat) (cont : Bool) (fe : Option Nat) : R AsmPlan := do
  let len ← asmDisassemblyLen start size cont fe
  let readLen ← addU32 len 15
  pure ⟨relAddress arch start, len, readLen⟩

/-- what a third-party instruction decoder does on a byte slice -/
inductive Dec
  | ok (n : Nat)
  | exhausted
  | invalid
deriving Repr, DecidableEq

inductive LoopRes
  | done (size : Nat)
  | panic
  | stuck   -- no progress: the real loop would never end
deriving Repr, DecidableEq

/-- asm/mod.rs:357-431 `decode`: `offset` (u32) counts listed bytes, the reader sits at
`bytes[base..]` with `total_offset = pos`. Measure: `decodeLen - offset`. -/
def decodeLoop (dec : List UInt8 → Dec) (adjust : Nat) (bytes : List UInt8) (decodeLen : Nat)
    (offset base pos : Nat) : LoopRes :=
  if _h : offset ≥ decodeLen then .done offset else          -- :372
  let before := pos % two32                                   -- :375 `as u32`
  match dec (bytes.drop (base + pos)) with
  | .ok n =>
    let after := (pos + n) % two32                            -- :379
    if after < before then .panic else                        -- :380 `after - before`
    let delta := after - before
    if _hd : delta = 0 then .stuck else
    if offset + delta > u32Max then .panic else               -- :380 `offset += …`
    decodeLoop dec adjust bytes decodeLen (offset + delta) base (pos + n)
  | .exhausted => .done offset                                -- :383
  | .invalid =>
    if offset > bytes.length then .panic else                 -- :387 `&bytes[offset as usize..]`
    if _ha : adjust = 0 then .stuck else
    if offset + adjust > u32Max then .panic else              -- :414
    if offset + adjust > bytes.length then .done (offset + adjust)   -- :415 `bytes.get(..)` → break
    else decodeLoop dec adjust bytes decodeLen (offset + adjust) (offset + adjust) 0
termination_by decodeLen - offset
decreasing_by all_goals omega

/-! ### Kernel B — `CodeId` / `PeCodeId` / `ElfBuildId` `from_str` (`samply-symbols/src/shared.rs`) -/

/-- shared.rs:235-246 (repaired: `s.get(..8)`, `s.get(8..)`) → (timestamp, image_size) -/
def peCodeIdFromStr (s : List UInt8) : R (Nat × Nat) :=
  if s.length < 9 ∨ s.length > 16 then .err () else do
    let a ← ofOption (strGet s 0 8)
    let ts ← ofOption (fromStrRadix16 u32Max a)
    let b ← ofOption (strGet s 8 s.length)
    let sz ← ofOption (fromStrRadix16 u32Max b)
    pure (ts, sz)

/-- before 75146a25: `&s[..8]`, `&s[8..]` -/
def peCodeIdFromStrLegacy (s : List UInt8) : R (Nat × Nat) :=
  if s.length < 9 ∨ s.length > 16 then .err () else do
    let a ← strIndex s 0 8
    let ts ← ofOption (fromStrRadix16 u32Max a)
    let b ← strIndex s 8 s.length
    let sz ← ofOption (fromStrRadix16 u32Max b)
    pure (ts, sz)

/-- shared.rs:274-283 loop body for `i = start, start+1, …` while `i < start + n` -/
def elfBytes (s : List UInt8) : Nat → Nat → R (List Nat)
  | _, 0 => pure []
  | i, n + 1 => do
    let h ← ofOption (strGet s (i * 2) (i * 2 + 2))
    let b ← ofOption (fromStrRadix16 u8Max h)
    let rest ← elfBytes s (i + 1) n
    pure (b :: rest)

def elfBuildIdFromStr (s : List UInt8) : R (List Nat) := elfBytes s 0 (s.length / 2)

def elfBytesLegacy (s : List UInt8) : Nat → Nat → R (List Nat)
  | _, 0 => pure []
  | i, n + 1 => do
    let h ← strIndex s (i * 2) (i * 2 + 2)
    let b ← ofOption (fromStrRadix16 u8Max h)
    let rest ← elfBytesLegacy s (i + 1) n
    pure (b :: rest)

/-- before 75146a25: `&s[i * 2..i * 2 + 2]` -/
def elfBuildIdFromStrLegacy (s : List UInt8) : R (List Nat) := elfBytesLegacy s 0 (s.length / 2)

inductive CodeIdV
  | pe (timestamp imageSize : Nat)
  | macho (bytes : List Nat)
  | elf (bytes : List Nat)
deriving Repr, DecidableEq

/-- shared.rs:202-205 over bytes (a non-ASCII char is never an ASCII hex digit) -/
def isUppercaseHex (s : List UInt8) : Bool :=
  s.all fun b => let n := b.toNat; decide ((48 ≤ n ∧ n ≤ 57) ∨ (65 ≤ n ∧ n ≤ 70))

/-- 32 upper-case hex digits → 16 bytes (`Uuid::from_str` on the "simple" form; third-party, the
correspondence run checks this reading) -/
def hexPairs : List UInt8 → Option (List Nat)
  | a :: b :: rest =>
    match hexVal a, hexVal b, hexPairs rest with
    | some x, some y, some r => some ((x * 16 + y) :: r)
    | _, _, _ => none
  | [] => some []
  | [_] => none

/-- shared.rs:188-199 -/
def codeIdFromStr (s : List UInt8) : R CodeIdV :=
  if s.length ≤ 17 then do
    let (t, z) ← peCodeIdFromStr s
    pure (.pe t z)
  else if s.length = 32 ∧ isUppercaseHex s = true then do
    let bs ← ofOption (hexPairs s)
    pure (.macho bs)
  else do
    let bs ← elfBuildIdFromStr s
    pure (.elf bs)

def codeIdFromStrLegacy (s : List UInt8) : R CodeIdV :=
  if s.length ≤ 17 then do
    let (t, z) ← peCodeIdFromStrLegacy s
    pure (.pe t z)
  else if s.length = 32 ∧ isUppercaseHex s = true then do
    let bs ← ofOption (hexPairs s)
    pure (.macho bs)
  else do
    let bs ← elfBuildIdFromStrLegacy s
    pure (.elf bs)

/-! ### Kernel C — Breakpad number parsers (`samply-symbols/src/breakpad/index.rs:841-896`) -/

/-- index.rs:848-858: at most `fuel` digits; `res << 4 | digit` in a `bits`-wide register; returns
(res, k) -/
def hexStrGo (bits : Nat) : Nat → List UInt8 → Nat → Nat → Nat × Nat
  | 0, _, res, k => (res, k)
  | _ + 1, [], res, k => (res, k)
  | f + 1, b :: rest, res, k =>
    match hexVal b with
    | none => (res, k)
    | some d => hexStrGo bits f rest ((res * 16) % 2 ^ bits + d) (k + 1)

/-- `hex_str::<uN>` with `bits = N` → (remaining input, value) -/
def hexStr (bits : Nat) (input : List UInt8) : R (List UInt8 × Nat) :=
  let r := hexStrGo bits (bits / 4) input 0 0
  if r.2 = 0 then .err ()                                           -- :859
  else if r.2 ≤ input.length then .ok (input.drop r.2, r.1)         -- :865 `&input[k..]`
  else .panic

/-- index.rs:880-888: at most `fuel` digits accumulated in a `u64` -/
def decimalGo : Nat → List UInt8 → Nat → Nat → R (Nat × Nat)
  | 0, _, res, k => pure (res, k)
  | _ + 1, [], res, k => pure (res, k)
  | f + 1, b :: rest, res, k =>
    match decVal b with
    | none => pure (res, k)
    | some d =>
      if res * 10 + d ≤ u64Max then decimalGo f rest (res * 10 + d) (k + 1) else .panic  -- :886

/-- `decimal_u32` → (remaining input, value) -/
def decimalU32 (input : List UInt8) : R (List UInt8 × Nat) := do
  let (res, k) ← decimalGo 10 input 0 0
  if k = 0 then .err ()                                             -- :889
  else if res > u32Max then .err ()                                 -- :892 `u32::try_from`
  else if k ≤ input.length then .ok (input.drop k, res)             -- :894
  else .panic

/-! ### Kernel D — Breakpad lookups (`breakpad/symbol_map.rs:286-371`, `index.rs:802-837`) -/

/-- result of a `binary_search_by_key` (std; contract: `found i → i < len`, `notFound i → i ≤ len`) -/
inductive BsRes
  | found (i : Nat)
  | notFound (i : Nat)
deriving Repr, DecidableEq

/-- `match … { Ok(i) => i, Err(0) => return None, Err(i) => i - 1 }` followed by `slice[index]` -/
def lookupIndex (r : BsRes) (len : Nat) : R (Option Nat) :=
  match r with
  | .found i => if i < len then pure (some i) else .panic
  | .notFound 0 => pure none
  | .notFound (i + 1) => if i < len then pure (some i) else .panic

/-- binary search of a one-element slice -/
def bsearch1 (elem key : Nat) : BsRes :=
  if elem = key then .found 0 else if elem < key then .notFound 1 else .notFound 0

/-- symbol_map.rs:327-330 (repaired): end of a FUNC in `u64` -/
def funcCovers (symAddr size addr : Nat) : R Bool := do
  let e ← addU64 symAddr size
  pure (decide (addr < e))

/-- before 5b75774e: `symbol_address + info.size` in `u32` -/
def funcCoversLegacy (symAddr size addr : Nat) : R Bool := do
  let e ← addU32 symAddr size
  pure (decide (addr < e))

/-- symbol_map.rs:286-330 for a FUNC entry: → (symbol address, size) -/
def funcLookup (r : BsRes) (addrs : List Nat) (size addr : Nat) : R (Option (Nat × Nat)) := do
  match ← lookupIndex r addrs.length with
  | none => pure none
  | some i =>
    match addrs[i]? with
    | none => .panic
    | some symAddr =>
      if ← funcCovers symAddr size addr then pure (some (symAddr, size)) else pure none

def funcLookupLegacy (r : BsRes) (addrs : List Nat) (size addr : Nat) : R (Option (Nat × Nat)) := do
  match ← lookupIndex r addrs.length with
  | none => pure none
  | some i =>
    match addrs[i]? with
    | none => .panic
    | some symAddr =>
      if ← funcCoversLegacy symAddr size addr then pure (some (symAddr, size)) else pure none

/-- symbol_map.rs:295-317 for a PUBLIC entry: → (symbol address, `next.checked_sub(addr)`) -/
def publicLookup (r : BsRes) (addrs : List Nat) : R (Option (Nat × Option Nat)) := do
  match ← lookupIndex r addrs.length with
  | none => pure none
  | some i =>
    match addrs[i]? with
    | none => .panic
    | some symAddr =>
      let size := match addrs[i + 1]? with
        | some nxt => if symAddr ≤ nxt then some (nxt - symAddr) else none
        | none => none
      pure (some (symAddr, size))

structure Inlinee where
  depth : Nat
  address : Nat
  size : Nat
deriving Repr, DecidableEq

/-- index.rs:818-837 `get_inlinee_at_depth` -/
def inlineeAt (r : BsRes) (inls : List Inlinee) (depth addr : Nat) : R (Option Inlinee) := do
  match ← lookupIndex r inls.length with
  | none => pure none
  | some i =>
    match inls[i]? with
    | none => .panic
    | some inl =>
      if inl.depth ≠ depth then pure none else
      match checkedAddU32 inl.address inl.size with          -- :831
      | none => pure none
      | some e => if addr < e then pure (some inl) else pure none

/-- index.rs:802-809 `get_innermost_sourceloc` → index of the line record -/
def sourcelocAt (r : BsRes) (nLines : Nat) : R (Option Nat) := lookupIndex r nLines

/-! ### Kernel E — `.symindex` bounds (`breakpad/index.rs:40-164`, `166-210`) -/

inductive SymErr
  | fileTooSmallForHeader | wrongMagic | couldntReadModuleInfo | couldntParseModuleInfo
  | fileListOverflow | couldntReadFileList | inlineOriginOverflow | couldntReadInlineOrigins
  | symbolAddressOverflow | couldntReadSymbolAddresses | symbolEntryOverflow | couldntReadSymbolEntries
deriving Repr, DecidableEq

/-- `<&[u8] as ReadRef>::read_bytes_at(offset, size)`: `get(offset..)?.get(..size)` -/
def readBytesAt (data : List UInt8) (off size : Nat) : Option (List UInt8) :=
  if off ≤ data.length then
    if size ≤ data.length - off then some ((data.drop off).take size) else none
  else none

def le32 (bs : List UInt8) (o : Nat) : Nat :=
  (bs.getD o 0).toNat + 256 * (bs.getD (o + 1) 0).toNat + 65536 * (bs.getD (o + 2) 0).toNat
    + 16777216 * (bs.getD (o + 3) 0).toNat

/-- `Ref::<&[u8], [T]>::from_bytes(bytes).unwrap()` for an `Unaligned` `T` of `elem` bytes -/
def refFromBytes {ε : Type} (bytes : List UInt8) (elem : Nat) : Res ε Nat :=
  if bytes.length % elem = 0 then .ok (bytes.length / elem) else .panic

structure SymIndexInfo where
  moduleInfoLen : Nat
  files : Nat
  inlineOrigins : Nat
  symbols : Nat
deriving Repr, DecidableEq

def magicSYMINDEX : List UInt8 := [83, 89, 77, 73, 78, 68, 69, 88]

/-- one counted section: `count.checked_mul(elem)`, bounds-checked read, `from_bytes().unwrap()` -/
def readSection (data : List UInt8) (count elem off : Nat) (eo er : SymErr) : Res SymErr Nat :=
  match checkedMulU32 count elem with
  | none => .err eo
  | some len =>
    match readBytesAt data off len with
    | none => .err er
    | some bs => refFromBytes bs elem

/-- index.rs:40-164. `modInfoOk` is the outcome of the module-info line parsers (nom, `debugid`,
UTF-8 validation: third-party, supplied by the harness as an oracle) on the module-info bytes. -/
def parseSymindex (data : List UInt8) (modInfoOk : Bool) : Res SymErr SymIndexInfo :=
  match readBytesAt data 0 48 with                                      -- :43
  | none => .err .fileTooSmallForHeader
  | some hdr =>
    if hdr.length ≠ 48 then .panic else                                  -- :46 `from_bytes().unwrap()`
    if hdr.take 8 ≠ magicSYMINDEX then .err .wrongMagic else             -- :47
    match readBytesAt data (le32 hdr 12) (le32 hdr 16) with              -- :50
    | none => .err .couldntReadModuleInfo
    | some mi =>
      if !modInfoOk then .err .couldntParseModuleInfo else do            -- :94
        let files ← readSection data (le32 hdr 20) 16 (le32 hdr 24) .fileListOverflow .couldntReadFileList
        let inls ← readSection data (le32 hdr 28) 16 (le32 hdr 32) .inlineOriginOverflow .couldntReadInlineOrigins
        let syms ← readSection data (le32 hdr 36) 4 (le32 hdr 40) .symbolAddressOverflow .couldntReadSymbolAddresses
        let _ ← readSection data (le32 hdr 36) 16 (le32 hdr 44) .symbolEntryOverflow .couldntReadSymbolEntries
        pure ⟨mi.length, files, inls, syms⟩

/-- what removing one `checked_mul` would give: `count * elem` in `u32` -/
def readSectionUnchecked (data : List UInt8) (count elem off : Nat) (er : SymErr) : Res SymErr Nat := do
  let len ← (if count * elem ≤ u32Max then Res.ok (count * elem) else Res.panic : Res SymErr Nat)
  match readBytesAt data off len with
  | none => .err er
  | some bs => refFromBytes bs elem

/-- index.rs:166-182 `serialize_to_bytes` layout arithmetic (all `u32`), lengths already cast -/
def symindexLayout (moduleInfoLen files inlineOrigins symbols : Nat) : R Nat := do
  let a ← addU32 moduleInfoLen 4                       -- :214 `value + factor`
  let b ← subU32 a 1                                   -- `- 1`
  let aligned ← mulU32 (b / 4) 4
  let padding ← subU32 aligned moduleInfoLen           -- :170
  let o1 ← addU32 48 moduleInfoLen
  let fileOff ← addU32 o1 padding                      -- :171
  let fileLen ← mulU32 files 16                        -- :173
  let inlOff ← addU32 fileOff fileLen                  -- :174
  let inlLen ← mulU32 inlineOrigins 16                 -- :176
  let addrOff ← addU32 inlOff inlLen                   -- :177
  let addrLen ← mulU32 symbols 4                       -- :179
  let entOff ← addU32 addrOff addrLen                  -- :180
  let entLen ← mulU32 symbols 16                       -- :181
  addU32 entOff entLen                                 -- :182 total_file_len

/-! ### Kernel F — `LineBuffer` (`breakpad/index.rs:702-750`) -/

structure LB where
  leftover : List UInt8
  cur : Nat
deriving Repr, DecidableEq

def LB.init : LB := ⟨[], 0⟩

/-- the `loop` of `consume` (index.rs:716-740): `piece` = bytes of the chunk since the last line
break (what `&chunk[..line_break_pos]` will be) -/
def consumeGo (lo : List UInt8) (cur : Nat) (piece : List UInt8) (out : List (Nat × List UInt8)) :
    List UInt8 → R (LB × List (Nat × List UInt8))
  | [] => do                                                      -- :718 memchr → None
    let cur' ← addU64 cur piece.length                            -- :720
    pure (⟨lo ++ piece, cur'⟩, out)
  | b :: rest =>
    if b.toNat = 10 then do
      let start ← (if lo.isEmpty then pure cur else subU64 cur lo.length)   -- :727-731
      let p1 ← addU64 piece.length 1                              -- :735
      let cur' ← addU64 cur p1
      consumeGo [] cur' [] (out ++ [(start, lo ++ piece)]) rest
    else consumeGo lo cur (piece ++ [b]) out rest

def LB.consume (st : LB) (chunk : List UInt8) : R (LB × List (Nat × List UInt8)) :=
  if st.leftover.length ≤ st.cur then consumeGo st.leftover st.cur [] [] chunk   -- :712 assert!
  else .panic

/-- index.rs:743-749 → (callbacks, final offset) -/
def LB.finish (st : LB) : R (List (Nat × List UInt8) × Nat) :=
  if st.leftover.isEmpty then pure ([], st.cur) else do
    let start ← subU64 st.cur st.leftover.length                   -- :745
    pure ([(start, st.leftover)], st.cur)

/-- a whole file delivered in chunks → all line callbacks and the final offset -/
def lbRun : LB → List (List UInt8) → R (List (Nat × List UInt8) × Nat)
  | st, [] => st.finish
  | st, c :: cs => do
    let (st', out) ← st.consume c
    let (out', fin) ← lbRun st' cs
    pure (out ++ out', fin)

/-! ### Kernel G — `from_prefixed_hex_str` (`samply-api/src/hex.rs:23-37`) -/

def fromPrefixedHexStr (s : List UInt8) : R Nat :=
  match s with
  | a :: b :: rest =>
    if a.toNat = 48 ∧ b.toNat = 120 then ofOption (fromStrRadix16 u32Max rest)   -- strip_prefix("0x")
    else .err ()
  | _ => .err ()

/-! ### Kernel H — special paths (`samply-symbols/src/mapped_path.rs:114-189`) -/

/-- nom `terminated(take_until1(c), tag(c))` for a one-byte ASCII pattern: the first `c` must exist
and not be at position 0 → (taken, rest after the delimiter). The split index is the position of an
ASCII byte, hence a character boundary. -/
def takeUntil1 (c : Nat) (s : List UInt8) : Option (List UInt8 × List UInt8) :=
  let pre := s.takeWhile (fun b => b.toNat ≠ c)
  let rest := s.dropWhile (fun b => b.toNat ≠ c)
  match rest with
  | [] => none
  | _ :: after => if pre.isEmpty then none else some (pre, after)

def stripTag (tag s : List UInt8) : Option (List UInt8) :=
  if tag.isPrefixOf s then some (s.drop tag.length) else none

/-- `rfind('-')`: bytes before / after the last `-` -/
def rsplitDash : List UInt8 → Option (List UInt8 × List UInt8)
  | [] => none
  | b :: rest =>
    match rsplitDash rest with
    | some (pre, post) => some (b :: pre, post)
    | none => if b.toNat = 45 then some ([], rest) else none

/-- mapped_path.rs:140-151: `&s[..pos]`, `&s[(pos + 1)..]` around `rfind('-')` -/
def cargoSplit (s : List UInt8) : R (List UInt8 × List UInt8) :=
  match rsplitDash s with
  | none => .err ()
  | some (pre, _) => do
    let a ← strIndex s 0 pre.length
    let b ← strIndex s (pre.length + 1) s.length
    pure (a, b)

inductive MappedPathV
  | git (repo path rev : List UInt8)
  | hg (repo path rev : List UInt8)
  | s3 (bucket digest path : List UInt8)
  | cargo (registry crateName version path : List UInt8)
deriving Repr, DecidableEq

def tagGit : List UInt8 := [103, 105, 116, 58]
def tagHg : List UInt8 := [104, 103, 58]
def tagS3 : List UInt8 := [115, 51, 58]
def tagCargo : List UInt8 := [99, 97, 114, 103, 111, 58]

def repoPathRev (tag s : List UInt8) : Option (List UInt8 × List UInt8 × List UInt8) := do
  let s ← stripTag tag s
  let (repo, s) ← takeUntil1 58 s
  let (path, rev) ← takeUntil1 58 s
  pure (repo, path, rev)

def s3Path (s : List UInt8) : Option (List UInt8 × List UInt8 × List UInt8) := do
  let s ← stripTag tagS3 s
  let (bucket, s) ← takeUntil1 58 s
  let (digest, s) ← takeUntil1 47 s
  let (path, rest) ← takeUntil1 58 s
  if rest.isEmpty then pure (bucket, digest, path) else none       -- `eof`

/-- mapped_path.rs:163-189 `parse_special_path` (`alt` tries git, hg, s3, cargo in this order) -/
def specialPath (s : List UInt8) : R MappedPathV :=
  match repoPathRev tagGit s with
  | some (a, b, c) => pure (.git a b c)
  | none =>
  match repoPathRev tagHg s with
  | some (a, b, c) => pure (.hg a b c)
  | none =>
  match s3Path s with
  | some (a, b, c) => pure (.s3 a b c)
  | none =>
  match stripTag tagCargo s with
  | none => .err ()
  | some s1 =>
    match takeUntil1 58 s1 with
    | none => .err ()
    | some (registry, s2) =>
      match takeUntil1 58 s2 with
      | none => .err ()
      | some (cnv, path) => do
        let (name, version) ← cargoSplit cnv
        pure (.cargo registry name version path)

/-! ### Compositions used by the correspondence run: one Breakpad record rendered by the harness as
`… <tok> <tok> …` with single spaces; a token that is not fully consumed by the number parser is
followed by a non-space, so the nom line parser fails and the record is ignored. -/

def fullHex (bits : Nat) (tok : List UInt8) : R Nat := do
  let (rest, v) ← hexStr bits tok
  if rest.isEmpty then pure v else .err ()

def fullDec (tok : List UInt8) : R Nat := do
  let (rest, v) ← decimalU32 tok
  if rest.isEmpty then pure v else .err ()

/-- turns "record not parsed" (`err`) into `none`, keeps `panic` -/
def orNone {α : Type} (r : R α) : R (Option α) :=
  match r with
  | .ok v => .ok (some v)
  | .err _ => .ok none
  | .panic => .panic

/-- `FUNC <a> <s> 0 fn` alone in a file, lookup of `addr` → `(symbol address, size)` -/
def bpFunc (legacy : Bool) (aTok sTok : List UInt8) (addr : Nat) : R (Option (Nat × Nat)) := do
  let rec_ ← orNone (do let a ← fullHex 32 aTok; let s ← fullHex 32 sTok; pure (a, s))
  match rec_ with
  | none => pure none
  | some (a, s) =>
    if legacy then funcLookupLegacy (bsearch1 a addr) [a] s addr
    else funcLookup (bsearch1 a addr) [a] s addr

/-- `PUBLIC <a> 0 pn` alone in a file (`hex_str::<u64>` then `as u32`) -/
def bpPublic (aTok : List UInt8) (addr : Nat) : R (Option (Nat × Option Nat)) := do
  match ← orNone (fullHex 64 aTok) with
  | none => pure none
  | some a64 =>
    let a := a64 % two32
    publicLookup (bsearch1 a addr) [a]

/-- prefix parse of the last token of a record: trailing bytes are ignored by the tokenizer -/
def prefixHex (bits : Nat) (tok : List UInt8) : R Nat := do
  let (_, v) ← hexStr bits tok
  pure v

def prefixDec (tok : List UInt8) : R Nat := do
  let (_, v) ← decimalU32 tok
  pure v

/-- `FUNC 1000 100 0 fn` + line record `<a> <s> <line> <file>` (index.rs:991-1005; a record that does
not parse is skipped); lookup of `addr`: outside `[0x1000, 0x1100)` there is no symbol (`none`), inside
→ line number of the innermost source location (`some none` when no record covers it) -/
def bpLine (aTok sTok lTok fTok : List UInt8) (addr : Nat) : R (Option (Option Nat)) := do
  if addr < 4096 ∨ addr ≥ 4352 then pure none else
  let rec_ ← orNone (do
    let a ← fullHex 64 aTok; let _ ← fullHex 32 sTok; let l ← fullDec lTok; let _ ← prefixDec fTok
    pure (a % two32, l))
  match rec_ with
  | none => pure (some none)
  | some (a, l) =>
    match ← sourcelocAt (bsearch1 a addr) 1 with
    | none => pure (some none)
    | some _ => pure (some (some l))

/-- lexicographic binary search of a one-element inlinee list by `(depth, address)` -/
def bsearchInl1 (inl : Inlinee) (depth addr : Nat) : BsRes :=
  if inl.depth = depth ∧ inl.address = addr then .found 0
  else if inl.depth < depth ∨ (inl.depth = depth ∧ inl.address < addr) then .notFound 1
  else .notFound 0

/-- `FUNC 1000 100 0 fn` + `INLINE <d> 7 0 0 <a> <s>` (index.rs:1086-1120); lookup of `addr` → number
of frames (1 outer + inline depth reached). An INLINE line that fails to parse makes the FUNC block
unparseable, and outside `[0x1000, 0x1100)` there is no symbol (`none`). -/
def bpInline (dTok aTok sTok : List UInt8) (addr : Nat) : R (Option Nat) := do
  if addr < 4096 ∨ addr ≥ 4352 then pure none else
  let rec_ ← orNone (do
    let d ← fullDec dTok; let a ← fullHex 32 aTok; let s ← prefixHex 32 sTok
    pure (⟨d, a, s⟩ : Inlinee))
  match rec_ with
  | none => pure none
  | some inl =>
    match ← inlineeAt (bsearchInl1 inl 0 addr) [inl] 0 addr with
    | none => pure (some 1)
    | some _ =>
      -- depth 1: the only record has depth 0
      match ← inlineeAt (bsearchInl1 inl 1 addr) [inl] 1 addr with
      | none => pure (some 2)
      | some _ => pure (some 3)

/-! ### Specification-side predicates used in the theorem statements -/

/-- contract of a third-party instruction decoder on the slice it is given: a decoded instruction is
non-empty and lies inside the slice; an "invalid instruction" error (as opposed to "data exhausted") is
only reported when at least `adjust` bytes were available -/
structure DecContract (dec : List UInt8 → Dec) (adjust : Nat) : Prop where
  ok_bounds : ∀ s n, dec s = .ok n → 1 ≤ n ∧ n ≤ s.length
  invalid_avail : ∀ s, dec s = .invalid → adjust ≤ s.length

/-- the std contract of `binary_search_by_key` on a slice of length `len` (holds for unsorted input too) -/
def BsOk (r : BsRes) (len : Nat) : Prop :=
  match r with
  | .found i => i < len
  | .notFound i => i ≤ len

instance (r : BsRes) (len : Nat) : Decidable (BsOk r len) := by
  unfold BsOk; split <;> infer_instance

def totalLen (chunks : List (List UInt8)) : Nat := (chunks.map List.length).sum

/-- shape of UTF-8 (lead byte classes and continuation counts; every valid UTF-8 string has it) -/
def utf8Shape : List UInt8 → Bool
  | [] => true
  | b :: rest =>
    if b.toNat < 128 then utf8Shape rest
    else if 192 ≤ b.toNat ∧ b.toNat < 224 then
      match rest with
      | c1 :: r => isCont c1 && utf8Shape r
      | _ => false
    else if 224 ≤ b.toNat ∧ b.toNat < 240 then
      match rest with
      | c1 :: c2 :: r => isCont c1 && isCont c2 && utf8Shape r
      | _ => false
    else if 240 ≤ b.toNat ∧ b.toNat < 248 then
      match rest with
      | c1 :: c2 :: c3 :: r => isCont c1 && isCont c2 && isCont c3 && utf8Shape r
      | _ => false
    else false

end PK
