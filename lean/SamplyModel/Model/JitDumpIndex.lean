import SamplyModel.Model.SymbolList
/-!
Model of the jitdump symbol index (C05).

Follows `samply-symbols/src/jitdump.rs`:

* `JitDump.relsFrom` / `buildRels`  = the cumulative relative addresses of `JitDumpIndex::from_reader`
  (lines 69, 83-84, 94): `cumulative_address += record.code_bytes.len() as u32` is a checked `u32` addition;
* `JitDump.lookupRelative`          = `JitDumpIndex::lookup_relative_address` (lines 121-134);
* `JitDump.lookupOffset`            = `JitDumpIndex::lookup_offset` (lines 137-154);
* `JitDump.lookup` / `lookupC`      = `lookup_sync` + `lookup_by_entry_index` (lines 270-300, 322-332),
  without / with the `Mutex`-guarded `names` cache keyed by the entry index (`get_function_name`, 235-249);
* `JitDump.iterSymbols` / `iterSymbolsC` = `iter_symbols` (lines 312-320).

Reading the records (linux-perf-data) is not modelled: an index entry carries the file offset of its code
bytes, the code length and the name the file holds for it (`none` = the bytes cannot be read).
Core Lean only.
-/
namespace JitDump
open SymLookup

/-- `JitDumpIndexEntry` as far as lookups read it -/
structure Entry where
  codeOff : Nat
  len : Nat
  name : Option Name
deriving DecidableEq, Repr

structure Index where
  entries : List Entry
  rels : List Nat
deriving DecidableEq, Repr

/-- cumulative addresses; `none` = the `u32` addition overflows (panic in the build used by the check) -/
def relsFrom (cum : Nat) : List Entry → Option (List Nat)
  | [] => some []
  | e :: rest =>
    if cum + e.len % U32 < U32 then (relsFrom (cum + e.len % U32) rest).map (cum :: ·) else none

def buildIndex (entries : List Entry) : Option Index :=
  (relsFrom 0 entries).map fun rels => ⟨entries, rels⟩

/-- lines 121-134 → (entry index, entry relative address, offset from entry start) -/
def lookupRelative (ix : Index) (a : Nat) : Out (Nat × Nat × Nat) :=
  match pickIndex ix.rels a with
  | none => .miss
  | some i =>
    match ix.rels[i]?, ix.entries[i]? with
    | some s, some e =>
      if a < s then .panic                            -- `address - symbol_address`
      else if e.len ≤ a - s then .miss else .hit (i, s, a - s)
    | _, _ => .panic                                  -- indexing out of range

/-- lines 137-154 -/
def lookupOffset (ix : Index) (o : Nat) : Out (Nat × Nat × Nat) :=
  match pickIndex (ix.entries.map (·.codeOff)) o with
  | none => .miss
  | some i =>
    match ix.entries[i]? with
    | none => .panic
    | some e =>
      if o < e.codeOff then .panic                    -- `offset - symbol_code_bytes_offset`
      else if e.len ≤ o - e.codeOff then .miss
      else match ix.rels[i]? with
        | none => .panic
        | some s => .hit (i, s, o - e.codeOff)

/-- lines 322-330 -/
def locate (ix : Index) : Addr → Out (Nat × Nat × Nat)
  | .rel a => lookupRelative ix a
  | .svma _ => .miss
  | .fileOffset o => lookupOffset ix o

/-- what `get_function_name(i)` reads from the file -/
def nameAt (ix : Index) (i : Nat) : Option Name := (ix.entries[i]?).bind (·.name)

/-- `lookup_by_entry_index` given the name: `size: Some(code_bytes_len as u32)` -/
def answer (ix : Index) (i s : Nat) (name : Option Name) : Out SymInfo :=
  match name with
  | none => .miss
  | some n =>
    match ix.entries[i]? with
    | none => .panic
    | some e => .hit ⟨s, some (e.len % U32), n⟩

/-- cache-free lookup -/
def lookup (ix : Index) (a : Addr) : Out SymInfo :=
  match locate ix a with
  | .panic => .panic
  | .miss => .miss
  | .hit (i, s, _) => answer ix i s (nameAt ix i)

/-- the lookup as written, through the `names` cache -/
def lookupC (ix : Index) (c : Memo Name) (a : Addr) : Memo Name × Out SymInfo :=
  match locate ix a with
  | .panic => (c, .panic)
  | .miss => (c, .miss)
  | .hit (i, s, _) =>
    let r := Memo.get (nameAt ix) c i
    (r.1, answer ix i s r.2)

/-- cache-free `iter_symbols` over entry indices `k, k+1, …` -/
def iterFrom (ix : Index) (k : Nat) : List Nat → List (Nat × Name)
  | [] => []
  | s :: rest =>
    match nameAt ix k with
    | some n => (s, n) :: iterFrom ix (k + 1) rest
    | none => iterFrom ix (k + 1) rest

def iterSymbols (ix : Index) : List (Nat × Name) := iterFrom ix 0 ix.rels

def iterFromC (ix : Index) (k : Nat) : List Nat → Memo Name → Memo Name × List (Nat × Name)
  | [], c => (c, [])
  | s :: rest, c =>
    let r := Memo.get (nameAt ix) c k
    let t := iterFromC ix (k + 1) rest r.1
    (t.1, match r.2 with | some n => (s, n) :: t.2 | none => t.2)

def iterSymbolsC (ix : Index) (c : Memo Name) : Memo Name × List (Nat × Name) := iterFromC ix 0 ix.rels c

inductive Op where
  | lookup (a : Addr)
  | iter
deriving DecidableEq, Repr

inductive Ans where
  | lookup (r : Out SymInfo)
  | iter (l : List (Nat × Name))
deriving DecidableEq, Repr

def pureAns (ix : Index) : Op → Ans
  | .lookup a => .lookup (lookup ix a)
  | .iter => .iter (iterSymbols ix)

/-- any sequence of operations, each an atomic critical section on the cache -/
def runC (ix : Index) : Memo Name → List Op → List Ans
  | _, [] => []
  | c, .lookup a :: ops => let r := lookupC ix c a; .lookup r.2 :: runC ix r.1 ops
  | c, .iter :: ops => let r := iterSymbolsC ix c; .iter r.2 :: runC ix r.1 ops

/-! ### `iter_symbols` element by element: the cache is locked once per element (lines 313-316) -/

def iterElemC (ix : Index) (c : Memo Name) (i : Nat) : Memo Name × Option (Nat × Name) :=
  match ix.rels[i]? with
  | none => (c, none)                                 -- not reached: `i < symbol_count()`
  | some s =>
    let r := Memo.get (nameAt ix) c i
    (r.1, r.2.map fun n => (s, n))

def iterElem (ix : Index) (i : Nat) : Option (Nat × Name) :=
  (ix.rels[i]?).bind fun s => (nameAt ix i).map fun n => (s, n)

inductive Step where
  | lookup (a : Addr)
  | elem (i : Nat)
deriving DecidableEq, Repr

inductive StepAns where
  | lookup (r : Out SymInfo)
  | elem (o : Option (Nat × Name))
deriving DecidableEq, Repr

def pureStep (ix : Index) : Step → StepAns
  | .lookup a => .lookup (lookup ix a)
  | .elem i => .elem (iterElem ix i)

def runSteps (ix : Index) : Memo Name → List Step → List StepAns
  | _, [] => []
  | c, .lookup a :: st => let r := lookupC ix c a; .lookup r.2 :: runSteps ix r.1 st
  | c, .elem i :: st => let r := iterElemC ix c i; .elem r.2 :: runSteps ix r.1 st

/-! ### from the record stream of the file to the index entries -/

/-- one record of a jitdump file as `JitDumpIndex::from_reader` (jitdump.rs:71-111) sees it -/
inductive Rec where
  /-- JIT_CODE_LOAD: length of the function name (without the NUL), code length, the name bytes -/
  | load (nameLen : Nat) (codeLen : Nat) (name : Option Name)
  /-- JIT_CODE_DEBUG_INFO with this `total_size`: remembered for the frames of the next load, no index entry -/
  | debugInfo (size : Nat)
  /-- any other record type with this `total_size`: skipped -/
  | other (size : Nat)
deriving Repr

/-- `total_size` of the record: header 16 bytes; a load body is 40 bytes of fixed fields, the NUL-terminated name,
the code bytes -/
def Rec.size : Rec → Nat
  | .load nl cl _ => 16 + 40 + nl + 1 + cl
  | .debugInfo s => s
  | .other s => s

/-- the loop of `from_reader` from file offset `off` in a file of `fileLen` bytes: it ends at the first record that
is not completely inside the file (`next_record()` returns nothing / `skip_next_record()` fails / no further
header), which is how a dump that is still being written is read -/
def entriesFrom (fileLen : Nat) : Nat → List Rec → List Entry
  | _, [] => []
  | off, r :: rest =>
    if fileLen < off + r.size then [] else
    match r with
    | .load nl cl nm => ⟨off + 16 + 40 + nl + 1, cl, nm⟩ :: entriesFrom fileLen (off + r.size) rest
    | .debugInfo _ => entriesFrom fileLen (off + r.size) rest
    | .other _ => entriesFrom fileLen (off + r.size) rest

end JitDump
