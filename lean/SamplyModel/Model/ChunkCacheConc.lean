import SamplyModel.Model.ChunkCache
/-!
Concurrent readers of one `FileContentsWithChunkedCaching` at **lock granularity** — property C13, clause
"results do not depend on … concurrent readers".

A public call is cut into its *atomic sections*: maximal pieces of code that touch the shared state under one
acquisition of a lock (or through one lock-free access of the append-only `FrozenVec`). Between two sections of
one thread, sections of any other thread may run. The cuts (line numbers of `samply-symbols/src/cache.rs`):

`read_bytes_at` (:90-110)
  * R1  the three checks (:91-107, they read only the immutable `file_len`) and `get_range_location` (:108 =
        :54-80, one critical section of the `buffer_manager` mutex: plan, source read, handle allocation, push,
        range-map insert);
  * R2  `slice_from_location` (:109) — **after** the `buffer_manager` guard is dropped, lock-free read of
        `buffers`.

`read_bytes_at_until` (:113-172)
  * U1  the two range checks (:120-131), `string_cache.lock()` (:135; *blocks* while another thread holds it) and
        the cache lookup (:136); on a miss the `max_len == 0` test (:149) and the `range.start + max_len` (:156);
  * U1h on a hit: `slice_from_location` (:141), guard dropped at `return`;
  * U2  `get_range_location` (:156) — the nested `buffer_manager` section; other threads' R1/U2 sections and
        R2 slices may run between U1 and U2 and between U2 and U3 (they do not need the `string_cache` lock);
  * U3  `slice_from_location` (:157);
  * U4  `memchr`, `location.size = …`, `string_cache.insert` (:159-171), guard dropped at `return`.

`read_bytes_into` (:174-181): one step (touches no shared state of the cache).

`Sys` = shared cache state + owner of the `string_cache` mutex + the threads (each with a program = list of
calls still to make, a program counter inside the current call, and the outcomes of its finished calls).
`sysStep c s k` lets thread `k` execute its next section if it is enabled (a thread that needs the
`string_cache` lock while another thread holds it is *not* enabled: the step is a no-op); a *schedule* is any
list of thread numbers, `runSched` executes it. Every execution of N threads in which mutex-protected sections
are atomic is such a schedule. A panic ends the thread (its held lock stays held = poisoned).

Local (non-shared) computation is merged into the neighbouring section: it commutes with everything.
Below lock granularity (the internals of `Mutex`, `elsa::sync::FrozenVec`, `AtomicUsize`) nothing is modelled.
Core Lean only.
-/
namespace CC

/-- where a thread stands inside its current call -/
inductive Pc
  | idle
  /-- `read_bytes_at`: has the location (:108), about to slice (:109); no lock held -/
  | readSlice (o n : Nat) (loc : Loc)
  /-- `read_bytes_at_until`: string-cache hit with the delimiter inside the range (:140), about to slice
  (:141); holds the `string_cache` lock -/
  | untilHit (r : Range) (d : UInt8) (loc : Loc)
  /-- string-cache miss, `max_len = m > 0`: about to call `get_range_location` (:156); holds the lock -/
  | untilLocate (r : Range) (d : UInt8) (m : Nat)
  /-- has the location, about to slice (:157); holds the lock -/
  | untilSlice (r : Range) (d : UInt8) (loc : Loc)
  /-- has the bytes, about to search and insert (:159-171); holds the lock -/
  | untilFinish (r : Range) (d : UInt8) (loc : Loc) (bytes : List UInt8)
deriving Repr, DecidableEq

def Pc.holdsLock : Pc → Bool
  | .idle => false
  | .readSlice .. => false
  | _ => true

/-- the call a program counter belongs to -/
def Pc.op? : Pc → Option Op
  | .idle => none
  | .readSlice o n _ => some (.read o n)
  | .untilHit r d _ => some (.until_ r d)
  | .untilLocate r d _ => some (.until_ r d)
  | .untilSlice r d _ => some (.until_ r d)
  | .untilFinish r d _ _ => some (.until_ r d)

structure Thread where
  pc : Pc
  /-- calls still to make (not including the one in progress) -/
  todo : List Op
  /-- finished calls with their outcomes, newest first -/
  done : List (Op × Out (List UInt8))
deriving Repr, DecidableEq

/-- the current call returns `out` -/
def Thread.finish (t : Thread) (op : Op) (out : Out (List UInt8)) : Thread :=
  { pc := .idle, todo := t.todo, done := (op, out) :: t.done }

/-- the current call panics: the thread unwinds and makes no further calls -/
def Thread.die (t : Thread) (op : Op) : Thread :=
  { pc := .idle, todo := [], done := (op, .panic) :: t.done }

structure Sys where
  st : St
  /-- owner of the `string_cache` mutex -/
  lock : Option Nat
  threads : List Thread
deriving Repr

/-- One atomic section of thread `k`; `none` = the thread is not enabled (nothing left to do, or blocked in
`string_cache.lock()`). Returns the new shared state, the new owner of the `string_cache` lock and the new
thread state. -/
def tstep (c : Cfg) (k : Nat) (st : St) (lock : Option Nat) (t : Thread) : Option (St × Option Nat × Thread) :=
  match t.pc with
  | .idle =>
    match t.todo with
    | [] => none
    | .read o n :: rest =>                                                      -- section R1
      let t : Thread := { t with todo := rest }
      if n = 0 then some (st, lock, t.finish (.read o n) (.ok []))             -- :91
      else if U64 ≤ o + n then some (st, lock, t.finish (.read o n) (.err .overflow))   -- :96
      else if st.fileLen < o + n then some (st, lock, t.finish (.read o n) (.err .oob)) -- :102
      else
        match getRangeLocation c st ⟨o, o + n⟩ with                            -- :108
        | (st', .ok loc) => some (st', lock, { t with pc := .readSlice o n loc })
        | (st', .err e) => some (st', lock, t.finish (.read o n) (.err e))
        | (st', .panic) => some (st', lock, t.die (.read o n))
    | .into o n :: rest =>                                                      -- :174-181
      let t : Thread := { t with todo := rest }
      some (st, lock, t.finish (.into o n) (readBytesInto c st o n).2)
    | .until_ r d :: rest =>                                                    -- section U1
      let t : Thread := { t with todo := rest }
      if r.hi < r.lo then some (st, lock, t.finish (.until_ r d) (.err .badRange))      -- :120
      else if st.fileLen < r.hi then some (st, lock, t.finish (.until_ r d) (.err .oob)) -- :126
      else
        match lock with
        | some _ => none                                                        -- blocked at :135
        | none =>
          let maxLen := min (r.hi - r.lo) maxLenInclDelim                       -- :133
          match cacheGet st.strCache (r.lo, d) with                             -- :136
          | some loc =>
            if loc.size < maxLen then some (st, some k, { t with pc := .untilHit r d loc })   -- :140
            else some (st, none, t.finish (.until_ r d) (.err .noDelim))        -- :143
          | none =>
            if maxLen = 0 then some (st, none, t.finish (.until_ r d) (.err .noDelim))        -- :149
            else if U64 ≤ r.lo + maxLen then some (st, some k, t.die (.until_ r d))           -- :156 overflow
            else some (st, some k, { t with pc := .untilLocate r d maxLen })
  | .readSlice o n loc =>                                                       -- section R2 (:109)
    match sliceFromLocation st loc with
    | .panic => some (st, lock, t.die (.read o n))
    | out => some (st, lock, t.finish (.read o n) out)
  | .untilHit r d loc =>                                                        -- section U1h (:141)
    match sliceFromLocation st loc with
    | .panic => some (st, lock, t.die (.until_ r d))
    | out => some (st, none, t.finish (.until_ r d) out)
  | .untilLocate r d m =>                                                       -- section U2 (:156)
    match getRangeLocation c st ⟨r.lo, r.lo + m⟩ with
    | (st', .ok loc) => some (st', lock, { t with pc := .untilSlice r d loc })
    | (st', .err e) => some (st', none, t.finish (.until_ r d) (.err e))
    | (st', .panic) => some (st', lock, t.die (.until_ r d))
  | .untilSlice r d loc =>                                                      -- section U3 (:157)
    match sliceFromLocation st loc with
    | .ok bytes => some (st, lock, { t with pc := .untilFinish r d loc bytes })
    | .err e => some (st, none, t.finish (.until_ r d) (.err e))
    | .panic => some (st, lock, t.die (.until_ r d))
  | .untilFinish r d loc bytes =>                                               -- section U4 (:159-171)
    match memchr d bytes with
    | none => some (st, none, t.finish (.until_ r d) (.err .noDelim))
    | some len =>
      some ({ st with strCache := ((r.lo, d), { loc with size := len }) :: st.strCache }, none,
            t.finish (.until_ r d) (.ok (bytes.take len)))

/-- thread `k` runs its next section, if there is such a thread and it is enabled -/
def sysStep (c : Cfg) (s : Sys) (k : Nat) : Sys :=
  match s.threads[k]? with
  | none => s
  | some t =>
    match tstep c k s.st s.lock t with
    | none => s
    | some (st', lock', t') => ⟨st', lock', s.threads.set k t'⟩

/-- execute a schedule (any list of thread numbers) -/
def runSched (c : Cfg) (s : Sys) (sched : List Nat) : Sys := sched.foldl (sysStep c) s

/-- a fresh cache shared by threads with the given programs -/
def Sys.init (fileLen : Nat) (progs : List (List Op)) : Sys :=
  ⟨St.init fileLen, none, progs.map fun p => ⟨.idle, p, []⟩⟩

/-- thread `k` can run a section now -/
def Sys.enabled (c : Cfg) (s : Sys) (k : Nat) : Bool :=
  match s.threads[k]? with
  | none => false
  | some t => (tstep c k s.st s.lock t).isSome

/-- thread has nothing left to do -/
def Thread.finished (t : Thread) : Bool := t.pc = .idle && t.todo.isEmpty

/-- the calls of a thread in program order: finished ones, the one in progress, the ones to come -/
def Thread.calls (t : Thread) : List Op :=
  t.done.reverse.map (·.1) ++ (match t.pc.op? with | some op => [op] | none => []) ++ t.todo

end CC
