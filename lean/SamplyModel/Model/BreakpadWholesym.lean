import SamplyModel.Model.BreakpadIndex
/-!
C10, improvement round: the other two index builders (wholesym/src/breakpad.rs), the reuse of an existing
`.symindex` file, and `iter_symbols` of the Breakpad symbol map. Core Lean only.
-/
namespace BP
open LB (Byte)

/-! ## read loops

Both builders of wholesym have the shape

    let mut buf = vec![0; CAP];
    loop { let n = reader.read(&mut buf).await?; if n == 0 { break; } consumer(&buf[..n]); }

(`parse_sym_file_into_index`, breakpad.rs:275-286, reader = the `.sym` file; `download_to_file`,
downloader.rs:326-344, reader = the decoded response body, consumer = `index_generator.consume`,
breakpad.rs:163-166). How many bytes one `read` returns is up to the reader (short reads): `lens` is that
oracle — the k-th read returns `lens[k]` bytes, at least 1 (0 would mean EOF), at most `cap` and at most
what is left; when the oracle is exhausted the reads are full. fuel = number of bytes (every read takes at
least one). -/
def readLoop (cap : Nat) : Nat → List Nat → List Byte → List (List Byte)
  | 0, _, _ => []
  | fuel + 1, lens, rest =>
    if rest.isEmpty then [] else
      let want := match lens with
        | [] => cap
        | l :: _ => min (max l 1) cap
      rest.take want :: readLoop cap fuel lens.tail (rest.drop want)

/-- `CHUNK_SIZE` of breakpad.rs:275 and the buffer of downloader.rs:326: 2 MiB -/
def wsCap : Nat := 2097152

/-- the index `parse_sym_file_into_index` computes for a `.sym` file with content `text` (breakpad.rs:267-290),
and equally the one the download consumer computes for a response body `text` (breakpad.rs:163-171):
fresh creator, one `consume` per read, `finish` -/
def wsIndex (pick : Pick) (lens : List Nat) (text : List Byte) : Outcome :=
  index pick (readLoop wsCap text.length lens text)

/-- state of the `.symindex` file after `ensure_symindex` -/
inductive WsIdx
  | panic
  | absent
  | file (bytes : List Byte)
deriving Repr, DecidableEq

/-- `ensure_symindex` (breakpad.rs:246-265): an existing `.symindex` is returned as it is (never looked
at); otherwise the `.sym` file is indexed and the bytes are written; a parse error leaves no file -/
def wsEnsureSymindex (pick : Pick) (lens : List Nat) (text : List Byte) (existing : Option (List Byte)) : WsIdx :=
  match existing with
  | some b => .file b
  | none =>
    match wsIndex pick lens text with
    | .ok b => .file b
    | .err => .absent
    | .panic => .panic

/-- the symbol map of a local `.sym` file with a symindex cache directory configured: samply-symbols asks
for the `.symindex` location only when the file starts with `MODULE ` (lib.rs:611-621), wholesym answers
with `ensure_symindex` (helper.rs:402-411), a failure to load means "no stored index". Returns the map and
the state of the `.symindex` file afterwards. -/
def wsLocalMap (pick : Pick) (lens : List Nat) (text : List Byte) (existing : Option (List Byte)) :
    MapOutcome × WsIdx :=
  if (tag tMODULE_ text).isNone then
    (.notBreakpad, match existing with | some b => .file b | none => .absent)
  else
    match wsEnsureSymindex pick lens text existing with
    | .panic => (.panic, .panic)
    | .absent => (mapStored pick text none, .absent)
    | .file b => (mapStored pick text (some b), .file b)

/-! ## `iter_symbols` (symbol_map.rs:244-272) -/

/-- `(address, name)` for every index entry whose line / block parses; others are skipped (`.ok()?`
inside `filter_map`). `none` = the `symbol_entries[i]` index panics (arrays of different length). -/
def iterSymbolsAux (text : List Byte) : List Nat → List SymEntry → Option (List (Nat × List Byte))
  | [], _ => some []
  | _ :: _, [] => none
  | a :: as, e :: es =>
    let name : Option (List Byte) :=
      if e.kind = 0 then (readAt text e.offset e.len).bind parsePublic
      else if e.kind = 1 then ((readAt text e.offset e.len).bind parseFunc).map (·.name)
      else none
    match iterSymbolsAux text as es with
    | none => none
    | some rest =>
      match name with
      | some n => some ((a, n) :: rest)
      | none => some rest

def iterSymbols (text : List Byte) (ix : Index) : Option (List (Nat × List Byte)) :=
  iterSymbolsAux text ix.addrs ix.entries

end BP
