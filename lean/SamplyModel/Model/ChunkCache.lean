/-!
Model of `samply-symbols/src/cache.rs` (`FileContentsWithChunkedCaching`) and
`samply-symbols/src/chunked_read_buffer_manager.rs` (`ChunkedReadBufferManager`) — property C13.

The model follows the repaired code (commits 22b09fd5, 586a1eab), branch by branch. It never looks at
"the file": like the Rust code it only sees `fileLen` and the byte source `src offset size`
(`FileByteSource::read_bytes_into`), which is an oracle parameter returning `none` when the source fails.
The file `F : List UInt8` appears only in the hypotheses of the theorems (`Faithful`, `SourceOk`).

Every `assert!`, slice / vector index, `unwrap`, `u64` overflow / underflow and division by zero of the
Rust code is an explicit `Out.panic` outcome (line numbers in the comments refer to the two Rust files),
so that "no panic" is a theorem. Arithmetic is on `Nat`; `U64 = 2^64`. Line numbers are those of the
tree at 9c4312ce.

Assumed semantics (trusted, not modelled):
* `rangemap::RangeMap<u64, usize>` (`rmap`): `insert` of a non-empty range overwrites the overlapped part of
  older entries, `get k` returns the value of the most recently inserted range containing `k`
  (modelled as an insertion log, newest first; `insert` of an empty range panics as in rangemap 1.5.1).
* `elsa::sync::FrozenVec::push/get` = append / index; pushed boxes never move (this is what keeps the
  returned `&[u8]` valid — a memory-safety matter outside this model).
* `usize` is 64 bits (the `as usize` casts and `try_into::<usize>()` at cache.rs:63 are lossless).
* `std::sync::Mutex`: a critical section is atomic (see notes/C13.md for what this gives for threads).

Core Lean only (linked into the driver executable).
-/
namespace CC

/-- `2^64` -/
def U64 : Nat := 18446744073709551616

/-- Rust `Range<u64>`: `lo..hi` -/
structure Range where
  lo : Nat
  hi : Nat
deriving Repr, DecidableEq, Inhabited

def Range.contains (r : Range) (k : Nat) : Bool := decide (r.lo ≤ k) && decide (k < r.hi)

/-- `RangeLocation` (chunked_read_buffer_manager.rs:12) -/
structure Loc where
  handle : Nat
  off : Nat
  size : Nat
deriving Repr, DecidableEq, Inhabited

/-- `BufferRange` (chunked_read_buffer_manager.rs:25) -/
structure BufRange where
  range : Range
  handle : Nat
deriving Repr, DecidableEq, Inhabited

/-- `RangeSourcing` (chunked_read_buffer_manager.rs:19) -/
inductive Sourcing
  | existing (l : Loc)
  | needNew (r : Range)
deriving Repr, DecidableEq

/-- error kinds of the public calls (the Rust code returns boxed `io::Error`s with fixed messages) -/
inductive Err
  | overflow   -- "read_bytes_at with offset + size overflowing u64"
  | oob        -- "… range out-of-bounds"
  | badRange   -- "read_bytes_at_until called with range.end < range.start"
  | noDelim    -- "Could not find delimiter"
  | source     -- the error returned by the byte source
  | discarded  -- `Err(())` of the `ReadRef` impls in shared.rs, which drop the error of the `FileContents` method
deriving Repr, DecidableEq

inductive Out (α : Type)
  | ok (a : α)
  | err (e : Err)
  | panic
deriving Repr, DecidableEq

/-- `ChunkedReadBufferManager` (chunked_read_buffer_manager.rs:5) -/
structure Mgr where
  fileLen : Nat
  bufRanges : List BufRange
  /-- insertion log of the `RangeMap`, newest first -/
  rmap : List (Range × Nat)
deriving Repr

/-- `RangeMap::get`: value of the most recently inserted range containing `k` (assumed semantics) -/
def rmapGet (log : List (Range × Nat)) (k : Nat) : Option Nat :=
  (log.find? (fun e => e.1.contains k)).map (·.2)

/-- `FileContentsWithChunkedCaching` (cache.rs:25) without the source -/
structure St where
  fileLen : Nat
  mgr : Mgr
  /-- `string_cache: HashMap<(u64, u8), RangeLocation>` as an association list, newest first -/
  strCache : List ((Nat × UInt8) × Loc)
  /-- `buffers: FrozenVec<Box<[u8]>>` -/
  buffers : List (List UInt8)
  /-- `buffer_count: AtomicUsize` -/
  bufferCount : Nat
deriving Repr

/-- `FileContentsWithChunkedCaching::new` (cache.rs:35) -/
def St.init (fileLen : Nat) : St :=
  ⟨fileLen, ⟨fileLen, [], []⟩, [], [], 0⟩

/-- parameters: the chunk size (`CHUNK_SIZE = 32 * 1024` at cache.rs:11) and the byte source -/
structure Cfg where
  chunk : Nat
  src : Nat → Nat → Option (List UInt8)

def realChunk : Nat := 32768

/-- `round_down_to_multiple` (:31) — the caller checks `factor ≠ 0` -/
def roundDown (v f : Nat) : Nat := v / f * f

/-- `round_up_to_multiple` (:36-42, repaired by 9c4312ce):
`value.checked_add(factor - 1).map_or(u64::MAX, |v| v / factor * factor)` — the caller checks `factor ≠ 0` -/
def roundUp (v f : Nat) : Nat :=
  if U64 ≤ v + (f - 1) then U64 - 1 else (v + (f - 1)) / f * f

/-- `determine_range_sourcing` (chunked_read_buffer_manager.rs:54-81) -/
def determineRangeSourcing (chunk : Nat) (m : Mgr) (r : Range) : Out Sourcing :=
  if ¬ r.lo < r.hi then .panic                      -- assert! :55
  else if ¬ r.hi ≤ m.fileLen then .panic            -- assert! :56
  else
    let planNew (startIsCached : Bool) : Out Sourcing :=
      if chunk = 0 then .panic                      -- `factor - 1` underflows / division by zero :32, :40-41
      else
        let start := if startIsCached then r.lo else roundDown r.lo chunk   -- :74-78
        let stop := min (roundUp r.hi chunk) m.fileLen                      -- :79 clamp(0, file_len)
        .ok (.needNew ⟨start, stop⟩)
    match rmapGet m.rmap r.lo with                  -- :58
    | some idx =>
      match m.bufRanges[idx]? with
      | none => .panic                              -- index out of bounds :59
      | some br =>
        if r.hi ≤ br.range.hi then                  -- :60
          if r.lo < br.range.lo then .panic         -- u64 underflow :63
          else .ok (.existing ⟨br.handle, r.lo - br.range.lo, r.hi - r.lo⟩)
        else planNew true
    | none => planNew false

/-- The code before 9c4312ce: identical, except that `round_up_to_multiple` computed `value + factor - 1`
unchecked, which overflows `u64` (a panic) when `value + factor ≥ 2^64`; without overflow both versions
compute the same value. Kept only for `C13_legacy_counterexample_round_up_overflow`. -/
def determineRangeSourcingLegacy (chunk : Nat) (m : Mgr) (r : Range) : Out Sourcing :=
  match determineRangeSourcing chunk m r with
  | .ok (.needNew rr) => if U64 ≤ r.hi + chunk then .panic else .ok (.needNew rr)
  | other => other

/-- `insert_buffer_range` (chunked_read_buffer_manager.rs:84-91); `none` = `RangeMap::insert` panics on
an empty range -/
def insertBufferRange (m : Mgr) (r : Range) (handle : Nat) : Option Mgr :=
  if ¬ r.lo < r.hi then none
  else some { m with bufRanges := m.bufRanges ++ [⟨r, handle⟩], rmap := (r, m.bufRanges.length) :: m.rmap }

/-- `slice_from_location` (cache.rs:47-50) -/
def sliceFromLocation (st : St) (l : Loc) : Out (List UInt8) :=
  match st.buffers[l.handle]? with
  | none => .panic                                              -- `.unwrap()` :48
  | some b =>
    if b.length < l.off then .panic                             -- `buffer[off..]` :49
    else if b.length - l.off < l.size then .panic               -- `[..size]` :49
    else .ok ((b.drop l.off).take l.size)

/-- `get_range_location` (cache.rs:54-80): one critical section of the `buffer_manager` mutex.
The state returned together with `panic` is meaningless (the mutex is poisoned). -/
def getRangeLocation (c : Cfg) (st : St) (r : Range) : St × Out Loc :=
  match determineRangeSourcing c.chunk st.mgr r with
  | .panic => (st, .panic)
  | .err e => (st, .err e)
  | .ok (.existing l) => (st, .ok l)                                        -- :57
  | .ok (.needNew rr) =>
    if ¬ rr.lo ≤ rr.hi then (st, .panic)                                     -- assert! :60
    else
      let readLen := rr.hi - rr.lo                                           -- :63
      match c.src rr.lo readLen with
      | none => (st, .err .source)                                           -- `?` :66
      | some buf =>
        if buf.length ≠ readLen then (st, .panic)                            -- assert! :67
        else
          let handle := st.bufferCount                                       -- :69-71
          match insertBufferRange st.mgr rr handle with                      -- :73
          | none => (st, .panic)
          | some mgr' =>
            let st' : St := { st with buffers := st.buffers ++ [buf], bufferCount := handle + 1, mgr := mgr' }
            if r.lo < rr.lo then (st', .panic)                               -- u64 underflow :77
            else (st', .ok ⟨handle, r.lo - rr.lo, r.hi - r.lo⟩)

/-- `read_bytes_at` (cache.rs:90-110) -/
def readBytesAt (c : Cfg) (st : St) (offset size : Nat) : St × Out (List UInt8) :=
  if size = 0 then (st, .ok [])                                              -- :91
  else if U64 ≤ offset + size then (st, .err .overflow)                      -- checked_add :96
  else if st.fileLen < offset + size then (st, .err .oob)                    -- :102
  else
    match getRangeLocation c st ⟨offset, offset + size⟩ with
    | (st', .ok loc) => (st', sliceFromLocation st' loc)                     -- :109
    | (st', .err e) => (st', .err e)
    | (st', .panic) => (st', .panic)

def maxLenInclDelim : Nat := 4096

/-- `memchr::memchr`: index of the first occurrence -/
def memchr (d : UInt8) : List UInt8 → Option Nat
  | [] => none
  | b :: bs => if b = d then some 0 else (memchr d bs).map (· + 1)

/-- `HashMap::get` on the association list -/
def cacheGet (m : List ((Nat × UInt8) × Loc)) (k : Nat × UInt8) : Option Loc :=
  (m.find? (fun e => e.1 = k)).map (·.2)

/-- `read_bytes_at_until` (cache.rs:113-172), repaired code: the whole body after the two range checks is
one critical section of the `string_cache` mutex (with the `buffer_manager` section nested inside). -/
def readBytesAtUntil (c : Cfg) (st : St) (r : Range) (d : UInt8) : St × Out (List UInt8) :=
  if r.hi < r.lo then (st, .err .badRange)                                   -- :120
  else if st.fileLen < r.hi then (st, .err .oob)                             -- :126
  else
    let maxLen := min (r.hi - r.lo) maxLenInclDelim                          -- :133
    match cacheGet st.strCache (r.lo, d) with                                -- :136
    | some loc =>
      if loc.size < maxLen then (st, sliceFromLocation st loc)               -- :140-141
      else (st, .err .noDelim)                                               -- :143
    | none =>
      if maxLen = 0 then (st, .err .noDelim)                                 -- :149
      else if U64 ≤ r.lo + maxLen then (st, .panic)                          -- `range.start + max_len` :156
      else
        match getRangeLocation c st ⟨r.lo, r.lo + maxLen⟩ with              -- :156
        | (st', .err e) => (st', .err e)
        | (st', .panic) => (st', .panic)
        | (st', .ok loc) =>
          match sliceFromLocation st' loc with                               -- :157
          | .err e => (st', .err e)
          | .panic => (st', .panic)
          | .ok bytes =>
            match memchr d bytes with                                        -- :159
            | none => (st', .err .noDelim)
            | some len =>
              let st'' := { st' with strCache := ((r.lo, d), { loc with size := len }) :: st'.strCache }  -- :169-170
              (st'', .ok (bytes.take len))                                   -- :171 (`len ≤ bytes.len()`)

/-- `read_bytes_into` (cache.rs:174-181): passed straight to the source, no caching, no checks -/
def readBytesInto (c : Cfg) (st : St) (offset size : Nat) : St × Out (List UInt8) :=
  match c.src offset size with
  | some bs => (st, .ok bs)
  | none => (st, .err .source)

/-- The code before the two repairs (tree before 22b09fd5): a cache hit is returned without looking at
`range.end`, and an empty range is passed on to `get_range_location`. Kept only for the
`C13_legacy_counterexample_*` theorems. -/
def readBytesAtUntilLegacy (c : Cfg) (st : St) (r : Range) (d : UInt8) : St × Out (List UInt8) :=
  if r.hi < r.lo then (st, .err .badRange)
  else if st.fileLen < r.hi then (st, .err .oob)
  else
    match cacheGet st.strCache (r.lo, d) with
    | some loc => (st, sliceFromLocation st loc)
    | none =>
      let maxLen := min (r.hi - r.lo) maxLenInclDelim
      match getRangeLocation c st ⟨r.lo, r.lo + maxLen⟩ with
      | (st', .err e) => (st', .err e)
      | (st', .panic) => (st', .panic)
      | (st', .ok loc) =>
        match sliceFromLocation st' loc with
        | .err e => (st', .err e)
        | .panic => (st', .panic)
        | .ok bytes =>
          match memchr d bytes with
          | none => (st', .err .noDelim)
          | some len =>
            ({ st' with strCache := ((r.lo, d), { loc with size := len }) :: st'.strCache }, .ok (bytes.take len))

/-! ### Operations and histories -/

inductive Op
  | read (offset size : Nat)
  | until_ (r : Range) (d : UInt8)
  | into (offset size : Nat)
deriving Repr, DecidableEq

def step (c : Cfg) (st : St) : Op → St × Out (List UInt8)
  | .read o n => readBytesAt c st o n
  | .until_ r d => readBytesAtUntil c st r d
  | .into o n => readBytesInto c st o n

/-- the state after a history of public calls (each call = one or two critical sections, executed here
one after the other) -/
def run (c : Cfg) (fileLen : Nat) (ops : List Op) : St :=
  ops.foldl (fun st op => (step c st op).1) (St.init fileLen)

/-! ### Specification side: the file's bytes -/

/-- `F[o, o+n)` -/
def slice (F : List UInt8) (o n : Nat) : List UInt8 := (F.drop o).take n

/-- what a range read must return, from the file alone -/
def specRead (F : List UInt8) (o n : Nat) : Out (List UInt8) :=
  if n = 0 then .ok []
  else if U64 ≤ o + n then .err .overflow
  else if F.length < o + n then .err .oob
  else .ok (slice F o n)

/-- what a delimited read must return, from the file alone: search the first `d` in
`F[lo, lo + min (hi - lo) 4096)` -/
def specUntil (F : List UInt8) (r : Range) (d : UInt8) : Out (List UInt8) :=
  if r.hi < r.lo then .err .badRange
  else if F.length < r.hi then .err .oob
  else
    match memchr d (slice F r.lo (min (r.hi - r.lo) maxLenInclDelim)) with
    | some k => .ok (slice F r.lo k)
    | none => .err .noDelim

/-- the byte source returns the file's bytes whenever it succeeds on an in-bounds request -/
def Faithful (F : List UInt8) (src : Nat → Nat → Option (List UInt8)) : Prop :=
  ∀ o n bs, o + n ≤ F.length → src o n = some bs → bs = slice F o n

/-- the byte source succeeds on every in-bounds request -/
def SourceOk (F : List UInt8) (src : Nat → Nat → Option (List UInt8)) : Prop :=
  ∀ o n, o + n ≤ F.length → (src o n).isSome = true

/-- the plain in-memory source over `F` -/
def srcOf (F : List UInt8) (o n : Nat) : Option (List UInt8) :=
  if o + n ≤ F.length then some (slice F o n) else none

/-- spec of one operation, given the file and (for `into`, which is not cached) the source -/
def spec (F : List UInt8) (src : Nat → Nat → Option (List UInt8)) : Op → Out (List UInt8)
  | .read o n => specRead F o n
  | .until_ r d => specUntil F r d
  | .into o n => match src o n with | some bs => .ok bs | none => .err .source

end CC
