/-!
Model of `fxprof-processed-profile/src/lib_mappings.rs` (`LibMappings<T>`), of
`process.rs::Process::convert_address` and of `profile.rs::Profile::resolve_frame_address` (C11; reused by C02).

Implementation side (follows the code branch by branch):

* `Map`            the `BTreeMap<u64, Mapping<T>>` as a list kept strictly sorted by `s` (= key). Sortedness is a
                   separate invariant theorem (`C11_sorted`), not a subtype.
* `lookupImpl`     `lookup_impl` (lib_mappings.rs:110-118): last entry with `start ≤ a`, then the end check.
* `add`/`addSafe`  `add_mapping` (:55-87): removal range start, deletion of the keys in `[removalStart, end)`, insert.
                   `addSafe = false` ⇔ `BTreeMap::range(start..end)` is called with `start > end` on a map that owns a
                   root node (it panics); `Table` = entries + that allocation flag.
* `removeKey`/`removeOut`, `clear` (`step .clear`)    `remove_mapping` (:91-95), `clear` (:98-100).
* `convertAddress` `convert_address` (:122-127) with the `as u32` truncation and the checked `u32` addition.
* `processConvert`, `resolveFrame`   process.rs:84-101 (kernel table first), profile.rs:1163-1178 (`ReturnAddress`
                   is looked up at `ra.saturating_sub(1)`).
* `pstep`/`prun`   the mapping-related calls of the public `Profile` API, per process and for the kernel.

Specification side (looks at the bare operation history only):

* `killedBy`, `liveAfter`, `liveSpec`, `resolveSpec`, `relSpec`, `frameSpec`.

Addresses are `Nat` (the driver only accepts values below 2^64, relative addresses below 2^32).
Core Lean only: this file is linked into the model driver executables.
-/
namespace LM

/-- `Mapping<T>` (lib_mappings.rs:131-136); `v` stands for the stored value (a library handle). -/
structure M where
  s : Nat
  e : Nat
  rel : Nat
  v : Nat
deriving Repr, DecidableEq, Inhabited

/-- the ordered map, keyed by `M.s` -/
abbrev Map := List M

def covers (m : M) (a : Nat) : Bool := m.s ≤ a && a < m.e
def overlaps (m : M) (s e : Nat) : Bool := m.s < e && s < m.e

/-- `self.map.range(..=a).next_back()` (lib_mappings.rs:111-112): last entry with key ≤ a -/
def lastLE : Map → Nat → Option M
  | [], _ => none
  | m :: ms, a =>
    if m.s ≤ a then (match lastLE ms a with | some m' => some m' | none => some m) else none

/-- `lookup_impl` (lib_mappings.rs:110-118) -/
def lookupImpl (mp : Map) (a : Nat) : Option M :=
  match lastLE mp a with
  | some m => if a < m.e then some m else none
  | none => none

/-- `lookup` (lib_mappings.rs:104-106) -/
def lookup (mp : Map) (a : Nat) : Option Nat := (lookupImpl mp a).map (·.v)

/-- `BTreeMap::insert`: keeps the list sorted, replaces an equal key -/
def insert (x : M) : Map → Map
  | [] => [x]
  | m :: ms => if x.s < m.s then x :: m :: ms else if x.s = m.s then x :: ms else m :: insert x ms

/-- removal of every key in `lo..hi` (lib_mappings.rs:69-76) -/
def removeRange (lo hi : Nat) (mp : Map) : Map := mp.filter (fun m => !(lo ≤ m.s && m.s < hi))

/-- `removal_avma_range_start` (lib_mappings.rs:62-67) -/
def removalStart (mp : Map) (s : Nat) : Nat :=
  match lookupImpl mp s with
  | some m => m.s
  | none => s

/-- `add_mapping` (lib_mappings.rs:55-87) on the entries -/
def add (mp : Map) (x : M) : Map := insert x (removeRange (removalStart mp x.s) x.e mp)

/-- `remove_mapping` (lib_mappings.rs:91-95): the map afterwards -/
def removeKey (mp : Map) (s : Nat) : Map := mp.filter (fun m => m.s != s)

/-- `remove_mapping`: the returned entry -/
def removeOut (mp : Map) (s : Nat) : Option M := mp.find? (fun m => m.s == s)

/-- A `LibMappings` value: the entries plus whether the `BTreeMap` currently owns a root node
(`false` after `new()` / `clear()`, `true` once something was inserted — it stays `true` when the last entry is
removed). The flag is observable at exactly one excluded point, see `addSafe`. -/
structure Table where
  map : Map
  alloc : Bool
deriving Repr, DecidableEq

def Table.empty : Table := ⟨[], false⟩

/-- `BTreeMap::range(lo..hi)` (lib_mappings.rs:71) panics when `lo > hi` — but std only validates the bounds when
the map has a root node; nothing else in `add_mapping` can fail. With a non-empty range (`start < end`) this is
always `true` (`C11_no_panic`). -/
def addSafe (t : Table) (x : M) : Bool := !t.alloc || removalStart t.map x.s ≤ x.e

inductive Op
  | add (x : M)
  | remove (s : Nat)
  | clear
deriving Repr, DecidableEq

/-- one call; a panicking `add_mapping` leaves the table untouched (the panic happens before the first mutation) -/
def step (t : Table) : Op → Table
  | .add x => if addSafe t x then ⟨add t.map x, true⟩ else t
  | .remove s => ⟨removeKey t.map s, t.alloc⟩
  | .clear => Table.empty

def stepSafe (t : Table) : Op → Bool
  | .add x => addSafe t x
  | _ => true

def run (ops : List Op) : Table := ops.foldl step Table.empty

/-- 2^32 -/
def u32Lim : Nat := 4294967296

/-- result of `convert_address`: `none`, `Some((rel, value))`, or the arithmetic failed -/
inductive Conv
  | none
  | ok (rel v : Nat)
  | panic
deriving Repr, DecidableEq

/-- `convert_address` (lib_mappings.rs:122-127).
`avma - mapping.start_avma` is a checked `u64` subtraction (explicit `panic` branch, unreachable by `C11_rel_no_underflow`),
`as u32` truncates silently, `relative_address_at_start + offset` is a `u32` addition that panics on overflow in a
build with overflow checks (the test/debug profile; a release build wraps instead). -/
def convertAddress (mp : Map) (a : Nat) : Conv :=
  match lookupImpl mp a with
  | none => .none
  | some m =>
    if a < m.s then .panic else
    let off := (a - m.s) % u32Lim
    if m.rel + off < u32Lim then .ok (m.rel + off) m.v else .panic

/-! ### Profile level -/

/-- `FrameAddress::{InstructionPointer, ReturnAddress, AdjustedReturnAddress}` (frame.rs) -/
inductive FrameAddr
  | ip (a : Nat)
  | ra (a : Nat)
  | ara (a : Nat)
deriving Repr, DecidableEq

/-- the address that is looked up (profile.rs:1170-1178); `ReturnAddress(ra)` uses `ra.saturating_sub(1)` -/
def FrameAddr.lookupAddr : FrameAddr → Nat
  | .ip a => a
  | .ra a => if a = 0 then 0 else a - 1
  | .ara a => a

/-- `InternalFrameAddress` (+ the panic outcome) -/
inductive Resolved
  | unknown (a : Nat)
  | inLib (rel v : Nat)
  | panic
deriving Repr, DecidableEq

/-- `Process::convert_address` (process.rs:84-101): kernel table first, then the process table -/
def processConvert (kernel proc : Map) (a : Nat) : Resolved :=
  match convertAddress kernel a with
  | .panic => .panic
  | .ok rel v => .inLib rel v
  | .none =>
    match convertAddress proc a with
    | .panic => .panic
    | .ok rel v => .inLib rel v
    | .none => .unknown a

/-- `Profile::resolve_frame_address` for absolute addresses (profile.rs:1163-1178) -/
def resolveFrame (kernel proc : Map) (fa : FrameAddr) : Resolved :=
  processConvert kernel proc fa.lookupAddr

/-- mapping-related calls of the public `Profile` API (profile.rs:415-464) and frame creation (:575-601) -/
inductive POp
  | kadd (x : M)
  | kremove (s : Nat)
  | padd (p : Nat) (x : M)
  | premove (p : Nat) (s : Nat)
  | pclear (p : Nat)
  | frame (p : Nat) (fa : FrameAddr)
deriving Repr, DecidableEq

structure PState where
  kernel : Table
  procs : Nat → Table

def PState.init : PState := ⟨Table.empty, fun _ => Table.empty⟩

def PState.setProc (st : PState) (p : Nat) (t : Table) : PState :=
  ⟨st.kernel, fun q => if q = p then t else st.procs q⟩

def pstep (st : PState) : POp → PState
  | .kadd x => ⟨step st.kernel (.add x), st.procs⟩
  | .kremove s => ⟨step st.kernel (.remove s), st.procs⟩
  | .padd p x => st.setProc p (step (st.procs p) (.add x))
  | .premove p s => st.setProc p (step (st.procs p) (.remove s))
  | .pclear p => st.setProc p (step (st.procs p) .clear)
  | .frame _ _ => st

def prun (ops : List POp) : PState := ops.foldl pstep PState.init

/-- the history of the kernel table inside a profile history -/
def kernelOps : List POp → List Op
  | [] => []
  | .kadd x :: r => .add x :: kernelOps r
  | .kremove s :: r => .remove s :: kernelOps r
  | _ :: r => kernelOps r

/-- the history of process `p`'s table inside a profile history -/
def procOps (p : Nat) : List POp → List Op
  | [] => []
  | .padd q x :: r => if q = p then .add x :: procOps p r else procOps p r
  | .premove q s :: r => if q = p then .remove s :: procOps p r else procOps p r
  | .pclear q :: r => if q = p then .clear :: procOps p r else procOps p r
  | _ :: r => procOps p r

/-! ### Specification side: the bare history -/

/-- does the later operation `o` end the life of mapping `m`? -/
def killedBy (m : M) : Op → Bool
  | .add y => overlaps m y.s y.e
  | .remove s => m.s == s
  | .clear => true

/-- `m` was added and `later` are the operations after it: no later clear / remove of its start / overlapping add -/
def liveAfter (m : M) (later : List Op) : Bool := later.all (fun o => !killedBy m o)

/-- all live mappings of a history, oldest first -/
def liveSpec : List Op → List M
  | [] => []
  | .add x :: rest => if liveAfter x rest then x :: liveSpec rest else liveSpec rest
  | _ :: rest => liveSpec rest

/-- the most recently added mapping that covers `a` and is live -/
def resolveSpec : List Op → Nat → Option M
  | [], _ => none
  | .add x :: rest, a =>
    match resolveSpec rest a with
    | some m => some m
    | none => if covers x a && liveAfter x rest then some x else none
  | _ :: rest, a => resolveSpec rest a

/-- relative address the statement asks for -/
def relSpec (m : M) (a : Nat) : Nat := m.rel + (a - m.s)

/-- the address the statement says is looked up: a return address one byte earlier (there is no byte before 0) -/
def FrameAddr.specAddr : FrameAddr → Nat
  | .ip a => a
  | .ra a => a - 1
  | .ara a => a

/-- expected result of creating a frame in process `p` after the profile history `ops`: kernel history first,
then the history of `p`'s own table -/
def frameSpec (ops : List POp) (p : Nat) (fa : FrameAddr) : Resolved :=
  let a := fa.specAddr
  match resolveSpec (kernelOps ops) a with
  | some m => .inLib (relSpec m a) m.v
  | none =>
    match resolveSpec (procOps p ops) a with
    | some m => .inLib (relSpec m a) m.v
    | none => .unknown a

/-- hypothesis of the statement: non-empty range -/
def OpOk : Op → Prop
  | .add x => x.s < x.e
  | _ => True

instance : DecidablePred OpOk := fun o => by cases o <;> unfold OpOk <;> infer_instance

/-- hypothesis of the statement: the relative addresses of the mapping stay within 32 bits -/
def Fits32 : Op → Prop
  | .add x => x.rel + (x.e - x.s) ≤ u32Lim
  | _ => True

instance : DecidablePred Fits32 := fun o => by cases o <;> unfold Fits32 <;> infer_instance

/-- both hypotheses for a profile-level operation -/
def POpOk : POp → Prop
  | .kadd x => OpOk (.add x) ∧ Fits32 (.add x)
  | .padd _ x => OpOk (.add x) ∧ Fits32 (.add x)
  | _ => True

instance : DecidablePred POpOk := fun o => by cases o <;> unfold POpOk <;> infer_instance

/-- `m` is added at position `pre.length` of `ops` and survives everything after it -/
def LiveAt (ops pre post : List Op) (m : M) : Prop :=
  ops = pre ++ Op.add m :: post ∧ ∀ o ∈ post, killedBy m o = false

end LM
