import SamplyModel.Model.ConvFlush
/-!
Specification side for the perf.data-driven properties: a deliberately naive *eager* reading of a record
history (no handles, no parked buffers, no deferred flush, no sorted maps):

* `accepted rs`      – the main-event samples that must appear in the output (C01)
* `Life.run rs`      – process / thread incarnations with names and lifetimes as the property text of C17
                       describes them; the current incarnation of a (pid, tid) is found by searching for the
                       alive one
* `announced`, `resolveDecl` – mappings announced at or before a sample in that process (inherited across
                       fork, dropped by exec) and the newest-live-covering rule (C02)
* `pmDecl`, `resolveH`, `expandJs` – the functions a perf map file declares, regular mappings before perf-map
                       functions, and the JS label frame in front of every frame of a JS function (C02, C14)
* `elisionOk`        – the statement of C14 about one output stack

Everything here is used by the judges (`Iface/ConvJudge.lean`) and is what the theorems in `Props/C01.lean`,
`C17`, `C02`, `C14` relate the converter model to.
-/
namespace ConvSpec
open Conv

/-! ## C01: accepted samples -/

structure Acc where
  pid : Nat
  tid : Nat
  t : Nat
  kernelMode : Bool
  ip : Nat
  chain : List Nat
deriving Repr, DecidableEq

/-- last accepted timestamp per live (pid, tid) -/
abbrev Last := List ((Nat × Nat) × Nat)

def lastGet (l : Last) (pid tid : Nat) : Option Nat :=
  (l.find? (fun e => e.1.1 == pid && e.1.2 == tid)).map (·.2)

def lastSet (l : Last) (pid tid t : Nat) : Last :=
  ((pid, tid), t) :: l.filter (fun e => !(e.1.1 == pid && e.1.2 == tid))

def lastDropThread (l : Last) (pid tid : Nat) : Last :=
  l.filter (fun e => !(e.1.1 == pid && e.1.2 == tid))

def lastDropProc (l : Last) (pid : Nat) : Last := l.filter (fun e => !(e.1.1 == pid))

/-- a thread incarnation ends with its EXIT, with the EXIT / EXEC of its process's main thread, or with an
EXEC record naming it; a repeat is a sample with the timestamp of the previous accepted sample of the same
incarnation -/
def accStep (st : Last × List Acc) : Rec → Last × List Acc
  | .sample pid tid t km _ ip chain =>
    if tid = 0 then st
    else if lastGet st.1 pid tid = some t then st
    else (lastSet st.1 pid tid t, st.2 ++ [⟨pid, tid, t, km, ip, chain⟩])
  | .exit pid tid _ => if pid = tid then (lastDropProc st.1 pid, st.2) else (lastDropThread st.1 pid tid, st.2)
  | .comm pid tid _ true _ => if pid = tid then (lastDropProc st.1 pid, st.2) else (lastDropThread st.1 pid tid, st.2)
  | _ => st

def accepted (rs : List Rec) : List Acc := (rs.foldl accStep ([], [])).2

/-- Per thread incarnation (cut at EXIT / EXEC like `accStep`), the timestamps of the accepted samples never
decrease. True of every perf.data file that keeps perf's round contract (the reader delivers records in time
order). It is the hypothesis under which a conversion without context-switch records performs no failing `u64`
subtraction: `handle_main_event_sample` calls `ContextSwitchHandler::handle_on_cpu_sample` for *every* sample
(converter.rs:283-285), which computes `timestamp - last_observed_on_timestamp` (shared/context_switch.rs:147) —
a panic in debug builds for a back-dated sample (`C01_backdated_sample_panics`). -/
def samplesMonotone (rs : List Rec) : Bool :=
  (rs.foldl (fun (st : Last × Bool) r =>
    let ok := match r with
      | .sample pid tid t _ _ _ _ =>
        if tid = 0 then true else
        match lastGet st.1 pid tid with
        | some t0 => decide (t0 ≤ t)
        | none => true
      | _ => true
    ((accStep (st.1, []) r).1, st.2 && ok)) ([], true)).2

/-- does the history contain any context-switch related record? -/
def hasCsRec (rs : List Rec) : Bool :=
  rs.any (fun r => match r with | .switchIn .. | .switchOut .. | .sched .. => true | _ => false)

/-- the verdict of every converter judge on a conversion that panicked: outside the statements' quantifier
(and expected) exactly when a thread's sample times decrease -/
def panicVerdict (rs : List Rec) : Bool × String :=
  if !hasCsRec rs && !samplesMonotone rs then
    (true, "not-applicable: a thread's sample timestamps decrease (the file breaks perf's round contract); the debug build panics at shared/context_switch.rs:147")
  else (false, "conversion failed: [panic]")

/-! ## C12 / C01 at converter level: what the bare record history says about cpu deltas and off-CPU samples

Declarative reading, per thread incarnation (same cut points as `accStep`: EXIT, EXEC), in terms of *cumulative
totals* of the bare history (`CS.hstep`: a gap counts as running when its left event is a switch-in or an
accepted sample, as sleeping when its left event is a switch-out) — no accumulators, no remainders:

* an accepted sample carries `running so far − running already attributed` (ns; the profile stores µs);
* at a wake-up (accepted sample or switch-in that ends a sleep) the number of off-CPU sample units owed is
  `⌊sleeping so far / interval⌋ − units already accounted`; if that is ≥ 1 and a `sched_switch` sample of the
  thread has been seen since its last sample / switch-in, the units appear as a sample at
  `end − (units − 1)·interval` (weight 1 unit, carrying the running time not yet attributed) and, for more than
  one unit, a rest sample at `end = wake-up − sleeping mod interval` (weight `units − 1`, cpu 0); without such a
  stack the units are accounted but nothing appears (the recorded deviation "dropped group"). -/

namespace CsSpec

/-- expected output sample: pid, tid, raw time, off-CPU?, weight, cpu delta in ns -/
structure Exp where
  pid : Nat
  tid : Nat
  t : Nat
  off : Bool
  weight : Nat
  cpuNs : Nat
deriving Repr, DecidableEq

structure TS where
  h : CS.H := CS.H.init
  /-- running time already attributed to a sample -/
  handed : Nat := 0
  /-- off-CPU sample units already accounted (emitted or dropped) -/
  counted : Nat := 0
  hasStack : Bool := false
  lastSample : Option Nat := none
  /-- groups dropped because no stack was stored (units) -/
  dropped : Nat := 0
  /-- the closed sleeps (switch-out time, wake-up time), newest first -/
  sleeps : List (Nat × Nat) := []
deriving Repr

abbrev Tab := List ((Nat × Nat) × TS)

def tget (l : Tab) (pid tid : Nat) : TS :=
  ((l.find? (fun e => e.1.1 == pid && e.1.2 == tid)).map (·.2)).getD {}
def tset (l : Tab) (pid tid : Nat) (v : TS) : Tab :=
  ((pid, tid), v) :: l.filter (fun e => !(e.1.1 == pid && e.1.2 == tid))

/-- a wake-up candidate `e` (switch-in or accepted sample) at time `t` -/
def wakeExp (cfg : Config) (pid tid : Nat) (ts : TS) (e : CS.Ev) (t : Nat) : TS × List Exp :=
  let h' := CS.hstep ts.h e
  let sleeping := match ts.h.last with | some (_, false) => true | _ => false
  let ts := if sleeping then { ts with sleeps := ((ts.h.sleepStart.getD t), t) :: ts.sleeps } else ts
  let total := h'.sleeping / cfg.interval
  let units := total - ts.counted
  if sleeping && decide (units ≥ 1) then
    if ts.hasStack then
      let end_ := t - h'.sleeping % cfg.interval
      let first : Exp := ⟨pid, tid, end_ - (units - 1) * cfg.interval, true, cfg.offWeight, h'.running - ts.handed⟩
      let rest : List Exp := if units > 1 then [⟨pid, tid, end_, true, i32OrZero (units - 1) * cfg.offWeight, 0⟩] else []
      ({ ts with h := h', handed := h'.running, counted := total, hasStack := false }, first :: rest)
    else ({ ts with h := h', counted := total, hasStack := false, dropped := ts.dropped + units }, [])
  else ({ ts with h := h', hasStack := false }, [])

def step (cfg : Config) (st : Tab × List Exp) : Rec → Tab × List Exp
  | .sample pid tid t _ period _ _ =>
    if tid = 0 then st else
    let ts := tget st.1 pid tid
    if ts.lastSample = some t then st else
    let (ts, out) := wakeExp cfg pid tid { ts with lastSample := some t } (.sample t) t
    let cpu := if cfg.offCpu.isSome then ts.h.running - ts.handed else period
    let ts := if cfg.offCpu.isSome then { ts with handed := ts.h.running } else ts
    (tset st.1 pid tid ts, st.2 ++ out ++ [⟨pid, tid, t, false, 1, cpu⟩])
  | .switchIn pid tid t =>
    if tid = 0 then st else
    let (ts, out) := wakeExp cfg pid tid (tget st.1 pid tid) (.switchIn t) t
    (tset st.1 pid tid ts, st.2 ++ out)
  | .switchOut pid tid t =>
    if tid = 0 then st else
    let ts := tget st.1 pid tid
    -- a repeated switch-out is not an event of the history (it says nothing new)
    let ts := match ts.h.last with
      | some (_, false) => ts
      | _ => { ts with h := CS.hstep ts.h (.switchOut t) }
    (tset st.1 pid tid ts, st.2)
  | .sched pid tid t _ _ _ =>
    let ts := { tget st.1 pid tid with hasStack := true }
    let ts := if cfg.offCpu == some .schedSwitchAndSamples then
        (match ts.h.last with
         | some (_, false) => ts
         | _ => { ts with h := CS.hstep ts.h (.switchOut t) })
      else ts
    (tset st.1 pid tid ts, st.2)
  | .exit pid tid _ =>
    if pid = tid then (st.1.filter (fun e => !(e.1.1 == pid)), st.2)
    else (st.1.filter (fun e => !(e.1.1 == pid && e.1.2 == tid)), st.2)
  | .comm pid tid _ true _ =>
    if pid = tid then (st.1.filter (fun e => !(e.1.1 == pid)), st.2)
    else (st.1.filter (fun e => !(e.1.1 == pid && e.1.2 == tid)), st.2)
  | _ => st

def run (cfg : Config) (rs : List Rec) : Tab × List Exp := rs.foldl (step cfg) ([], [])

def expected (cfg : Config) (rs : List Rec) : List Exp := (run cfg rs).2

/-- the time of a record, for the "time-ordered" precondition -/
def recTime : Rec → Nat
  | .sample _ _ t _ _ _ _ | .fork _ _ _ _ t | .exit _ _ t | .comm _ _ _ _ t | .mmap2 _ _ _ _ _ _ _ t
  | .switchIn _ _ t | .switchOut _ _ t | .sched _ _ t _ _ _ | .otherEvent _ _ t _ _ _ => t

def timeOrdered : List Rec → Bool
  | a :: b :: rest => decide (recTime a ≤ recTime b) && timeOrdered (b :: rest)
  | _ => true

/-- does the history contain any context-switch related record? -/
def hasCs (rs : List Rec) : Bool :=
  rs.any (fun r => match r with | .switchIn .. | .switchOut .. | .sched .. => true | _ => false)

/-- does the history end any incarnation (EXIT / EXEC)? -/
def hasCut (rs : List Rec) : Bool :=
  rs.any (fun r => match r with | .exit .. => true | .comm _ _ _ true _ => true | _ => false)

end CsSpec

/-! ## C17: eager lifecycle -/

namespace Life

structure PInc where
  pid : Nat
  suffix : Nat
  name : Option String
  start : Nat
  end_ : Option Nat := none
  alive : Bool := true
deriving Repr, DecidableEq

structure TInc where
  /-- index of the process incarnation -/
  pinc : Nat
  tid : Nat
  suffix : Nat
  name : Option String
  start : Nat
  end_ : Option Nat := none
  alive : Bool := true
  isMain : Bool
deriving Repr, DecidableEq

structure S where
  ref : Nat
  cur : Nat
  ps : List PInc := []
  ts : List TInc := []
deriving Repr

def conv (s : S) (t : Nat) : Nat := t - s.ref

def findIdx {α} (l : List α) (p : α → Bool) : Option Nat :=
  let rec go : List α → Nat → Option Nat
    | [], _ => none
    | x :: xs, i => if p x then some i else go xs (i + 1)
  go l 0

def curProc (s : S) (pid : Nat) : Option Nat := findIdx s.ps (fun p => p.alive && p.pid == pid)

def curThread (s : S) (pi tid : Nat) : Option Nat :=
  findIdx s.ts (fun t => t.alive && t.pinc == pi && t.tid == tid)

def countP (s : S) (pid : Nat) : Nat := (s.ps.filter (fun p => p.pid == pid)).length
def countT (s : S) (tid : Nat) : Nat := (s.ts.filter (fun t => t.tid == tid)).length

/-- open a new process incarnation together with its main thread -/
def newProc (s : S) (pid : Nat) (name : Option String) (start : Nat) : S × Nat :=
  let pi := s.ps.length
  let p : PInc := { pid, suffix := countP s pid, name, start }
  let t : TInc := { pinc := pi, tid := pid, suffix := countT s pid, name, start, isMain := true }
  ({ s with ps := s.ps ++ [p], ts := s.ts ++ [t] }, pi)

def ensureProc (s : S) (pid : Nat) : S × Nat :=
  match curProc s pid with
  | some i => (s, i)
  | none => newProc s pid none 0

def newThread (s : S) (pi tid : Nat) (name : Option String) (start : Nat) : S :=
  { s with ts := s.ts ++ [{ pinc := pi, tid, suffix := countT s tid, name, start, isMain := false }] }

def ensureThread (s : S) (pid tid : Nat) : S :=
  let (s, pi) := ensureProc s pid
  match curThread s pi tid with
  | some _ => s
  | none => newThread s pi tid none 0

def modT (s : S) (i : Nat) (f : TInc → TInc) : S := { s with ts := modifyNth s.ts i f }
def modP (s : S) (i : Nat) (f : PInc → PInc) : S := { s with ps := modifyNth s.ps i f }

def endThread (s : S) (i time : Nat) : S := modT s i (fun t => { t with end_ := some time, alive := false })

def endProc (s : S) (pi time : Nat) : S :=
  let s := { s with ts := s.ts.map (fun t => if t.alive && t.pinc == pi then { t with end_ := some time, alive := false } else t) }
  modP s pi (fun p => { p with end_ := some time, alive := false })

def procName (s : S) (pi : Nat) : Option String := (s.ps[pi]?).bind (·.name)
def threadName (s : S) (i : Nat) : Option String := (s.ts[i]?).bind (·.name)

def step (s : S) : Rec → S
  | .sample pid tid t _ _ _ _ =>
    if tid = 0 then s else ensureThread { s with cur := t } pid tid
  | .fork pid tid ppid ptid t =>
    let start := conv s t
    let (s, ppi) := ensureProc s ppid
    if pid ≠ ppid then
      -- new process: named after its parent process
      match curProc s pid with
      | none => (newProc s pid (procName s ppi) start).1
      | some _ => s          -- outside the record grammar
    else
      -- new thread: named after the forking thread
      let s := ensureThread s ppid ptid
      match curThread s ppi tid with
      | some _ => s          -- outside the record grammar
      | none =>
        let pname := (curThread s ppi ptid).bind (threadName s)
        newThread s ppi tid pname start
  | .exit pid tid t =>
    let time := conv s t
    if pid = tid then
      match curProc s pid with
      | some pi => endProc s pi time
      | none => s
    else
      -- an EXIT record announces nothing: the EXIT of a thread whose process has no live incarnation (its main
      -- thread exited first, as the kernel emits for `exit_group` with a zombie leader; or the pid was never
      -- seen) creates no entry. (Before fix 8ede2c85 samply created a process entry here: `stepLegacy` below.)
      match curProc s pid with
      | none => s
      | some _ =>
        let (s, pi) := ensureProc s pid
        match curThread s pi tid with
        | some i => endThread s i time
        | none => s
  | .comm pid tid name isExec t =>
    let time := conv s (if t = 0 then s.cur else t)
    if isExec then
      if pid = tid then
        -- EXEC: the current process entry ends, a new one opens under the new name
        let s := match curProc s pid with | some pi => endProc s pi time | none => s
        (newProc s pid (some name) time).1
      else
        let (s, pi) := ensureProc s pid
        let s := match curThread s pi tid with | some i => endThread s i time | none => s
        newThread s pi tid (some name) time
    else if pid = tid then
      match curProc s pid with
      | none => (newProc s pid (some name) time).1
      | some pi =>
        let s := modP s pi (fun p => { p with name := some name })
        match curThread s pi pid with
        | some i => modT s i (fun t => { t with name := some name })
        | none => s
    else
      let (s, pi) := ensureProc s pid
      match curThread s pi tid with
      | none => newThread s pi tid (some name) time
      | some i => modT s i (fun t => { t with name := some name })
  | .mmap2 pid tid _ _ _ exec path _ =>
    -- a mapping record mentions a thread: it exists (same on-demand rule as samples)
    let s := if s.cur = s.ref || path.isEmpty then s else ensureThread s pid tid
    -- an executable mapping mentions a process: it exists (even before the first sample / without a path)
    -- (not for `//anon`, `[heap]`, `[stack]`, `[vvar]`: such a record names no library)
    if exec && !specialPath path then (ensureProc s pid).1 else s
  -- a context-switch record or a sched_switch sample mentions a thread: it exists (same on-demand rule as
  -- samples; switch records of the idle thread are ignored)
  | .switchIn pid tid _ => if tid = 0 then s else ensureThread s pid tid
  | .switchOut pid tid _ => if tid = 0 then s else ensureThread s pid tid
  | .sched pid tid _ _ _ _ => ensureThread s pid tid
  -- a sample of another event mentions a thread: it exists (same on-demand rule; tid 0 is not special, and the
  -- current sample time is that of the main event's samples only)
  | .otherEvent pid tid _ _ _ _ => ensureThread s pid tid

def run (ref : Nat) (rs : List Rec) : S := rs.foldl step { ref, cur := ref }

structure Row where
  pid : String
  tid : String
  isMain : Bool
  name : String
  processName : String
  start : Nat
  end_ : Option Nat
  pstart : Nat
  pend : Option Nat
deriving Repr, DecidableEq

def rows (s : S) : List Row :=
  s.ts.filterMap fun t =>
    match s.ps[t.pinc]? with
    | none => none
    | some p =>
      let pname := p.name.getD (pidLabel p.pid)
      let tidS := idStr t.tid t.suffix
      some { pid := idStr p.pid p.suffix, tid := tidS, isMain := t.isMain,
             name := if t.isMain then pname else t.name.getD ("Thread <" ++ tidS ++ ">"),
             processName := pname, start := t.start, end_ := t.end_, pstart := p.start, pend := p.end_ }

/-- The part of the kernel's record grammar under which C17 is stated and judged, checked record by record
along the eager run (the executable form of `LifeL.forkOk`, which is all the refinement proof needs): a FORK
never names a child that is currently bound — a new process's pid has no live incarnation, a new thread's tid
is not a live thread of that process, is not the process's main thread and is not the forking thread itself —
and EXEC happens on main threads only. Everything else the property text lists is *inside* the statement: ids
reused after their EXIT with or without a FORK, a main-thread EXIT that precedes the EXIT of a sibling, entries
first seen through a sample / COMM / MMAP2, records that mention an exited id (they create a fresh on-demand
incarnation). -/
def stepOk (s : S) : Rec → Bool
  | .fork pid tid ppid ptid _ =>
    if pid ≠ ppid then (curProc s pid).isNone
    else match curProc s ppid with
      | some pi => (curThread s pi tid).isNone && tid != pid && tid != ptid
      | none => tid != pid && tid != ptid
  | .comm pid tid _ isExec _ => !isExec || pid == tid
  | _ => true

structure G where
  s : S
  ok : Bool := true

def gStep (g : G) (r : Rec) : G := { s := step g.s r, ok := g.ok && stepOk g.s r }

def grammarOk (ref : Nat) (rs : List Rec) : Bool :=
  (rs.foldl gStep { s := { ref, cur := ref } }).ok

/-- the EXIT of a non-main thread of a pid that has no live process incarnation -/
def orphanExit (s : S) : Rec → Bool
  | .exit pid tid _ => pid != tid && (curProc s pid).isNone
  | _ => false

/-- The eager reading of what samply did before fix 8ede2c85 (finding C17-phantom-process-on-thread-exit): an
orphan thread EXIT first creates a process entry for the pid on demand (`<pid>`, start 0, never ended). Only
used by `C17_legacy_counterexample_phantom_process`. -/
def stepLegacy (s : S) (r : Rec) : S :=
  if orphanExit s r then
    match r with
    | .exit pid _ _ => step (ensureProc s pid).1 r
    | _ => step s r
  else step s r

def runLegacy (ref : Nat) (rs : List Rec) : S := rs.foldl stepLegacy { ref, cur := ref }

/-- child pids of FORK records that name an already-live pid (a missed EXIT, or a malformed stream) -/
def forkOntoLive (ref : Nat) (rs : List Rec) : List Nat :=
  (rs.foldl (fun (st : S × List Nat) r =>
    let hit := match r with
      | .fork pid _ ppid _ _ => if pid != ppid && (curProc st.1 pid).isSome then [pid] else []
      | _ => []
    (step st.1 r, st.2 ++ hit)) ({ ref, cur := ref }, [])).2

end Life

/-! ## C01 keyed by entry: accepted samples with their incarnation

The incarnation index of a sample = the pid / tid suffixes of the process and thread incarnations that are current
right after the sample's own record has been read (`Life.step`: a sample creates its thread on demand). The entry
of the profile that must carry the sample is `idStr pid psuffix` / `idStr tid tsuffix` (`pid`, `pid.1`, …). Computed
from the bare record list; meaningful for histories inside `Life.grammarOk` (where `Life` is the judged reading). -/

structure AccI where
  pid : Nat
  tid : Nat
  t : Nat
  psuffix : Nat
  tsuffix : Nat
deriving Repr, DecidableEq

/-- the (process index, thread index) of the incarnations current for (pid, tid) -/
def Life.curIdx (l : Life.S) (pid tid : Nat) : Option (Nat × Nat) :=
  match Life.curProc l pid with
  | some pi => (Life.curThread l pi tid).map (fun ti => (pi, ti))
  | none => none

def accIncStep (st : (Last × Life.S) × List AccI) (r : Rec) : (Last × Life.S) × List AccI :=
  let l' := Life.step st.1.2 r
  let a := accStep (st.1.1, []) r
  let new : List AccI := match r, a.2 with
    | .sample pid tid t _ _ _ _, [_] =>
      let idx := Life.curIdx l' pid tid
      [{ pid, tid, t,
         psuffix := ((idx.bind (fun i => l'.ps[i.1]?)).map (·.suffix)).getD 0,
         tsuffix := ((idx.bind (fun i => l'.ts[i.2]?)).map (·.suffix)).getD 0 }]
    | _, _ => []
  ((a.1, l'), st.2 ++ new)

def acceptedInc (ref : Nat) (rs : List Rec) : List AccI :=
  (rs.foldl accIncStep (([], { ref, cur := ref }), [])).2

/-! ## C02: announced mappings and the newest-live-covering rule -/

/-- what a process has been told about its address space, oldest first: (timestamp, mapping) -/
abbrev Announced := List (Nat × MapAdd)

/-- `b` displaces `a` (and vice versa): the ranges intersect, or they start at the same address (an empty
range intersects nothing, but a mapping table holds one mapping per start address) -/
def overlaps (a b : MapAdd) : Bool :=
  (decide (a.start < b.end_) && decide (b.start < a.end_)) || a.start == b.start
def covers (m : MapAdd) (a : Nat) : Bool := decide (m.start ≤ a) && decide (a < m.end_)

/-- the most recently announced mapping (among those announced at or before `t`) that covers `a` and has not
been displaced by a later overlapping mapping announced at or before `t` -/
def resolveDecl (ann : Announced) (t a : Nat) : Option MapAdd :=
  let cands := (ann.filter (fun e => decide (e.1 ≤ t))).map (·.2)
  let rec go : List MapAdd → Option MapAdd
    | [] => none
    | m :: later =>
      match go later with
      | some r => some r
      | none => if covers m a && !(later.any (overlaps m)) then some m else none
  go cands

/-! ### Perf map: what the file declares -/

/-- The functions declared by the well-formed lines of a perf map file, in file order. The relative address
of a function inside the fake library `/tmp/perf-<pid>.map` is the sum of the sizes (as `u32`) of all
functions declared before it. -/
def pmDecl (path : String) : Nat → List PmLine → List MapAdd
  | _, [] => []
  | before, l :: rest =>
    { start := l.addr, end_ := l.addr + l.len, rel := before, lib := path, js := classify l.name }
      :: pmDecl path (before + l.len % 2 ^ 32) rest

def pmCands (cfg : Config) (pid : Nat) : List MapAdd :=
  match alGet cfg.perfMaps pid with
  | none => []
  | some lines => pmDecl (perfMapPath pid) 0 (lines.filterMap parsePmLine)

/-- regular mappings (announced at or before `t`) win over perf-map functions; among the perf-map functions
the last declared one covering the address that no later line displaced -/
def resolveH (ann : Announced) (t : Nat) (pm : List MapAdd) (a : Nat) : Option MapAdd :=
  match resolveDecl ann t a with
  | some m => some m
  | none => resolveDecl.go a pm

def expectInfo (ann : Announced) (t : Nat) (pm : List MapAdd) (f : SFrame) : Info :=
  let la := f.lookupAddr
  if f.kernel then { frame := .raw la } else
  match resolveH ann t pm la with
  -- relative addresses are the 32-bit quantities of the profile format: the offset into the mapping is taken
  -- modulo 2^32 (a mapping longer than 4 GiB wraps); a sum that does not fit 32 bits has no rendering
  -- (`expectOverflows`: the debug build panics there)
  | some m => { frame := .lib m.lib (m.rel + (la - m.start) % 2 ^ 32), js := m.js }
  | none => { frame := .raw la }

/-- the relative address of the frame does not fit 32 bits -/
def expectOverflows (ann : Announced) (t : Nat) (pm : List MapAdd) (f : SFrame) : Bool :=
  let la := f.lookupAddr
  if f.kernel then false else
  match resolveH ann t pm la with
  | some m => decide (m.rel + (la - m.start) % 2 ^ 32 ≥ 2 ^ 32)
  | none => false

def expectFrame (ann : Announced) (t : Nat) (f : SFrame) : Frame := (expectInfo ann t [] f).frame

/-! ### JS label frames, declaratively

`before` = the frames root-ward of the current one, nearest first. A frame of a JS function (regular or
baseline-interpreter stub) is preceded by a label frame carrying the function's name; a bare
`BaselineInterpreter` frame takes the name of the nearest root-ward frame that carries any JS information,
provided that one is a regular JS function; self-hosted names get no label. -/

def jsNameBefore : List Info → Option JsName
  | [] => none
  | i :: more =>
    match i.js with
    | none => jsNameBefore more
    | some (.regular n) => some n
    | some _ => none

def labelOf (before : List Info) (i : Info) : Option String :=
  let nm : Option JsName := match i.js with
    | some (.regular n) => some n
    | some (.stub n) => some n
    | some .baselineInterp => jsNameBefore before
    | none => none
  match nm with
  | some (.nonSelfHosted s) => some s
  | _ => none

def expandJsFrom (before : List Info) : List Info → List Frame
  | [] => []
  | i :: rest =>
    (match labelOf before i with
      | some s => [Frame.label s, i.frame]
      | none => [i.frame]) ++ expandJsFrom (i :: before) rest

/-- the root-first frame list of recorded frames with every JS-classified frame expanded to label + native -/
def expandJs (infos : List Info) : List Frame := expandJsFrom [] infos

/-- What an executable MMAP2 record announces. A record naming `//anon`, `[heap]`, `[stack]` or `[vvar]` *is* a
mapping announced at that time (it covers its range from then on: frames there are no longer inside whatever
library was mapped before); a record naming a file on disk whose LOAD segments do not relate to the mapped file
range has no defined relative start and announces nothing the statement can speak about (`mapOps`: the same
table `SvmaBias.relStart` the converter model uses). -/
def annOf (cfg : Config) (addr len pgoff : Nat) (path : String) (t : Nat) : Announced :=
  if specialPath path then [(t, { start := addr, end_ := addr + len, rel := pgoff % 2 ^ 32, lib := path })]
  else mapOps cfg addr len pgoff path t

/-- per-pid announced mappings along the history (inherited at fork, emptied by exit / exec of the main thread).
`legacy = true` is samply's present behaviour for special paths (candidate finding
C02-special-path-not-evicting): such a record announces nothing. -/
def annStepX (legacy : Bool) (cfg : Config) (st : List (Nat × Announced)) : Rec → List (Nat × Announced)
  | .fork pid _ ppid _ _ =>
    if pid ≠ ppid then alPut st pid ((alGet st ppid).getD []) else st
  | .exit pid tid _ => if pid = tid then alDel st pid else st
  | .comm pid tid _ true _ => if pid = tid then alDel st pid else st
  | .mmap2 pid _ addr len pgoff true path t =>
    if legacy && specialPath path then st
    else alPut st pid (((alGet st pid).getD []) ++ annOf cfg addr len pgoff path t)
  | _ => st

def annStep (cfg : Config) := annStepX false cfg

/-- mappings of `pid` announced by later records up to the point where the process incarnation ends; with
`cut = some t` only those that carry a timestamp `≤ t` (in a time-ordered stream: equal timestamps) -/
def laterAnn (legacy : Bool) (cfg : Config) (pid : Nat) (cut : Option Nat) : List Rec → Announced
  | [] => []
  | .mmap2 p _ addr len pgoff true path t' :: rest =>
    if p == pid && (match cut with | some t => decide (t' ≤ t) | none => true) && !(legacy && specialPath path) then
      annOf cfg addr len pgoff path t' ++ laterAnn legacy cfg pid cut rest
    else laterAnn legacy cfg pid cut rest
  | .exit p td _ :: rest => if p = pid ∧ td = pid then [] else laterAnn legacy cfg pid cut rest
  | .comm p td _ true _ :: rest => if p = pid ∧ td = pid then [] else laterAnn legacy cfg pid cut rest
  | _ :: rest => laterAnn legacy cfg pid cut rest

/-- one accepted sample with the frames the statement expects, and — only for *labelling* a failure with the
reason tag of a candidate finding, never for accepting an output — the frames samply's present mechanism
yields where it deviates:
* `legacySp`: special-path records announce nothing (C02-special-path-not-evicting);
* `legacyQ`: additionally, mappings are applied by *queue prefix* against the *running maximum* of the sample
  timestamps of the process buffer — `next_op_if_at_or_before` stops at the first queued operation with a later
  timestamp, and operations already applied for an earlier-delivered, later-stamped sample stay applied
  (C02-backdated-record; equal to the statement's reading whenever records are delivered in time order). -/
structure ExpSample where
  pid : Nat
  tid : Nat
  t : Nat
  frames : List Frame
  legacySp : List Frame
  legacyQ : List Frame
  /-- some relative address of the expected stack does not fit 32 bits -/
  overflow : Bool
  /-- number of recorded frames (the length hint the depth limiter works with; used by `C02_history` /
  `C14_history`, not by the judges) -/
  nrec : Nat := 0

def takeWhileLe (ann : Announced) (t : Nat) : Announced := ann.takeWhile (fun e => decide (e.1 ≤ t))

def expectedSamples (cfg : Config) (rs : List Rec) : List ExpSample :=
  let rec go (st stL : List (Nat × Announced)) (mx : List (Nat × Nat)) (last : ConvSpec.Last) :
      List Rec → List ExpSample
    | [] => []
    | r :: rest =>
      let st' := annStepX false cfg st r
      let stL' := annStepX true cfg stL r
      let mx' := match r with
        | .exit pid tid _ => if pid = tid then alDel mx pid else mx
        | .comm pid tid _ true _ => if pid = tid then alDel mx pid else mx
        | _ => mx
      let a := accStep (last, []) r
      match r, a.2 with
      | .sample pid tid t km _ ip chain, [_] =>
        -- mappings announced at or before the sample's timestamp: records that come later in the stream with a
        -- timestamp ≤ t are not yet known to `st`; the cut-off is by timestamp, so look ahead
        let ann := (alGet st pid).getD [] ++ laterAnn false cfg pid (some t) rest
        let annSp := (alGet stL pid).getD [] ++ laterAnn true cfg pid (some t) rest
        let teff := max ((alGet mx pid).getD 0) t
        let annQ := takeWhileLe ((alGet stL pid).getD [] ++ laterAnn true cfg pid none rest) teff
        let stack := (sampleStack cfg km ip chain).reverse
        let pm := pmCands cfg pid
        { pid, tid, t, frames := expandJs (stack.map (expectInfo ann t pm)),
          legacySp := expandJs (stack.map (expectInfo annSp t pm)),
          legacyQ := expandJs (stack.map (expectInfo annQ teff pm)),
          overflow := stack.any (expectOverflows ann t pm), nrec := stack.length } ::
          go st' stL' (alPut mx' pid teff) a.1 rest
      | _, _ => go st' stL' mx' a.1 rest
  go [] [] [] [] rs

/-! ### Hypotheses of the history-level theorem `C02_history` (each is a known finding of samply or an input class
outside perf's contract; decidable, evaluated on the bare record list) -/

/-- no executable MMAP2 record names `//anon`, `[heap]`, `[stack]`, `[vvar]` (known finding
C02-special-path-not-evicting: samply queues nothing for them; the judge tags a failure that equals
`ExpSample.legacySp`, and without such a record `legacySp = frames`: `C02_noSpecial_legacySp`) -/
def noSpecial (rs : List Rec) : Bool :=
  rs.all (fun r => match r with
    | .mmap2 _ _ _ _ _ true path _ => !specialPath path
    | _ => true)

/-- the time of a record that enters a per-process queue or buffer: executable MMAP2 records (mapping queue),
SAMPLE records of a real thread (sample buffer) and samples of another event (their marker item sits in the
same buffer and advances the same queue at the flush) -/
def queuedTime : Rec → Option Nat
  | .mmap2 _ _ _ _ _ true _ t => some t
  | .sample _ tid t _ _ _ _ => if tid = 0 then none else some t
  | .otherEvent _ _ t _ _ _ => some t
  | _ => none

/-- from the running maximum `T` on, the queued records are delivered in time order -/
def orderedFrom : Nat → List Rec → Bool
  | _, [] => true
  | T, r :: rest =>
    match queuedTime r with
    | some t => decide (T ≤ t) && orderedFrom t rest
    | none => orderedFrom T rest

/-- MMAP2 and SAMPLE records are delivered in time order (perf's round contract; the excluded point is the known
finding C02-backdated-record: the `layout` families of the generator, judged through `ExpSample.legacyQ`). Records
of other kinds (COMM / FORK / EXIT, e.g. the synthesized time-0 head) may carry any timestamp. -/
def queuedOrdered (rs : List Rec) : Bool := orderedFrom 0 rs

/-- The marker stacks the statement expects: one per sample of another event (tid 0 included, repeats
included: a marker is not a sample, nothing is deduplicated), attributed like a sample of that process at that
time — mappings announced at or before the timestamp, regular before perf map, JS label frames. `frames` is the
stack that would reach the profile without the limiter; C14 judges `elisionOk frames (output stack)`. -/
def expectedMarkers (cfg : Config) (rs : List Rec) : List ExpSample :=
  let rec go (st : List (Nat × Announced)) : List Rec → List ExpSample
    | [] => []
    | r :: rest =>
      let st' := annStepX false cfg st r
      match r with
      | .otherEvent pid tid t km ip chain =>
        let ann := (alGet st pid).getD [] ++ laterAnn false cfg pid (some t) rest
        let stack := (sampleStack cfg km ip chain).reverse
        let pm := pmCands cfg pid
        let fr := expandJs (stack.map (expectInfo ann t pm))
        { pid, tid, t, frames := fr, legacySp := fr, legacyQ := fr,
          overflow := stack.any (expectOverflows ann t pm), nrec := stack.length } :: go st' rest
      | _ => go st' rest
  go [] rs

/-- the marker an other-event record stands for: (pid, tid, converted time) -/
def oevOf (ref : Nat) : Rec → List (Nat × Nat × Nat)
  | .otherEvent pid tid t _ _ _ => [(pid, tid, t - ref)]
  | _ => []

/-- the other-event samples of a history, in record order: (pid, tid, converted time) -/
def oevs (ref : Nat) (rs : List Rec) : List (Nat × Nat × Nat) := rs.flatMap (oevOf ref)

/-- does the history contain a sample of another event? -/
def hasOev (rs : List Rec) : Bool :=
  rs.any (fun r => match r with | .otherEvent .. => true | _ => false)

/-- expected root-first frames of every accepted sample, in record order: (pid, tid, t, frames) -/
def expectedStacks (cfg : Config) (rs : List Rec) : List (Nat × Nat × Nat × List Frame) :=
  (expectedSamples cfg rs).map (fun e => (e.pid, e.tid, e.t, e.frames))

/-- the per-CPU copies expected for every accepted sample (`--per-cpu-threads`): (CPU index, raw time, thread
label if the history respects the record grammar — the eager lifecycle gives the thread's name at that
moment —, frames without the label) -/
def expectedCpuStacks (cfg : Config) (rs : List Rec) : List (Nat × Nat × Option String × List Frame) :=
  if cfg.ncpu = 0 then [] else
  let stacks := expectedStacks cfg rs
  let gok := Life.grammarOk cfg.ref rs
  -- thread names at the time of each accepted sample, in record order
  let rec names (ls : Life.S) (last : ConvSpec.Last) : List Rec → List (Option String)
    | [] => []
    | r :: rest =>
      let ls' := Life.step ls r
      let a := accStep (last, []) r
      match r, a.2 with
      | .sample pid tid _ _ _ _ _, [_] =>
        let nm := ((Life.curProc ls' pid).bind (fun pi => Life.curThread ls' pi tid)).bind (Life.threadName ls')
        (some (threadLabel nm pid tid)) :: names ls' a.1 rest
      | _, _ => names ls' a.1 rest
  let labels := names { ref := cfg.ref, cur := cfg.ref } [] rs
  (stacks.zip labels).map (fun (st, lb) =>
    (st.2.2.1 % cfg.ncpu, st.2.2.1, (if gok then lb else none), st.2.2.2))

/-! ## C14: the statement about one output stack -/

def isElided : Frame → Bool
  | .elided _ => true
  | _ => false

def isTLabel : Frame → Bool
  | .tlabel _ => true
  | _ => false

/-- depth of the call stack that `orig` renders: with `--per-cpu-threads` the copies on the CPU tracks carry
the *thread's label* in front of the call chain; that label names the thread and is not a frame of the call
stack ("call stacks shallower than the depth limit reach the profile unchanged" is about the call chain —
the property's quantifier explicitly includes stacks "with an extra per-CPU label frame") -/
def callDepth (orig : List Frame) : Nat := (orig.filter (fun f => !isTLabel f)).length

theorem callDepth_le (orig : List Frame) : callDepth orig ≤ orig.length := List.length_filter_le _ _

/-- `out` is an admissible rendering of the original root-first stack `orig`: unchanged (and within 501
frames) when the call stack is shallower than 500 frames; otherwise 200 root frames, one placeholder stating
exactly the number of removed frames, 100..300 leaf frames, at most 501 frames in all -/
def elisionOk (orig out : List Frame) : Bool :=
  let n := orig.length
  if callDepth orig < 500 then out == orig && decide (out.length ≤ 501)
  else
    match out.findIdx? isElided with
    | none => false
    | some i =>
      match out[i]? with
      | some (.elided c) =>
        let tail := out.drop (i + 1)
        i == 200 && out.take 200 == orig.take 200 &&
        decide (100 ≤ tail.length) && decide (tail.length ≤ 300) && tail == orig.drop (n - tail.length) &&
        decide (200 + c + tail.length = n) && decide (out.length ≤ 501) && decide (0 < c)
      | _ => false

/-- `elisionOk` without its two upper bounds on the depth (output ≤ 501 frames, leaf part ≤ 300): the
placeholder sits at position 200, the root part and the leaf part are verbatim, at least 100 leaf frames are
kept, and kept + stated = original depth. Only used to *label* a failure of `elisionOk` (reason tag
`[js-label-depth]`), never to accept an output. -/
def elisionOkButDepth (orig out : List Frame) : Bool :=
  let n := orig.length
  if n < 500 then out == orig
  else
    match out.findIdx? isElided with
    | none => false
    | some i =>
      match out[i]? with
      | some (.elided c) =>
        let tail := out.drop (i + 1)
        i == 200 && out.take 200 == orig.take 200 &&
        decide (100 ≤ tail.length) && tail == orig.drop (n - tail.length) &&
        decide (200 + c + tail.length = n) && decide (0 < c)
      | _ => false

def isLabel : Frame → Bool
  | .label _ => true
  | _ => false

end ConvSpec
