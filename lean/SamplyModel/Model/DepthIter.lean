import SamplyModel.Model.ConvFlush
/-!
The stack-depth limiter as the three-state iterator it is in the code
(`samply/src/shared/stack_depth_limiting_frame_iter.rs:45-137`): `limInit` = `StackDepthLimitingFrameIter::new`,
`limNext` = one call of `next`, `collect` = the consumer pulling frames until the first `None`
(`Profile::handle_for_stack_frames`). `Lemmas/DepthIter.lean` proves that this machine computes the closed
form `Conv.depthLimit` used by the converter model.
-/
namespace Conv

inductive LimState
  /-- `BeforeElidedPiece { index, first_elided_frame, first_frame_after_elision }` + the elision count that
  the placeholder frame handle stands for -/
  | before (index firstElided firstAfter count : Nat)
  /-- `AtElidedPiece` -/
  | atElided (count firstAfter : Nat)
  /-- `NoMoreElision { index }` -/
  | noMore (index : Nat)
deriving Repr, DecidableEq

def limInit (N n : Nat) : LimState :=
  match shouldElide N n with
  | some (fe, c) => .before 0 fe (fe + c) c
  | none => .noMore 0

/-- one `next()`: the yielded frame (or `None`), the new state, the inner iterator's remaining frames -/
def limNext : LimState → List Frame → Option Frame × LimState × List Frame
  | .before idx fe fa c, [] => (none, .before idx fe fa c, [])
  | .before idx fe fa c, f :: rest =>
    if idx + 1 = fe then
      -- `while *index < *first_frame_after_elision { let _frame = self.inner.next(profile)?; *index += 1; }`
      if rest.length < fa - (idx + 1) then (none, .before (idx + 1 + rest.length) fe fa c, [])
      else (some f, .atElided c fa, rest.drop (fa - (idx + 1)))
    else (some f, .before (idx + 1) fe fa c, rest)
  | .atElided c fa, inner => (some (.elided c), .noMore fa, inner)
  | .noMore idx, [] => (none, .noMore idx, [])
  | .noMore idx, f :: rest => (some f, .noMore (idx + 1), rest)

/-- pull frames until the first `None` (fuel bounds the number of calls) -/
def collect : Nat → LimState → List Frame → List Frame
  | 0, _, _ => []
  | fuel + 1, st, inner =>
    match limNext st inner with
    | (none, _, _) => []
    | (some f, st', inner') => f :: collect fuel st' inner'

/-- the iterator run to completion on the frames `L` with length hint `n` -/
def limRun (N : Nat) (L : List Frame) (n : Nat) : List Frame := collect (L.length + 2) (limInit N n) L

/-! ## `ConvertedStackIterD` (stack_converter.rs:199-262) as the state machine it is

State: `pending_frame_handle` (initially the extra first frame) and `js_name_for_baseline_interpreter`;
`inner` = the remaining frames of the second pass. One call of `next` hands out the pending frame if there is
one, otherwise takes one frame from the inner iterator and, if a JS label frame is prepended, yields the
label and parks the native frame in `pending_frame_handle`. `Lemmas/DepthIter.lean: csRun_eq` proves that
pulling until the first `None` yields `extra ++ emitJs none infos`. -/

structure CsState where
  pending : Option Frame
  jsName : Option JsName
deriving Repr, DecidableEq

def csNext (st : CsState) (inner : List Info) : Option Frame × CsState × List Info :=
  match st.pending with
  | some f => (some f, { st with pending := none }, inner)
  | none =>
    match inner with
    | [] => (none, st, [])
    | i :: rest =>
      let r := jsStep st.jsName i.js
      match r.1 with
      | some (.nonSelfHosted s) => (some (.label s), { pending := some i.frame, jsName := r.2 }, rest)
      | _ => (some i.frame, { pending := none, jsName := r.2 }, rest)

def csCollect : Nat → CsState → List Info → List Frame
  | 0, _, _ => []
  | fuel + 1, st, inner =>
    match csNext st inner with
    | (none, _, _) => []
    | (some f, st', inner') => f :: csCollect fuel st' inner'

/-- the iterator run to completion: at most two frames per inner frame, plus the extra first frame -/
def csRun (extra : Option Frame) (infos : List Info) : List Frame :=
  csCollect (2 * infos.length + 2) { pending := extra, jsName := none } infos

end Conv
