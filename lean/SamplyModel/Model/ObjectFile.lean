import SamplyModel.Model.SymbolList
/-!
Model of how `samply-symbols` turns an object file of any of the three container formats into the inputs of
`SymbolList::new` and of `lookup_sync` (C05). The input is what the `object` crate presents (`Pres`: segments,
sections, symbols, exports, entry) plus the raw bytes of the format-specific function tables.

* `ObjFile.relBase`            = `relative_address_base` (shared.rs:646-667)
* `ObjFile.rangesOf`           = `SvmaFileRanges::from_object` (symbol_map_object.rs:312-327)
* `ObjFile.execSections`       = symbol_map_object.rs:98-114
* `ObjFile.pdataAddrs`         = `function_start_and_end_addresses` (windows.rs:581-591), PE `.pdata`
* `ObjFile.readUleb128`        = `read_uleb128` (macho.rs:657-682)
* `ObjFile.machoStarts`        = `MachOData::get_function_starts` (macho.rs:591-613), LC_FUNCTION_STARTS
* `ObjFile.machoFuncAddrs`     = `compute_function_addresses_macho` (macho.rs:537-562); the functions of
                                 `__unwind_info` (third-party crate `macho-unwind-info`) are an input
* `ObjFile.elfFuncAddrs`       = the two pushes of `compute_function_addresses_elf` (elf.rs:505-510) for the FDEs gimli
                                 delivers (initial address, length); reading `.eh_frame` itself is gimli's
* `ObjFile.descOf` / `mapOf`   = `ObjectSymbolMapInnerWrapper::new` (symbol_map_object.rs:669-690)

Every unchecked addition of the Rust code is an explicit `none` (= panic in an overflow-checked build).
Core Lean only.
-/
namespace ObjFile
open SymLookup SymList

/-- `object::SectionKind` as far as the code distinguishes it, and the ELF `SHF_EXECINSTR` flag -/
inductive SecKind where
  | text
  | uninit
  | other
deriving DecidableEq, Repr

structure Section where
  index : Nat
  kind : SecKind
  /-- `SectionFlags::Elf { sh_flags }` with `SHF_EXECINSTR` set -/
  elfExec : Bool
  addr : Nat
  size : Nat
  /-- `section.file_range()` -/
  fileRange : Option (Nat × Nat)
deriving DecidableEq, Repr

structure Segment where
  /-- `segment.name()` if it is `Ok(Some(_))` -/
  name : Option Name
  addr : Nat
  /-- `segment.file_range()` -/
  fileOff : Nat
  fileSize : Nat
deriving DecidableEq, Repr

/-- the format-specific source of function start / end addresses -/
inductive FuncTable where
  /-- ELF: `none` = no readable `.eh_frame` section; `some fdes` = (initial address, length) of every FDE gimli parses -/
  | elf (fdes : Option (List (Nat × Nat)))
  /-- Mach-O: raw LC_FUNCTION_STARTS data (if the command exists and its bytes can be read), start addresses of
  the functions of `__unwind_info` (if the section parses) -/
  | macho (starts : Option (List UInt8)) (unwind : Option (List Nat))
  /-- PE: the bytes of `.pdata` -/
  | pe (pdata : Option (List UInt8))
deriving Repr

/-- what `object` presents of one file -/
structure Pres where
  isElf : Bool
  /-- `object_file.relative_address_base()` -/
  objBase : Nat
  segments : List Segment
  sections : List Section
  symbols : List ObjSym
  dynSymbols : List ObjSym
  exports : Option (List (Nat × Name))
  entry : Nat
  funcs : FuncTable
deriving Repr

/-- `"__TEXT"` -/
def textSegName : Name := [95, 95, 84, 69, 88, 84]

/-- `relative_address_base` (shared.rs:646-667) -/
def relBase (p : Pres) : Nat :=
  match p.segments.find? (fun s => s.name == some textSegName) with
  | some s => s.addr
  | none =>
    if p.isElf then
      match p.segments with
      | s :: _ => s.addr
      | [] => p.objBase
    else p.objBase

/-- `SvmaFileRanges::from_object`: all segments; if there is none, all sections that have a file range -/
def rangesOf (p : Pres) : List Range :=
  if p.segments.isEmpty then
    p.sections.filterMap fun s => s.fileRange.map fun r => ⟨s.addr, r.1, r.2⟩
  else p.segments.map fun s => ⟨s.addr, s.fileOff, s.fileSize⟩

/-- symbol_map_object.rs:98-114 -/
def execSections (p : Pres) : List Nat :=
  p.sections.filterMap fun s =>
    match s.kind with
    | .text => some s.index
    | .uninit => if s.elfExec then some s.index else none
    | .other => none

/-- symbol_map_object.rs:196-206: `(address, size)` of the sections of kind `Text` -/
def textSections (p : Pres) : List (Nat × Nat) :=
  p.sections.filterMap fun s => if s.kind = .text then some (s.addr, s.size) else none

/-! ### PE: `.pdata` -/

def le32 (a b c d : UInt8) : Nat := a.toNat + 256 * b.toNat + 65536 * c.toNat + 16777216 * d.toNat

/-- `pdata.chunks_exact(12)`: start = bytes 0..4, end = bytes 4..8 (little endian); a trailing partial chunk is
ignored -/
def pdataAddrs : List UInt8 → List (Nat × Nat)
  | b0 :: b1 :: b2 :: b3 :: b4 :: b5 :: b6 :: b7 :: _ :: _ :: _ :: _ :: rest =>
    (le32 b0 b1 b2 b3, le32 b4 b5 b6 b7) :: pdataAddrs rest
  | _ => []

/-! ### Mach-O: LC_FUNCTION_STARTS -/

/-- `read_uleb128` (macho.rs:657-682): `none` = ran out of bytes, or a 10th byte other than 0 / 1.
`result |= low_bits << shift` silently drops bits above bit 63. -/
def readUlebFrom : List UInt8 → Nat → Nat → Option (Nat × List UInt8)
  | [], _, _ => none
  | b :: rest, shift, result =>
    if shift = 63 ∧ b ≠ 0 ∧ b ≠ 1 then none else
    let result := result ||| (((b.toNat % 128) <<< shift) % U64)
    if b.toNat < 128 then some (result, rest) else readUlebFrom rest (shift + 7) result

def readUleb128 (bytes : List UInt8) : Option (Nat × List UInt8) := readUlebFrom bytes 0 0

theorem readUlebFrom_length : ∀ (bytes : List UInt8) (shift result v : Nat) (rest : List UInt8),
    readUlebFrom bytes shift result = some (v, rest) → rest.length < bytes.length := by
  intro bytes
  induction bytes with
  | nil => intro _ _ _ _ h; simp [readUlebFrom] at h
  | cons b bs ih =>
    intro shift result v rest h
    unfold readUlebFrom at h
    split at h
    · simp at h
    · simp only at h
      split at h
      · injection h with h; injection h with _ h2; subst h2; simp
      · have := ih _ _ _ _ h; simp; omega

/-- the loop of `get_function_starts`: deltas until a zero delta or undecodable rest; `prev_address + delta` is an
unchecked `u64` addition (`none` = overflow panic); pushes `address as u32` -/
def machoStartsFrom (fuel : Nat) (bytes : List UInt8) (prev : Nat) : Option (List Nat) :=
  match fuel with
  | 0 => some []
  | fuel + 1 =>
    match readUleb128 bytes with
    | none => some []
    | some (delta, rest) =>
      if delta = 0 then some [] else
      if U64 ≤ prev + delta then none else
      (machoStartsFrom fuel rest (prev + delta)).map ((prev + delta) % U32 :: ·)

/-- fuel = number of bytes + 1: every decoded delta consumes at least one byte (`readUlebFrom_length`) -/
def machoStarts (bytes : List UInt8) : Option (List Nat) := machoStartsFrom (bytes.length + 1) bytes 0

/-- `compute_function_addresses_*`: `none` = a panic while computing; else (starts, ends) -/
def funcAddrs : FuncTable → Option (Option (List Nat) × Option (List Nat))
  | .elf none => some (none, none)
  | .elf (some fdes) =>
    -- elf.rs:508-509 `fde.initial_address() as u32`, `(fde.initial_address() + fde.len()) as u32`
    if fdes.all (fun f => decide (f.1 + f.2 < U64)) then
      some (some (fdes.map fun f => f.1 % U32), some (fdes.map fun f => (f.1 + f.2) % U32))
    else none
  | .macho starts unwind =>
    -- macho.rs:546-561
    match (match starts with
           | none => some none
           | some bytes => (machoStarts bytes).map some) with
    | none => none
    | some fs =>
      match unwind with
      | none => some (fs, none)
      | some us => some (some (fs.getD [] ++ us), none)
  | .pe none => some (none, none)
  | .pe (some bytes) =>
    let l := pdataAddrs bytes
    some (some (l.map (·.1)), some (l.map (·.2)))

/-- the arguments `SymbolList::new` is called with (symbol_map_object.rs:669-675) -/
def descOf (p : Pres) : Option Desc :=
  (funcAddrs p.funcs).map fun fa =>
    { base := relBase p
      execSections := execSections p
      symbols := p.symbols
      dynSymbols := p.dynSymbols
      exports := p.exports
      funcStarts := fa.1
      entry := p.entry
      textSections := textSections p
      funcEnds := fa.2 }

/-- `ObjectSymbolMapInnerWrapper::new`: `none` = loading panics (function table arithmetic, export below the base) -/
def mapOf (p : Pres) : Option ObjMap :=
  match descOf p with
  | none => none
  | some d => if buildSafe d then some ⟨build d, d.base, rangesOf p⟩ else none

end ObjFile
