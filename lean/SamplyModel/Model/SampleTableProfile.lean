import SamplyModel.Model.SampleTable
/-!
Profile level of C04: several threads (in several processes) and several counters behind the public API of
`fxprof-processed-profile`, the calls of `Thread` that sit next to the two merge fields, and serialization in the
middle of a history.

Code followed (pinned tree):

* `profile.rs:467-481`   `Profile::add_thread` (threads are kept in creation order in `Profile::threads`; the
                         process remembers its threads in creation order, `process.rs:27-37`)
* `profile.rs:899-932`   `Profile::{add_sample, add_sample_same_stack_zero_cpu}`: `self.threads[thread.0].…`
* `profile.rs:957-996`   `Profile::add_allocation_sample`: the sample goes to the **first thread of the process**
                         of the given thread (`thread_handle_for_allocations().unwrap()`), whatever thread was named
* `profile.rs:515-517`   `Profile::set_thread_samples_weight_type`
* `profile.rs:1086-1136` `Profile::{add_marker, set_marker_stack}` (touch `Thread::markers` only)
* `profile.rs:1147-1155` `Profile::add_counter_sample`: `self.counters[counter.0].add_sample(…)`
* `thread.rs:22-40, 137-177` the `Thread` fields and methods; `add_allocation_sample` (150-162) creates the
                         `native_allocations` table on first use and must leave `last_sample_stack` /
                         `last_sample_was_zero_cpu` alone
* `sample_table.rs:197-244` `NativeAllocationsTable::{add_sample, serialize}`: four parallel columns in call order,
                         absolute times, never sorted
* `impl Serialize for Profile / Thread / SampleTable / CounterSamples` take `&self`: serializing is an observation,
  the history goes on afterwards (`POp.ser`)

Every index that the Rust code uses to address a `Vec` (`self.threads[thread.0]`, `self.counters[counter.0]`) is an
explicit `none` (= panic) of the model when out of range; through the public API handles are only produced by
`add_thread` / `add_counter`, so this does not happen, and `WellAddr` states it.
Core Lean only (linked into the driver executable).
-/
namespace STabP
open STab

/-- `NativeAllocationsTable` (`sample_table.rs:197-226`) -/
structure AllocTable where
  time : List Nat
  stack : List (Option Nat)
  addr : List Nat
  size : List Int
deriving Repr, DecidableEq

/-- `NativeAllocationsTable::default()` -/
def AllocTable.empty : AllocTable := ⟨[], [], [], []⟩

/-- `NativeAllocationsTable::add_sample` (`sample_table.rs:214-225`) -/
def AllocTable.addSample (a : AllocTable) (t : Nat) (stack : Option Nat) (addr : Nat) (size : Int) :
    AllocTable :=
  ⟨a.time ++ [t], a.stack ++ [stack], a.addr ++ [addr], a.size ++ [size]⟩

/-- The part of `Thread` (`thread.rs:22-40`) that the calls of this file read or write. -/
structure PThread where
  /-- `process` -/
  proc : Nat
  /-- `samples`, `last_sample_stack`, `last_sample_was_zero_cpu` -/
  core : Thread
  /-- `samples.sample_weight_type`: 0 = samples, 1 = tracing-ms, 2 = bytes -/
  wtype : Nat
  /-- `native_allocations` -/
  allocs : Option AllocTable
  /-- number of rows of `markers` -/
  markers : Nat
deriving Repr, DecidableEq

/-- `Thread::new` (`thread.rs:43-62`) -/
def PThread.new (proc : Nat) : PThread := ⟨proc, Thread.new, 0, none, 0⟩

structure PState where
  threads : List PThread
  counters : List CounterSamples
deriving Repr, DecidableEq

/-- a profile with one thread per entry of `procs` (its process), created in this order, and `nc` counters -/
def PState.init (procs : List Nat) (nc : Nat) : PState :=
  ⟨procs.map PThread.new, List.replicate nc CounterSamples.new⟩

/-- One call of the public API. -/
inductive POp
  /-- `add_sample` / `add_sample_same_stack_zero_cpu` on thread `i` -/
  | sample (i : Nat) (op : Op)
  /-- `add_allocation_sample(thread i, t, stack, addr, size)` -/
  | alloc (i : Nat) (t : Nat) (stack : Option Nat) (addr : Nat) (size : Int)
  /-- `add_marker(thread i, …)` followed by `set_marker_stack` on the new marker -/
  | marker (i : Nat)
  /-- `set_thread_samples_weight_type(thread i, k)` -/
  | wtype (i : Nat) (k : Nat)
  /-- `add_counter_sample(counter j, …)` -/
  | counter (j : Nat) (op : COp)
  /-- `serde_json::to_value(&profile)` -/
  | ser
deriving Repr, DecidableEq

/-- `f(&mut self.threads[i])`; `none` = index out of range or `f` panicked -/
def PState.updThread (st : PState) (i : Nat) (f : PThread → Option PThread) : Option PState :=
  match st.threads[i]? with
  | none => none
  | some th =>
    match f th with
    | none => none
    | some th' => some { st with threads := st.threads.set i th' }

/-- `process.thread_handle_for_allocations()` (`process.rs:35-37`): the first thread created in process `p` -/
def firstOfProc (p : Nat) : List PThread → Option Nat
  | [] => none
  | th :: rest => if th.proc = p then some 0 else (firstOfProc p rest).map (· + 1)

/-- `Thread::add_allocation_sample` (`thread.rs:150-162`) -/
def PThread.addAlloc (th : PThread) (t : Nat) (stack : Option Nat) (addr : Nat) (size : Int) : PThread :=
  { th with allocs := some ((th.allocs.getD AllocTable.empty).addSample t stack addr size) }

def PState.step (st : PState) : POp → Option PState
  | .sample i op =>
    st.updThread i fun th => (th.core.step op).map fun c => { th with core := c }
  | .alloc i t stack addr size =>
    match st.threads[i]? with
    | none => none
    | some th =>
      match firstOfProc th.proc st.threads with
      | none => none
      | some k => st.updThread k fun a => some (a.addAlloc t stack addr size)
  | .marker i => st.updThread i fun th => some { th with markers := th.markers + 1 }
  | .wtype i k => st.updThread i fun th => some { th with wtype := k }
  | .counter j op =>
    match st.counters[j]? with
    | none => none
    | some c => some { st with counters := st.counters.set j (c.addSample op.t op.value op.n) }
  | .ser => some st

/-- run a call history; `none` = some call panicked -/
def runPFrom (st : PState) : List POp → Option PState
  | [] => some st
  | op :: ops =>
    match st.step op with
    | none => none
    | some st' => runPFrom st' ops

/-- index (0-based, counting every call including `ser`) of the call that panics, for the driver -/
def panicIndexP (st : PState) (k : Nat) : List POp → Option Nat
  | [] => none
  | op :: ops =>
    match st.step op with
    | none => some k
    | some st' => panicIndexP st' (k + 1) ops

/-! ### Serialization of the whole profile -/

/-- what the JSON shows of one thread -/
structure TSnap where
  samples : Out
  wtype : Nat
  allocs : Option AllocTable
  markers : Nat
deriving Repr, DecidableEq

structure PSnap where
  threads : List TSnap
  counters : List COut
deriving Repr, DecidableEq

/-- `Thread::serialize_with` (`thread.rs:225-277`): `samples`, `nativeAllocations` when present, `markers` -/
def PThread.serialize (th : PThread) : Option TSnap :=
  (th.core.samples.serialize).map fun o => ⟨o, th.wtype, th.allocs, th.markers⟩

/-- `mapM`, written out -/
def allSome {α : Type} : List (Option α) → Option (List α)
  | [] => some []
  | none :: _ => none
  | some x :: rest => (allSome rest).map (x :: ·)

/-- `impl Serialize for Profile`: every thread and every counter; `none` = a panic while serializing -/
def PState.serialize (st : PState) : Option PSnap :=
  match allSome (st.threads.map PThread.serialize), allSome (st.counters.map CounterSamples.serialize) with
  | some ts, some cs => some ⟨ts, cs⟩
  | _, _ => none

def POp.isSer : POp → Bool
  | .ser => true
  | _ => false

/-- The snapshots of a history: one per `ser` call, in order, and one at the end. `none` = a call or a
serialization panicked. -/
def snapsFrom (st : PState) : List POp → Option (List PSnap)
  | [] => (st.serialize).map ([·])
  | op :: ops =>
    if op.isSer then
      match st.serialize, snapsFrom st ops with
      | some s, some r => some (s :: r)
      | _, _ => none
    else
      match st.step op with
      | none => none
      | some st' => snapsFrom st' ops

/-! ## Specification side -/

/-- the `add` / `merge` calls made on thread `i`, in call order -/
def threadOps (i : Nat) : List POp → List Op
  | [] => []
  | .sample j op :: ops => if j = i then op :: threadOps i ops else threadOps i ops
  | _ :: ops => threadOps i ops

/-- the `add_counter_sample` calls made on counter `j`, in call order -/
def counterOps (j : Nat) : List POp → List COp
  | [] => []
  | .counter k op :: ops => if k = j then op :: counterOps j ops else counterOps j ops
  | _ :: ops => counterOps j ops

/-- the calls before the `k`-th `ser` call (all calls when there are fewer than `k + 1` of them) -/
def prefixAt : Nat → List POp → List POp
  | _, [] => []
  | k, op :: ops =>
    if op.isSer then
      match k with
      | 0 => []
      | k + 1 => op :: prefixAt k ops
    else op :: prefixAt k ops

def serCount (ops : List POp) : Nat := (ops.filter POp.isSer).length

/-- every handle of the history belongs to the profile: thread indices `< nt`, counter indices `< nc` -/
def POp.wellAddr (nt nc : Nat) : POp → Bool
  | .sample i _ => decide (i < nt)
  | .alloc i .. => decide (i < nt)
  | .marker i => decide (i < nt)
  | .wtype i _ => decide (i < nt)
  | .counter j _ => decide (j < nc)
  | .ser => true

def WellAddr (nt nc : Nat) (ops : List POp) : Prop := ∀ op ∈ ops, op.wellAddr nt nc = true

/-- the allocation samples that end up in thread `k` of a profile whose threads live in the processes `procs`:
those made for any thread of the process whose first thread is `k`, in call order -/
def allocRowsOf (procs : List Nat) (k : Nat) : List POp → List (Nat × Option Nat × Nat × Int)
  | [] => []
  | .alloc i t stack addr size :: ops =>
    match procs[i]? with
    | some p =>
      if procs.idxOf p = k then (t, stack, addr, size) :: allocRowsOf procs k ops else allocRowsOf procs k ops
    | none => allocRowsOf procs k ops
  | _ :: ops => allocRowsOf procs k ops

/-- index of the first call at which the merged weight of some thread leaves `i32` (the excluded point) -/
def firstOverflowPFrom (rows : List (List LRow)) (k : Nat) : List POp → Option Nat
  | [] => none
  | .sample i op :: ops =>
    if opFits (rows.getD i []) op then
      firstOverflowPFrom (rows.set i (logicalStep (rows.getD i []) op)) (k + 1) ops
    else some k
  | _ :: ops => firstOverflowPFrom rows (k + 1) ops

def firstOverflowP (nt : Nat) (ops : List POp) : Option Nat :=
  firstOverflowPFrom (List.replicate nt []) 0 ops

end STabP
