/-!
Model of the local web server of samply (C18): `samply/src/server.rs`.

* `encode` follows `nix_base32::to_nix_base32` (crate nix-base32 0.2.0, `src/lib.rs:11-35`), the
  encoder `generate_token` (server.rs:117-121) applies to 24 bytes from `rand::rng()`. The RNG is an
  oracle: the model's token is `encode rngBytes`. `none` = the Rust code panics (`len*8 - 1` underflow
  on the empty slice, or an index out of range).
* `service` follows `symbolication_service` (server.rs:242-363) branch by branch. The request is what
  hyper hands to the service function: method, `req.uri().path()` (raw: **no percent-decoding, no
  normalisation, case-sensitive**), presence of `Access-Control-Request-Method`, the first value of
  `Access-Control-Request-Headers`, and whether the body is valid UTF-8 (`expect("invalid utf-8")`,
  server.rs:352). The two `expect`s of the function are explicit `Outcome.panic` results (the tokio
  task of the connection dies; the client sees the connection closed without a response).
* `pathOfTarget` follows `http::Uri::from_shared` + `Uri::path` (crate http 1.3.1), the parser hyper
  applies to the request-target: it is *not* part of server.rs; it is used by the driver and the judge to
  get from the bytes on the wire to the path the service function sees.

Text is `List Char` (ASCII on the wire), so that prefix stripping kernel-reduces.
Core Lean only (linked into the driver executable).
-/
namespace Server

/-! ## Token: nix-base32 over the RNG bytes -/

/-- `BASE32_CHARS` (lib.rs:9): digits and lower-case letters without `e o u t`. -/
def alphabet : List Char :=
  ['0','1','2','3','4','5','6','7','8','9','a','b','c','d','f','g','h','i','j','k','l','m','n','p',
   'q','r','s','v','w','x','y','z']

/-- lib.rs:12 `let len = (bytes.len() * 8 - 1) / 5 + 1` (only evaluated when `bytes.len()*8 ≥ 1`). -/
def ndigits (len : Nat) : Nat := (len * 8 - 1) / 5 + 1

/-- lib.rs:17-30: the value `v = v1 | v2` of output position `n` (before `% 32`).
`none` = `bytes[i]` / `bytes[i + 1]` out of range (panic). -/
def digitVal (bs : List UInt8) (n : Nat) : Option Nat :=
  let b := n * 5
  let i := b / 8
  let j := b % 8
  match bs[i]? with
  | none => none
  | some lo =>
    -- `bytes[i].checked_shr(j)`: j < 8, never `None`
    let v1 := lo.toNat >>> j
    -- `if i >= bytes.len() - 1 { 0 } else { bytes[i+1].checked_shl(8 - j).unwrap_or(0) }`
    -- (`bytes.len() - 1` cannot underflow here: `bytes[i]` exists)
    if i ≥ bs.length - 1 then some (v1 ||| 0)
    else
      match bs[i + 1]? with
      | none => none
      | some hi =>
        -- u8 `checked_shl(s)`: `None` iff s ≥ 8; otherwise the high bits are shifted out
        let v2 := if 8 - j ≥ 8 then 0 else (hi.toNat <<< (8 - j)) % 256
        some (v1 ||| v2)

/-- all-or-nothing collection of optional values (a panic anywhere aborts the whole call) -/
def sequence {α : Type} : List (Option α) → Option (List α)
  | [] => some []
  | none :: _ => none
  | some a :: rest => (sequence rest).map (a :: ·)

/-- lib.rs:30 `char::from(BASE32_CHARS[v % BASE32_CHARS.len()])` -/
def digitChar (bs : List UInt8) (n : Nat) : Option Char :=
  (digitVal bs n).bind fun v => alphabet[v % alphabet.length]?

/-- `to_nix_base32` (lib.rs:11-35): positions `len-1 … 0`, most significant first. -/
def encode (bs : List UInt8) : Option (List Char) :=
  if bs.length * 8 < 1 then none  -- `bytes.len() * 8 - 1` underflows: panic (debug) / index panic (release)
  else sequence ((List.range (ndigits bs.length)).reverse.map (digitChar bs))

/-- server.rs:68-69: `path_prefix = format!("/{token}")`, token = `to_nix_base32(&[u8; 24] from the RNG)`. -/
def pathPrefix (rngBytes : List UInt8) : Option (List Char) :=
  (encode rngBytes).map ('/' :: ·)

/-! ### specification side of the encoder (used by the judge and the theorems) -/

/-- the little-endian number a byte string denotes -/
def leValue : List UInt8 → Nat
  | [] => 0
  | b :: rest => b.toNat + 256 * leValue rest

/-- position of a character in the alphabet -/
def alphaIndex (c : Char) : Option Nat :=
  let i := alphabet.idxOf c
  if i < alphabet.length then some i else none

/-- value of a most-significant-first base-32 numeral (`none`: a character outside the alphabet) -/
def numeralStep (acc : Option Nat) (c : Char) : Option Nat :=
  match acc, alphaIndex c with
  | some a, some d => some (a * 32 + d)
  | _, _ => none

def numeralValue (cs : List Char) : Option Nat := cs.foldl numeralStep (some 0)

/-! ## The service function -/

inductive Method
  | get | post | options | head | put | delete | patch
  | other  -- any other (extension) method token; method names are case-sensitive, `get` is `other`
deriving Repr, DecidableEq

/-! ### The header map (`http::HeaderMap` as hyper fills it)

Every header field of the request in wire order, name and value as sent. `HeaderMap` compares names
ASCII-case-insensitively (hyper lower-cases them while parsing); `get` returns the FIRST value of a
name, `contains_key` says whether there is one. The service function performs exactly two look-ups
(server.rs:289-291 `contains_key(ACCESS_CONTROL_REQUEST_METHOD)`, :303
`get(ACCESS_CONTROL_REQUEST_HEADERS)`); every other header — `Origin`, `Host`, `Referer`, `Cookie`,
`Authorization`, … — is in the map and is never read. -/

abbrev Headers := List (List Char × List Char)

def lowerAscii (c : Char) : Char :=
  if 65 ≤ c.toNat ∧ c.toNat ≤ 90 then Char.ofNat (c.toNat + 32) else c

/-- header names are equal up to ASCII case -/
def hdrNameEq (a b : List Char) : Bool := a.map lowerAscii == b.map lowerAscii

/-- `HeaderMap::get(name)`: the first value stored under the name -/
def hdrGet : Headers → List Char → Option (List Char)
  | [], _ => none
  | (n, v) :: rest, name => if hdrNameEq n name then some v else hdrGet rest name

/-- `HeaderMap::contains_key(name)` -/
def hdrContains (hs : Headers) (name : List Char) : Bool := (hdrGet hs name).isSome

/-- `header::ACCESS_CONTROL_REQUEST_METHOD` -/
def acrmName : List Char :=
  ['a','c','c','e','s','s','-','c','o','n','t','r','o','l','-','r','e','q','u','e','s','t','-',
   'm','e','t','h','o','d']

/-- `header::ACCESS_CONTROL_REQUEST_HEADERS` -/
def acrhName : List Char :=
  ['a','c','c','e','s','s','-','c','o','n','t','r','o','l','-','r','e','q','u','e','s','t','-',
   'h','e','a','d','e','r','s']

structure Req where
  method : Method
  /-- `req.uri().path()` exactly as hyper delivers it -/
  path : List Char
  /-- `req.headers()`: all header fields of the request, in wire order -/
  headers : Headers
  /-- the body is valid UTF-8 -/
  bodyUtf8 : Bool
deriving Repr, DecidableEq

/-- server.rs:289-291 `req.headers().contains_key(header::ACCESS_CONTROL_REQUEST_METHOD)` -/
def Req.hasACRM (req : Req) : Bool := hdrContains req.headers acrmName

/-- server.rs:303 `req.headers().get(header::ACCESS_CONTROL_REQUEST_HEADERS)` (first value) -/
def Req.acrh (req : Req) : Option (List Char) := hdrGet req.headers acrhName

structure ProfileFile where
  /-- file name ends in `.gz` -/
  gz : Bool
  /-- `tokio::fs::File::open` succeeds at request time -/
  opens : Bool
deriving Repr, DecidableEq

structure Cfg where
  /-- `path_prefix` = `"/" ++ token` -/
  pfx : List Char
  /-- `profile_filename` -/
  profile : Option ProfileFile
deriving Repr, DecidableEq

inductive Kind
  | landing (withProfile : Bool)   -- HTML template (server.rs:159-187)
  | notFound
  | options (preflight : Bool)
  | profile (gzip : Bool)          -- the profile file's bytes
  | api (path : List Char)         -- `symbol_manager.query_json_api(path, body)`
deriving Repr, DecidableEq

inductive ContentType | html | jsonUtf8 | json
deriving Repr, DecidableEq

structure Resp where
  status : Nat
  /-- `Access-Control-Allow-Origin: *` -/
  allowOrigin : Bool
  /-- `Access-Control-Allow-Methods: POST, GET, OPTIONS` -/
  allowMethods : Bool
  /-- `Access-Control-Max-Age: 86400` -/
  maxAge : Bool
  /-- `Access-Control-Allow-Headers: <echo of the request's Access-Control-Request-Headers>` -/
  allowHeaders : Option (List Char)
  /-- `Allow: POST, GET, OPTIONS` (not a CORS header) -/
  allow : Bool
  contentType : Option ContentType
  /-- `Content-Encoding: gzip` -/
  gzip : Bool
  kind : Kind
deriving Repr, DecidableEq

/-- `Response::new(Either::Left(String::new()))` (server.rs:252): 200, no headers, empty body;
the `kind` is filled in by every branch. -/
def Resp.base (k : Kind) : Resp :=
  { status := 200, allowOrigin := false, allowMethods := false, maxAge := false, allowHeaders := none,
    allow := false, contentType := none, gzip := false, kind := k }

/-- does the response carry any `Access-Control-*` header? -/
def Resp.anyCors (r : Resp) : Bool :=
  r.allowOrigin || r.allowMethods || r.maxAge || r.allowHeaders.isSome

/-- does the response carry profile or symbol data? -/
def Kind.isData : Kind → Bool
  | .profile _ => true
  | .api _ => true
  | _ => false

inductive Outcome
  | resp (r : Resp)
  | panic   -- an `expect` fails: the connection task dies, no response is written
deriving Repr, DecidableEq

/-- `str::strip_prefix(&str)`: exact, case-sensitive comparison of the leading characters. -/
def stripPrefix : List Char → List Char → Option (List Char)
  | [], s => some s
  | _ :: _, [] => none
  | p :: ps, c :: cs => if p = c then stripPrefix ps cs else none

def profileJson : List Char := ['/','p','r','o','f','i','l','e','.','j','s','o','n']

/-- `symbolication_service` (server.rs:242-363). -/
def service (cfg : Cfg) (req : Req) : Outcome :=
  -- :254 `let Some(path_without_prefix) = path.strip_prefix(&path_prefix) else { … return }`
  match stripPrefix cfg.pfx req.path with
  | none =>
    -- :256-273 "The secret prefix was not part of the URL. Do not send CORS headers."
    if req.method = .get ∧ req.path = ['/'] then
      -- :257-268
      .resp { Resp.base (.landing cfg.profile.isSome) with contentType := some .html }
    else
      -- :269-271
      .resp { Resp.base .notFound with status := 404 }
  | some rest =>
    -- :280-283 Access-Control-Allow-Origin: *
    let r0 := { Resp.base .notFound with allowOrigin := true }
    -- :285 `match (method, path_without_prefix, profile_filename)`
    match req.method with
    | .options =>
      -- :286-317
      if req.hasACRM then
        .resp { r0 with status := 204, allowMethods := true, maxAge := true, allowHeaders := req.acrh,
                        kind := .options true }
      else
        .resp { r0 with status := 204, allow := true, kind := .options false }
    | .get =>
      -- :318-341 `(&Method::GET, "/profile.json", Some(profile_filename))`
      if rest = profileJson then
        match cfg.profile with
        | some pf =>
          if pf.opens then
            .resp { r0 with gzip := pf.gz, contentType := some .jsonUtf8, kind := .profile pf.gz }
          else .panic  -- :332-334 `.expect("couldn't open profile file")`
        | none => .resp { r0 with status := 404 }  -- falls through to :357
      else .resp { r0 with status := 404 }  -- :357-359
    | .post =>
      -- :342-356
      if req.bodyUtf8 then
        .resp { r0 with contentType := some .json, kind := .api rest }
      else .panic  -- :352 `.expect("invalid utf-8")`
    | _ => .resp { r0 with status := 404 }  -- :357-359

/-! ## Request-target → path: `http::Uri::from_shared` + `Uri::path` (crate http 1.3.1)

hyper hands the request-target of the request line to `http::Uri::from_maybe_shared`
(hyper 1.6.0 `proto/h1/role.rs:209-212`) and the service function reads `req.uri().path()`.
`pathOfTarget` follows that parser branch by branch (`uri/mod.rs:292-341` `from_shared`, `:838-895`
`parse_full`, `uri/scheme.rs` `Scheme2::parse`, `uri/authority.rs` `Authority::parse`, `uri/path.rs`
`PathAndQuery::from_shared` and `path`); `none` = the parser fails and hyper answers 400 without calling
the service function. The target is a `List Char` (a valid UTF-8 string; the parser works on bytes:
every test it makes on a byte ≥ 0x80 is the same for all bytes of a non-ASCII character, and content
after the first `#` is never looked at). Tied to the real crate by an in-process differential run
(`uri` ops) over arbitrary byte strings and by every request sent over the wire. -/

/-- `/`, `?`, `#`: the characters that end the authority -/
def isSep (c : Char) : Bool := c = '/' || c = '?' || c = '#'

def isPathEnd (c : Char) : Bool := c = '?' || c = '#'

/-- byte length of the string -/
def utf8Len (t : List Char) : Nat := (t.map Char.utf8Size).sum

def isAlnum (c : Char) : Bool :=
  (48 ≤ c.toNat && c.toNat ≤ 57) || (65 ≤ c.toNat && c.toNat ≤ 90) || (97 ≤ c.toNat && c.toNat ≤ 122)

/-- `SCHEME_CHARS[b] != 0` and `!= b':'` (scheme.rs:205-233): alphanumerics and `+ - . ~` -/
def schemeChar (c : Char) : Bool := isAlnum c || c = '+' || c = '-' || c = '.' || c = '~'

/-- `URI_CHARS[b] != 0` (uri/mod.rs:153-181), apart from the characters `Authority::parse` treats
specially (`/ ? # : [ ] @`) -/
def uriChar (c : Char) : Bool :=
  isAlnum c || c = '!' || c = '$' || c = '&' || c = '\'' || c = '(' || c = ')' || c = '*' || c = '+' ||
  c = ',' || c = '-' || c = '.' || c = ';' || c = '=' || c = '_' || c = '~'

inductive SchemeRes
  | none                               -- `Scheme2::None`
  | err                                -- `SchemeTooLong`
  | found (scheme rest : List Char)    -- the target is `scheme ++ "://" ++ rest`
deriving Repr, DecidableEq

def ciEq (c lo up : Char) : Bool := c = lo || c = up

/-- scheme.rs:236-243 `s.len() >= 7 && s[..7].eq_ignore_ascii_case(b"http://")` -/
def httpPrefix : List Char → Option (List Char × List Char)
  | a :: b :: c :: d :: ':' :: '/' :: '/' :: rest =>
    if ciEq a 'h' 'H' && ciEq b 't' 'T' && ciEq c 't' 'T' && ciEq d 'p' 'P' then some ([a, b, c, d], rest)
    else none
  | _ => none

/-- scheme.rs:245-250 `s.len() >= 8 && s[..8].eq_ignore_ascii_case(b"https://")` -/
def httpsPrefix : List Char → Option (List Char × List Char)
  | a :: b :: c :: d :: e :: ':' :: '/' :: '/' :: rest =>
    if ciEq a 'h' 'H' && ciEq b 't' 'T' && ciEq c 't' 'T' && ciEq d 'p' 'P' && ciEq e 's' 'S' then
      some ([a, b, c, d, e], rest)
    else none
  | _ => none

/-- scheme.rs:252-282: scan for `:` over scheme characters; `i` = index of the current byte -/
def schemeScan : List Char → Nat → SchemeRes
  | [], _ => .none
  | c :: r, i =>
    if c = ':' then
      match r with
      | '/' :: '/' :: rest => if i > 64 then .err else .found [] rest   -- `MAX_SCHEME_LEN`
      | _ => .none   -- "not enough data remaining" / "not a scheme"
    else if schemeChar c then
      match schemeScan r (i + 1) with
      | .found sch rest => .found (c :: sch) rest
      | x => x
    else .none   -- "invalid scheme character, abort"

/-- `Scheme2::parse` (scheme.rs:236-285) -/
def schemeOf (t : List Char) : SchemeRes :=
  match httpPrefix t with
  | some (sch, rest) => .found sch rest
  | none =>
    match httpsPrefix t with
    | some (sch, rest) => .found sch rest
    | none => if utf8Len t > 3 then schemeScan t 0 else .none

structure AuthSt where
  colons : Nat
  startBracket : Bool
  endBracket : Bool
  hasPercent : Bool
  atSign : Option Nat
deriving Repr, DecidableEq

/-- the loop of `Authority::parse` (authority.rs:75-134); `none` = `InvalidAuthority` / `InvalidUriChar` -/
def authScan : List Char → Nat → AuthSt → Option (Nat × AuthSt)
  | [], i, st => some (i, st)
  | c :: r, i, st =>
    if isSep c then some (i, st)
    else if c = ':' then
      if st.colons ≥ 8 then none else authScan r (i + 1) { st with colons := st.colons + 1 }
    else if c = '[' then
      if st.hasPercent || st.startBracket then none else authScan r (i + 1) { st with startBracket := true }
    else if c = ']' then
      if !st.startBracket || st.endBracket then none
      else authScan r (i + 1) { st with endBracket := true, colons := 0, hasPercent := false }
    else if c = '@' then authScan r (i + 1) { st with atSign := some i, colons := 0, hasPercent := false }
    else if c = '%' then authScan r (i + 1) { st with hasPercent := true }
    else if uriChar c then authScan r (i + 1) st
    else none

/-- `Authority::parse` (authority.rs:66-156): the index where the authority ends -/
def authorityEnd (s : List Char) : Option Nat :=
  match authScan s 0 ⟨0, false, false, false, none⟩ with
  | none => none
  | some (e, st) =>
    if st.startBracket != st.endBracket then none        -- :136
    else if st.colons > 1 then none                      -- :140 'localhost:8080:3030'
    else if e > 0 && st.atSign == some (e - 1) then none  -- :145 nothing after an `@`
    else if st.hasPercent then none                      -- :150
    else some e

/-- path.rs:48-65: bytes that may stand in a path (incl. the tolerated `" { }` and bytes ≥ 0x7F) -/
def pathCharOk (c : Char) : Bool :=
  let n := c.toNat
  n = 0x21 || (0x24 ≤ n && n ≤ 0x3B) || n = 0x3D || (0x40 ≤ n && n ≤ 0x5F) || (0x61 ≤ n && n ≤ 0x7A) ||
  n = 0x7C || n = 0x7E || 0x7F ≤ n || c = '"' || c = '{' || c = '}'

/-- path.rs:88-106: bytes that may stand in a query -/
def queryCharOk (c : Char) : Bool :=
  let n := c.toNat
  n = 0x21 || (0x24 ≤ n && n ≤ 0x3B) || n = 0x3D || (0x3F ≤ n && n ≤ 0x7E) || 0x7F ≤ n

/-- the query loop (path.rs:85-110): up to the first `#` -/
def queryOk : List Char → Bool
  | [] => true
  | c :: r => if c = '#' then true else queryCharOk c && queryOk r

/-- `PathAndQuery::from_shared` + `PathAndQuery::path` without the "empty reads as /" rule
(path.rs:22-129, 206-212): the path part, `none` = `InvalidUriChar` -/
def pathScan : List Char → Option (List Char)
  | [] => some []
  | c :: r =>
    if c = '?' then (if queryOk r then some [] else none)
    else if c = '#' then some []
    else if pathCharOk c then (pathScan r).map (c :: ·)
    else none

/-- `parse_full` (uri/mod.rs:838-895) followed by `Uri::path` (:438-444) -/
def parseFull (t : List Char) : Option (List Char) :=
  match schemeOf t with
  | .err => none
  | .none =>
    -- authority-form: the whole target must be an authority; `Uri::path()` is "" (no scheme, no path)
    match authorityEnd t with
    | none => none
    | some e => if e ≠ t.length then none else some []
  | .found _ rest =>
    match authorityEnd rest with
    | none => none
    | some e =>
      if e = 0 then none   -- "authority is required when absolute"
      else
        match pathScan (rest.drop e) with
        | none => none
        | some p => some (if p.isEmpty then ['/'] else p)   -- path.rs:213 empty reads as "/"

/-- `Uri::from_shared` (uri/mod.rs:292-341) + `Uri::path`.
`none`: hyper answers `400 Bad Request` itself, the service function is not called. -/
def pathOfTarget (t : List Char) : Option (List Char) :=
  if utf8Len t > 65534 then none   -- `MAX_LEN` (hyper answers 414 for these, role.rs:172)
  else
    match t with
    | [] => none
    | ['/'] => some ['/']
    | ['*'] => some ['*']
    | '/' :: _ => pathScan t       -- origin-form
    | _ => parseFull t             -- (a single other byte: `Authority::from_shared`, the same outcome)

/-- `httparse`'s test on the bytes of the request-target (httparse 1.10.1 lib.rs:69-71 `URI_MAP`:
`b'!'..=0x7e | 0x80..=0xFF`); anything else and hyper answers 400 before `Uri` is consulted. -/
def httparseTargetOk (t : List Char) : Bool := t.all fun c => 0x21 ≤ c.toNat && c.toNat ≠ 0x7F

/-! ## The wire level: what one request line + header block gives, and whole connections

`serveWire` composes the three steps between the bytes of a request and the response:
the method token (`http::Method::from_bytes`: case-sensitive, anything unknown is an extension method),
the request-target (`pathOfTarget`; `none` = hyper answers 400 itself and closes the connection), and
the service function. `serveCase` runs a whole history: any number of connections (numbered), the
requests interleaved in any order, possibly against different server configurations. The service
function is called once per request with nothing but that request (`run_server`, server.rs:218-238:
the closure passed to `service_fn` captures only clones of the immutable start-up values), so the only
state a history has is which connections are still open: a connection ends when the service function
panics (the connection task dies), when hyper rejects the request line, or when the keep-alive rules of
HTTP end it (`Connection: close`; HTTP/1.0 without `Connection: keep-alive`). -/

/-- `http::Method::from_bytes` restricted to the distinctions the service function makes -/
def methodOfToken : List Char → Method
  | ['G','E','T'] => .get
  | ['P','O','S','T'] => .post
  | ['O','P','T','I','O','N','S'] => .options
  | ['H','E','A','D'] => .head
  | ['P','U','T'] => .put
  | ['D','E','L','E','T','E'] => .delete
  | ['P','A','T','C','H'] => .patch
  | _ => .other

structure WireReq where
  /-- the method token of the request line -/
  methodTok : List Char
  /-- the request-target of the request line -/
  target : List Char
  /-- `HTTP/1.1` (true) or `HTTP/1.0` (false) -/
  http11 : Bool
  headers : Headers
  bodyUtf8 : Bool
deriving Repr, DecidableEq

inductive WireOut
  | resp (r : Resp)
  | panic      -- the service function panicked: connection dropped without a response
  | rejected   -- hyper answers `400 Bad Request` itself (no headers of ours) and closes
  | closed     -- the connection was already over when the request was sent
deriving Repr, DecidableEq

def serveWire (cfg : Cfg) (w : WireReq) : WireOut :=
  if !httparseTargetOk w.target then .rejected else
  match pathOfTarget w.target with
  | none => .rejected
  | some p =>
    match service cfg { method := methodOfToken w.methodTok, path := p, headers := w.headers,
                        bodyUtf8 := w.bodyUtf8 } with
    | .resp r => .resp r
    | .panic => .panic

/-- does an outcome expose anything: a cross-origin permission header, profile / API data, or a
dropped connection (the observable trace of a panic)? -/
def WireOut.exposes : WireOut → Bool
  | .resp r => r.anyCors || r.kind.isData
  | .panic => true
  | .rejected => false
  | .closed => false

def connectionName : List Char := ['c','o','n','n','e','c','t','i','o','n']
def closeTok : List Char := ['c','l','o','s','e']
def keepAliveTok : List Char := ['k','e','e','p','-','a','l','i','v','e']

/-- hyper's keep-alive decision for a request (the value of `Connection` compared as one token,
ASCII-case-insensitively — the harness sends no comma lists). Part of the hyper layer, like
`pathOfTarget`: checked by the correspondence run only. -/
def keepAlive (w : WireReq) : Bool :=
  match hdrGet w.headers connectionName with
  | some v => if w.http11 then !(hdrNameEq v closeTok) else hdrNameEq v keepAliveTok
  | none => w.http11

/-- does the connection survive this exchange? (An HTTP/1.0 client cannot be sent a body of unknown
length — the streamed profile file, server.rs:337-340 — other than by closing the connection.) -/
def survives (w : WireReq) : WireOut → Bool
  | .resp r => keepAlive w && (w.http11 || !(match r.kind with | .profile _ => true | _ => false))
  | _ => false

/-- One step of a history: request `(connection number, configuration of the server it talks to,
request)`; `dead` = the connections that are over. -/
def serveStep (dead : List Nat) (x : Nat × Cfg × WireReq) : WireOut × List Nat :=
  if dead.contains x.1 then (.closed, dead)
  else
    let o := serveWire x.2.1 x.2.2
    (o, if survives x.2.2 o then dead else x.1 :: dead)

/-- A history: the requests in the order they are sent. -/
def serveCase : List Nat → List (Nat × Cfg × WireReq) → List WireOut
  | _, [] => []
  | dead, x :: rest => (serveStep dead x).1 :: serveCase (serveStep dead x).2 rest

/-- The request-target literally carries the prefix at the start of its path: either the target
begins with it (origin-form), or it is `<scheme>://<authority>` + prefix… (absolute-form) with a scheme
free of `: / ? #` and a non-empty authority free of `/ ? #` — so the prefix begins at the first `/`
after the first `://`. -/
def LiteralUnder (pfx t : List Char) : Prop :=
  pfx <+: t ∨ ∃ sch auth : List Char,
    (∀ c ∈ sch, c ≠ ':' ∧ c ≠ '/' ∧ c ≠ '?' ∧ c ≠ '#') ∧ (∀ c ∈ auth, c ≠ '/' ∧ c ≠ '?' ∧ c ≠ '#') ∧
    auth ≠ [] ∧ (sch ++ ':' :: '/' :: '/' :: auth ++ pfx) <+: t

end Server
