/-!
Model of the per-thread and global interning tables of `fxprof-processed-profile` (C03).

Follows, function by function:
`string_table.rs` (StringTable, GlobalStringTable), `thread_string_table.rs`, `global_lib_table.rs`,
`resource_table.rs`, `func_table.rs`, `frame_table.rs`, `native_symbols.rs`, `stack_table.rs`,
`marker_table.rs`, `lib_mappings.rs` (only as far as the resolution of an absolute address needs it;
C11 owns the mapping model), `library_info.rs::SymbolTable::lookup`.

Conventions: a `Vec` is a `List`; a `FastHashMap<K, V>` is an association list (`alookup`), newest
binding first; a `FastIndexSet<K>` is a duplicate-free `List K` searched with `List.idxOf`.
Every `unwrap` / index expression of the Rust code is an `Option` result here: `none` means the Rust
code would panic at that point (`Lemmas/ProfileTables*.lean` prove these branches unreachable from states
satisfying the invariant). Arithmetic is on `Nat`; the `u32`/`u16` casts of row counts are assumed not
to wrap (fewer than 2^32 rows per table), the one cast that is visible at small sizes
(`CategoryHandle(index as u16)`) is modelled.
Core Lean only (linked into the driver executable).
-/
namespace PT

abbrev Str := String

/-- `FastHashMap::get` on an association list (newest binding first) -/
def alookup {K V : Type} [DecidableEq K] : List (K × V) → K → Option V
  | [], _ => none
  | (k', v) :: m, k => if k' = k then some v else alookup m k

/-! ### string_table.rs -/

/-- `StringTable { strings, index }` (string_table.rs:10-14) -/
structure StringTable where
  strings : List Str := []
  index : List (Str × Nat) := []
deriving Repr

/-- `StringTable::index_for_string` (string_table.rs:17-28) -/
def StringTable.indexFor (t : StringTable) (s : Str) : StringTable × Nat :=
  match alookup t.index s with
  | some i => (t, i)
  | none => (⟨t.strings ++ [s], (s, t.strings.length) :: t.index⟩, t.strings.length)

/-- `ThreadStringTable { table, global_to_local_string }` (thread_string_table.rs:16-20) -/
structure ThreadStrings where
  table : StringTable := {}
  g2l : List (Nat × Nat) := []
deriving Repr

/-- `ThreadStringTable::index_for_string` (thread_string_table.rs:27-29) -/
def ThreadStrings.indexFor (t : ThreadStrings) (s : Str) : ThreadStrings × Nat :=
  let r := t.table.indexFor s
  ({ t with table := r.1 }, r.2)

/-- `ThreadStringTable::index_for_global_string` (thread_string_table.rs:31-44); `s` is the global
string `g` (the caller resolved `global_table.get_string(g)`, which the closure unwraps). -/
def ThreadStrings.forGlobal (t : ThreadStrings) (g : Nat) (s : Str) : ThreadStrings × Nat :=
  match alookup t.g2l g with
  | some l => (t, l)
  | none =>
    let r := t.table.indexFor s
    (⟨r.1, (g, r.2) :: t.g2l⟩, r.2)

/-! ### library_info.rs, global_lib_table.rs -/

structure Sym where
  addr : Nat
  size : Option Nat
  name : Str
deriving Repr, DecidableEq

/-- `SymbolTable::lookup` (library_info.rs:73-89) on a table that is sorted by address without
duplicates (the op lines only carry such tables, so `SymbolTable::new`'s sort + dedup are no-ops):
the last symbol with `address ≤ a`, subject to its size. `saturating_add` on u32. -/
def symLookup (syms : List Sym) (a : Nat) : Option Sym :=
  match (syms.filter (fun s => s.addr ≤ a)).getLast? with
  | none => none
  | some s =>
    match s.size with
    | some sz => if a < min (s.addr + sz) 4294967295 then some s else none
    | none => some s

/-- `GlobalLibTable` (global_lib_table.rs:9-26). A `LibraryInfo` is represented by its *identity
string* `dir/…/name`: the harness derives `path = debug_path = "/lib/" ++ identity` and
`name = debug_name = libDisplayName identity` (the part after the last `/`), so two different libraries can
carry the same display name (seeded change C03-1 keyed the per-thread resource table by that name). `used_libs_seen_rvas` is a parallel array to
`used` whose contents are not modelled. -/
structure GlobalLibs where
  all : List Str := []
  symtabs : List (Nat × List Sym) := []
  used : List Nat := []
  usedMap : List (Nat × Nat) := []
deriving Repr

/-- `handle_for_lib` (global_lib_table.rs:39-41): `IndexSet::insert_full` -/
def GlobalLibs.handleFor (g : GlobalLibs) (name : Str) : GlobalLibs × Nat :=
  let i := g.all.idxOf name
  if i < g.all.length then (g, i) else ({ g with all := g.all ++ [name] }, g.all.length)

/-- `set_lib_symbol_table` (global_lib_table.rs:43-45) -/
def GlobalLibs.setSymtab (g : GlobalLibs) (h : Nat) (syms : List Sym) : GlobalLibs :=
  { g with symtabs := (h, syms) :: g.symtabs }

/-- `index_for_used_lib` (global_lib_table.rs:47-55) -/
def GlobalLibs.indexForUsed (g : GlobalLibs) (h : Nat) : GlobalLibs × Nat :=
  match alookup g.usedMap h with
  | some i => (g, i)
  | none => ({ g with used := g.used ++ [h], usedMap := (h, g.used.length) :: g.usedMap }, g.used.length)

/-- `get_lib` (global_lib_table.rs:57-60), projected to the name -/
def GlobalLibs.getLibName (g : GlobalLibs) (i : Nat) : Option Str :=
  match g.used[i]? with
  | none => none
  | some h => g.all[h]?

/-- `get_lib_symbol_table` (global_lib_table.rs:62-65) -/
def GlobalLibs.getSymtab (g : GlobalLibs) (i : Nat) : Option (List Sym) :=
  match g.used[i]? with
  | none => none
  | some h => alookup g.symtabs h

/-! ### lib_mappings.rs (address resolution only) -/

structure Mapping where
  start : Nat
  end_ : Nat
  rel : Nat
  lib : Nat
deriving Repr, DecidableEq

/-- `lookup_impl` (lib_mappings.rs:113-121): the mapping with the greatest start `≤ avma`, if it covers
`avma`. The `BTreeMap` is a key-unique list here; `range(..=avma).next_back()` is the maximum. -/
def mappingLookup (maps : List Mapping) (avma : Nat) : Option Mapping :=
  let best := maps.foldl (fun (b : Option Mapping) m =>
    if m.start ≤ avma then
      match b with
      | none => some m
      | some b' => if b'.start < m.start then some m else some b'
    else b) none
  match best with
  | some m => if avma < m.end_ then some m else none
  | none => none

/-- `removal_avma_range_start` (lib_mappings.rs:66-71) -/
def removalStart (maps : List Mapping) (start : Nat) : Nat :=
  match mappingLookup maps start with
  | some o => o.start
  | none => start

/-- `add_mapping` (lib_mappings.rs:59-92). `none` = `BTreeMap::range` panics because the removal range
starts after its end. -/
def mappingAdd (maps : List Mapping) (m : Mapping) : Option (List Mapping) :=
  let rs := removalStart maps m.start
  if m.end_ < rs then none else
  let kept := maps.filter (fun o => !(decide (rs ≤ o.start) && decide (o.start < m.end_)))
  some (m :: kept.filter (fun o => o.start ≠ m.start))

/-- `convert_address` (lib_mappings.rs:125-130): `some none` = no mapping, `none` = the `u32` addition
overflows (panic with overflow checks). -/
def mappingConvert (maps : List Mapping) (avma : Nat) : Option (Option (Nat × Nat)) :=
  match mappingLookup maps avma with
  | none => some none
  | some m =>
    let off := (avma - m.start) % 4294967296
    if m.rel + off < 4294967296 then some (some (m.rel + off, m.lib)) else none

/-! ### resource_table.rs -/

def afterLastSlash : List Char → List Char → List Char
  | acc, [] => acc.reverse
  | acc, c :: cs => if c = '/' then afterLastSlash [] cs else afterLastSlash (c :: acc) cs

/-- `LibraryInfo::name` of the library with identity string `id` (see `GlobalLibs`): the last path
component, without the `#<variant>` suffix. The suffix distinguishes libraries that agree in `name` and
`path` and differ only in `debug_id` / `code_id` / `arch` / `debug_name` (improvement round; the harness
derives those fields from it, `add_lib` de-duplicates on the whole `LibraryInfo`, profile.rs:381-400). -/
def libDisplayName (id : Str) : Str :=
  String.ofList ((afterLastSlash [] id.toList).takeWhile (· ≠ '#'))

structure ResourceTable where
  libs : List Nat := []
  names : List Nat := []
  map : List (Nat × Nat) := []
deriving Repr

/-- `resource_for_lib` (resource_table.rs:16-32). `none` = `get_lib(lib_index).unwrap()` panics. -/
def ResourceTable.forLib (rt : ResourceTable) (lib : Nat) (g : GlobalLibs) (st : ThreadStrings) :
    Option (ResourceTable × ThreadStrings × Nat) :=
  match alookup rt.map lib with
  | some r => some (rt, st, r)
  | none =>
    match g.getLibName lib with
    | none => none
    | some name =>
      -- resource_table.rs:24: `thread_string_table.index_for_string(&lib.name)`
      let s := st.indexFor (libDisplayName name)
      some (⟨rt.libs ++ [lib], rt.names ++ [s.2], (lib, rt.libs.length) :: rt.map⟩, s.1, rt.libs.length)

/-! ### func_table.rs -/

structure FuncKey where
  name : Nat
  file : Option Nat
  lib : Option Nat
  flags : Nat
deriving Repr, DecidableEq

structure FuncTable where
  keys : List FuncKey := []
  names : List Nat := []
  files : List (Option Nat) := []
  resources : List (Option Nat) := []
  flags : List Nat := []
deriving Repr

/-- `index_for_func` (func_table.rs:31-65) -/
def FuncTable.indexFor (ft : FuncTable) (k : FuncKey) (rt : ResourceTable) (g : GlobalLibs)
    (st : ThreadStrings) : Option (FuncTable × ResourceTable × ThreadStrings × Nat) :=
  let i := ft.keys.idxOf k
  if i < ft.keys.length then some (ft, rt, st, i) else
  match k.lib with
  | none =>
    some (⟨ft.keys ++ [k], ft.names ++ [k.name], ft.files ++ [k.file], ft.resources ++ [none],
      ft.flags ++ [k.flags]⟩, rt, st, ft.keys.length)
  | some lib =>
    match rt.forLib lib g st with
    | none => none
    | some (rt', st', r) =>
      some (⟨ft.keys ++ [k], ft.names ++ [k.name], ft.files ++ [k.file], ft.resources ++ [some r],
        ft.flags ++ [k.flags]⟩, rt', st', ft.keys.length)

/-! ### frame_table.rs -/

/-- `NativeFrameData` (frame_table.rs:152-158) -/
structure NativeData where
  lib : Nat
  nsym : Option Nat
  addr : Nat
  depth : Nat
deriving Repr, DecidableEq

/-- `InternalFrame` (frame_table.rs:141-150); `native = none` is `InternalFrameVariant::Label` -/
structure Frame where
  name : Nat
  native : Option NativeData
  cat : Nat
  sub : Nat
  file : Option Nat
  line : Option Nat
  col : Option Nat
  flags : Nat
deriving Repr, DecidableEq

/-- `InternalFrame::func_key` (frame_table.rs:167-186) -/
def Frame.funcKey (f : Frame) : FuncKey :=
  ⟨f.name, f.file, f.native.map (·.lib), f.flags⟩

structure FrameTable where
  funcs : FuncTable := {}
  resources : ResourceTable := {}
  keys : List Frame := []
  func : List Nat := []
  cat : List Nat := []
  sub : List Nat := []
  line : List (Option Nat) := []
  col : List (Option Nat) := []
  addr : List (Option Nat) := []
  nsym : List (Option Nat) := []
  depth : List Nat := []
deriving Repr

/-- `index_for_frame` (frame_table.rs:35-83). `none` = a panic inside (`resource_for_lib`'s unwrap or
`add_lib_used_rva`'s index into `used_libs_seen_rvas`, a parallel array of `used_libs`). -/
def FrameTable.indexFor (t : FrameTable) (f : Frame) (g : GlobalLibs) (st : ThreadStrings) :
    Option (FrameTable × ThreadStrings × Nat) :=
  let i := t.keys.idxOf f
  if i < t.keys.length then some (t, st, i) else
  match t.funcs.indexFor f.funcKey t.resources g st with
  | none => none
  | some (fn', rt', st', func) =>
    match f.native with
    | none =>
      some ({ funcs := fn', resources := rt', keys := t.keys ++ [f], func := t.func ++ [func],
              cat := t.cat ++ [f.cat], sub := t.sub ++ [f.sub], line := t.line ++ [f.line],
              col := t.col ++ [f.col], addr := t.addr ++ [none], nsym := t.nsym ++ [none],
              depth := t.depth ++ [0] }, st', t.keys.length)
    | some n =>
      if n.lib < g.used.length then
        some ({ funcs := fn', resources := rt', keys := t.keys ++ [f], func := t.func ++ [func],
                cat := t.cat ++ [f.cat], sub := t.sub ++ [f.sub], line := t.line ++ [f.line],
                col := t.col ++ [f.col], addr := t.addr ++ [some n.addr], nsym := t.nsym ++ [n.nsym],
                depth := t.depth ++ [n.depth] }, st', t.keys.length)
      else none

/-! ### native_symbols.rs -/

structure NativeSymbols where
  addrs : List Nat := []
  sizes : List (Option Nat) := []
  libs : List Nat := []
  names : List Nat := []
  map : List ((Nat × Nat) × Nat) := []
deriving Repr

/-- `symbol_index_and_string_index_for_symbol` (native_symbols.rs:57-80). `none` = `names[symbol_index]`
out of range. -/
def NativeSymbols.indexFor (ns : NativeSymbols) (lib : Nat) (sym : Sym) (st : ThreadStrings) :
    Option (NativeSymbols × ThreadStrings × Nat × Nat) :=
  match alookup ns.map (lib, sym.addr) with
  | some i =>
    match ns.names[i]? with
    | some n => some (ns, st, i, n)
    | none => none
  | none =>
    let s := st.indexFor sym.name
    some (⟨ns.addrs ++ [sym.addr], ns.sizes ++ [sym.size], ns.libs ++ [lib], ns.names ++ [s.2],
      ((lib, sym.addr), ns.addrs.length) :: ns.map⟩, s.1, ns.addrs.length, s.2)

/-! ### stack_table.rs -/

structure StackTable where
  prefixes : List (Option Nat) := []
  frames : List Nat := []
  index : List ((Option Nat × Nat) × Nat) := []
deriving Repr

/-- `index_for_stack` (stack_table.rs:56-67) -/
def StackTable.indexFor (t : StackTable) (pre : Option Nat) (frame : Nat) : StackTable × Nat :=
  match alookup t.index (pre, frame) with
  | some s => (t, s)
  | none =>
    (⟨t.prefixes ++ [pre], t.frames ++ [frame], ((pre, frame), t.prefixes.length) :: t.index⟩,
      t.prefixes.length)

/-! ### markers.rs (schemas), marker_table.rs -/

/-- the three kinds of field formats that matter: `u` = `MarkerFieldFormat::String`
("unique-string", value is a thread string index), `s` = any other string kind (value is a global
string index, serialized as the string), `n` = number kind -/
inductive Fmt
  | u | s | n
deriving Repr, DecidableEq

/-- `MarkerFieldFormat` (markers.rs:428-525), all 14 variants -/
inductive MFormat
  | url | filePath | sanitizedString | string
  | duration | time | seconds | milliseconds | microseconds | nanoseconds | bytes | percentage | integer | decimal
deriving Repr, DecidableEq

/-- `MarkerFieldFormat::kind()` (markers.rs:527-543) together with the `field.format ==
MarkerFieldFormat::String` test that `add_marker` (marker_table.rs:79) and the serializer
(marker_table.rs:205) make on string-kind fields: `String` is the only "unique-string" format -/
def MFormat.fmt : MFormat → Fmt
  | .string => .u
  | .url | .filePath | .sanitizedString => .s
  | _ => .n

/-- `MarkerTiming` (markers.rs) -/
inductive MTiming
  | instant | interval | intervalStart | intervalEnd
deriving Repr, DecidableEq

/-- the `(s, e, phase)` triple of `add_marker` (marker_table.rs:61-66): is a start / an end time stored,
and the numeric `Phase` (marker_table.rs:239-244) -/
def MTiming.cols : MTiming → Bool × Bool × Nat
  | .instant => (true, false, 0)
  | .interval => (true, true, 1)
  | .intervalStart => (true, false, 2)
  | .intervalEnd => (false, true, 3)

structure Schema where
  typeName : Str
  cat : Nat
  fields : List Fmt
deriving Repr

def Schema.stringCount (s : Schema) : Nat := (s.fields.filter (· ≠ .n)).length
def Schema.numberCount (s : Schema) : Nat := (s.fields.filter (· = .n)).length

structure MarkerTable where
  cats : List Nat := []
  names : List Nat := []
  /-- `marker_starts`, `marker_ends`: is a time stored (`Some`)? `marker_phases`: the numeric phase -/
  starts : List Bool := []
  ends : List Bool := []
  phases : List Nat := []
  types : List Nat := []
  stacks : List (Option Nat) := []
  strVals : List Nat := []
  numVals : Nat := 0
deriving Repr

/-- the field loop of `MarkerTable::add_marker` (marker_table.rs:79-99). `vals` are the
`(global index, string)` pairs `marker.string_field_value(i)` returns for the string-kind fields, in
field order. `none` = the marker has fewer string values than the schema has string fields (the
harness's marker types would panic). -/
def markerFields : List Fmt → List (Nat × Str) → ThreadStrings → List Nat → Nat →
    Option (ThreadStrings × List Nat × Nat)
  | [], _, st, strs, nums => some (st, strs, nums)
  | .n :: fs, vals, st, strs, nums => markerFields fs vals st strs (nums + 1)
  | .u :: fs, (g, s) :: vals, st, strs, nums =>
    let r := st.forGlobal g s
    markerFields fs vals r.1 (strs ++ [r.2]) nums
  | .s :: fs, (g, _) :: vals, st, strs, nums => markerFields fs vals st (strs ++ [g]) nums
  | .u :: _, [], _, _, _ => none
  | .s :: _, [], _, _, _ => none

/-- `MarkerTable::add_marker` (marker_table.rs:55-102) -/
def MarkerTable.add (m : MarkerTable) (name : Nat) (ty : Nat) (schema : Schema)
    (vals : List (Nat × Str)) (st : ThreadStrings) (tm : MTiming := .instant) :
    Option (MarkerTable × ThreadStrings × Nat) :=
  match markerFields schema.fields vals st m.strVals m.numVals with
  | none => none
  | some (st', strs, nums) =>
    some ({ cats := m.cats ++ [schema.cat], names := m.names ++ [name],
            -- marker_table.rs:61-72: the four arms, then one push per vector
            starts := m.starts ++ [tm.cols.1], ends := m.ends ++ [tm.cols.2.1], phases := m.phases ++ [tm.cols.2.2],
            types := m.types ++ [ty], stacks := m.stacks ++ [none], strVals := strs, numVals := nums },
          st', m.cats.length)

/-- `set_marker_stack` (marker_table.rs:104-106); `none` = index out of bounds -/
def MarkerTable.setStack (m : MarkerTable) (i : Nat) (s : Option Nat) : Option MarkerTable :=
  if i < m.stacks.length then some { m with stacks := m.stacks.set i s } else none

end PT
