import SamplyModel.Model.Converter
/-!
Flush of the buffered samples into the profile (`Processes::finish`,
`ProcessSampleData::flush_samples_to_profile`), stack conversion (`stack_converter.rs`, first and second
pass; no libart / JS frames) and the stack-depth limiter (`stack_depth_limiting_frame_iter.rs`).
The output abstraction `views` lists every thread entry with its identity, names, lifetimes and samples.
-/
namespace Conv

/-! ## Stack conversion -/

inductive Frame
  /-- resolved through a library mapping: library path, library-relative address -/
  | lib (path : String) (rel : Nat)
  /-- unmapped or kernel-mode address, kept raw -/
  | raw (addr : Nat)
  /-- the placeholder label frame "(<n> frames elided)" -/
  | elided (count : Nat)
deriving Repr, DecidableEq

/-- first pass: lookup address of a frame (`ReturnAddress ↦ saturating a − 1`) -/
def SFrame.lookupAddr : SFrame → Nat
  | .ip a _ => a
  | .ret a _ => a - 1

def SFrame.kernel : SFrame → Bool
  | .ip _ k => k
  | .ret _ k => k

/-- second pass: user-mode frames through the mapping table, kernel-mode frames raw -/
def convertFrame (maps : List MapAdd) (f : SFrame) : Frame :=
  let la := f.lookupAddr
  if f.kernel then .raw la else
  match lookupMap maps la with
  | some m => .lib m.lib (m.rel + (la - m.start))
  | none => .raw la

/-- `convert_stack`: input callee-first, output root-first -/
def convertStack (maps : List MapAdd) (stack : List SFrame) : List Frame :=
  stack.reverse.map (convertFrame maps)

/-! ## Depth limiter -/

/-- `should_elide_frames::<N>` -/
def shouldElide (N fullLen : Nat) : Option (Nat × Nat) :=
  if fullLen ≥ N + N + N / 2 then some (N, (fullLen - N - N / 2) / N * N) else none

/-- `StackDepthLimitingFrameIter` run to completion on the frames `L` the inner iterator yields, with
length hint `n`. Follows the three states; when the inner iterator runs dry while skipping, the `?`
drops the frame already taken and ends the iteration (BeforeElidedPiece returns `None`). -/
def depthLimit (N : Nat) (L : List Frame) (n : Nat) : List Frame :=
  match shouldElide N n with
  | none => L
  | some (firstElided, count) =>
    let firstAfter := firstElided + count
    if firstElided = 0 then L  -- N = 0 never happens (N = 200)
    else if L.length < firstElided then L          -- inner runs dry before the elided piece
    else if L.length < firstAfter then L.take (firstElided - 1)   -- dry while skipping: frame dropped, end
    else L.take firstElided ++ [Frame.elided count] ++ L.drop firstAfter

def depthN : Nat := 200

/-! ## Flush -/

structure OutSample where
  t : Nat
  weight : Nat
  cpu : Nat
  frames : List Frame
deriving Repr, DecidableEq

/-- `LibMappingOpQueueIter::next_op_if_at_or_before` + `process_ops`: consume the queue prefix with
`ts ≤ sample ts` -/
def processOps (maps : List MapAdd) (q : List (Nat × MapAdd)) (ts : Nat) : List MapAdd × List (Nat × MapAdd) :=
  match q with
  | [] => (maps, [])
  | (t, op) :: rest => if t > ts then (maps, q) else processOps (applyAdd maps op) rest ts

/-- one parked / live buffer: returns the (thread entry, sample) pairs in buffer order -/
def flushBuffer : List MapAdd → List (Nat × MapAdd) → List USample → List (Nat × OutSample)
  | _, _, [] => []
  | maps, q, u :: us =>
    let r := processOps maps q u.tmono
    let frames := convertStack r.1 u.stack
    (u.th, { t := u.t, weight := 1, cpu := u.cpu, frames := depthLimit depthN frames u.stack.length })
      :: flushBuffer r.1 r.2 us

/-- all buffers in the order `Processes::finish` flushes them: parked first, then live processes
(hash-map order in the code; irrelevant for the per-thread projection below up to the order of samples
of different buffers, which the serializer sorts by time) -/
def allBuffers (s : St) : List (List USample × List (Nat × MapAdd)) :=
  s.parked ++ (s.procs.filter (fun p => !p.2.samples.isEmpty)).map (fun p => (p.2.samples, p.2.mapq))

def flushAll (s : St) : List (Nat × OutSample) :=
  (allBuffers s).flatMap (fun b => flushBuffer [] b.2 b.1)

def idStr (id suffix : Nat) : String :=
  if suffix = 0 then toString id else toString id ++ "." ++ toString suffix

structure View where
  pid : String
  tid : String
  pidBase : Nat
  tidBase : Nat
  isMain : Bool
  name : String
  processName : String
  start : Nat
  end_ : Option Nat
  pstart : Nat
  pend : Option Nat
  /-- in flush order (the serializer sorts by time; compare as sorted lists) -/
  samples : List OutSample
deriving Repr

def viewOf (s : St) (out : List (Nat × OutSample)) (i : Nat) (te : TEntry) : Option View :=
  match s.pents[te.proc]? with
  | none => none
  | some pe =>
    let tidS := idStr te.tid te.suffix
    some { pid := idStr pe.pid pe.suffix, tid := tidS, pidBase := pe.pid, tidBase := te.tid, isMain := te.isMain,
           name := if te.isMain then pe.name else te.name.getD ("Thread <" ++ tidS ++ ">"),
           processName := pe.name, start := te.start, end_ := te.end_, pstart := pe.start, pend := pe.end_,
           samples := (out.filter (fun o => o.1 == i)).map (·.2) }

def viewsAux (s : St) (out : List (Nat × OutSample)) : Nat → List TEntry → List View
  | _, [] => []
  | i, te :: rest =>
    match viewOf s out i te with
    | some v => v :: viewsAux s out (i + 1) rest
    | none => viewsAux s out (i + 1) rest

def views (s : St) : List View := viewsAux s (flushAll s) 0 s.tents

end Conv
