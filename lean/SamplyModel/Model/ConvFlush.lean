import SamplyModel.Model.Converter
/-!
Flush of the buffered samples into the profile (`Processes::finish`,
`ProcessSampleData::flush_samples_to_profile`), the perf-map loader (`shared/perf_map.rs`), the JIT symbol
classification (`shared/jit_category_manager.rs`), the mapping hierarchy (`shared/lib_mappings.rs`), stack
conversion (`stack_converter.rs`: first pass, second pass, the label-prepending `ConvertedStackIterD`; no
libart filtering — no mapping carries `art_info` here) and the stack-depth limiter
(`stack_depth_limiting_frame_iter.rs`).
The output abstraction `views` lists every thread entry with its identity, names, lifetimes and samples;
`cpuViews` lists the entries of the "CPU" process of `--per-cpu-threads`.
-/
namespace Conv

/-! ## Text helpers (names are `List Char`: the string functions used by the code, on characters) -/

/-- `str::strip_prefix` -/
def stripPrefix : List Char → List Char → Option (List Char)
  | [], s => some s
  | _ :: _, [] => none
  | p :: ps, c :: cs => if p = c then stripPrefix ps cs else none

def startsWith (p s : List Char) : Bool := (stripPrefix p s).isSome

/-- `str::split_once(pat)`: around the first occurrence of `pat` -/
def splitOnce (pat : List Char) : List Char → Option (List Char × List Char)
  | [] => if pat.isEmpty then some ([], []) else none
  | c :: cs =>
    match stripPrefix pat (c :: cs) with
    | some rest => some ([], rest)
    | none => (splitOnce pat cs).map (fun r => (c :: r.1, r.2))

def containsStr (pat s : List Char) : Bool := (splitOnce pat s).isSome

/-- `str::ends_with` -/
def endsWith (suf s : List Char) : Bool := startsWith suf.reverse s.reverse

/-- `str::strip_suffix` -/
def stripSuffix (suf s : List Char) : Option (List Char) := (stripPrefix suf.reverse s.reverse).map List.reverse

/-- `str::rsplit_once(c)`: around the last occurrence of the character -/
def rsplitOnceChar (c : Char) (s : List Char) : Option (List Char × List Char) :=
  (splitOnce [c] s.reverse).map (fun r => (r.2.reverse, r.1.reverse))

/-! ## JIT symbol classification (`JitCategoryManager::classify_jit_symbol`; categories are not observed) -/

/-- `handle_for_js_name` (jit_category_manager.rs:299-328) -/
def jsNameOf (f : List Char) : JsName :=
  let plain : JsName :=
    if containsStr "(self-hosted:".toList f || endsWith "valueIsFalsey".toList f || endsWith "valueIsTruthy".toList f
    then .selfHosted (String.ofList f) else .nonSelfHosted (String.ofList f)
  match (splitOnce "[Call".toList f).orElse (fun _ => splitOnce "[Construct".toList f) with
  | some (before, after) =>
    match splitOnce [']'] after with
    | some (_, after2) =>
      if after2.isEmpty then .selfHosted (String.ofList before) else .nonSelfHosted (String.ofList (before ++ after2))
    | none => plain
  | none => plain

/-- `JitCategoryManager::CATEGORIES`: (prefix, is_js), in table order -/
def jitPrefixes : List (String × Bool) :=
  [("JS:~", true), ("Script:~", true), ("JS:^", true), ("JS:+", true), ("JS:*", true), ("JS:?", true),
   ("py::", true), ("Builtin:", false), ("BytecodeHandler:", false), ("Interpreter: ", true),
   ("BaselineThunk: ", false), ("Baseline: ", true), ("PolymorphicCallStubBaseline: ", true),
   ("PolymorphicAccessStubBaseline: ", true), ("Ion: ", true), ("Wasm: ", true), ("BaselineIC: ", false),
   ("IC: ", false), ("Trampoline: ", false), ("WasmTrampoline: ", false), ("VMWrapper: ", false),
   ("Baseline JIT code for ", true), ("DFG JIT code for DFG: ", true), ("FTL B3 code for FTL: ", true),
   ("LLInt: ", true)]

/-- the table loop (jit_category_manager.rs:243-260): the first prefix that matches decides -/
def classifyTable (name : List Char) : List (String × Bool) → Option (Option JsFrame)
  | [] => none
  | (pre, isJs) :: rest =>
    match stripPrefix pre.toList name with
    | some without => some (if isJs then some (.regular (jsNameOf without)) else none)
    | none => classifyTable name rest

/-- the V8 wasm names `JS:<name>-<index>-liftoff|-turbofan` (jit_category_manager.rs:262-287) -/
def classifyWasm (name : List Char) : Option JsFrame :=
  match stripPrefix "JS:".toList name with
  | none => none
  | some v8 =>
    let stripped := match stripSuffix "-liftoff".toList v8 with
      | some n => some n
      | none => stripSuffix "-turbofan".toList v8
    match stripped with
    | none => none
    | some withIndex =>
      match rsplitOnceChar '-' withIndex with
      | some (nm, idx) => some (.regular (jsNameOf (nm ++ " (WASM:".toList ++ idx ++ [')'])))
      | none => none

/-- `classify_jit_symbol`, the `Option<JsFrame>` component -/
def classify (name : List Char) : Option JsFrame :=
  if name = "BaselineInterpreter".toList || startsWith "BlinterpOp: ".toList name then some .baselineInterp else
  match stripPrefix "BaselineInterpreter: ".toList name with
  | some f => some (.stub (jsNameOf f))
  | none =>
    match stripPrefix "IonIC: ".toList name with
    | some rest =>
      match splitOnce " : ".toList rest with
      | some (_, f) => some (.regular (jsNameOf f))
      | none => none
    | none =>
      match classifyTable name jitPrefixes with
      | some r => r
      | none => classifyWasm name

/-! ## Perf map loader (`try_load_perf_map`) -/

def hexVal (c : Char) : Option Nat :=
  if '0' ≤ c ∧ c ≤ '9' then some (c.toNat - '0'.toNat)
  else if 'a' ≤ c ∧ c ≤ 'f' then some (c.toNat - 'a'.toNat + 10)
  else if 'A' ≤ c ∧ c ≤ 'F' then some (c.toNat - 'A'.toNat + 10)
  else none

/-- `trim_start_matches("0x")`: strips the pattern repeatedly -/
def trim0x : List Char → List Char
  | '0' :: 'x' :: rest => trim0x rest
  | s => s

/-- `u64::from_str_radix(s, 16)`: one optional leading `+`, at least one digit, no overflow -/
def parseHexU64 (s : List Char) : Option Nat :=
  let digits := match s with
    | '+' :: rest => rest
    | _ => s
  if digits.isEmpty then none else
  (digits.foldl (fun acc c => match acc, hexVal c with
    | some v, some d => if v * 16 + d < 2 ^ 64 then some (v * 16 + d) else none
    | _, _ => none) (some 0))

structure PmLine where
  addr : Nat
  len : Nat
  name : List Char
deriving Repr, DecidableEq

/-- `process_perf_map_line`: `splitn(3, ' ')`, non-empty name, hexadecimal address and length -/
def parsePmLine (line : List Char) : Option PmLine :=
  match splitOnce [' '] line with
  | none => none
  | some (a, rest) =>
    match splitOnce [' '] rest with
    | none => none
    | some (l, name) =>
      if name.isEmpty then none else
      match parseHexU64 (trim0x a), parseHexU64 (trim0x l) with
      | some addr, some len => some ⟨addr, len, name⟩
      | _, _ => none

def perfMapPath (pid : Nat) : String := "/tmp/perf-" ++ toString pid ++ ".map"

/-- the loop of `try_load_perf_map` over the parsed lines: `none` = an arithmetic panic of the debug build
(`addr + len` beyond `u64`, `cumulative_address += code_size` beyond `u32`) -/
def loadPmLines (path : String) : List MapAdd → Nat → List PmLine → Option (List MapAdd)
  | table, _, [] => some table
  | table, cum, l :: rest =>
    if l.addr + l.len ≥ 2 ^ 64 then none else
    let codeSize := l.len % 2 ^ 32
    if cum + codeSize ≥ 2 ^ 32 then none else
    loadPmLines path
      (applyAdd table { start := l.addr, end_ := l.addr + l.len, rel := cum, lib := path, js := classify l.name })
      (cum + codeSize) rest

/-- `try_load_perf_map(pid)`: `some none` = no file, `none` = panic, `some (some table)` = the perf-map level of
the hierarchy -/
def loadPerfMap (cfg : Config) (pid : Nat) : Option (Option (List MapAdd)) :=
  match alGet cfg.perfMaps pid with
  | none => some none
  | some lines => (loadPmLines (perfMapPath pid) [] 0 (lines.filterMap parsePmLine)).map some

/-- the perf-map table used by the flush of a buffer of `pid` (empty when there is no file) -/
def perfMapTable (cfg : Config) (pid : Nat) : List MapAdd :=
  match loadPerfMap cfg pid with
  | some (some t) => t
  | _ => []

/-! ## Stack conversion -/

inductive Frame
  /-- resolved through a library mapping: library path, library-relative address -/
  | lib (path : String) (rel : Nat)
  /-- unmapped or kernel-mode address, kept raw -/
  | raw (addr : Nat)
  /-- the placeholder label frame "(<n> frames elided)" -/
  | elided (count : Nat)
  /-- a prepended JS label frame (`handle_for_frame_with_label(.., js_name, .., IS_JS)`) -/
  | label (name : String)
  /-- the thread label frame of a per-CPU copy of a sample (`extra_label_frame`) -/
  | tlabel (name : String)
deriving Repr, DecidableEq

/-- first pass: lookup address of a frame (`ReturnAddress ↦ saturating a − 1`) -/
def SFrame.lookupAddr : SFrame → Nat
  | .ip a _ => a
  | .ret a _ => a - 1

def SFrame.kernel : SFrame → Bool
  | .ip _ k => k
  | .ret _ k => k

/-- `LibMappingsHierarchy::convert_address`: regular libraries first, then (no jitdumps here) the perf map -/
def lookupH (maps pm : List MapAdd) (a : Nat) : Option MapAdd :=
  match lookupMap maps a with
  | some m => some m
  | none => lookupMap pm a

/-- `SecondPassFrameInfo`: location and `js_frame` -/
structure Info where
  frame : Frame
  js : Option JsFrame := none
deriving Repr, DecidableEq

/-- second pass: user-mode frames through the mapping hierarchy, kernel-mode frames raw -/
def secondPass (maps pm : List MapAdd) (f : SFrame) : Info :=
  let la := f.lookupAddr
  if f.kernel then { frame := .raw la } else
  match lookupH maps pm la with
  -- `LibMappings::convert_address` (fxprof lib_mappings.rs:124-125): `(avma − start) as u32` truncates, the
  -- addition is a `u32` addition (overflow = panic in a debug build: `secondPassSafe`)
  | some m => { frame := .lib m.lib (m.rel + (la - m.start) % 2 ^ 32), js := m.js }
  | none => { frame := .raw la }

/-- the `u32` addition of `convert_address` does not overflow -/
def secondPassSafe (maps pm : List MapAdd) (f : SFrame) : Bool :=
  let la := f.lookupAddr
  if f.kernel then true else
  match lookupH maps pm la with
  | some m => decide (m.rel + (la - m.start) % 2 ^ 32 < 2 ^ 32)
  | none => true

/-- the frame of the second pass without the perf-map level (the regular-library attribution of C02) -/
def convertFrame (maps : List MapAdd) (f : SFrame) : Frame := (secondPass maps [] f).frame

/-- the `match js_frame` of `ConvertedStackIterD::next` (stack_converter.rs:215-233): from the state
`js_name_for_baseline_interpreter` and the frame's `js_frame` to (`extra_js_name`, new state) -/
def jsStep (st : Option JsName) : Option JsFrame → Option JsName × Option JsName
  | some (.regular n) => (some n, some n)
  | some (.stub n) => (some n, none)
  | some .baselineInterp => (st, none)
  | none => (none, st)

/-- the frames one second-pass frame turns into: the prepended JS label frame (only for a non-self-hosted
name), then the native frame -/
def framesOf (extraJsName : Option JsName) (i : Info) : List Frame :=
  match extraJsName with
  | some (.nonSelfHosted s) => [Frame.label s, i.frame]
  | _ => [i.frame]

/-- `ConvertedStackIterD` run to completion (closed form; the iterator with its one-frame look-ahead is
`Model/DepthIter.lean: csNext`); `st` = `js_name_for_baseline_interpreter` -/
def emitJs : Option JsName → List Info → List Frame
  | _, [] => []
  | st, i :: rest => framesOf (jsStep st i.js).1 i ++ emitJs (jsStep st i.js).2 rest

/-- `convert_stack`: input callee-first, output root-first, `extra` = `extra_first_frame` (it sits in
`pending_frame_handle` and comes out first) -/
def convertStackX (extra : Option Frame) (maps pm : List MapAdd) (stack : List SFrame) : List Frame :=
  extra.toList ++ emitJs none (stack.reverse.map (secondPass maps pm))

def convertStack (maps pm : List MapAdd) (stack : List SFrame) : List Frame :=
  convertStackX none maps pm stack

/-! ## Depth limiter -/

/-- `should_elide_frames::<N>` -/
def shouldElide (N fullLen : Nat) : Option (Nat × Nat) :=
  if fullLen ≥ N + N + N / 2 then some (N, (fullLen - N - N / 2) / N * N) else none

/-- `StackDepthLimitingFrameIter` run to completion on the frames `L` the inner iterator yields, with
length hint `n`. Follows the three states; when the inner iterator runs dry while skipping, the `?`
drops the frame already taken and ends the iteration (BeforeElidedPiece returns `None`). -/
def depthLimit (N : Nat) (L : List Frame) (n : Nat) : List Frame :=
  match shouldElide N n with
  | none => L
  | some (firstElided, count) =>
    let firstAfter := firstElided + count
    if firstElided = 0 then L  -- N = 0 never happens (N = 200)
    else if L.length < firstElided then L          -- inner runs dry before the elided piece
    else if L.length < firstAfter then L.take (firstElided - 1)   -- dry while skipping: frame dropped, end
    else L.take firstElided ++ [Frame.elided count] ++ L.drop firstAfter

def depthN : Nat := 200

/-! ## Flush -/

structure OutSample where
  t : Nat
  weight : Nat
  /-- cpu delta in ns as handed to `CpuDelta::from_nanos` (the profile stores `cpu / 1000` µs) -/
  cpu : Nat
  frames : List Frame
  /-- copy of `USample.kind`: `marker` = the stack went to `Profile::set_marker_stack` (`t` identifies the marker
  on its thread; `weight` / `cpu` unread), otherwise to `Profile::add_sample`; recorded / offCpu is ghost -/
  kind : ItemKind := .recorded
deriving Repr, DecidableEq

/-- ghost copy of `USample.synth` (not the sample made from a main-event SAMPLE record); not printed -/
def OutSample.synth (o : OutSample) : Bool := o.kind != .recorded
def OutSample.marker (o : OutSample) : Bool := o.kind == .marker
@[simp] theorem OutSample.synth_mk (t weight cpu : Nat) (frames : List Frame) (kind : ItemKind) :
    (OutSample.mk t weight cpu frames kind).synth = (kind != .recorded) := rfl
@[simp] theorem OutSample.marker_mk (t weight cpu : Nat) (frames : List Frame) (kind : ItemKind) :
    (OutSample.mk t weight cpu frames kind).marker = (kind == .marker) := rfl
theorem OutSample.marker_of_not_synth (o : OutSample) (h : o.synth = false) : o.marker = false := by
  unfold OutSample.synth at h; unfold OutSample.marker; cases hk : o.kind <;> simp_all

/-- `LibMappingOpQueueIter::next_op_if_at_or_before` + `process_ops`: consume the queue prefix with
`ts ≤ sample ts` -/
def processOps (maps : List MapAdd) (q : List (Nat × MapAdd)) (ts : Nat) : List MapAdd × List (Nat × MapAdd) :=
  match q with
  | [] => (maps, [])
  | (t, op) :: rest => if t > ts then (maps, q) else processOps (applyAdd maps op) rest ts

/-- one parked / live buffer: returns the (thread entry, item) pairs in buffer order; `pm` = the perf-map
level of the hierarchy (never changed by `process_ops`). process_sample_data.rs:84-115, statement by statement:
`process_ops(sample.timestamp_mono)`, `convert_stack`, `StackDepthLimitingFrameIter::new(…, frames, …)` — the
limiter wraps the converted frames of **every** item, with the recorded stack length as hint
(`ConvertedStackIter::size_hint`), **before** the `match sample_or_marker`; the two arms differ only in where the
stack handle goes (`add_sample` / `set_marker_stack`), which is the `kind` carried to the output. -/
def flushBuffer (pm : List MapAdd) : List MapAdd → List (Nat × MapAdd) → List USample → List (Nat × OutSample)
  | _, _, [] => []
  | maps, q, u :: us =>
    let r := processOps maps q u.tmono
    let frames := convertStack r.1 pm u.stack
    (u.th, { t := u.t, weight := u.weight, cpu := u.cpu, frames := depthLimit depthN frames u.stack.length,
             kind := u.kind })
      :: flushBuffer pm r.1 r.2 us

/-- no frame of any sample of the buffer overflows the `u32` addition of `convert_address` -/
def flushBufferSafe (pm : List MapAdd) : List MapAdd → List (Nat × MapAdd) → List USample → Bool
  | _, _, [] => true
  | maps, q, u :: us =>
    let r := processOps maps q u.tmono
    u.stack.all (secondPassSafe r.1 pm) && flushBufferSafe pm r.1 r.2 us

/-- all buffers in the order `Processes::finish` flushes them: parked first, then live processes
(hash-map order in the code; irrelevant for the per-thread projection below up to the order of samples
of different buffers, which the serializer sorts by time) -/
def allBuffers (s : St) : List (List USample × List (Nat × MapAdd) × Nat) :=
  s.parked ++ (s.procs.filter (fun p => !p.2.samples.isEmpty)).map (fun p => (p.2.samples, p.2.mapq, p.2.pid))

def flushAll (s : St) : List (Nat × OutSample) :=
  (allBuffers s).flatMap (fun b => flushBuffer (perfMapTable s.cfg b.2.2) [] b.2.1 b.1)

/-- the flush performs no overflowing `u32` addition -/
def flushAllSafe (s : St) : Bool :=
  (allBuffers s).all (fun b => flushBufferSafe (perfMapTable s.cfg b.2.2) [] b.2.1 b.1)

/-- `try_load_perf_map` runs in `Process::finish` of every process that has buffered samples: the import
panics iff one of those loads does -/
def perfMapsSafe (s : St) : Bool :=
  (allBuffers s).all (fun b => (loadPerfMap s.cfg b.2.2).isSome)

/-! ### `--per-cpu-threads` (converter.rs:327-377, shared/per_cpu.rs)

Every accepted sample is added twice more to the buffer of its process, right after itself: to the thread of
its CPU and to the combined thread of the "CPU" process, with the same stack, timestamp and weight 1, CPU
delta 0 (no context-switch data) and the sampled thread's label as extra first frame. The copies follow their
original in the buffer with the same timestamp, so they are converted against the same mapping tables
(`processOps` at an unchanged timestamp consumes nothing): the model flushes them in a second pass over the
buffer. -/

def cpuOf (cfg : Config) (t : Nat) : Nat := t % cfg.ncpu

/-- the per-CPU copies of one buffer: (CPU index, sample) for the CPU thread; the same samples go to the
combined thread -/
def flushBufferCpu (cfg : Config) (pm : List MapAdd) :
    List MapAdd → List (Nat × MapAdd) → List USample → List (Nat × OutSample)
  | _, _, [] => []
  | maps, q, u :: us =>
    let r := processOps maps q u.tmono
    let frames := convertStackX (some (.tlabel u.tlabel)) r.1 pm u.stack
    -- marker items are not copied to the CPU tracks (`handle_other_event_sample` has no per-CPU part); they
    -- still advance the mapping queue
    if u.marker then flushBufferCpu cfg pm r.1 r.2 us else
    (cpuOf cfg u.tmono, { t := u.t, weight := 1, cpu := 0, frames := depthLimit depthN frames u.stack.length })
      :: flushBufferCpu cfg pm r.1 r.2 us

def flushAllCpu (s : St) : List (Nat × OutSample) :=
  if s.cfg.ncpu = 0 then [] else
  (allBuffers s).flatMap (fun b => flushBufferCpu s.cfg (perfMapTable s.cfg b.2.2) [] b.2.1 b.1)

def idStr (id suffix : Nat) : String :=
  if suffix = 0 then toString id else toString id ++ "." ++ toString suffix

structure View where
  pid : String
  tid : String
  pidBase : Nat
  tidBase : Nat
  isMain : Bool
  name : String
  processName : String
  start : Nat
  end_ : Option Nat
  pstart : Nat
  pend : Option Nat
  /-- in flush order (the serializer sorts by time; compare as sorted lists) -/
  samples : List OutSample
  /-- the stacks attached to markers of this thread (`set_marker_stack`), in flush order -/
  markers : List OutSample := []
deriving Repr

def viewOf (s : St) (out : List (Nat × OutSample)) (i : Nat) (te : TEntry) : Option View :=
  match s.pents[te.proc]? with
  | none => none
  | some pe =>
    let tidS := idStr te.tid te.suffix
    some { pid := idStr pe.pid pe.suffix, tid := tidS, pidBase := pe.pid, tidBase := te.tid, isMain := te.isMain,
           name := if te.isMain then pe.name else te.name.getD ("Thread <" ++ tidS ++ ">"),
           processName := pe.name, start := te.start, end_ := te.end_, pstart := pe.start, pend := pe.end_,
           samples := ((out.filter (fun o => o.1 == i)).map (·.2)).filter (fun o => !o.marker),
           markers := ((out.filter (fun o => o.1 == i)).map (·.2)).filter (fun o => o.marker) }

def viewsAux (s : St) (out : List (Nat × OutSample)) : Nat → List TEntry → List View
  | _, [] => []
  | i, te :: rest =>
    match viewOf s out i te with
    | some v => v :: viewsAux s out (i + 1) rest
    | none => viewsAux s out (i + 1) rest

def views (s : St) : List View := viewsAux s (flushAll s) 0 s.tents

/-- the buffered samples in the order the records arrived (buffers are per process; `Cpus::get_mut` only
depends on the largest CPU index seen so far, which no order changes) -/
def allSamples (s : St) : List USample := (allBuffers s).flatMap (·.1)

/-- The entries of the "CPU" process (`Cpus::new`: process "CPU", pid 0, with the combined thread tid 0 as
main thread; `Cpus::get_mut`: threads "CPU i" with tid i for every i up to the largest CPU index that had
an accepted sample). The second tid 0 (thread "CPU 0") is serialised as "0.1" (`make_unique_pid_or_tid`).
Not modelled: recorded pids / tids below `ncpu`, which would share the suffix counters with these entries. -/
def cpuViews (s : St) : List View :=
  if s.cfg.ncpu = 0 then [] else
  let out := flushAllCpu s
  let mk (tid name : String) (isMain : Bool) (samples : List OutSample) : View :=
    { pid := "0", tid, pidBase := 0, tidBase := 0, isMain, name, processName := "CPU", start := 0, end_ := none,
      pstart := 0, pend := none, samples }
  -- `Cpus::get_mut` is called by `handle_main_event_sample` only (marker items create no CPU thread)
  let ncreated := (((allSamples s).filter (fun u => !u.marker)).map (fun u => cpuOf s.cfg u.tmono + 1)).foldl max 0
  mk "0" "CPU" true (out.map (·.2)) ::
    (List.range ncreated).map (fun i =>
      mk (if i = 0 then "0.1" else toString i) ("CPU " ++ toString i) false
        ((out.filter (fun o => o.1 == i)).map (·.2)))

end Conv
