import SamplyModel.Model.Symbolicate
/-!
Front end of `/symbolicate/v5` (C07, improvement round): the two pieces of samply-api code that sit between
the JSON body and `Sym.queryApi` and that the first round left inside the harness / the oracle.

* `samply-api/src/lib.rs:161-169` `to_debug_id` — called at `symbolicate/mod.rs:78` before anything is
  loaded — together with the string syntax `DebugId::from_breakpad` accepts (debugid 0.8.0 `parse_str`
  lib.rs:249-289 under `allow_hyphens = false, require_appendix = true, allow_tail = false`; `Uuid` parsing
  of exactly 32 bytes = `parse_simple`, uuid 1.16 parser.rs:135-151; `u32::from_str_radix(_, 16)`).
  The oracle becomes `load : debugName → DebugId → …` (what `SymbolManager::load_symbol_map` is given:
  `LibraryInfo { debug_name, debug_id }`), and `lookOf load : Look` is what mod.rs:78-92 computes from it.
  Two spellings of one id (upper / lower case digits, leading zeros or `+` in the age) are the same
  `DebugId`, hence the same load result — a consequence of the types here.

* `samply-api/src/symbolicate/request_json.rs:3-8` — `#[serde(untagged)] enum Request`: the `jobs` form is
  tried first, the single-job form second, on the same buffered JSON object (unknown keys are ignored: no
  `deny_unknown_fields`). `RawBody` is that object as far as the two variants look at it.

Text is `List Char` (the guide: `String` functions do not reduce in the kernel). Core Lean only.
-/
namespace Sym

/-! ### `DebugId::from_breakpad` -/

/-- `debugid::DebugId` as far as equality sees it: `typ` (1 = PDB 2.0), the 16 `bytes` read as one
big-endian number, `appendix` -/
structure DebugId where
  pdb20 : Bool
  bytes : Nat
  appendix : Nat
deriving DecidableEq, Repr

/-- `char::to_digit(16)` -/
def hexDigit? (c : Char) : Option Nat :=
  if 48 ≤ c.toNat ∧ c.toNat ≤ 57 then some (c.toNat - 48)
  else if 97 ≤ c.toNat ∧ c.toNat ≤ 102 then some (c.toNat - 87)
  else if 65 ≤ c.toNat ∧ c.toNat ≤ 70 then some (c.toNat - 55)
  else none

/-- the digit loop of `u32::from_str_radix(_, 16)`: `result.checked_mul(16)?.checked_add(digit)?` -/
def hexAcc : List Char → Nat → Option Nat
  | [], r => some r
  | c :: rest, r =>
    match hexDigit? c with
    | none => none
    | some d => if r * 16 + d < 4294967296 then hexAcc rest (r * 16 + d) else none

/-- `u32::from_str_radix(s, 16)`: the empty string and a lone sign are errors, one leading `+` is skipped
(`-` is not a sign for an unsigned type: it is an invalid digit), overflow is an error -/
def parseHexU32 (s : List Char) : Option Nat :=
  match s with
  | [] => none
  | [c] => if c = '+' ∨ c = '-' then none else hexAcc [c] 0
  | c :: rest => if c = '+' then hexAcc rest 0 else hexAcc (c :: rest) 0

/-- uuid `parse_simple`: hex digits only, no overflow check needed (exactly 32 digits = 128 bits) -/
def hexAll : List Char → Nat → Option Nat
  | [], r => some r
  | c :: rest, r =>
    match hexDigit? c with
    | none => none
    | some d => hexAll rest (r * 16 + d)

/-- `DebugId::from_breakpad` = `parse_str` with `allow_hyphens = false, require_appendix = true,
allow_tail = false` (debugid lib.rs:200-207, 249-289) -/
def fromBreakpad (s : List Char) : Option DebugId :=
  -- 250-253: `string.get(8..9) == Some("-")` without `allow_hyphens`, or a non-ASCII string
  if ¬ s.all (fun c => decide (c.toNat < 128)) then none
  else if s[8]? = some '-' then none
  -- 255-267: the PDB 2.0 form `TTTTTTTTa…` (9..=16 bytes)
  else if 9 ≤ s.length ∧ s.length ≤ 16 then
    match parseHexU32 (s.take 8), parseHexU32 (s.drop 8) with
    | some ts, some app => some ⟨true, ts * 2 ^ 96, app⟩
    | _, _ => none
  -- 269-270: `string.get(..32)?.parse::<Uuid>().ok()?`
  else if s.length < 32 then none
  else
    match hexAll (s.take 32) 0 with
    | none => none
    | some u =>
      -- 275-277: an appendix that starts with `-` is only allowed for hyphenated ids
      if (s.drop 32).head? = some '-' then none
      else
        -- 287: `u32::from_str_radix(appendix_str, 16).ok()?` (fails on the empty string)
        match parseHexU32 (s.drop 32) with
        | none => none
        | some a => some ⟨false, u, a⟩

/-- `DebugId::is_nil` (debugid lib.rs:234-236) -/
def DebugId.isNil (d : DebugId) : Bool := d.bytes == 0 && d.appendix == 0

/-- `samply_symbols::Error::InvalidBreakpadId(id)`: `enum_as_string()` and `to_string()` -/
def invalidBreakpadId (id : String) : Err := ⟨"InvalidBreakpadId", "Invalid breakpad ID " ++ id⟩

/-- `to_debug_id` on the characters of the id (samply-api/src/lib.rs:161-169) -/
def toDebugIdChars (s : List Char) : Option DebugId :=
  match fromBreakpad s with
  | some d => if d.isNil then none else some d
  | none => none

/-- `to_debug_id` (samply-api/src/lib.rs:161-169) -/
def toDebugId (id : String) : Except Err DebugId :=
  match toDebugIdChars id.toList with
  | some d => .ok d
  | none => .error (invalidBreakpadId id)

/-- what `SymbolManager::load_symbol_map(&LibraryInfo { debug_name, debug_id, .. })` followed by
`lookup_sync` / `lookup_external` per address answers: the part of the oracle that remains one -/
abbrev Load := String → DebugId → Except Err (Nat → Option AddrInfo)

/-- mod.rs:78 `to_debug_id(&lib.breakpad_id)?` then 86-92 `load_symbol_map(&info).await?` -/
def lookOf (load : Load) : Look := fun lib =>
  match toDebugId lib.breakpadId with
  | .error e => .error e
  | .ok d => load lib.debugName d

/-! #### Specification side: which strings are breakpad ids (declarative) -/

def isHexChar (c : Char) : Bool :=
  (decide (48 ≤ c.toNat) && decide (c.toNat ≤ 57)) || (decide (97 ≤ c.toNat) && decide (c.toNat ≤ 102)) ||
  (decide (65 ≤ c.toNat) && decide (c.toNat ≤ 70))

/-- value of a string of hex digits, most significant first -/
def hexValueFrom (r : Nat) : List Char → Nat
  | [] => r
  | c :: rest => hexValueFrom (r * 16 + (hexDigit? c).getD 0) rest

def hexValue (s : List Char) : Nat := hexValueFrom 0 s

/-- an optional `+` is not part of the digits -/
def stripPlus : List Char → List Char
  | [] => []
  | c :: rest => if c = '+' then rest else c :: rest

/-- a hexadecimal `u32`: optional `+`, at least one hex digit, nothing else, value below 2^32 -/
def U32Hex (s : List Char) : Bool :=
  !(stripPlus s).isEmpty && (stripPlus s).all isHexChar && decide (hexValue (stripPlus s) < 4294967296)

/-- **Well-formed breakpad id**: ASCII, either 32 hex digits (the GUID) followed by a hexadecimal `u32`
(the age: at least one digit, any number of leading zeros, optional `+`), or — 9 to 16 characters — the
PDB 2.0 form, a hexadecimal `u32` in the first eight characters followed by a hexadecimal `u32`; not all
zero; no `-` at position 8. -/
def BreakpadIdOk (s : List Char) : Bool :=
  s.all (fun c => decide (c.toNat < 128)) && !(s[8]? == some '-') &&
  if 9 ≤ s.length ∧ s.length ≤ 16 then
    U32Hex (s.take 8) && U32Hex (s.drop 8) &&
      !(hexValue (stripPlus (s.take 8)) == 0 && hexValue (stripPlus (s.drop 8)) == 0)
  else
    decide (32 ≤ s.length) && (s.take 32).all isHexChar && U32Hex (s.drop 32) &&
      !(hexValue (s.take 32) == 0 && hexValue (stripPlus (s.drop 32)) == 0)

/-- the `DebugId` a well-formed breakpad id denotes -/
def breakpadIdValue (s : List Char) : DebugId :=
  if 9 ≤ s.length ∧ s.length ≤ 16 then
    ⟨true, hexValue (stripPlus (s.take 8)) * 2 ^ 96, hexValue (stripPlus (s.drop 8))⟩
  else ⟨false, hexValue (s.take 32), hexValue (stripPlus (s.drop 32))⟩

/-! ### The request body (request_json.rs:3-8) -/

/-- The JSON object of the body as the two variants of the untagged enum see it: the value of the key
`jobs` when it is there (as a list of job objects), and the job made of the top-level keys `memoryMap` and
`stacks` when both are there. All other keys are ignored by both variants. -/
structure RawBody where
  jobs : Option (List RawJob)
  top : Option RawJob
deriving Repr

/-- serde's untagged enum: `WithJobsList { jobs }` is tried first; if that fails (no `jobs` key, or a
number in it that is not a `u32`) `JustOneJob(Job)` is tried on the same object; if that fails too the
request does not parse. -/
def decodeBody (b : RawBody) : Option Request :=
  match b.jobs.bind decodeJobs with
  | some js => some (.withJobsList js)
  | none =>
    match b.top.bind decodeJob with
    | some j => some (.justOneJob j)
    | none => none

def RawRequest.body : RawRequest → RawBody
  | .withJobsList js => ⟨some js, none⟩
  | .justOneJob j => ⟨none, some j⟩

/-- `query_api_fallible_json` (mod.rs:37-41) from the body object on, with `to_debug_id` inside -/
def handleBody (load : Load) (extOrder : List (Nat × Option (List Frame)) → List (Nat × Option (List Frame)))
    (b : RawBody) : Except Fail Response :=
  match decodeBody b with
  | none => .error .parse
  | some req => queryApi (lookOf load) extOrder req

end Sym
