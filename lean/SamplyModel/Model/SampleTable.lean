/-!
Model of the thread sample table and the counter sample table of `fxprof-processed-profile` (C04).

Code followed (pinned tree, after the repair `cfcb4a41`):

* `sample_table.rs:74-116`  `SampleTable::{new, add_sample, modify_last_sample}`
* `sample_table.rs:118-158` `impl Serialize for SampleTable` (sorted path / permutation path)
* `thread.rs:137-173`       `Thread::{add_sample, add_sample_same_stack_zero_cpu}` with the two thread-level
                            fields `last_sample_stack`, `last_sample_was_zero_cpu`
* `counters.rs:92-156`      `CounterSamples::{new, add_sample}`, `impl Serialize for CounterSamples`
* `timestamp.rs:31-68`      the two delta serializers (`cur_nanos - prev_nanos` on `u64`)
* `serialization_helpers.rs:32-41` `SliceWithPermutation` (`&self.0[*i]`)
* `cpu_delta.rs:30-34`      `CpuDelta::from_nanos` (`nanos / 1000`), `ZERO` = 0 µs

Conventions: timestamps are integer nanoseconds (`Nat`), CPU deltas integer microseconds (`Nat`),
weights are `Int` with the `i32` range checked where Rust adds (`+=` in `modify_last_sample` panics in a build
with overflow checks). Every Rust operation that can panic is an explicit `none`:
`last_mut().unwrap()` on an empty `Vec`, `i32` overflow of the merged weight, `u64` underflow of a time delta,
an index out of range in `SliceWithPermutation` / the permuted delta serializer.

The Rust code sorts the index vector with `sort_unstable_by_key`; the model uses `List.mergeSort`, and the
serializer is factored through `serializeWith idx` so that the theorems can be (and are) stated for *every*
index permutation that is sorted by timestamp.

The second half of the file is the specification side (`logical`, `specB`, …): it looks at the bare call
history only. Core Lean only (linked into the driver executable).
-/
namespace STab

/-! ### Small helpers that mirror `Vec`/slice operations -/

/-- the `i32` range -/
def inI32 (w : Int) : Bool := decide (-2147483648 ≤ w) && decide (w ≤ 2147483647)

/-- `*v.last_mut().unwrap() = f(old)`; `none` = `unwrap` on an empty `Vec` -/
def modifyLastOf {α : Type} (f : α → α) (l : List α) : Option (List α) :=
  match l.getLast? with
  | none => none
  | some x => some (l.dropLast ++ [f x])

/-- `idx.iter().map(|i| &col[*i])` (`serialization_helpers.rs:39`); `none` = index out of range -/
def permute {α : Type} (col : List α) : List Nat → Option (List α)
  | [] => some []
  | i :: is =>
    match col[i]?, permute col is with
    | some x, some xs => some (x :: xs)
    | _, _ => none

/-- `timestamp.rs:33-47`: `delta = cur - prev; prev = cur` with `prev` starting at 0;
`none` = the `u64` subtraction underflows -/
def deltasFrom (prev : Nat) : List Nat → Option (List Nat)
  | [] => some []
  | t :: ts =>
    if prev ≤ t then
      match deltasFrom t ts with
      | some ds => some ((t - prev) :: ds)
      | none => none
    else none

/-- `(0..len).collect()` then `sort_unstable_by_key(|i| times[*i])` (`sample_table.rs:134-135`,
`counters.rs:144-145`), modelled by the stable merge sort of the `(time, index)` pairs -/
def sortedIndexes (times : List Nat) : List Nat :=
  ((times.zipIdx).mergeSort (fun a b => decide (a.1 ≤ b.1))).map (·.2)

/-! ### Thread sample table -/

structure SampleTable where
  weights : List Int
  times : List Nat
  stacks : List (Option Nat)
  /-- microseconds -/
  cpus : List Nat
  isSorted : Bool
  lastTs : Nat
deriving Repr, DecidableEq

/-- `SampleTable::new` (`sample_table.rs:75-85`) -/
def SampleTable.new : SampleTable := ⟨[], [], [], [], true, 0⟩

/-- `SampleTable::add_sample` (`sample_table.rs:87-102`) -/
def SampleTable.addSample (s : SampleTable) (t : Nat) (stack : Option Nat) (cpu : Nat) (w : Int) :
    SampleTable :=
  { weights := s.weights ++ [w]
    times := s.times ++ [t]
    stacks := s.stacks ++ [stack]
    cpus := s.cpus ++ [cpu]
    isSorted := if t < s.lastTs then false else s.isSorted
    lastTs := t }

/-- `SampleTable::modify_last_sample` (`sample_table.rs:108-115`, repaired): `none` = one of the two
`unwrap`s fails or `+= weight` overflows `i32` -/
def SampleTable.modifyLast (s : SampleTable) (t : Nat) (w : Int) : Option SampleTable :=
  match s.weights.getLast? with
  | none => none
  | some w0 =>
    if inI32 (w0 + w) then
      match modifyLastOf (fun _ => w0 + w) s.weights, modifyLastOf (fun _ => t) s.times with
      | some ws, some ts =>
        some { s with weights := ws, times := ts
                      isSorted := if t < s.lastTs then false else s.isSorted
                      lastTs := t }
      | _, _ => none
    else none

/-- the pre-`cfcb4a41` `modify_last_sample`: the two bookkeeping fields are left alone -/
def SampleTable.modifyLastLegacy (s : SampleTable) (t : Nat) (w : Int) : Option SampleTable :=
  match s.weights.getLast? with
  | none => none
  | some w0 =>
    if inI32 (w0 + w) then
      match modifyLastOf (fun _ => w0 + w) s.weights, modifyLastOf (fun _ => t) s.times with
      | some ws, some ts => some { s with weights := ws, times := ts }
      | _, _ => none
    else none

/-- what the JSON shows of a sample table: the four columns (`timeDeltas` in integer nanoseconds) -/
structure Out where
  stack : List (Option Nat)
  deltas : List Nat
  weight : List Int
  cpu : List Nat
deriving Repr, DecidableEq

/-- the `else` branch of `impl Serialize for SampleTable` (`sample_table.rs:133-155`) for a given index
vector: the same `idx` is applied to all four columns -/
def SampleTable.serializeWith (s : SampleTable) (idx : List Nat) : Option Out :=
  match permute s.stacks idx, permute s.times idx, permute s.weights idx, permute s.cpus idx with
  | some st, some ts, some ws, some cs =>
    match deltasFrom 0 ts with
    | some ds => some ⟨st, ds, ws, cs⟩
    | none => none
  | _, _, _, _ => none

/-- the `if self.is_sorted_by_time` branch (`sample_table.rs:125-132`): columns as stored -/
def SampleTable.serializeSorted (s : SampleTable) : Option Out :=
  match deltasFrom 0 s.times with
  | some ds => some ⟨s.stacks, ds, s.weights, s.cpus⟩
  | none => none

/-- `impl Serialize for SampleTable`; `none` = panic while serializing -/
def SampleTable.serialize (s : SampleTable) : Option Out :=
  if s.isSorted then s.serializeSorted else s.serializeWith (sortedIndexes s.times)

/-! ### Thread level (`thread.rs`) -/

structure Thread where
  samples : SampleTable
  /-- `last_sample_stack` -/
  lastStack : Option Nat
  /-- `last_sample_was_zero_cpu` -/
  lastZero : Bool
deriving Repr, DecidableEq

/-- `Thread::new` (`thread.rs:43-62`) -/
def Thread.new : Thread := ⟨SampleTable.new, none, false⟩

/-- `Thread::add_sample` (`thread.rs:137-148`); `cpu` in microseconds, `cpu_delta == CpuDelta::ZERO` -/
def Thread.add (th : Thread) (t : Nat) (stack : Option Nat) (cpu : Nat) (w : Int) : Thread :=
  ⟨th.samples.addSample t stack cpu w, stack, cpu == 0⟩

/-- `Thread::add_sample_same_stack_zero_cpu` (`thread.rs:164-173`) -/
def Thread.merge (th : Thread) (t : Nat) (w : Int) : Option Thread :=
  if th.lastZero then
    match th.samples.modifyLast t w with
    | some s => some { th with samples := s }
    | none => none
  else
    some ⟨th.samples.addSample t th.lastStack 0 w, th.lastStack, true⟩

/-- the same with the pre-fix `modify_last_sample` -/
def Thread.mergeLegacy (th : Thread) (t : Nat) (w : Int) : Option Thread :=
  if th.lastZero then
    match th.samples.modifyLastLegacy t w with
    | some s => some { th with samples := s }
    | none => none
  else
    some ⟨th.samples.addSample t th.lastStack 0 w, th.lastStack, true⟩

/-- One call of the public API on one thread. `add` carries the CPU delta in **nanoseconds** as given to
`CpuDelta::from_nanos`; `merge` is `Profile::add_sample_same_stack_zero_cpu`. -/
inductive Op
  | add (t : Nat) (stack : Option Nat) (cpuNanos : Nat) (w : Int)
  | merge (t : Nat) (w : Int)
deriving Repr, DecidableEq

/-- `CpuDelta::from_nanos` (`cpu_delta.rs:30-34`) -/
def cpuOfNanos (n : Nat) : Nat := n / 1000

def Thread.step (th : Thread) : Op → Option Thread
  | .add t stack c w => some (th.add t stack (cpuOfNanos c) w)
  | .merge t w => th.merge t w

def Thread.stepLegacy (th : Thread) : Op → Option Thread
  | .add t stack c w => some (th.add t stack (cpuOfNanos c) w)
  | .merge t w => th.mergeLegacy t w

/-- run a call history; `none` = some call panicked -/
def runFrom (th : Thread) : List Op → Option Thread
  | [] => some th
  | op :: ops =>
    match th.step op with
    | none => none
    | some th' => runFrom th' ops

def run (ops : List Op) : Option Thread := runFrom Thread.new ops

def runFromLegacy (th : Thread) : List Op → Option Thread
  | [] => some th
  | op :: ops =>
    match th.stepLegacy op with
    | none => none
    | some th' => runFromLegacy th' ops

def runLegacy (ops : List Op) : Option Thread := runFromLegacy Thread.new ops

/-- index (0-based) of the call that panics, for the driver -/
def panicIndexFrom (th : Thread) (k : Nat) : List Op → Option Nat
  | [] => none
  | op :: ops =>
    match th.step op with
    | none => some k
    | some th' => panicIndexFrom th' (k + 1) ops

/-! ### Counter sample table (`counters.rs`) -/

/-- A counter value. `CounterSamples.count` is a `Vec<f64>` (`counters.rs:95`); the code never computes with
the values (it stores, permutes and hands them to the serializer), so the model keeps every `f64` as a token:
an integer-valued one (|v| ≤ 2^53, not `-0.0`) by its value, `-0.0` by name, every other one (fractions,
subnormals, huge values, NaN, ±inf) by its IEEE-754 bit pattern. `null` occurs in outputs only: it is what
`serde_json` writes for a non-finite `f64` (JSON has no such number). -/
inductive CVal
  | int (v : Int)
  | negZero
  | bits (b : Nat)
  | null
deriving Repr, DecidableEq

/-- the integer value of an integer-valued token (0 for the others); used for the `count` total -/
def CVal.intPart : CVal → Int
  | .int v => v
  | _ => 0

/-- exponent field all ones = NaN / ±inf -/
def CVal.isFinite : CVal → Bool
  | .bits b => (b / 4503599627370496) % 2048 != 2047
  | .null => false
  | _ => true

/-- `serde_json`'s `serialize_f64` (`Number::from_f64(x).map_or(Value::Null, …)`; the writer prints `null`):
finite numbers are written as they are, NaN / ±inf become `null` -/
def CVal.json (v : CVal) : CVal := if v.isFinite then v else .null

structure CounterSamples where
  time : List Nat
  number : List Nat
  /-- `f64` in Rust -/
  count : List CVal
  isSorted : Bool
  lastTs : Nat
deriving Repr, DecidableEq

/-- `CounterSamples::new` (`counters.rs:102-111`) -/
def CounterSamples.new : CounterSamples := ⟨[], [], [], true, 0⟩

/-- `CounterSamples::add_sample` (`counters.rs:113-127`) -/
def CounterSamples.addSample (c : CounterSamples) (t : Nat) (value : CVal) (n : Nat) : CounterSamples :=
  { time := c.time ++ [t]
    count := c.count ++ [value]
    number := c.number ++ [n]
    isSorted := if t < c.lastTs then false else c.isSorted
    lastTs := t }

/-- one `Profile::add_counter_sample` call -/
structure COp where
  t : Nat
  value : CVal
  n : Nat
deriving Repr, DecidableEq

def runCFrom (c : CounterSamples) (ops : List COp) : CounterSamples :=
  ops.foldl (fun c op => c.addSample op.t op.value op.n) c

def runC (ops : List COp) : CounterSamples := runCFrom CounterSamples.new ops

/-- what the JSON shows of a counter table (`count` after `serde_json`'s treatment of non-finite numbers) -/
structure COut where
  count : List CVal
  number : List Nat
  deltas : List Nat
deriving Repr, DecidableEq

/-- `counters.rs:143-152` for a given index vector -/
def CounterSamples.serializeWith (c : CounterSamples) (idx : List Nat) : Option COut :=
  match permute c.count idx, permute c.number idx, permute c.time idx with
  | some cs, some ns, some ts =>
    match deltasFrom 0 ts with
    | some ds => some ⟨cs.map CVal.json, ns, ds⟩
    | none => none
  | _, _, _ => none

/-- `counters.rs:136-142` -/
def CounterSamples.serializeSorted (c : CounterSamples) : Option COut :=
  match deltasFrom 0 c.time with
  | some ds => some ⟨c.count.map CVal.json, c.number, ds⟩
  | none => none

/-- `impl Serialize for CounterSamples` (`counters.rs:130-156`) -/
def CounterSamples.serialize (c : CounterSamples) : Option COut :=
  if c.isSorted then c.serializeSorted else c.serializeWith (sortedIndexes c.time)

/-! ## Specification side: the bare call history -/

/-- a logical sample: what the caller added -/
structure LRow where
  t : Nat
  stack : Option Nat
  /-- microseconds -/
  cpu : Nat
  w : Int
deriving Repr, DecidableEq

/-- The declarative meaning of the two calls. `add` appends a sample. `merge` ("same stack, zero CPU")
extends the previous sample when that sample has a zero CPU delta — its time becomes the new time and the
weight is added — and otherwise appends a zero-CPU sample with the previous sample's stack (no stack when
there is no previous sample). -/
def logicalStep (rows : List LRow) : Op → List LRow
  | .add t stack c w => rows ++ [⟨t, stack, c / 1000, w⟩]
  | .merge t w =>
    match rows.getLast? with
    | none => rows ++ [⟨t, none, 0, w⟩]
    | some r =>
      if r.cpu = 0 then rows.dropLast ++ [{ r with t := t, w := r.w + w }]
      else rows ++ [⟨t, r.stack, 0, w⟩]

/-- the sample an `add` call adds, literally (`none` for the merge call) -/
def Op.addRow? : Op → Option LRow
  | .add t stack c w => some ⟨t, stack, c / 1000, w⟩
  | .merge _ _ => none

def logicalFrom (rows : List LRow) (ops : List Op) : List LRow := ops.foldl logicalStep rows

/-- the logical samples of a call history, in call order -/
def logical (ops : List Op) : List LRow := logicalFrom [] ops

/-- does this call keep the (merged) weight inside `i32`? -/
def opFits (rows : List LRow) : Op → Bool
  | .add .. => true
  | .merge _ w =>
    match rows.getLast? with
    | none => true
    | some r => if r.cpu = 0 then inI32 (r.w + w) else true

/-- index of the first call whose merged weight leaves `i32` (the excluded point of the theorems) -/
def firstOverflowFrom (rows : List LRow) (k : Nat) : List Op → Option Nat
  | [] => none
  | op :: ops => if opFits rows op then firstOverflowFrom (logicalStep rows op) (k + 1) ops else some k

def firstOverflow (ops : List Op) : Option Nat := firstOverflowFrom [] 0 ops

/-- every merged weight of the history stays inside `i32` -/
def fitsFrom (rows : List LRow) : List Op → Bool
  | [] => true
  | op :: ops => opFits rows op && fitsFrom (logicalStep rows op) ops

def fits (ops : List Op) : Bool := fitsFrom [] ops

def Op.weight : Op → Int
  | .add _ _ _ w => w
  | .merge _ w => w

/-- CPU time added by a call, in the serialized unit (µs); the merge call adds none -/
def Op.cpuMicros : Op → Nat
  | .add _ _ c _ => c / 1000
  | .merge _ _ => 0

/-- running sums of the deltas, starting after `acc` -/
def runningSums (acc : Nat) : List Nat → List Nat
  | [] => []
  | d :: ds => (acc + d) :: runningSums (acc + d) ds

def nondecreasing : List Nat → Bool
  | [] => true
  | [_] => true
  | a :: b :: rest => decide (a ≤ b) && nondecreasing (b :: rest)

/-- zip four columns into rows (callers check that the lengths agree) -/
def mkRows : List Nat → List (Option Nat) → List Nat → List Int → List LRow
  | t :: ts, s :: ss, c :: cs, w :: ws => ⟨t, s, c, w⟩ :: mkRows ts ss cs ws
  | _, _, _, _ => []

/-- The property statement as a decidable function of the call history and the serialized table:
rectangular table, times (running sums of the deltas) nondecreasing, rows = the logical samples as a
multiset, total weight and total CPU time equal to what was added. -/
def specNat (ops : List Op) (o : Out) : Bool :=
  let ts := runningSums 0 o.deltas
  (o.stack.length == ts.length && o.weight.length == ts.length && o.cpu.length == ts.length)
  && nondecreasing ts
  && (mkRows ts o.stack o.cpu o.weight).isPerm (logical ops)
  && (o.weight.sum == (ops.map Op.weight).sum)
  && (o.cpu.sum == (ops.map Op.cpuMicros).sum)

/-- what is observed of an implementation: the deltas are signed (a wrong order would show up as a negative
delta) -/
structure Obs where
  stack : List (Option Nat)
  deltas : List Int
  weight : List Int
  cpu : List Nat
deriving Repr, DecidableEq

def Out.obs (o : Out) : Obs := ⟨o.stack, o.deltas.map Int.ofNat, o.weight, o.cpu⟩

/-- the judged spec: every delta non-negative, and `specNat` -/
def specB (ops : List Op) (o : Obs) : Bool :=
  o.deltas.all (fun d => decide (0 ≤ d)) && specNat ops ⟨o.stack, o.deltas.map Int.toNat, o.weight, o.cpu⟩

/-! counters -/

structure CRow where
  t : Nat
  value : CVal
  n : Nat
deriving Repr, DecidableEq

/-- the counter samples as the caller added them -/
def rowsC (ops : List COp) : List CRow := ops.map fun op => ⟨op.t, op.value, op.n⟩

/-- … and as a JSON document can show them: a non-finite value can only appear as `null` (the one excluded
point of "keeps the counter value it was added with"; `CVal.json v = v` for every finite `v`) -/
def CRow.json (r : CRow) : CRow := { r with value := r.value.json }

def logicalC (ops : List COp) : List CRow := (rowsC ops).map CRow.json

def mkCRows : List Nat → List CVal → List Nat → List CRow
  | t :: ts, v :: vs, n :: ns => ⟨t, v, n⟩ :: mkCRows ts vs ns
  | _, _, _ => []

def specCNat (ops : List COp) (o : COut) : Bool :=
  let ts := runningSums 0 o.deltas
  (o.count.length == ts.length && o.number.length == ts.length)
  && nondecreasing ts
  && (mkCRows ts o.count o.number).isPerm (logicalC ops)
  && ((o.count.map CVal.intPart).sum == (ops.map (·.value.intPart)).sum)
  && (o.number.sum == (ops.map (·.n)).sum)

structure CObs where
  count : List CVal
  number : List Nat
  deltas : List Int
deriving Repr, DecidableEq

def COut.obs (o : COut) : CObs := ⟨o.count, o.number, o.deltas.map Int.ofNat⟩

def specCB (ops : List COp) (o : CObs) : Bool :=
  o.deltas.all (fun d => decide (0 ≤ d)) && specCNat ops ⟨o.count, o.number, o.deltas.map Int.toNat⟩

/-- "`idx` is a permutation of the row indices, and the timestamps read through it are nondecreasing":
the contract of `sort_unstable_by_key` on `(0..len)` keyed by the timestamp -/
def ValidIdx (times : List Nat) (idx : List Nat) : Prop :=
  idx.Perm (List.range times.length) ∧ ∃ ts, permute times idx = some ts ∧ ts.Pairwise (· ≤ ·)

end STab
