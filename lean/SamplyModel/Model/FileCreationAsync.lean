import SamplyModel.Model.FileCreation
/-!
The two real write callbacks of `create_file_cleanly` (`wholesym/src/downloader.rs:322-347`,
`wholesym/src/breakpad.rs:206-216`) do not write through the `std::fs::File` they are given: they wrap it
in a `tokio::fs::File`. `write_all(..).await` on a `tokio::fs::File` copies the bytes into the file's
buffer, hands a `write(2)` of that buffer to the runtime's blocking pool and returns `Ok` at once; the next
operation on the file (`write_all`, `flush`) first waits for the operation in flight. Dropping a
`tokio::fs::File` does NOT wait for the operation in flight (the closure on the blocking pool owns a clone
of the `Arc<std::fs::File>`, so the descriptor stays open until the write has been executed).

`FC` (Model/FileCreation.lean) treats a chunk as written the moment the callback has issued it. `FCA` keeps
that protocol state (`base`, advanced by `FC.next` and by nothing else) and adds what is really in the
inodes (`disk`) and the list of writes that were handed to the blocking pool and have not been executed
yet (`inflight`):

* `step p` inside the callback: the previous write of `p` is waited for (`settle`), the next chunk is
  handed to the pool (a new `Pending` at the descriptor's offset); at the end of the payload `flush`
  waits for the last one;
* `land n`: the blocking pool executes the n-th pending write: the chunk goes to the INODE the descriptor
  was opened on, at the descriptor's own offset (a hole in front of it reads as `0`);
* `cancel p` / `fail p` inside the callback (the future is dropped at `stream.read(..).await` /
  `flush().await`, or the callback returns `Err(StreamRead)` while its last write is still in flight):
  with `joinOnDrop = false` — the code as it is — the pending write stays pending; since the repair
  (`FC.cancelP`) the name `dest.part` is unlinked before `locked_file` is closed, so the write can only
  land on a nameless inode (`nextLegacy`: the code before the repair, where the name stayed); with
  `joinOnDrop = true` (what a synchronous `std::fs::File` callback does, or a callback that waited for
  its file) it is executed first;
* `crash p`: the process is gone, its pending writes with it (a write that had been executed before the
  kill is a `land` before the `crash`).

`open(O_TRUNC)` empties the inode on disk as well. Core Lean only.
-/
namespace FCA
open FC

/-- a `write(2)` handed to the blocking pool: through `owner`'s descriptor of `inode`, whose offset is
`off` chunks -/
structure Pending where
  owner : Pid
  inode : Inode
  off : Nat
  chunk : Nat
deriving DecidableEq, Repr

/-- effect of a write through a descriptor at offset `pos` on the contents of its inode -/
def writeAt (l : Content) (pos c : Nat) : Content :=
  if pos < l.length then l.set pos c else l ++ List.replicate (pos - l.length) 0 ++ [c]

structure State where
  /-- the protocol state (program counters, names, flock owners, winners); `base.content` is the contents
  as the callbacks account for them: every write that was issued counts as done -/
  base : FC.State
  /-- what the inodes really hold -/
  disk : Inode → Content
  inflight : List Pending

def State.init : State := { base := FC.State.init, disk := fun _ => [], inflight := [] }

def exec (disk : Inode → Content) (w : Pending) : Inode → Content :=
  upd disk w.inode (writeAt (disk w.inode) w.off w.chunk)

/-- wait for `p`'s operation in flight: it is executed now -/
def settle (p : Pid) (disk : Inode → Content) (fl : List Pending) : (Inode → Content) × List Pending :=
  (fl.foldl (fun d w => if w.owner = p then exec d w else d) disk, fl.filter (fun w => w.owner ≠ p))

inductive Act
  | base (a : FC.Act)
  | land (n : Nat)
deriving DecidableEq, Repr

/-- `joinOnDrop = false` is the real code -/
def next (joinOnDrop : Bool) (pl : Pid → Content) (s : State) : Act → Option State
  | .land n =>
    match s.inflight[n]? with
    | some w => some { s with disk := exec s.disk w, inflight := s.inflight.eraseIdx n }
    | none => none
  | .base a =>
    match FC.next pl s.base a with
    | none => none
    | some b =>
      let p := a.pid
      match a, s.base.pc p with
      | .step _, .absent _ =>                 -- open(part, O_CREAT|O_TRUNC): the inode is emptied on disk
        match b.part with
        | some j => some { s with base := b, disk := upd s.disk j [] }
        | none => some { s with base := b }
      | .step _, .writing _ j k =>            -- write_all / flush: first the operation in flight
        let (d, fl) := settle p s.disk s.inflight
        match (pl p)[k]? with
        | some c => some { base := b, disk := d, inflight := fl ++ [⟨p, j, k, c⟩] }
        | none => some { base := b, disk := d, inflight := fl }
      | .fail _, .writing _ _ _ | .cancel _, .writing _ _ _ =>   -- the tokio File is dropped
        if joinOnDrop then
          let (d, fl) := settle p s.disk s.inflight
          some { base := b, disk := d, inflight := fl }
        else some { s with base := b }
      | .crash _, _ => some { s with base := b, inflight := s.inflight.filter (fun w => w.owner ≠ p) }
      | _, _ => some { s with base := b }

/-- the deferred-write system of the code BEFORE the repair: `next false` over `FC.nextLegacy` (a future
dropped inside the callback leaves the name `dest.part` bound to the inode the queued write targets) -/
def nextLegacy (pl : Pid → Content) (s : State) : Act → Option State
  | .base (.cancel p) =>
    match FC.nextLegacy pl s.base (.cancel p) with
    | some b => some { s with base := b }
    | none => none
  | a => next false pl s a

def runLegacy (pl : Pid → Content) (s : State) : List Act → Option State
  | [] => some s
  | a :: as =>
    match nextLegacy pl s a with
    | some s' => runLegacy pl s' as
    | none => none

inductive Reachable (joinOnDrop : Bool) (pl : Pid → Content) : State → Prop
  | init : Reachable joinOnDrop pl State.init
  | step {s s' : State} (a : Act) : Reachable joinOnDrop pl s → next joinOnDrop pl s a = some s' →
      Reachable joinOnDrop pl s'

def isWritingPC : PC → Bool
  | .writing _ _ _ => true
  | _ => false

/-- the action drops the `tokio::fs::File` inside the write callback: the future is cancelled there, or the
callback returns `Err` -/
def dropsInCallback (s : State) : Act → Bool
  | .base (.cancel p) => isWritingPC (s.base.pc p)
  | .base (.fail p) => isWritingPC (s.base.pc p)
  | _ => false

/-- histories of the code as it is (`joinOnDrop = false`) in which no write is in flight whenever a callback
is dropped or returns an error (e.g. the pool executes every write before the next event; a `DiskWrite`
error always satisfies this: it is the in-flight write itself that reported it) -/
inductive ReachableQD (pl : Pid → Content) : State → Prop
  | init : ReachableQD pl State.init
  | step {s s' : State} (a : Act) : ReachableQD pl s → (dropsInCallback s a = true → s.inflight = []) →
      next false pl s a = some s' → ReachableQD pl s'

def run (joinOnDrop : Bool) (pl : Pid → Content) (s : State) : List Act → Option State
  | [] => some s
  | a :: as =>
    match next joinOnDrop pl s a with
    | some s' => run joinOnDrop pl s' as
    | none => none

/-- the bytes really visible at the final path -/
def State.destDisk (s : State) : Option Content := s.base.dest.map s.disk

/-- the bytes really in the temp file -/
def State.partDisk (s : State) : Option Content := s.base.part.map s.disk

end FCA
