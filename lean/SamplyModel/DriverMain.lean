import SamplyModel.Proto
/-!
Generic main loop of the per-property model drivers (`Drivers/Cxx.lean`).

`model_cxx model`  reads case blocks of operations on stdin, prints the model's output blocks.
`model_cxx judge`  reads case blocks `ops… impl out…`, prints `case <n> ok` / `case <n> FAIL <why>`.
Core Lean only, so the drivers link as native executables.
-/
open Proto

partial def readAll (h : IO.FS.Stream) (acc : Array String) : IO (Array String) := do
  let line ← h.getLine
  if line.isEmpty then return acc
  readAll h (acc.push line)

def driverMain (model : List String → List String)
    (judge : List String → List String → Bool × String) (args : List String) : IO UInt32 := do
  let stdin ← IO.getStdin
  let out ← IO.getStdout
  match args with
  | "model" :: _ =>
    let lines ← readAll stdin #[]
    for c in splitCases lines.toList do
      out.putStrLn s!"case {c.n}"
      for l in model c.lines do out.putStrLn l
      out.putStrLn "end"
    return 0
  | "judge" :: _ =>
    let lines ← readAll stdin #[]
    for c in splitCases lines.toList do
      let (ops, impl) := splitImpl c.lines
      let (ok, why) := judge ops impl
      out.putStrLn (if ok then s!"case {c.n} ok {why}" else s!"case {c.n} FAIL {why}")
    return 0
  | _ =>
    IO.eprintln "usage: model_cxx (model|judge) < cases"
    return 2
