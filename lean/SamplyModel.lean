-- Root of the `SamplyModel` library. All modules under `SamplyModel/` are built through the
-- `globs` entry of lakefile.toml; nothing needs to be imported here.
import SamplyModel.Model.SymbolicateFront
import SamplyModel.Lemmas.SymbolicateE
