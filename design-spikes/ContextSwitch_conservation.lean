/-! C12 spike (v2): context switch accounting, explicit components -/
namespace CS

inductive TState | unknown | off (t : Nat) | on (t : Nat)
deriving Repr, DecidableEq

structure Group where
  begin_ : Nat
  end_ : Nat
  count : Nat
deriving Repr

/-- returns (new offAcc, group) -/
def maybeConsume (interval ts offAcc : Nat) : Nat × Option Group :=
  if offAcc < interval then (offAcc, none) else
    let count := offAcc / interval
    let remaining := offAcc - count * interval
    (remaining, some ⟨ts - (offAcc - interval), ts - remaining, count⟩)

inductive Ev | switchIn (t : Nat) | switchOut (t : Nat) | sample (t : Nat) | consume

structure St where
  state : TState
  onAcc : Nat
  offAcc : Nat

/-- one step of the real module; outputs: optional group, optional handed-out cpu delta -/
def step (interval : Nat) : St → Ev → St × Option Group × Option Nat
  | ⟨.unknown, on, off⟩, .switchOut t => (⟨.off t, on, off⟩, none, none)
  | ⟨.on t0, on, off⟩, .switchOut t => (⟨.off t, on + (t - t0), off⟩, none, none)
  | ⟨.off t0, on, off⟩, .switchOut _ => (⟨.off t0, on, off⟩, none, none)
  | ⟨.unknown, on, off⟩, .switchIn t => (⟨.on t, on, off⟩, none, none)
  | ⟨.on t0, on, off⟩, .switchIn t => (⟨.on t, on + (t - t0), off⟩, none, none)
  | ⟨.off t0, on, off⟩, .switchIn t =>
      let r := maybeConsume interval t (off + (t - t0)); (⟨.on t, on, r.1⟩, r.2, none)
  | ⟨.unknown, on, off⟩, .sample t => (⟨.on t, on, off⟩, none, none)
  | ⟨.on t0, on, off⟩, .sample t => (⟨.on t, on + (t - t0), off⟩, none, none)
  | ⟨.off t0, on, off⟩, .sample t =>
      let r := maybeConsume interval t (off + (t - t0)); (⟨.on t, on, r.1⟩, r.2, none)
  | ⟨s, on, off⟩, .consume => (⟨s, 0, off⟩, none, some on)

/-- history-level spec: last event (time, runningAfter), running and sleeping totals -/
structure H where
  last : Option (Nat × Bool)
  running : Nat
  sleeping : Nat

def gap (h : H) (t : Nat) (runAfter : Bool) : H :=
  match h.last with
  | none => ⟨some (t, runAfter), h.running, h.sleeping⟩
  | some (t0, true) => ⟨some (t, runAfter), h.running + (t - t0), h.sleeping⟩
  | some (t0, false) => ⟨some (t, runAfter), h.running, h.sleeping + (t - t0)⟩

def hstep (h : H) : Ev → H
  | .consume => h
  | .switchIn t | .sample t => gap h t true
  | .switchOut t => gap h t false

def Ev.time? : Ev → Option Nat
  | .switchIn t | .switchOut t | .sample t => some t
  | .consume => none

def timeOk (h : H) (e : Ev) : Prop :=
  match e.time?, h.last with
  | some t, some (t0, _) => t0 ≤ t
  | _, _ => True

/-- handed = Σ consumed deltas, groups = Σ group.count -/
def Inv (interval : Nat) (st : St) (h : H) (handed groups : Nat) : Prop :=
  handed + st.onAcc = h.running ∧ st.offAcc < interval ∧
  match st.state, h.last with
  | .unknown, none => groups * interval + st.offAcc = h.sleeping
  | .on t, some (t', true) => t = t' ∧ groups * interval + st.offAcc = h.sleeping
  | .off t, some (t', false) => t ≤ t' ∧ groups * interval + st.offAcc + (t' - t) = h.sleeping
  | _, _ => False

theorem maybeConsume_spec (interval ts offAcc : Nat) (hi : 0 < interval) :
    (maybeConsume interval ts offAcc).1 < interval ∧
    ((maybeConsume interval ts offAcc).2.map (·.count)).getD 0 * interval
      + (maybeConsume interval ts offAcc).1 = offAcc := by
  unfold maybeConsume
  by_cases h : offAcc < interval
  · simp [h]
  · simp only [h, if_false, Option.map_some, Option.getD_some]
    have hdm := Nat.div_add_mod offAcc interval
    have hml := Nat.mod_lt offAcc hi
    have hmul : offAcc / interval * interval = interval * (offAcc / interval) := Nat.mul_comm _ _
    constructor <;> omega

/-- group lies strictly inside the sleep [t0, ts] that triggered it -/
theorem maybeConsume_inside (interval ts t0 prevOff : Nat) (hi : 0 < interval)
    (hp : prevOff < interval) (ht : t0 ≤ ts) (g : Group)
    (hg : (maybeConsume interval ts (prevOff + (ts - t0))).2 = some g) :
    t0 < g.begin_ ∧ g.begin_ ≤ g.end_ ∧ g.end_ ≤ ts ∧ g.end_ - g.begin_ = (g.count - 1) * interval ∧ 1 ≤ g.count := by
  unfold maybeConsume at hg
  by_cases h : prevOff + (ts - t0) < interval
  · simp [h] at hg
  · simp only [h, if_false, Option.some.injEq] at hg
    subst hg
    simp only
    have hdm := Nat.div_add_mod (prevOff + (ts - t0)) interval
    have hml := Nat.mod_lt (prevOff + (ts - t0)) hi
    have hc1 : 1 ≤ (prevOff + (ts - t0)) / interval := Nat.div_pos (by omega) hi
    generalize (prevOff + (ts - t0)) / interval = q at *
    generalize (prevOff + (ts - t0)) % interval = r at *
    have hq : q * interval = interval * q := Nat.mul_comm _ _
    have hq1 : (q - 1) * interval = interval * q - interval := by
      rw [Nat.sub_mul, Nat.one_mul, hq]
    have hpq : interval ≤ interval * q := by
      have : interval * 1 ≤ interval * q := Nat.mul_le_mul_left _ hc1
      omega
    generalize interval * q = pq at *
    refine ⟨by omega, by omega, by omega, by omega, hc1⟩

theorem inv_step (interval : Nat) (hi : 0 < interval) (st : St) (h : H) (handed groups : Nat) (e : Ev)
    (hinv : Inv interval st h handed groups) (ht : timeOk h e) :
    Inv interval (step interval st e).1 (hstep h e)
      (handed + (step interval st e).2.2.getD 0)
      (groups + ((step interval st e).2.1.map (·.count)).getD 0) := by
  obtain ⟨s, on, off⟩ := st
  obtain ⟨last, run, slp⟩ := h
  obtain ⟨h1, h2, h3⟩ := hinv
  simp only at h1 h2
  cases s <;> cases last <;> simp only at h3
  all_goals try exact h3.elim
  -- unknown / none
  · cases e <;> simp [step, hstep, gap, Inv] <;> omega
  all_goals (rename_i t p; obtain ⟨t', b⟩ := p; cases b <;> simp only at h3)
  all_goals try exact h3.elim
  -- off t / (t', false)
  · obtain ⟨h3a, h3b⟩ := h3
    cases e with
    | consume => simp [step, hstep, Inv]; omega
    | switchOut u => simp [timeOk, Ev.time?] at ht; simp [step, hstep, gap, Inv]; omega
    | switchIn u =>
      simp [timeOk, Ev.time?] at ht
      have hm := maybeConsume_spec interval u (off + (u - t)) hi
      simp only [step, hstep, gap, Inv, Option.getD_none, Nat.add_zero]
      refine ⟨h1, hm.1, trivial, ?_⟩
      rw [Nat.add_mul]; omega
    | sample u =>
      simp [timeOk, Ev.time?] at ht
      have hm := maybeConsume_spec interval u (off + (u - t)) hi
      simp only [step, hstep, gap, Inv, Option.getD_none, Nat.add_zero]
      refine ⟨h1, hm.1, trivial, ?_⟩
      rw [Nat.add_mul]; omega
  -- on t / (t', true)
  · obtain ⟨h3a, h3b⟩ := h3
    subst h3a
    cases e <;> simp [timeOk, Ev.time?] at ht <;> simp [step, hstep, gap, Inv] <;> omega

#print axioms inv_step
#print axioms maybeConsume_inside
end CS
