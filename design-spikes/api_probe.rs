use std::fs::File;

use std::path::PathBuf;

pub use samply_api::debugid::DebugId;
use samply_api::{samply_symbols, Api};
use samply_symbols::{
    CandidatePathInfo, FileAndPathHelper, FileAndPathHelperResult, FileLocation, LibraryInfo,
    OptionallySendFuture, SymbolManager,
};

pub async fn query_api(request_url: &str, request_json: &str, symbol_directory: PathBuf) -> String {
    let helper = Helper { symbol_directory };
    let symbol_manager = SymbolManager::with_helper(helper);
    let api = Api::new(&symbol_manager);
    api.query_api(request_url, request_json).await
}
struct Helper {
    symbol_directory: PathBuf,
}

impl FileAndPathHelper for Helper {
    type F = memmap2::Mmap;
    type FL = FileLocationType;

    fn get_candidate_paths_for_debug_file(
        &self,
        library_info: &LibraryInfo,
    ) -> FileAndPathHelperResult<Vec<CandidatePathInfo<FileLocationType>>> {
        let debug_name = match library_info.debug_name.as_deref() {
            Some(debug_name) => debug_name,
            None => return Ok(Vec::new()),
        };

        let mut paths = vec![];

        // Check .so.dbg files in the symbol directory.
        if debug_name.ends_with(".so") {
            let debug_debug_name = format!("{debug_name}.dbg");
            paths.push(CandidatePathInfo::SingleFile(FileLocationType(
                self.symbol_directory.join(debug_debug_name),
            )));
        }

        // And dSYM packages.
        if !debug_name.ends_with(".pdb") {
            paths.push(CandidatePathInfo::SingleFile(FileLocationType(
                self.symbol_directory
                    .join(format!("{debug_name}.dSYM"))
                    .join("Contents")
                    .join("Resources")
                    .join("DWARF")
                    .join(debug_name),
            )));
        }

        // Finally, the file itself.
        paths.push(CandidatePathInfo::SingleFile(FileLocationType(
            self.symbol_directory.join(debug_name),
        )));

        // For macOS system libraries, also consult the dyld shared cache.
        if self.symbol_directory.starts_with("/usr/")
            || self.symbol_directory.starts_with("/System/")
        {
            if let Some(dylib_path) = self.symbol_directory.join(debug_name).to_str() {
                paths.extend(
                    self.get_dyld_shared_cache_paths(None)
                        .unwrap()
                        .into_iter()
                        .map(|dyld_cache_path| CandidatePathInfo::InDyldCache {
                            dyld_cache_path,
                            dylib_path: dylib_path.to_string(),
                        }),
                );
            }
        }

        Ok(paths)
    }

    fn get_dyld_shared_cache_paths(
        &self,
        _arch: Option<&str>,
    ) -> FileAndPathHelperResult<Vec<FileLocationType>> {
        Ok(vec![
            FileLocationType::new("/System/Library/dyld/dyld_shared_cache_arm64e"),
            FileLocationType::new("/System/Library/dyld/dyld_shared_cache_x86_64h"),
            FileLocationType::new("/System/Library/dyld/dyld_shared_cache_x86_64"),
        ])
    }

    fn load_file(
        &self,
        location: FileLocationType,
    ) -> std::pin::Pin<Box<dyn OptionallySendFuture<Output = FileAndPathHelperResult<Self::F>> + '_>>
    {
        Box::pin(async {
            let mut path = location.0;

            if !path.starts_with(&self.symbol_directory) {
                // See if this file exists in self.symbol_directory.
                // For example, when looking up object files referenced by mach-O binaries,
                // we want to take the object files from the symbol directory if they exist,
                // rather than from the original path.
                if let Some(filename) = path.file_name() {
                    let redirected_path = self.symbol_directory.join(filename);
                    if std::fs::metadata(&redirected_path).is_ok() {
                        // redirected_path exists!
                        eprintln!("Redirecting {:?} to {:?}", &path, &redirected_path);
                        path = redirected_path;
                    }
                }
            }

            eprintln!("Reading file {:?}", &path);
            let file = File::open(&path)?;
            Ok(unsafe { memmap2::MmapOptions::new().map(&file)? })
        })
    }

    fn get_candidate_paths_for_binary(
        &self,
        library_info: &LibraryInfo,
    ) -> FileAndPathHelperResult<Vec<CandidatePathInfo<FileLocationType>>> {
        let name = match library_info.name.as_deref() {
            Some(name) => name,
            None => return Ok(Vec::new()),
        };

        let mut paths = vec![];

        // Start with the file itself.
        paths.push(CandidatePathInfo::SingleFile(FileLocationType(
            self.symbol_directory.join(name),
        )));

        // For macOS system libraries, also consult the dyld shared cache.
        if self.symbol_directory.starts_with("/usr/")
            || self.symbol_directory.starts_with("/System/")
        {
            if let Some(dylib_path) = self.symbol_directory.join(name).to_str() {
                paths.extend(
                    self.get_dyld_shared_cache_paths(None)
                        .unwrap()
                        .into_iter()
                        .map(|dyld_cache_path| CandidatePathInfo::InDyldCache {
                            dyld_cache_path,
                            dylib_path: dylib_path.to_string(),
                        }),
                );
            }
        }

        Ok(paths)
    }
}

#[derive(Clone)]
struct FileLocationType(PathBuf);

impl FileLocationType {
    pub fn new(path: impl Into<PathBuf>) -> Self {
        Self(path.into())
    }
}

impl std::fmt::Display for FileLocationType {
    fn fmt(&self, f: &mut std::fmt::Formatter<'_>) -> std::fmt::Result {
        self.0.to_string_lossy().fmt(f)
    }
}

impl FileLocation for FileLocationType {
    fn location_for_dyld_subcache(&self, suffix: &str) -> Option<Self> {
        let mut filename = self.0.file_name().unwrap().to_owned();
        filename.push(suffix);
        Some(Self(self.0.with_file_name(filename)))
    }

    fn location_for_external_object_file(&self, object_file: &str) -> Option<Self> {
        Some(Self(object_file.into()))
    }

    fn location_for_pdb_from_binary(&self, _pdb_path_in_binary: &str) -> Option<Self> {
        // Don't allow getting the pdb via the binary in this test.
        // There's a test below which wants to check if we can get symbols from
        // the symbol table of the "mozglue.dll" binary, and it doesn't have an easy
        // way to prohibit getting symbols from the "mozglue.pdb" next to it.
        // Also, `pdb_path_in_binary` has backslashes in it, so if we just convert it
        // to a path we get different behavior on Windows vs Unix.
        None
    }

    fn location_for_source_file(&self, source_file_path: &str) -> Option<Self> {
        Some(Self(source_file_path.into()))
    }

    fn location_for_breakpad_symindex(&self) -> Option<Self> {
        Some(Self(self.0.with_extension("symindex")))
    }

    fn location_for_dwo(&self, _comp_dir: &str, _path: &str) -> Option<Self> {
        None // TODO
    }

    fn location_for_dwp(&self) -> Option<Self> {
        let mut s = self.0.as_os_str().to_os_string();
        s.push(".dwp");
        Some(Self(s.into()))
    }
}


fn q(url:&str, body:&str, dir:&str) -> Result<String,String> {
    let d = PathBuf::from("/repo/fixtures").join(dir);
    let url=url.to_string(); let body=body.to_string();
    std::panic::catch_unwind(move || futures::executor::block_on(query_api(&url,&body,d))).map_err(|e| {
        if let Some(s)=e.downcast_ref::<String>() { s.clone() } else if let Some(s)=e.downcast_ref::<&str>() { s.to_string() } else { "panic".into() }
    })
}
fn main() {
    // C20: sweep start addresses in firefox.exe .text for responses with undecodable instructions
    let mut shown=0;
    for start in (0x17a20u32..0x17a20+0x4000).step_by(7) {
        let body=format!(r#"{{"name":"firefox.exe","debugName":"firefox.pdb","debugId":"8A913DE821D9DE764C4C44205044422E1","startAddress":"{:#x}","size":"0x40"}}"#, start);
        let r=q("/asm/v1",&body,"win64-local").unwrap();
        let v:serde_json::Value=serde_json::from_str(&r).unwrap();
        if let Some(ins)=v["instructions"].as_array() {
            let has_bad = ins.iter().any(|i| i[1].as_str().unwrap_or("").contains("Invalid instruction"));
            let last = ins.last().map(|i| i[0].as_u64().unwrap()).unwrap_or(0);
            let size = u64::from_str_radix(v["size"].as_str().unwrap().trim_start_matches("0x"),16).unwrap();
            if has_bad && shown<3 { println!("C20 start={:#x} n={} last_off={} size={} (size>last: {})", start, ins.len(), last, size, size>last); shown+=1; }
        }
    }
    // C08 (1): size near u32::MAX
    let body=r#"{"name":"firefox.exe","debugName":"firefox.pdb","debugId":"8A913DE821D9DE764C4C44205044422E1","startAddress":"0x17a20","size":"0xfffffff8"}"#;
    println!("C08 asm size overflow: {:?}", q("/asm/v1",body,"win64-local").map(|s| s.chars().take(80).collect::<String>()));
    // C08 (2): codeId with multibyte char at byte 8
    let body=r#"{"name":"firefox.exe","codeId":"1234567éA","startAddress":"0x17a20","size":"0x8"}"#;
    println!("C08 codeId multibyte: {:?}", q("/asm/v1",body,"win64-local").map(|s| s.chars().take(80).collect::<String>()));
    let body=r#"{"name":"x","codeId":"0123456789abcdef0éé","startAddress":"0x17a20","size":"0x8"}"#;
    println!("C08 codeId elf multibyte: {:?}", q("/asm/v1",body,"win64-local").map(|s| s.chars().take(80).collect::<String>()));
}
