#[path = "/repo/wholesym/src/file_creation.rs"]
#[allow(dead_code)]
mod file_creation;
use file_creation::create_file_cleanly;
use std::io::Write;
use std::path::PathBuf;

#[derive(Debug)]
struct E(String);
impl std::fmt::Display for E { fn fmt(&self, f: &mut std::fmt::Formatter<'_>) -> std::fmt::Result { write!(f, "{}", self.0) } }
impl std::error::Error for E {}

#[tokio::main(flavor = "current_thread")]
async fn main() {
    let args: Vec<String> = std::env::args().collect();
    let dest = PathBuf::from(&args[1]);
    let mode = args[2].clone();
    eprintln!("BEGIN {mode}");
    let r = create_file_cleanly(&dest,
        |mut f: std::fs::File| { let mode = mode.clone(); async move {
            f.write_all(b"hello ").map_err(|e| E(e.to_string()))?;
            if mode == "fail" { return Err(E("boom".into())); }
            f.write_all(b"world").map_err(|e| E(e.to_string()))?;
            drop(f);
            Ok::<u32, E>(1)
        }},
        || async { Ok::<u32, E>(2) }).await;
    eprintln!("END {:?}", r.map_err(|e| e.to_string()));
}
