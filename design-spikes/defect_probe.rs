// Scratch driver used while writing DESIGN.md (not part of the framework).
// Cargo deps: fxprof-processed-profile, samply-symbols, samply-quota-manager (path = /repo/...),
// serde_json, tokio { rt-multi-thread, macros, time, fs }.  Built with an empty [workspace] and a
// copy of /repo/Cargo.lock, CARGO_NET_OFFLINE=true.
use fxprof_processed_profile::*;
use std::panic::catch_unwind;
use std::time::{SystemTime, Duration};
use samply_symbols::{FileByteSource, FileContentsWithChunkedCaching, FileContents, FileAndPathHelperResult};

struct Src(Vec<u8>);
impl FileByteSource for Src {
    fn read_bytes_into(&self, buffer: &mut Vec<u8>, offset: u64, size: usize) -> FileAndPathHelperResult<()> {
        buffer.extend_from_slice(&self.0[offset as usize..offset as usize+size]); Ok(())
    }
}

fn c04() {
    let r = catch_unwind(|| {
        let mut p = Profile::new("x", ReferenceTimestamp::from_millis_since_unix_epoch(0.0), SamplingInterval::from_millis(1));
        let pr = p.add_process("p", 1, Timestamp::from_nanos_since_reference(0));
        let t = p.add_thread(pr, 1, Timestamp::from_nanos_since_reference(0), true);
        p.add_sample(t, Timestamp::from_nanos_since_reference(10_000_000), None, CpuDelta::ZERO, 1);
        p.add_sample_same_stack_zero_cpu(t, Timestamp::from_nanos_since_reference(20_000_000), 1);
        p.add_sample(t, Timestamp::from_nanos_since_reference(15_000_000), None, CpuDelta::from_micros(5), 1);
        let v = serde_json::to_value(&p).unwrap();
        println!("C04 samples: {}", v["threads"][0]["samples"]);
    });
    println!("C04 result: {:?}", r.is_ok());
}
fn c03() {
    let mut p = Profile::new("x", ReferenceTimestamp::from_millis_since_unix_epoch(0.0), SamplingInterval::from_millis(1));
    let pr = p.add_process("p", 1, Timestamp::from_nanos_since_reference(0));
    let _t1 = p.add_thread(pr, 1, Timestamp::from_nanos_since_reference(0), true);
    let t2 = p.add_thread(pr, 2, Timestamp::from_nanos_since_reference(0), false);
    let s = p.handle_for_string("f");
    let f = p.handle_for_frame_with_label(t2, s, CategoryHandle::OTHER, FrameFlags::empty());
    let st = p.handle_for_stack(t2, f, None);
    p.add_allocation_sample(t2, Timestamp::from_nanos_since_reference(1), Some(st), 0x1000, 64);
    let v = serde_json::to_value(&p).unwrap();
    for th in v["threads"].as_array().unwrap() {
        println!("C03 tid {} stackTable.length {} nativeAllocations {}", th["tid"], th["stackTable"]["length"], th.get("nativeAllocations").map(|x| x["stack"].to_string()).unwrap_or_default());
    }
}
fn c13() {
    let data: Vec<u8> = (0..100u8).collect();
    let r = catch_unwind(|| {
        let fc = FileContentsWithChunkedCaching::new(100, Src((0..100u8).collect()));
        let x = fc.read_bytes_at_until(10..10, 50);
        println!("C13 empty range fresh: {:?}", x.map(|b| b.to_vec()).map_err(|e| e.to_string()));
    });
    println!("C13 empty-range no panic: {}", r.is_ok());
    let fc = FileContentsWithChunkedCaching::new(100, Src(data.clone()));
    let fresh = fc.read_bytes_at_until(10..20, 50).map(|b| b.to_vec()).map_err(|e| e.to_string());
    let fc2 = FileContentsWithChunkedCaching::new(100, Src(data));
    let _ = fc2.read_bytes_at_until(10..100, 50).map(|b| b.to_vec());
    let after = fc2.read_bytes_at_until(10..20, 50).map(|b| b.to_vec()).map_err(|e| e.to_string());
    println!("C13 fresh(10..20,delim@50): {:?}\nC13 after long read:       {:?}", fresh, after);
}
async fn c15() {
    let dir = std::env::temp_dir().join(format!("qm-{}", std::process::id()));
    let _ = std::fs::remove_dir_all(&dir);
    std::fs::create_dir_all(dir.join("root")).unwrap();
    let root = dir.join("root");
    let qm = samply_quota_manager::QuotaManager::new(&root, &dir.join("db.sqlite")).unwrap();
    let n = qm.notifier();
    let now = SystemTime::now();
    for (i, sz) in [(1u64, 100u64), (2, 100), (3, 100)] {
        let p = root.join(format!("f{i}"));
        std::fs::write(&p, vec![0u8; sz as usize]).unwrap();
        n.on_file_created(&p, sz, now - Duration::from_secs(1000 * (10 - i)));
    }
    qm.set_max_total_size(Some(300)); // total == limit
    n.trigger_eviction_if_needed();
    tokio::time::sleep(Duration::from_millis(300)).await;
    let mut names: Vec<_> = std::fs::read_dir(&root).unwrap().map(|e| e.unwrap().file_name().into_string().unwrap()).collect();
    names.sort();
    println!("C15 total==limit, remaining files: {:?}", names);
    std::fs::remove_file(root.join("f2")).unwrap(); // external deletion
    qm.set_max_total_size(Some(50));
    n.trigger_eviction_if_needed();
    tokio::time::sleep(Duration::from_millis(300)).await;
    let mut names: Vec<_> = std::fs::read_dir(&root).unwrap().map(|e| e.unwrap().file_name().into_string().unwrap()).collect();
    names.sort();
    println!("C15 after external delete + limit 50, remaining: {:?}", names);
    let r = tokio::time::timeout(Duration::from_secs(2), qm.finish()).await;
    println!("C15 finish: {:?}", r.is_ok());
    let _ = std::fs::remove_dir_all(&dir);
}
#[tokio::main]
async fn main() { c04(); c03(); c13(); c15().await; }
