import struct, sys
# minimal perf.data writer (spike)
PERF_RECORD_MMAP2=10; PERF_RECORD_COMM=3; PERF_RECORD_EXIT=4; PERF_RECORD_FORK=7; PERF_RECORD_SAMPLE=9
PERF_RECORD_FINISHED_ROUND=68
S_IP=1; S_TID=2; S_TIME=4; S_ADDR=8; S_READ=16; S_CALLCHAIN=32; S_ID=64; S_CPU=128; S_PERIOD=256
sample_type = S_IP|S_TID|S_TIME|S_CPU|S_PERIOD|S_CALLCHAIN
FLAG_SAMPLE_ID_ALL = 1<<18
FLAG_MMAP=1<<8; FLAG_COMM=1<<9; FLAG_TASK=1<<13; FLAG_MMAP2=1<<23; FLAG_COMM_EXEC=1<<24
flags = FLAG_SAMPLE_ID_ALL|FLAG_MMAP|FLAG_COMM|FLAG_TASK|FLAG_MMAP2|FLAG_COMM_EXEC
def attr():
    # type=1 (software), size=128, config=0 (cpu-clock)
    b = struct.pack('<IIQQQQQIIQQQQIIQIHHIIQ', 1,128,0, 1000000, sample_type, 0, flags, 0,0, 0,0,0, 0,0,0, 0, 0,0,0, 0,0, 0)
    assert len(b)==128, len(b)
    return b
def sample_id(pid,tid,t,cpu):
    # trailer for non-sample records with sample_id_all: TID, TIME, CPU (ID/STREAM_ID/IDENTIFIER absent)
    return struct.pack('<IIQII', pid & 0xffffffff, tid & 0xffffffff, t, cpu, 0)
def rec(typ, misc, body):
    size = 8+len(body); assert size < 65536 and size%8==0, size
    return struct.pack('<IHH', typ, misc, size)+body
def pad8(b):
    return b + b'\0'*((8-len(b)%8)%8)
def sample(pid,tid,t,ip,chain,cpu=0,period=1000000, misc=2):
    body = struct.pack('<QIIQII Q', ip, pid, tid, t, cpu, 0, period)
    body += struct.pack('<Q', len(chain)) + b''.join(struct.pack('<Q',a) for a in chain)
    return rec(PERF_RECORD_SAMPLE, misc, body)
def comm(pid,tid,name,t,exec_=False):
    body = struct.pack('<II', pid, tid) + pad8(name.encode()+b'\0') + sample_id(pid,tid,t,0)
    return rec(PERF_RECORD_COMM, (1<<13) if exec_ else 0, body)
def fork(pid,ppid,tid,ptid,t):
    body = struct.pack('<IIIIQ', pid,ppid,tid,ptid,t) + sample_id(pid,tid,t,0)
    return rec(PERF_RECORD_FORK,0,body)
def exit_(pid,ppid,tid,ptid,t):
    body = struct.pack('<IIIIQ', pid,ppid,tid,ptid,t) + sample_id(pid,tid,t,0)
    return rec(PERF_RECORD_EXIT,0,body)
def mmap2(pid,tid,addr,length,pgoff,path,t,prot=5):
    body = struct.pack('<IIQQQIIQQII', pid,tid,addr,length,pgoff, 0,0,0,0, prot, 2) + pad8(path.encode()+b'\0') + sample_id(pid,tid,t,0)
    return rec(PERF_RECORD_MMAP2, 2, body)
def finished_round():
    return rec(PERF_RECORD_FINISHED_ROUND,0,b'')
def write(path, records, first_time=None, last_time=None):
    data = b''.join(records)
    header_size=104
    attr_b = attr() + struct.pack('<QQ', 0, 0)   # ids section: offset,size
    attr_off = header_size
    data_off = attr_off+len(attr_b)
    feat_bits=[0,0,0,0]
    feat_secs=[]
    feat_data=b''
    if first_time is not None:
        FEATURE_SAMPLE_TIME=21
        feat_bits[0] |= 1<<FEATURE_SAMPLE_TIME
        feat_data = struct.pack('<QQ', first_time, last_time)
    feat_table_off = data_off+len(data)
    nfeat = 1 if first_time is not None else 0
    feat_payload_off = feat_table_off + 16*nfeat
    hdr = b'PERFILE2'+struct.pack('<QQ', header_size, len(attr_b)) + struct.pack('<QQ', attr_off, len(attr_b)) + struct.pack('<QQ', data_off, len(data)) + struct.pack('<QQ',0,0) + struct.pack('<QQQQ',*feat_bits)
    assert len(hdr)==104
    out = hdr+attr_b+data
    if nfeat:
        out += struct.pack('<QQ', feat_payload_off, len(feat_data)) + feat_data
    open(path,'wb').write(out)
if __name__=='__main__':
    T=1000000
    recs=[
      comm(100,100,'parent',10*T),
      mmap2(100,100,0x400000,0x10000,0x1000,'/nonexistent/bin/app',11*T),
      sample(100,100,12*T,0x400100,[0xfffffffffffffe00,0x400100,0x400205,0x400309]),
      fork(200,100,200,100,13*T),
      comm(200,200,'child',14*T,exec_=True),
      sample(200,200,15*T,0x400100,[0xfffffffffffffe00,0x400100]),
      sample(200,200,15*T,0x400100,[0xfffffffffffffe00,0x400100]),
      fork(100,100,101,100,16*T),
      sample(100,101,17*T,0x400100,[0xfffffffffffffe00,0x400150]),
      comm(100,101,'worker',18*T),
      exit_(100,100,101,100,19*T),
      sample(100,100,20*T,0x500000,[0xfffffffffffffe00,0x500000]),
      exit_(200,100,200,100,21*T),
      finished_round(),
    ]
    write(sys.argv[1], recs, 12*T, 20*T)
