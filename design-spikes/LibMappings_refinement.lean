/-! C11 spike: LibMappings concrete (sorted list keyed by start) vs abstract "live list" -/
namespace LM

structure M where
  s : Nat
  e : Nat
  rel : Nat
  v : Nat
deriving Repr, DecidableEq

abbrev Map := List M   -- kept sorted strictly by `s`

def covers (m : M) (a : Nat) : Bool := m.s ≤ a && a < m.e
def overlaps (m : M) (s e : Nat) : Bool := m.s < e && s < m.e

/-- BTreeMap::range(..=a).next_back() : last entry with start ≤ a -/
def lastLE : Map → Nat → Option M
  | [], _ => none
  | m :: ms, a => if m.s ≤ a then (match lastLE ms a with | some m' => some m' | none => some m) else none

def lookupImpl (mp : Map) (a : Nat) : Option M :=
  match lastLE mp a with
  | some m => if a < m.e then some m else none
  | none => none

/-- insert keeping sorted; replace equal key -/
def insert (x : M) : Map → Map
  | [] => [x]
  | m :: ms => if x.s < m.s then x :: m :: ms else if x.s = m.s then x :: ms else m :: insert x ms

def removeRange (lo hi : Nat) (mp : Map) : Map := mp.filter (fun m => !(lo ≤ m.s && m.s < hi))

def add (mp : Map) (x : M) : Map :=
  let lo := match lookupImpl mp x.s with | some m => m.s | none => x.s
  insert x (removeRange lo x.e mp)

def removeKey (mp : Map) (s : Nat) : Map := mp.filter (fun m => m.s != s)

inductive Op | add (x : M) | remove (s : Nat) | clear

def step (mp : Map) : Op → Map
  | .add x => add mp x
  | .remove s => removeKey mp s
  | .clear => []

/-- abstract: unordered list of live mappings -/
def astep (l : List M) : Op → List M
  | .add x => l.filter (fun m => !overlaps m x.s x.e) ++ [x]
  | .remove s => l.filter (fun m => m.s != s)
  | .clear => []

def alookup (l : List M) (a : Nat) : Option M := l.find? (covers · a)

/-- invariant: sorted strictly by start, nonempty ranges, consecutive disjoint -/
def Sorted : Map → Prop
  | [] => True
  | [m] => m.s < m.e
  | m :: n :: ms => m.s < m.e ∧ m.e ≤ n.s ∧ Sorted (n :: ms)

end LM

namespace LM

def WF (mp : Map) : Prop := mp.Pairwise (fun m n => m.e ≤ n.s) ∧ ∀ m ∈ mp, m.s < m.e

theorem WF_tail {m : M} {ms : Map} (h : WF (m :: ms)) : WF ms := by
  obtain ⟨hp, hn⟩ := h
  exact ⟨(List.pairwise_cons.mp hp).2, fun x hx => hn x (List.mem_cons_of_mem _ hx)⟩

theorem lastLE_spec (mp : Map) (a : Nat) (h : WF mp) :
    match lastLE mp a with
    | none => ∀ m ∈ mp, a < m.s
    | some m => m ∈ mp ∧ m.s ≤ a ∧ ∀ n ∈ mp, n ≠ m → (n.e ≤ m.s ∨ a < n.s) := by
  induction mp with
  | nil => simp [lastLE]
  | cons m0 ms ih =>
    have ih := ih (WF_tail h)
    obtain ⟨hp, hn⟩ := h
    have hp' := List.pairwise_cons.mp hp
    simp only [lastLE]
    by_cases h0 : m0.s ≤ a
    · simp only [h0, if_true]
      cases hl : lastLE ms a with
      | none =>
        simp only [hl] at ih
        refine ⟨List.mem_cons_self, h0, ?_⟩
        intro n hn' hne
        rcases List.mem_cons.mp hn' with rfl | hmem
        · exact absurd rfl hne
        · right; exact ih n hmem
      | some m' =>
        simp only [hl] at ih
        obtain ⟨hm', hle, hrest⟩ := ih
        refine ⟨List.mem_cons_of_mem _ hm', hle, ?_⟩
        intro n hn' hne
        rcases List.mem_cons.mp hn' with rfl | hmem
        · left; exact hp'.1 m' hm'
        · exact hrest n hmem hne
    · simp only [h0, if_false]
      intro n hn'
      rcases List.mem_cons.mp hn' with rfl | hmem
      · omega
      · have := hp'.1 n hmem
        have := hn m0 List.mem_cons_self
        omega

theorem lookup_iff (mp : Map) (a : Nat) (m : M) (h : WF mp) :
    lookupImpl mp a = some m ↔ m ∈ mp ∧ m.s ≤ a ∧ a < m.e := by
  have hs := lastLE_spec mp a h
  cases hl : lastLE mp a with
  | none =>
    simp only [hl] at hs
    simp only [lookupImpl, hl]
    constructor
    · intro h'; cases h'
    · rintro ⟨hm, h1, _⟩; have := hs m hm; omega
  | some m' =>
    simp only [hl] at hs
    obtain ⟨hm', hle, hrest⟩ := hs
    simp only [lookupImpl, hl]
    constructor
    · intro h'
      by_cases hlt : a < m'.e
      · simp [hlt] at h'; subst h'; exact ⟨hm', hle, hlt⟩
      · simp [hlt] at h'
    · rintro ⟨hm, h1, h2⟩
      by_cases hne : m = m'
      · subst hne; simp [h2]
      · rcases hrest m hm hne with h3 | h3 <;> omega

theorem lookup_none_iff (mp : Map) (a : Nat) (h : WF mp) :
    lookupImpl mp a = none ↔ ∀ m ∈ mp, ¬ (m.s ≤ a ∧ a < m.e) := by
  constructor
  · intro hn m hm hc
    have := (lookup_iff mp a m h).mpr ⟨hm, hc.1, hc.2⟩
    rw [hn] at this; cases this
  · intro hall
    cases hl : lookupImpl mp a with
    | none => rfl
    | some m => have := (lookup_iff mp a m h).mp hl; exact absurd ⟨this.2.1, this.2.2⟩ (hall m this.1)

end LM

namespace LM

/-- x is "separated" from every element of mp -/
def Sep (x : M) (mp : Map) : Prop := ∀ n ∈ mp, n.e ≤ x.s ∨ x.e ≤ n.s

theorem mem_insert_sep (x : M) (mp : Map) (hx : x.s < x.e) (h : WF mp) (hs : Sep x mp) (n : M) :
    n ∈ insert x mp ↔ n = x ∨ n ∈ mp := by
  induction mp with
  | nil => simp [insert]
  | cons m ms ih =>
    have hm := hs m List.mem_cons_self
    have hmw := h.2 m List.mem_cons_self
    have ih := ih (WF_tail h) (fun k hk => hs k (List.mem_cons_of_mem _ hk))
    simp only [insert]
    by_cases h1 : x.s < m.s
    · simp [h1]
    · simp only [h1, if_false]
      have h2 : ¬ x.s = m.s := by omega
      simp only [h2, if_false, List.mem_cons, ih]
      constructor
      · rintro (h | h | h) <;> simp [h]
      · rintro (h | h | h) <;> simp [h]

theorem WF_insert_sep (x : M) (mp : Map) (hx : x.s < x.e) (h : WF mp) (hs : Sep x mp) :
    WF (insert x mp) := by
  induction mp with
  | nil => exact ⟨by simp [insert], by simp [insert]; exact hx⟩
  | cons m ms ih =>
    have hm := hs m List.mem_cons_self
    have hmw := h.2 m List.mem_cons_self
    have hsep' : Sep x ms := fun k hk => hs k (List.mem_cons_of_mem _ hk)
    have ih := ih (WF_tail h) hsep'
    have hp := List.pairwise_cons.mp h.1
    simp only [insert]
    by_cases h1 : x.s < m.s
    · simp only [h1, if_true]
      refine ⟨List.pairwise_cons.mpr ⟨?_, h.1⟩, ?_⟩
      · intro k hk
        rcases List.mem_cons.mp hk with rfl | hk'
        · omega
        · have := hp.1 k hk'; omega
      · intro k hk
        rcases List.mem_cons.mp hk with rfl | hk'
        · exact hx
        · exact h.2 k hk'
    · simp only [h1, if_false]
      have h2 : ¬ x.s = m.s := by omega
      simp only [h2, if_false]
      refine ⟨List.pairwise_cons.mpr ⟨?_, ih.1⟩, ?_⟩
      · intro k hk
        rcases (mem_insert_sep x ms hx (WF_tail h) hsep' k).mp hk with rfl | hk'
        · omega
        · exact hp.1 k hk'
      · intro k hk
        rcases List.mem_cons.mp hk with rfl | hk'
        · exact hmw
        · rcases (mem_insert_sep x ms hx (WF_tail h) hsep' k).mp hk' with rfl | hk''
          · exact hx
          · exact h.2 k (List.mem_cons_of_mem _ hk'')

theorem WF_filter (mp : Map) (p : M → Bool) (h : WF mp) : WF (mp.filter p) :=
  ⟨h.1.filter p, fun m hm => h.2 m (List.mem_filter.mp hm).1⟩

/-- pairwise facts as a symmetric statement -/
theorem WF_disjoint {mp : Map} (h : WF mp) {m n : M} (hm : m ∈ mp) (hn : n ∈ mp) (hne : m ≠ n) :
    m.e ≤ n.s ∨ n.e ≤ m.s := by
  induction mp with
  | nil => cases hm
  | cons k ks ih =>
    have hp := List.pairwise_cons.mp h.1
    rcases List.mem_cons.mp hm with rfl | hm' <;> rcases List.mem_cons.mp hn with rfl | hn'
    · exact absurd rfl hne
    · left; exact hp.1 n hn'
    · right; exact hp.1 m hm'
    · exact ih (WF_tail h) hm' hn'

/-- the key-range removal of `add` removes exactly the overlapping mappings -/
theorem removal_iff_overlap (mp : Map) (x : M) (hx : x.s < x.e) (h : WF mp) (n : M) (hn : n ∈ mp) :
    (let lo := match lookupImpl mp x.s with | some m => m.s | none => x.s
     (lo ≤ n.s && n.s < x.e) = overlaps n x.s x.e) := by
  have hnw := h.2 n hn
  cases hl : lookupImpl mp x.s with
  | none =>
    have := (lookup_none_iff mp x.s h).mp hl n hn
    simp only [overlaps]
    by_cases h1 : x.s ≤ n.s <;> by_cases h2 : n.s < x.e <;> by_cases h3 : x.s < n.e <;> simp [h1, h2, h3] <;> omega
  | some m =>
    obtain ⟨hm, hm1, hm2⟩ := (lookup_iff mp x.s m h).mp hl
    have hmw := h.2 m hm
    simp only [overlaps]
    by_cases hnm : n = m
    · subst hnm
      by_cases h2 : n.s < x.e <;> by_cases h3 : x.s < n.e <;> simp [h2, h3] <;> omega
    · have hd := WF_disjoint h hn hm hnm
      by_cases h1 : m.s ≤ n.s <;> by_cases h2 : n.s < x.e <;> by_cases h3 : x.s < n.e <;> simp [h1, h2, h3] <;> omega

theorem add_spec (mp : Map) (x : M) (hx : x.s < x.e) (h : WF mp) :
    WF (add mp x) ∧ ∀ n, n ∈ add mp x ↔ n = x ∨ (n ∈ mp ∧ overlaps n x.s x.e = false) := by
  unfold add
  simp only
  generalize hlo : (match lookupImpl mp x.s with | some m => m.s | none => x.s) = lo
  have hrem : ∀ n ∈ mp, (lo ≤ n.s && n.s < x.e) = overlaps n x.s x.e := by
    intro n hn; have := removal_iff_overlap mp x hx h n hn; simp only [hlo] at this; exact this
  have hwf : WF (removeRange lo x.e mp) := WF_filter _ _ h
  have hsep : Sep x (removeRange lo x.e mp) := by
    intro n hn
    obtain ⟨hn1, hn2⟩ := List.mem_filter.mp hn
    have := hrem n hn1
    have hnw := h.2 n hn1
    simp only [overlaps] at this
    rw [this] at hn2
    simp at hn2
    exact hn2.symm
  refine ⟨WF_insert_sep x _ hx hwf hsep, ?_⟩
  intro n
  rw [mem_insert_sep x _ hx hwf hsep]
  constructor
  · rintro (h1 | h1)
    · exact Or.inl h1
    · obtain ⟨hn1, hn2⟩ := List.mem_filter.mp h1
      right; refine ⟨hn1, ?_⟩
      rw [hrem n hn1] at hn2; simpa using hn2
  · rintro (h1 | ⟨h1, h2⟩)
    · exact Or.inl h1
    · right; exact List.mem_filter.mpr ⟨h1, by rw [hrem n h1, h2]; rfl⟩

/-- refinement relation -/
def R (mp : Map) (l : List M) : Prop := WF mp ∧ ∀ m, m ∈ mp ↔ m ∈ l

def OpOk : Op → Prop
  | .add x => x.s < x.e
  | _ => True

theorem step_R (mp : Map) (l : List M) (op : Op) (hr : R mp l) (hok : OpOk op) : R (step mp op) (astep l op) := by
  obtain ⟨hw, hm⟩ := hr
  cases op with
  | add x =>
    obtain ⟨h1, h2⟩ := add_spec mp x hok hw
    refine ⟨h1, fun n => ?_⟩
    simp only [step, astep, h2, List.mem_append, List.mem_filter, List.mem_singleton, hm]
    constructor
    · rintro (h | ⟨ha, hb⟩)
      · exact Or.inr h
      · left; exact ⟨ha, by rw [hb]; rfl⟩
    · rintro (⟨ha, hb⟩ | h)
      · right; exact ⟨ha, by simpa using hb⟩
      · exact Or.inl h
  | remove s =>
    refine ⟨WF_filter _ _ hw, fun n => ?_⟩
    simp [step, astep, removeKey, List.mem_filter, hm]
  | clear =>
    simp only [step, astep]
    exact ⟨⟨List.Pairwise.nil, by simp⟩, by simp⟩

def run (ops : List Op) : Map := ops.foldl step []
def arun (ops : List Op) : List M := ops.foldl astep []

theorem run_R (ops : List Op) (hok : ∀ op ∈ ops, OpOk op) : R (run ops) (arun ops) := by
  unfold run arun
  suffices ∀ mp l, R mp l → R (ops.foldl step mp) (ops.foldl astep l) from
    this [] [] ⟨⟨List.Pairwise.nil, by simp⟩, by simp⟩
  induction ops with
  | nil => intro mp l h; simpa
  | cons op ops ih =>
    intro mp l h
    simp only [List.foldl_cons]
    exact ih (fun o ho => hok o (List.mem_cons_of_mem _ ho)) _ _ (step_R mp l op h (hok op List.mem_cons_self))

/-- C11_refines: concrete lookup = abstract lookup, for every history and address -/
theorem lookup_refines (ops : List Op) (hok : ∀ op ∈ ops, OpOk op) (a : Nat) :
    lookupImpl (run ops) a = alookup (arun ops) a := by
  obtain ⟨hw, hm⟩ := run_R ops hok
  unfold alookup
  cases hf : (arun ops).find? (covers · a) with
  | none =>
    rw [lookup_none_iff _ _ hw]
    intro m hmem hc
    have := List.find?_eq_none.mp hf m ((hm m).mp hmem)
    simp [covers, hc.1, hc.2] at this
  | some m =>
    have hmem := List.mem_of_find?_eq_some hf
    have hc := List.find?_some hf
    simp only [covers, Bool.and_eq_true, decide_eq_true_eq] at hc
    exact (lookup_iff _ a m hw).mpr ⟨(hm m).mpr hmem, hc.1, hc.2⟩

/-- C11_nonoverlap on the abstract live list -/
theorem live_disjoint (ops : List Op) (hok : ∀ op ∈ ops, OpOk op) (m n : M)
    (hm : m ∈ arun ops) (hn : n ∈ arun ops) (hne : m ≠ n) : m.e ≤ n.s ∨ n.e ≤ m.s := by
  obtain ⟨hw, hmem⟩ := run_R ops hok
  exact WF_disjoint hw ((hmem m).mpr hm) ((hmem n).mpr hn) hne

#print axioms lookup_refines
#print axioms live_disjoint
end LM
